"""C01 - Every emitted signature is a valid RRSIG over exactly the published DNSKEY set."""
import argparse
import datetime as dt
import sys

import vlib

ap = argparse.ArgumentParser()
ap.add_argument("--tier")
ap.add_argument("--replay")
args = ap.parse_args()
TIER = vlib.tier(args.tier)
SCALE = 1 if TIER == "quick" else 8

vlib.setup_impl_path()
rep = vlib.Report("C01", TIER)
vlib.regen("Wire", "Hsm")
props = vlib.build_props("C01")
rep.add_props(props)

import ceremony
import ksrxml
import signcases as S
import skrgen

D = dt.timedelta
R = vlib.rng("C01")
NOW = dt.datetime(2026, 1, 1, tzinfo=dt.timezone.utc)
P = ksrxml.POOL
cases, meta, hist = [], [], {}
n_sigs = 0


def ksk_for(alg, bits=1024, e=65537, idx=0, label="K"):
    if alg in (8, 10):
        priv = P.rsa(bits, e, 200 + idx)
    else:
        priv = P.ec(256 if alg == 13 else 384, 200 + idx)
    return ksrxml.mk_key(priv, alg=alg, flags=257, ident=f"{label}{idx}")


def zsk_for(alg, idx=0, ttl=172800, bits=1024, e=65537):
    if alg in (8, 10):
        return ksrxml.mk_key(P.rsa(bits, e, 300 + idx), alg=alg, ttl=ttl)
    return ksrxml.mk_key(P.ec(256 if alg == 13 else 384, 300 + idx), alg=alg, ttl=ttl)


def run(kind, sc, desc):
    global n_sigs
    r = S.run_sign(sc)
    exp = S.expect(sc)
    impl = r["impl"]
    probs = []
    if exp[0] == "ok" and impl[0] != "ok":
        probs.append(f"signing did not complete ({impl[2]}) for a well-formed request, schema and healthy keys")
    elif exp[0] == "reject" and impl[0] == "ok":
        probs.append(f"signed although: {exp[1]}")
    elif exp[0] == "ok":
        probs += S.compare_result(sc, impl, exp)          # includes dnspython validation of every signature and the signed fields
        probs += S.token_octets_problems(sc, r)
        probs += S.written_skr_problems(sc, impl, exp)      # the bundle as published: what the tool's writer makes of it, read with ElementTree
        n_sigs += sum(len(b.signatures) for b in impl[1])
    cases.append(r["coq"])
    meta.append({"kind": kind, "desc": dict(desc, impl="ok" if impl[0] == "ok" else impl[2], expected=exp[0] if exp[0] == "ok" else exp[1],
                                            token_sign_calls=len(r["token"].sign_log)),
                 "spec_ok": not probs, "spec_msg": "; ".join(probs[:3]), "key": None})
    hist[kind] = hist.get(kind, 0) + 1


# algorithm x hash mode x token profile
profiles = [("pub-attrs", dict(pub_attrs=True, ec_wrapped=True)), ("exponent-with-leading-zeros", dict(pub_attrs=True, ec_wrapped=True, attr_pad=2)), ("priv-without-pub-attrs", dict(pub_attrs=False, ec_wrapped=True)),
            ("bare-ec-point", dict(pub_attrs=True, ec_wrapped=False)), ("bare-ec-no-pub-attrs", dict(pub_attrs=False, ec_wrapped=False))]
for alg in (8, 10, 13, 14):
    for hh in (None, False, True):
        for pname, pk in profiles:
            if alg in (8, 10) and "ec" in pname:
                continue
            k1, k2 = ksk_for(alg, idx=0), ksk_for(alg, idx=1)
            # a private RSA object without public attributes cannot be read (documented stop); EC falls back to the public object
            nb = R.choice([1, 2, 3])
            zs = [[zsk_for(alg, idx=j % 3, ttl=R.choice([3600, 172800])) for j in range(R.randrange(1, 4))] for _ in range(nb)]
            zs = [list({z["pub"]: z for z in s}.values()) for s in zs]
            rq = skrgen.honest_request(f"r-{alg}-{hh}-{pname}", NOW + D(seconds=R.randrange(86400)), nb, zs, ksrxml.default_zsk_policy(), sign=True)
            schema = {i: {"publish": R.choice([["k1"], ["k1", "k2"], []]), "sign": R.choice([["k1"], ["k1", "k2"], ["k2"]]), "revoke": R.choice([[], [], ["k2"], ["k1"]])}
                      for i in range(1, nb + 1)}
            sc = {"modules": [[{"id": 0, "objs": S.pair(k1["id"], k1, **pk) + S.pair(k2["id"], k2, **pk)}]],
                  "ksks": {"k1": ceremony.ksk_def(k1, hash_using_hsm=hh), "k2": ceremony.ksk_def(k2, hash_using_hsm=hh)},
                  "schema": schema, "request": rq, "ttl": R.choice([172800, 86400]), "strict": not (alg in (8, 10) and not pk["pub_attrs"])}
            run("algorithm-x-hashmode-x-profile", sc, {"alg": alg, "hash_using_hsm": hh, "profile": pname, "bundles": nb, "schema": str(schema)[:200]})

# RSA sizes and exponents; key material chosen so that canonical order != insertion order != tag order
sizes = [(1024, 65537), (1024, 3), (1024, 2**32 + 1), (2048, 65537)] + ([(3072, 65537), (4096, 65537), (2048, 3)] if TIER == "thorough" else [])
for bits, e in sizes:
    for alg in (8, 10):
        k1 = ksk_for(alg, bits=bits, e=e, idx=5)
        zs = [[zsk_for(alg, idx=j, bits=1024) for j in range(3)]]
        rq = skrgen.honest_request(f"r-size-{bits}-{e}", NOW, 1, zs, ksrxml.default_zsk_policy(), sign=True)
        sc = {"modules": [[{"id": 0, "objs": S.pair(k1["id"], k1)}]], "ksks": {"k1": ceremony.ksk_def(k1, hash_using_hsm=R.choice([None, True]))},
              "schema": {1: {"publish": ["k1"], "sign": ["k1"], "revoke": []}}, "request": rq}
        run("rsa-size-exponent", sc, {"bits": bits, "e": e, "alg": alg})
# ZSK pairs whose octet order differs from the order of their base64 texts, of their key tags and of insertion
import base64
from cryptography.hazmat.primitives.asymmetric import ec as _ec
fresh = [ksrxml.mk_key(_ec.generate_private_key(_ec.SECP256R1()), alg=13) for _ in range(40)]
pairs = [(a, b) for a in fresh for b in fresh if a is not b and (a["pub"] < b["pub"]) != (base64.b64encode(a["pub"]) < base64.b64encode(b["pub"]))]
for a, b in pairs[: (6 if TIER == "quick" else 40)]:
    k1 = ksk_for(13, idx=0)
    third = R.choice(fresh)
    zs = [[b, a] + ([third] if third not in (a, b) else [])]
    rq = skrgen.honest_request(f"r-order-{a['tag']}-{b['tag']}", NOW, 1, zs, ksrxml.default_zsk_policy(), sign=True)
    sc = {"modules": [[{"id": 0, "objs": S.pair(k1["id"], k1)}]], "ksks": {"k1": ceremony.ksk_def(k1, hash_using_hsm=R.choice([None, True]))},
          "schema": {1: {"publish": ["k1"], "sign": ["k1"], "revoke": []}}, "request": rq}
    run("order-octets-vs-base64", sc, {"zsk_tags": [k["tag"] for k in zs[0]]})
# a KSK whose key tag computation needs the final carry discarded (RFC 4034 App. B), with the tag configured
kc = ksrxml.mk_key(P.ec_tag_carry(13, 257), alg=13, flags=257, ident="Kcarry")
for hh in (None, True):
    zs = [[zsk_for(13, idx=0)]]
    rq = skrgen.honest_request("r-carry", NOW, 1, zs, ksrxml.default_zsk_policy(), sign=True)
    sc = {"modules": [[{"id": 0, "objs": S.pair(kc["id"], kc)}]], "ksks": {"k1": ceremony.ksk_def(kc, hash_using_hsm=hh)},
          "schema": {1: {"publish": ["k1"], "sign": ["k1"], "revoke": []}}, "request": rq}
    run("keytag-carry-ksk", sc, {"tag": kc["tag"]})
# 9-bundle ceremonies with two signers
for alg in ((8, 13) if TIER == "quick" else (8, 10, 13, 14)):
    k1, k2 = ksk_for(alg, idx=0), ksk_for(alg, idx=1)
    z = [zsk_for(alg, idx=j) for j in range(3)]
    zs = [[z[0], z[1]]] + [[z[1]]] * 7 + [[z[1], z[2]]]
    rq = skrgen.honest_request(f"r9-{alg}", NOW, 9, zs, ksrxml.default_zsk_policy(), sign=True)
    schema = {i: ({"publish": ["k2"], "sign": ["k1", "k2"], "revoke": ["k1"]} if 1 < i < 9 else {"publish": ["k1", "k2"] if i == 1 else ["k2"], "sign": ["k2"], "revoke": []}) for i in range(1, 10)}
    sc = {"modules": [[{"id": 0, "objs": S.pair(k1["id"], k1) + S.pair(k2["id"], k2)}]], "ksks": {"k1": ceremony.ksk_def(k1), "k2": ceremony.ksk_def(k2)},
          "schema": schema, "request": rq}
    run("nine-bundles-revoke-schema", sc, {"alg": alg})
# two ZSKs of one bundle whose key tags collide (a roll between them): both are published, and the signature is over both
_ca, _cb = P.ec_tag_collision(13)
ZTW = [ksrxml.mk_key(_ca, alg=13, ident="ZSK-twin-a"), ksrxml.mk_key(_cb, alg=13, ident="ZSK-twin-b")]
P.save()
for hh in (None, True):
    k1 = ksk_for(13, idx=0)
    rq = skrgen.honest_request(f"twins-{hh}", NOW, 2, [ZTW, ZTW + [zsk_for(13, idx=0)]], ksrxml.default_zsk_policy(), sign=True)
    sc = {"modules": [[{"id": 0, "objs": S.pair(k1["id"], k1)}]], "ksks": {"k1": ceremony.ksk_def(k1, hash_using_hsm=hh)},
          "schema": {i: {"publish": ["k1"], "sign": ["k1"], "revoke": []} for i in (1, 2)}, "request": rq}
    run("colliding-key-tags", sc, {"tag": ZTW[0]["tag"]})
# the configured DS digest is a hexadecimal number: lower, upper or mixed case name the same key
for alg in (8, 13):
    for style in ("lower", "mixed"):
        k1 = ksk_for(alg, idx=0)
        kd = ceremony.ksk_def(k1)
        kd["ds_sha256"] = kd["ds_sha256"].lower() if style == "lower" else "".join(c.lower() if i % 2 else c.upper() for i, c in enumerate(kd["ds_sha256"]))
        rq = skrgen.honest_request(f"ds-{style}-{alg}", NOW, 1, [[zsk_for(alg, idx=0)]], ksrxml.default_zsk_policy(), sign=True)
        run("configured-ds-letter-case", {"modules": [[{"id": 0, "objs": S.pair(k1["id"], k1)}]], "ksks": {"k1": kd}, "schema": {1: {"publish": ["k1"], "sign": ["k1"], "revoke": []}},
                                          "request": rq}, {"alg": alg, "ds_sha256_written": style})
# the configured TTL is what is signed, zero included
for t_ in (0, 1):
    k1 = ksk_for(8, idx=0)
    z1 = zsk_for(8, idx=0)
    rq = skrgen.honest_request(f"ttl-{t_}", NOW, 1, [[z1]], ksrxml.default_zsk_policy(), sign=True)
    sc = {"modules": [[{"id": 0, "objs": S.pair(k1["id"], k1)}]], "ksks": {"k1": ceremony.ksk_def(k1)}, "schema": {1: {"publish": ["k1"], "sign": ["k1"], "revoke": []}},
          "request": rq, "ttl": t_}
    run("configured-ttl", sc, {"ttl": t_})
# an EC KSK whose X coordinate starts with the octet a DER wrapper would carry as length, on tokens that return the point bare and wrapped
for alg in (13, 14):
    kx = ksrxml.mk_key(P.ec_x_lenlike(alg), alg=alg, flags=257, ident="Kx")
    zx = [zsk_for(alg, idx=j) for j in range(2)]
    for wrapped in (False, True):
        rq = skrgen.honest_request(f"x-lenlike-{alg}-{wrapped}", NOW, 2, [[zx[0]], [zx[0], zx[1]]], ksrxml.default_zsk_policy(), sign=True)
        sc = {"modules": [[{"id": 0, "objs": S.pair(kx["id"], kx, ec_wrapped=wrapped)}]], "ksks": {"k1": ceremony.ksk_def(kx, hash_using_hsm=R.choice([None, True]))},
              "schema": {i: {"publish": ["k1"], "sign": ["k1"], "revoke": []} for i in (1, 2)}, "request": rq}
        run("ec-x-starts-with-length-octet", sc, {"alg": alg, "wrapped": wrapped, "x0": hex(kx["pub"][0])})
P.save()
# a revoked-and-signing KSK whose REVOKE bit carries into the next half-word of the key tag sum (revoked tag = tag + 129)
krc = ksrxml.mk_key(P.ec_revoke_carry(13), alg=13, flags=257, ident="Krc")
k2_ = ksk_for(13, idx=1)
zc = [zsk_for(13, idx=j) for j in range(2)]
rq = skrgen.honest_request("revoke-carry", NOW, 3, [[zc[0]], [zc[0], zc[1]], [zc[1]]], ksrxml.default_zsk_policy(), sign=True)
schema = {1: {"publish": ["k1", "k2"], "sign": ["k1"], "revoke": []}, 2: {"publish": ["k2"], "sign": ["k1", "k2"], "revoke": ["k1"]}, 3: {"publish": ["k2"], "sign": ["k2"], "revoke": []}}
sc = {"modules": [[{"id": 0, "objs": S.pair(krc["id"], krc) + S.pair(k2_["id"], k2_)}]], "ksks": {"k1": ceremony.ksk_def(krc), "k2": ceremony.ksk_def(k2_)},
      "schema": schema, "request": rq}
run("revoke-tag-carry", sc, {"tag": krc["tag"]})
P.save()

# several HSMs: the public object of the KSK is on an earlier HSM than its private object (which carries no public attributes); another pair sits
# in front of each so that the object handles of the two HSMs differ. The signature is made where the private key is.
for alg in (13, 14, 8):
    for hh in (None, True):
        k1, k2, k3 = ksk_for(alg, idx=0), ksk_for(alg, idx=1), ksk_for(alg, idx=2)
        zq = [zsk_for(alg, idx=j) for j in range(2)]
        rq = skrgen.honest_request(f"two-hsms-{alg}-{hh}", NOW, 2, [[zq[0]], [zq[0], zq[1]]], ksrxml.default_zsk_policy(), sign=True)
        mods = [[{"id": 0, "objs": [S.obj(k1["id"], "pub", k1)] + S.pair(k2["id"], k2)}],
                [{"id": 0, "objs": S.pair(k3["id"], k3) + S.pair(k2["id"] + "-copy", k2) + [S.obj(k1["id"], "priv", k1, pub_attrs=False)]}]]
        sc = {"modules": mods, "ksks": {"k1": ceremony.ksk_def(k1, hash_using_hsm=hh), "k2": ceremony.ksk_def(k2, hash_using_hsm=hh)},
              "schema": {1: {"publish": ["k1"], "sign": ["k1"], "revoke": []}, 2: {"publish": ["k1", "k2"], "sign": ["k1", "k2"], "revoke": []}}, "request": rq,
              "strict": alg != 8}
        run("public-and-private-object-on-different-hsms", sc, {"alg": alg, "hash_using_hsm": hh})
# the request as the tools get it - the KSR document, with timestamps in each of the UTC notations - signed by a process running in another time zone:
# signing completes (the KSK is valid from the first inception on, to the last expiration) and the RRSIG times are the ones the document states
for tz_, sfx_ in (("JST-9", ""), ("PST8", ""), ("PST8", "Z"), ("IST-5:30", "+00:00"), ("UTC", ""), ("JST-9", "Z")):
    for alg in (8, 13):
        k1 = ksk_for(alg, idx=0)
        zq = [zsk_for(alg, idx=j) for j in range(2)]
        rq = skrgen.honest_request(f"zone-{tz_}-{sfx_}-{alg}", NOW, 3, [[zq[0]], [zq[0], zq[1]], [zq[1]]], ksrxml.default_zsk_policy(), sign=True)
        kd = ceremony.ksk_def(k1, valid_from=rq["bundles"][0]["inc"], valid_until=rq["bundles"][-1]["exp"])
        sc = {"modules": [[{"id": 0, "objs": S.pair(k1["id"], k1)}]], "ksks": {"k1": kd}, "schema": {i: {"publish": ["k1"], "sign": ["k1"], "revoke": []} for i in (1, 2, 3)},
              "request": rq, "via_xml": True}
        with ksrxml.process_zone(tz_, sfx_):
            run("ksr-document-read-in-another-time-zone", sc, {"alg": alg, "TZ": tz_, "timestamps": sfx_ or "no offset"})
ok_build, log = vlib.make(["Checks/SignCheck.vo"])
runner = vlib.CaseRun("C01", "main", "From KV Require Import Base.Prelude Base.Exn Model.Data Model.KsrPolicy Model.Token Model.Sign Checks.SignCheck.", "case", "check", shard=5)
results = runner.run(cases) if ok_build else [-1] * len(cases)
vlib.classify(rep, props, meta, results, cases, runner, "Checks.SignCheck.check (sign_bundles)")
runner.cleanup()
rep.coverage.update({
    "evaluations": len(cases), "distinct_nontrivial": len(set(cases)),
    "rule": "signing runs of the real sign_bundles on the token emulator for RSASHA256, RSASHA512, ECDSAP256SHA256, ECDSAP384SHA384 x hash mode unset/host/token x "
            "token profiles (private object with/without public attributes, DER-wrapped or bare EC points) x 1..3 bundles x 1..3 ZSKs x publish/sign/revoke "
            "subsets of two KSKs; RSA 1024/2048 (thorough: 3072, 4096) with e = 3, 65537, 2^32+1; 9-bundle revoke ceremonies. Every emitted signature is "
            "validated by dnspython over the published set, fields and key tags compared with a reference signer, token input octets with an independent "
            "EMSA-PKCS1-v1_5 / digest reference, and the Coq model is run with observed oracles.",
    "distribution": hist, "signatures_validated_by_dnspython": n_sigs, "samples": [dict(m["desc"], kind=m["kind"]) for m in meta[:: max(1, len(meta) // 5)]][:5],
})
rep.assumptions += ["RSA/ECDSA/SHA-2 mathematics are oracles (cryptography/OpenSSL in emulator and verifier; dnspython as independent validator)"]
sys.exit(rep.finish())
