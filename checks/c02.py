"""C02 - The SKR contains exactly what the KSR and the signing schema dictate."""
import argparse
import datetime as dt
import itertools
import sys

import vlib

ap = argparse.ArgumentParser()
ap.add_argument("--tier")
ap.add_argument("--replay")
args = ap.parse_args()
TIER = vlib.tier(args.tier)
SCALE = 1 if TIER == "quick" else 8

vlib.setup_impl_path()
rep = vlib.Report("C02", TIER)
vlib.regen("Wire", "Policy")
props = vlib.build_props("C02")
rep.add_props(props)

import ceremony
import ksrxml
import signcases as S
import skrgen
from kskm.misc.hsm import init_pkcs11_modules
from kskm.signer import create_skr

D = dt.timedelta
R = vlib.rng("C02")
NOW = dt.datetime(2026, 1, 1, tzinfo=dt.timezone.utc)
P = ksrxml.POOL
K = {"ksk_a": ksrxml.mk_key(P.rsa(1024, 65537, 100), alg=8, flags=257, ident="Ka"),
     "ksk_b": ksrxml.mk_key(P.rsa(1024, 65537, 101), alg=8, flags=257, ident="Kb"),
     "ksk_c": ksrxml.mk_key(P.rsa(1024, 65537, 102), alg=8, flags=257, ident="Kc"),
     "ksk_512": ksrxml.mk_key(P.rsa(1024, 65537, 103), alg=10, flags=257, ident="K512"),
     "ksk_ec": ksrxml.mk_key(P.ec(256, 100), alg=13, flags=257, ident="Kec")}
Z = [skrgen.zsk(i, ttl=R.choice([3600, 86400, 172800])) for i in range(4)]
Z512 = ksrxml.mk_key(P.rsa(1024, 65537, 5), alg=10, ttl=3600)
ZEC = ksrxml.mk_key(P.ec(256, 5), alg=13, ttl=3600)
P.save()
K["ksk_rc"] = ksrxml.mk_key(P.ec_revoke_carry(13), alg=13, flags=257, ident="Krc")     # setting REVOKE carries: revoked tag = tag + 129
K["ksk_tc"] = ksrxml.mk_key(P.ec_tag_carry(13, 257), alg=13, flags=257, ident="Ktc")     # the key tag sum carries a second time (RFC 4034 App. B discards that carry)
K["ksk_tc385"] = ksrxml.mk_key(P.ec_tag_carry(13, 385), alg=13, flags=257, ident="Ktc385")   # ... in its revoked form
P.save()
MODS = [[{"id": 0, "objs": sum((S.pair(k["id"], k) for k in K.values()), [])}]]
KSKS = {n: ceremony.ksk_def(k) for n, k in K.items()}

cases, meta, hist = [], [], {}
ok_runs = 0


def run(kind, schema, zslots, ttl=172800, desc=None, strict=True, mods=None, ksks=None, odd=None):
    global ok_runs
    if odd is not None:
        # identifiers are opaque text: any legal XML character may occur in them (line and paragraph separators, NEL, non-ASCII letters, inner blanks)
        zslots = [[dict(k, id=k["id"][:3] + odd + k["id"][3:]) for k in ks] for ks in zslots]
    rq = skrgen.honest_request(f"req-{R.randrange(10**6)}", NOW, len(zslots), zslots, ksrxml.default_zsk_policy(), sign=True)
    if odd is not None:
        rq["bundles"] = [dict(b, id=f"b{j}{odd}-{R.randrange(10**5)}") for j, b in enumerate(rq["bundles"])]
    rq["serial"] = R.randrange(1000)
    sc = {"modules": mods or MODS, "ksks": ksks or KSKS, "schema": schema, "request": rq, "ttl": ttl, "strict": strict}
    if odd is not None and odd.strip() != odd:
        # blanks at the ends of an identifier are part of it (xsd:string): the request is what the KSR document states, so read it from the document
        rq["id"] = rq["id"] + odd[-1:] if odd[-1:].isspace() else odd[:1] + rq["id"]
        rq["bundles"] = [dict(b, id=(odd[:1] if odd[:1].isspace() else "") + b["id"] + (odd[-1:] if odd[-1:].isspace() else "")) for b in rq["bundles"]]
        sc["via_xml"] = True
    r = S.run_sign(sc)
    exp = S.expect(sc)
    impl = r["impl"]
    probs = []
    if exp[0] == "ok" and impl[0] != "ok":
        probs.append(f"signing refused ({impl[2]}) although schema, keys and algorithms are in order")
    elif exp[0] == "reject" and impl[0] == "ok":
        probs.append(f"an SKR was produced although: {exp[1]}")
    elif exp[0] == "ok":
        probs += S.compare_result(sc, impl, exp)
        probs += S.written_skr_problems(sc, impl, exp)
        ok_runs += 1
    cases.append(r["coq"])
    d = {"schema": {i: {k: v for k, v in a.items() if v} for i, a in schema.items()}, "zsk_algs": [[k["alg"] for k in s] for s in zslots],
         "zsk_ttls": [[k["ttl"] for k in s] for s in zslots], "ksk_ttl": ttl, "impl": "ok" if impl[0] == "ok" else impl[2], "expected": exp[0] if exp[0] == "ok" else exp[1]}
    if desc:
        d.update(desc)
    meta.append({"kind": kind, "desc": d, "spec_ok": not probs, "spec_msg": "; ".join(probs[:3]), "key": None})
    hist[kind] = hist.get(kind, 0) + 1
    return r


names3 = ["ksk_a", "ksk_b", "ksk_c"]
# single slot: each of the three names in any subset of the three roles (512 schemas) - enumerated (thorough) or sampled (quick)
allroles = list(itertools.product(range(8), repeat=3))
chosen = allroles if TIER == "thorough" else R.sample(allroles, 70)
for combo in chosen:
    act = {"publish": [], "sign": [], "revoke": []}
    for n, m in zip(names3, combo):
        if m & 1: act["publish"].append(n)
        if m & 2: act["sign"].append(n)
        if m & 4: act["revoke"].append(n)
    for role in act:
        R.shuffle(act[role])
    run("single-slot-roles", {1: act}, [[R.choice(Z)] + ([R.choice(Z)] if R.random() < 0.3 else [])], ttl=R.choice([172800, 3600, 7200]))
# repeated names, revoked-and-signing, signing-without-publish
for i in range(12 * SCALE):
    a, b = R.sample(names3, 2)
    variants = [
        {"publish": [a, a], "sign": [a, a], "revoke": []},
        {"publish": [b], "sign": [a, b, a], "revoke": [a]},
        {"publish": [], "sign": [a], "revoke": []},
        {"publish": [a, b], "sign": [b], "revoke": [a]},
        {"publish": [a], "sign": [a], "revoke": [a]},
        {"publish": [a, b], "sign": [a], "revoke": [b, b]},
    ]
    run("role-overlaps", {1: R.choice(variants)}, [[R.choice(Z)]])
# algorithm agreement: refusal iff the algorithm sets of ZSKs and signatures differ
for zs, signers in [([Z[0]], ["ksk_a"]), ([Z512], ["ksk_512"]), ([ZEC], ["ksk_ec"]), ([Z[0]], ["ksk_512"]), ([Z[0], Z512], ["ksk_a"]), ([Z[0], Z512], ["ksk_a", "ksk_512"]),
                    ([Z[0]], ["ksk_a", "ksk_512"]), ([Z[0], ZEC], ["ksk_a", "ksk_ec"]), ([ZEC], ["ksk_a"]), ([Z[0]], ["ksk_a", "ksk_ec"]),
                    ([Z[0], Z512], ["ksk_512"])]:
    for pub_extra in ([], ["ksk_512"], ["ksk_ec"]):
        run("algorithm-agreement", {1: {"publish": signers + pub_extra, "sign": signers, "revoke": []}}, [zs])
        run("algorithm-agreement-revoke-only", {1: {"publish": [], "sign": signers, "revoke": pub_extra}}, [zs])
# multi-slot ceremonies, 1..9 slots, example-like schemas
for nb in ([2, 3, 9] if TIER == "quick" else range(1, 10)):
    zsl = [[Z[0], Z[1]]] + [[Z[1]]] * (nb - 2) + [[Z[1], Z[2]]] if nb >= 2 else [[Z[1]]]
    for style in ("normal", "rollover", "revoke", "random"):
        schema = {}
        for i in range(1, nb + 1):
            if style == "normal":
                schema[i] = {"publish": ["ksk_a"], "sign": ["ksk_a"], "revoke": []}
            elif style == "rollover":
                schema[i] = {"publish": ["ksk_a", "ksk_b"], "sign": ["ksk_a" if i == 1 else "ksk_b"], "revoke": []}
            elif style == "revoke":
                schema[i] = ({"publish": ["ksk_b"], "sign": ["ksk_a", "ksk_b"], "revoke": ["ksk_a"]} if 1 < i < nb else {"publish": ["ksk_a", "ksk_b"] if i == 1 else ["ksk_b"], "sign": ["ksk_b"], "revoke": []})
            else:
                schema[i] = {"publish": R.sample(names3, R.randrange(0, 3)), "sign": R.sample(names3, R.randrange(1, 3)), "revoke": R.sample(names3, R.randrange(0, 2))}
        run("multi-slot-" + style, schema, zsl, ttl=R.choice([172800, 300, 0, 1]))
run("revoke-tag-carry", {1: {"publish": ["ksk_rc", "ksk_ec"], "sign": ["ksk_rc"], "revoke": []}, 2: {"publish": ["ksk_ec"], "sign": ["ksk_rc", "ksk_ec"], "revoke": ["ksk_rc"]},
                         3: {"publish": ["ksk_ec"], "sign": ["ksk_ec"], "revoke": []}}, [[ZEC], [ZEC], [ZEC]])
# the token is what counts, every time: the same labels backed by other key material in the next ceremony of the same process
K_OTHER = {"ksk_a": ksrxml.mk_key(P.rsa(1024, 65537, 108), alg=8, flags=257, ident="Ka"), "ksk_b": ksrxml.mk_key(P.rsa(1024, 65537, 109), alg=8, flags=257, ident="Kb")}
P.save()
MODS_OTHER = [[{"id": 0, "objs": sum((S.pair(k["id"], k) for k in K_OTHER.values()), [])}]]
KSKS_OTHER = {n: ceremony.ksk_def(k) for n, k in K_OTHER.items()}
for rnd in range(2):
    sch = {1: {"publish": ["ksk_a", "ksk_b"], "sign": ["ksk_a"], "revoke": []}, 2: {"publish": ["ksk_b"], "sign": ["ksk_a", "ksk_b"], "revoke": ["ksk_a"]}}
    run("same-labels-first-token", sch, [[Z[0]], [Z[0]]])
    run("same-labels-other-token", sch, [[Z[0]], [Z[0]]], mods=MODS_OTHER, ksks=KSKS_OTHER)
# two ZSKs whose key tags collide, and a ZSK whose tag equals that of a revoked/unrevoked KSK's neighbour: every one of them is in the written SKR
_ca, _cb = P.ec_tag_collision(13)
ZTW = [ksrxml.mk_key(_ca, alg=13, ttl=3600, ident="ZSK-twin-a"), ksrxml.mk_key(_cb, alg=13, ttl=3600, ident="ZSK-twin-b")]
P.save()
run("colliding-key-tags", {1: {"publish": ["ksk_ec"], "sign": ["ksk_ec"], "revoke": []}, 2: {"publish": ["ksk_ec", "ksk_rc"], "sign": ["ksk_ec"], "revoke": []}}, [ZTW, ZTW + [ZEC]])
run("colliding-key-tags", {1: {"publish": ["ksk_ec"], "sign": ["ksk_ec"], "revoke": ["ksk_rc"]}}, [list(reversed(ZTW))])
# tokens differ in how they report the public exponent: 01 00 01 or 00 01 00 01 is the same key
for pad in (1, 3):
    mods_p = [[{"id": 0, "objs": sum((S.pair(k["id"], k, attr_pad=pad) for k in K.values()), [])}]]
    run("token-exponent-with-leading-zeros", {1: {"publish": ["ksk_a", "ksk_b"], "sign": ["ksk_a"], "revoke": []},
                                              2: {"publish": ["ksk_b"], "sign": ["ksk_a", "ksk_b"], "revoke": ["ksk_a"]}}, [[Z[0]], [Z[0]]], mods=mods_p, desc={"leading_zero_octets": pad})
for t_ in (0, 1, 2**31 - 1):
    run("configured-ttl", {1: {"publish": ["ksk_a"], "sign": ["ksk_a"], "revoke": []}}, [[Z[0]]], ttl=t_)
for odd_ in ("\u2028", "\u2029", "\u0085", "\u00e9\u4e2d", " ", "\u00a0", "\u2028\u2029x", "x ", " x", " x "):
    run("odd-identifier-characters", {1: {"publish": ["ksk_a", "ksk_b"], "sign": ["ksk_a"], "revoke": []}, 2: {"publish": ["ksk_b"], "sign": ["ksk_a", "ksk_b"], "revoke": ["ksk_a"]}},
        [[Z[0], Z[1]], [Z[1]]], odd=odd_, desc={"identifier_contains": ascii(odd_)})
# KSKs whose key tag computation carries out of 16 bits twice: published, signing, revoked - the tag in the SKR is the RFC 4034 one (0..65535)
run("key-tag-double-carry", {1: {"publish": ["ksk_tc", "ksk_ec"], "sign": ["ksk_tc"], "revoke": []}, 2: {"publish": ["ksk_ec"], "sign": ["ksk_tc", "ksk_ec"], "revoke": ["ksk_tc"]}}, [[ZEC], [ZEC]])
run("key-tag-double-carry", {1: {"publish": ["ksk_tc385", "ksk_ec"], "sign": ["ksk_ec"], "revoke": []}, 2: {"publish": ["ksk_ec"], "sign": ["ksk_tc385", "ksk_ec"], "revoke": ["ksk_tc385"]}}, [[ZEC], [ZEC]])
# schema missing a slot
run("schema-missing-slot", {1: {"publish": ["ksk_a"], "sign": ["ksk_a"], "revoke": []}}, [[Z[0]], [Z[0]]])

# response header: create_skr echoes id, serial, domain, ZSK policy; KSK policy durations = configured
import emu
from kskm.common.data import AlgorithmPolicyRSA
for i in range(6 * SCALE):
    rq = skrgen.honest_request(f"hdr-{i}", NOW, 2, [[Z[0]], [Z[1]]], ksrxml.default_zsk_policy(publish_safety=D(days=R.randrange(30)), min_overlap=D(hours=R.randrange(100))), sign=True)
    rq["serial"] = R.randrange(10**6)
    tok = S.build_token(MODS)
    emu.install(tok)
    kp = {"publish_safety": f"P{R.randrange(1, 30)}D", "retire_safety": f"P{R.randrange(1, 30)}D", "max_signature_validity": "P21D", "min_signature_validity": f"P{R.randrange(1, 21)}D",
          "max_validity_overlap": "P16D", "min_validity_overlap": "P9DT1H", "ttl": R.choice([172800, 999])}
    cfg = ceremony.make_config(KSKS, {"s": {1: {"publish": "ksk_a", "sign": "ksk_a"}, 2: {"publish": ["ksk_a", "ksk_b"], "sign": "ksk_b"}}},
                               request_policy={"num_bundles": 2}, response_policy={"num_bundles": 2}, ksk_policy=dict(kp))
    kreq = skrgen.k_request(rq)
    r = vlib.run_impl(create_skr, kreq, cfg.get_schema("s"), init_pkcs11_modules(cfg), cfg)
    hist["create-skr-header"] = hist.get("create-skr-header", 0) + 1
    if r[0] != "ok":
        rep.violation("impl-vs-spec", f"create_skr failed on an RSA ceremony: {r[2]}", {"ksk_policy": kp})
        continue
    resp = r[1]
    sp = cfg.ksk_policy.signature_policy
    want_algs = {AlgorithmPolicyRSA(bits=1024, exponent=65537, algorithm=k.algorithm) for b in resp.bundles for k in b.keys}
    bad = []
    if (resp.id, resp.serial, resp.domain, resp.zsk_policy, resp.timestamp) != (kreq.id, kreq.serial, kreq.domain, kreq.zsk_policy, None):
        bad.append("id/serial/domain/ZSK policy not echoed")
    if (resp.ksk_policy.publish_safety, resp.ksk_policy.retire_safety, resp.ksk_policy.max_signature_validity, resp.ksk_policy.min_signature_validity,
            resp.ksk_policy.max_validity_overlap, resp.ksk_policy.min_validity_overlap) != (sp.publish_safety, sp.retire_safety, sp.max_signature_validity,
                                                                                           sp.min_signature_validity, sp.max_validity_overlap, sp.min_validity_overlap):
        bad.append("KSK policy durations differ from the configuration")
    if resp.ksk_policy.algorithms != want_algs:
        bad.append("KSK policy algorithms are not those of the published keys")
    if any(k.ttl != kp["ttl"] for b in resp.bundles for k in b.keys):
        bad.append("a key does not carry the configured TTL")
    if bad:
        rep.violation("impl-vs-spec", "create_skr header: " + "; ".join(bad), {"ksk_policy": kp, "request_id": kreq.id})
# known limitation: an ECDSA KSK ceremony cannot be completed by create_skr (policy statement not implemented)
tok = S.build_token(MODS)
emu.install(tok)
cfg = ceremony.make_config(KSKS, {"s": {1: {"publish": "ksk_ec", "sign": "ksk_ec"}}}, request_policy={"num_bundles": 1, "enable_unsupported_ecdsa": True}, response_policy={"num_bundles": 1})
rq = skrgen.honest_request("ec", NOW, 1, [[ZEC]], ksrxml.default_zsk_policy(algs=[("ECDSA", 13, 256)]), sign=True)
r = vlib.run_impl(create_skr, skrgen.k_request(rq), cfg.get_schema("s"), init_pkcs11_modules(cfg), cfg)
hist["create-skr-ecdsa"] = 1
if r[0] != "ok":
    rep.violation("impl-vs-spec", f"create_skr cannot complete a ceremony with an ECDSA KSK: {r[2]}", {"impl": r[2]}, key="ecdsa-ksk-policy-not-implemented")

ok_build, log = vlib.make(["Checks/SignCheck.vo"])
runner = vlib.CaseRun("C02", "main", "From KV Require Import Base.Prelude Base.Exn Model.Data Model.KsrPolicy Model.Token Model.Sign Checks.SignCheck.", "case", "check", shard=8)
results = runner.run(cases) if ok_build else [-1] * len(cases)
vlib.classify(rep, props, meta, results, cases, runner, "Checks.SignCheck.check (sign_bundles)")
runner.cleanup()
rep.coverage.update({
    "evaluations": len(cases) + hist.get("create-skr-header", 0) + 1, "distinct_nontrivial": len(set(cases)),
    "rule": "signing ceremonies run by the real sign_bundles against the token emulator: single-slot schemas with each of three KSKs in any subset of "
            "publish/sign/revoke (sampled; thorough: all 512), repeated names, revoked-and-signing, signing-without-publish, ZSK TTL != KSK TTL, algorithm "
            "agreement matrix (RSASHA256/512, ECDSA), 1..9 slot ceremonies; the response is compared with a reference signer's reading of the schema, every "
            "signature validated by dnspython, and the Coq model is run on the same scenario with observed oracles; create_skr header echo checked separately. "
            "distinct_nontrivial = distinct scenarios",
    "distribution": hist, "completed": ok_runs, "samples": [m["desc"] for m in meta[:: max(1, len(meta) // 5)]][:5],
})
sys.exit(rep.finish())
