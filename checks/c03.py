"""C03 - All-or-nothing: failed check, token fault or declined confirmation yields no SKR."""
import argparse
import base64
import builtins
import contextlib
import copy
import datetime as dt
import io
import logging
import os
import shutil
import sys
import xml.etree.ElementTree as ET

import vlib
from vlib import coq_bool, txt, z

ap = argparse.ArgumentParser()
ap.add_argument("--tier")
ap.add_argument("--replay")
args = ap.parse_args()
TIER = vlib.tier(args.tier)
THOROUGH = TIER == "thorough"

vlib.setup_impl_path()
rep = vlib.Report("C03", TIER)
vlib.regen("Pipeline", "Wire", "Hsm")
props = vlib.build_props("C03")
rep.add_props(props)

import ceremony
import emu
import ksrxml
import skrgen
import kskm.ksr
import kskm.misc.hsm
import kskm.skr
from kskm.common.config import KSKMConfig
from kskm.tools import ksrsigner as tool

D = dt.timedelta
UTC = dt.timezone.utc
R = vlib.rng("C03")
EXN = vlib.exn_table()
WORK = vlib.VERIF / "work" / "c03"
shutil.rmtree(WORK, ignore_errors=True)
WORK.mkdir(parents=True)
cases, meta, hist = [], [], {}
log = logging.getLogger("verif.c03")
STAGES = ["config", "schema", "load_prev", "ksr_name", "load_ksr", "init", "chain", "prompt", "sign", "safety", "write"]


def count(k):
    hist[k] = hist.get(k, 0) + 1


KSKS = {"ksk_current": skrgen.ksk("Kcur", 0), "ksk_next": skrgen.ksk("Knext", 1), "ksk_new": skrgen.ksk("Knew", 2)}
ZSKS = [skrgen.zsk(i) for i in range(4)]
ksrxml.POOL.save()
SCHEMA1 = {i: {"publish": ["ksk_current"], "sign": ["ksk_current"], "revoke": []} for i in range(1, 10)}
SCHEMA2 = {i: {"publish": ["ksk_current", "ksk_next"], "sign": ["ksk_current", "ksk_next"], "revoke": []} for i in range(1, 10)}
SCHEMA_UNPUBLISHED = {i: {"publish": ["ksk_current", "ksk_new"], "sign": ["ksk_new"], "revoke": []} for i in range(1, 10)}
SCHEMA_DROP = {i: {"publish": ["ksk_next"], "sign": ["ksk_next"], "revoke": []} for i in range(1, 10)}
SCHEMA_SHORT = {1: {"publish": ["ksk_current"], "sign": ["ksk_current"], "revoke": []}}
# a KSK that signs un-revoked, is revoked in the next slot and is gone after that: its early signature obliges it to stay published
SCHEMA_SRD = {1: {"publish": ["ksk_current", "ksk_next"], "sign": ["ksk_current"], "revoke": []},
              2: {"publish": ["ksk_next"], "sign": ["ksk_current", "ksk_next"], "revoke": ["ksk_current"]},
              3: {"publish": ["ksk_next"], "sign": ["ksk_next"], "revoke": []}}
SCHEMA_SRK = {1: SCHEMA_SRD[1], 2: SCHEMA_SRD[2], 3: {"publish": ["ksk_next"], "sign": ["ksk_next"], "revoke": ["ksk_current"]}}      # stays published (revoked): fine
SCHEMAS = {"one": SCHEMA1, "two": SCHEMA2, "unpublished": SCHEMA_UNPUBLISHED, "drop": SCHEMA_DROP, "short": SCHEMA_SHORT, "srd": SCHEMA_SRD, "srk": SCHEMA_SRK}
T0 = dt.datetime(2026, 1, 1, tzinfo=UTC)
NOW = dt.datetime(2026, 1, 1, 12, tzinfo=UTC)
import kskm.ksr.verify_policy as vp


class PinnedNow(dt.datetime):
    @classmethod
    def now(cls, tz=None):
        return NOW


vp.datetime = PinnedNow


def clean(s):
    return {i: {k: v for k, v in a.items() if v or k != "revoke"} for i, a in s.items()}


def prev_skr(n, schema, zskpol):
    zs = [[ZSKS[0], ZSKS[1]]] + [[ZSKS[1]]] * (n - 2) + [[ZSKS[1], ZSKS[2]]] if n >= 2 else [[ZSKS[1], ZSKS[2]]]
    req = skrgen.honest_request("prev-req", T0, n, zs, zskpol, sign=False)
    return skrgen.simulate_skr(req, schema, KSKS, ksrxml.default_zsk_policy())


def successor(skr, zskpol, n=2, overlap=D(days=11), first_keys=None, rid="next-req"):
    lastb = skr["bundles"][-1]
    start = lastb["exp"] - overlap
    pub = [k for k in lastb["keys"] if k["flags"] == 256]
    fk = first_keys if first_keys is not None else pub
    zs = [fk] + [[fk[-1]]] * (n - 1)
    return skrgen.honest_request(rid, start, n, zs, zskpol, sign=True)


def read_skr(xml_bytes):
    """independent reader of the written SKR (ElementTree): bundles with keys and signatures as reference dicts"""
    root = ET.fromstring(xml_bytes)
    out = []
    for b in root.iter("ResponseBundle"):
        keys, sigs = [], []
        for k in b.findall("Key"):
            keys.append({"id": k.attrib["keyIdentifier"], "tag": int(k.attrib["keyTag"]), "ttl": int(k.find("TTL").text), "flags": int(k.find("Flags").text),
                         "proto": int(k.find("Protocol").text), "alg": int(k.find("Algorithm").text), "pub": base64.b64decode(k.find("PublicKey").text)})
        for s in b.findall("Signature"):
            sigs.append({"id": s.attrib["keyIdentifier"], "ttl": int(s.find("TTL").text), "alg": int(s.find("Algorithm").text), "labels": int(s.find("Labels").text),
                         "ottl": int(s.find("OriginalTTL").text), "exp": dt.datetime.fromisoformat(s.find("SignatureExpiration").text),
                         "inc": dt.datetime.fromisoformat(s.find("SignatureInception").text), "tag": int(s.find("KeyTag").text), "name": s.find("SignersName").text,
                         "data": base64.b64decode(s.find("SignatureData").text)})
        out.append({"id": b.attrib["id"], "keys": keys, "sigs": sigs})
    return out


class Spy:
    def __init__(self):
        self.calls = []      # (stage number, 'ok' | exception code)
        self.saved = []

    def wrap(self, num, fn):
        def w(*a, **kw):
            try:
                r = fn(*a, **kw)
            except BaseException as e:  # noqa: BLE001
                self.calls.append((num, vlib.exn_code(e) if isinstance(e, Exception) else 200))
                raise
            self.calls.append((num, "ok"))
            return r
        return w

    def patch(self, obj, name, num):
        orig = getattr(obj, name)
        self.saved.append((obj, name, orig))
        setattr(obj, name, self.wrap(num, orig))

    def restore(self):
        for obj, name, orig in reversed(self.saved):
            setattr(obj, name, orig)
        self.saved = []


def run_ceremony(sc, kind):
    """sc: ksr (dict|bytes|None), prev (dict|bytes|None), schema name, cfg schema set, force, answer, faults, out_existing (bytes|None), n, n_prev, policy overrides, via_main"""
    d = WORK / "run"
    shutil.rmtree(d, ignore_errors=True)
    d.mkdir()
    ksr_path = prev_path = None
    if sc.get("ksr") is not None:
        ksr_path = str(d / "ksr.xml")
        with open(ksr_path, "wb") as f:
            f.write(sc["ksr"] if isinstance(sc["ksr"], bytes) else ksrxml.render_ksr(sc["ksr"]).encode())
    if sc.get("prev") is not None:
        prev_path = str(d / "prev.xml")
        with open(prev_path, "wb") as f:
            f.write(sc["prev"] if isinstance(sc["prev"], bytes) else ksrxml.render_skr(sc["prev"]).encode())
    out_path = str(d / "out.xml")
    if sc.get("out_existing") is not None:
        with open(out_path, "wb") as f:
            f.write(sc["out_existing"])
    before = open(out_path, "rb").read() if os.path.exists(out_path) else None
    shape = sc.get("shape") or ([len(b["keys"]) for b in sc["ksr"]["bundles"]], len({k["pub"] for b in sc["ksr"]["bundles"] for k in b["keys"]})) \
        if isinstance(sc.get("ksr"), dict) or sc.get("shape") else ([2, 1], 2)
    rp = {"num_bundles": sc.get("n", 2), "rsa_approved_key_sizes": [1024], "num_keys_per_bundle": shape[0], "num_different_keys_in_all_bundles": shape[1],
          "check_cycle_length": False, "signature_horizon_days": 400}
    rp.update(sc.get("request_policy") or {})
    cfg = ceremony.make_config({n: ceremony.ksk_def(k) for n, k in KSKS.items()}, {n: clean(s) for n, s in SCHEMAS.items()}, request_policy=rp,
                               response_policy={"num_bundles": sc.get("n_prev", 2)})
    tok = ceremony.token_with([KSKS[n] for n in sc.get("token_keys", ["ksk_current", "ksk_next", "ksk_new"])])
    tok.faults = dict(sc.get("faults") or {})
    emu.install(tok)
    ns = ceremony.args_ns(ksr=ksr_path, skr=out_path, previous_skr=prev_path, force=sc.get("force", False), schema=sc.get("schema", "one"))
    spy = Spy()
    prompts = []
    real_input = builtins.input

    def fake_input(prompt=""):
        prompts.append(prompt)
        return sc.get("answer", "Yes")

    spy.patch(KSKMConfig, "get_schema", 1)
    spy.patch(kskm.skr, "load_skr", 2)
    spy.patch(kskm.ksr, "load_ksr", 4)
    spy.patch(kskm.misc.hsm, "init_pkcs11_modules", 5)
    spy.patch(tool, "check_skr_and_ksr", 6)
    spy.patch(tool, "create_skr", 8)
    spy.patch(tool, "check_last_skr_and_new_skr", 9)
    spy.patch(tool, "output_skr_xml", 10)
    builtins.input = spy.wrap(7, fake_input)
    status = -1
    out = io.StringIO()
    try:
        with contextlib.redirect_stdout(out):
            if sc.get("via_main"):
                orig_gc, orig_gl, argv = tool.get_config, tool.get_logger, sys.argv
                tool.get_config = spy.wrap(0, lambda fn: cfg)
                tool.get_logger = lambda **kw: log
                sys.argv = ["kskm-ksrsigner", "--config", "ignored.yaml", "--schema", sc.get("schema", "one")] + (["--force"] if sc.get("force") else []) + \
                           (["--previous_skr", prev_path] if prev_path else []) + ([ksr_path] if ksr_path else []) + ([out_path] if ksr_path else [])
                try:
                    tool.main()
                    r = ("ok", None)
                except SystemExit as e:
                    status = e.code if isinstance(e.code, int) else 1
                    r = ("exit", status)
                except BaseException as e:  # noqa: BLE001 - uncaught: interpreter status 1
                    status = 1
                    r = ("exc", vlib.exn_code(e), type(e).__name__)
                finally:
                    tool.get_config, tool.get_logger, sys.argv = orig_gc, orig_gl, argv
            else:
                r = vlib.run_impl(tool.ksrsigner, log, ns, cfg)
    finally:
        builtins.input = real_input
        spy.restore()
    after = open(out_path, "rb").read() if os.path.exists(out_path) else None
    others = sorted(p for p in os.listdir(d) if p not in ("ksr.xml", "prev.xml", "out.xml"))
    return {"r": r, "calls": spy.calls, "prompts": prompts, "signs": len(tok.sign_log), "ops": list(tok.log), "opcount": tok.opcount, "before": before, "after": after,
            "status": status, "others": others, "stdout": out.getvalue(), "sign_log": tok.sign_log, "out_path": out_path}


def judge(sc, ob, kind, expect):
    """expect: 'success' | 'pre-sign-failure' | 'post-sign-failure' | 'fault' (either clean success with a complete valid SKR, or failure with nothing written)"""
    r = ob["r"]
    if sc.get("via_main"):
        success = r[0] == "exit" and r[1] == 0
    else:
        success = r == ("ok", True)
    changed = ob["after"] != ob["before"]
    probs = []
    if ob["others"]:
        probs.append(f"unexpected files created: {ob['others']}")
    if changed and not success:
        probs.append(f"the run ended unsuccessfully ({r[1:] if r[0] != 'ok' else r[1]}) but the output path was "
                     f"{'created' if ob['before'] is None else 'overwritten'} ({len(ob['after'] or b'')} bytes)")
    if success and (not changed or ob["after"] is None):
        probs.append("the run reported success but no SKR was written")
    if success and expect in ("pre-sign-failure", "post-sign-failure", "fault-error"):
        probs.append(f"the run succeeded although {sc.get('why', expect)}")
    if expect == "success" and not success:
        probs.append(f"a clean ceremony did not complete: {r}")
    if expect == "pre-sign-failure" and ob["signs"]:
        probs.append(f"{ob['signs']} private-key operation(s) were performed although {sc.get('why', 'the failure precedes signing')}")
    if not sc.get("force") and expect != "pre-sign-failure" and len(ob["prompts"]) != 1:
        probs.append(f"operator asked {len(ob['prompts'])} times")
    if sc.get("force") and ob["prompts"]:
        probs.append("asked for confirmation although forced")
    if sc.get("via_main") and (ob["status"] == 0) != success:
        probs.append(f"exit status {ob['status']}")
    if success and isinstance(sc.get("ksr"), dict):
        # every requested signature came back from the token attached to THIS ceremony
        need = sum(len(SCHEMAS[sc.get("schema", "one")][i]["sign"]) for i in range(1, len(sc["ksr"]["bundles"]) + 1) if i in SCHEMAS[sc.get("schema", "one")])
        made = sum(1 for e in ob["sign_log"] if e.get("result") is not None)
        if made < need:
            probs.append(f"the run succeeded although the token attached to this ceremony returned only {made} of the {need} requested signatures")
    if changed and ob["after"] is not None and success:
        # the written SKR must carry every requested signature, and each must verify (dnspython) over the published key set
        try:
            bundles = read_skr(ob["after"])
            schema = SCHEMAS[sc.get("schema", "one")]
            if len(bundles) != len(sc["ksr"]["bundles"]):
                probs.append(f"written SKR has {len(bundles)} bundles, the KSR {len(sc['ksr']['bundles'])}")
            for i, b in enumerate(bundles, 1):
                want = sorted(KSKS[n]["id"] for n in schema[i]["sign"])
                got = sorted(s["id"] for s in b["sigs"])
                if want != got:
                    probs.append(f"bundle {i} of the written SKR is signed by {got}, the schema requests {want}")
                for s in b["sigs"]:
                    okv, why = ceremony.dns_validate(b["keys"], s)
                    if not okv:
                        probs.append(f"bundle {i}: signature by {s['id']} in the written SKR does not verify ({why})")
        except Exception as e:  # noqa: BLE001
            probs.append(f"written SKR unreadable: {type(e).__name__} {e}")
    # ---- model case: outcomes of the stages that were called; 999 for stages that were not
    oc = {n: o for n, o in ob["calls"]}
    res = lambda n: "(OK tt)" if oc.get(n) == "ok" else f"(Raise {oc[n]})" if n in oc else "(Raise 999)"
    econf = "None" if not sc.get("via_main") else f"(Some {res(0)})"
    env = (f"(mkEnv {econf} {res(1)} {coq_bool(sc.get('prev') is not None)} {res(2)} {coq_bool(sc.get('ksr') is not None)} {res(4)} {res(5)} {res(6)} "
           f"{coq_bool(bool(sc.get('force')))} {txt(sc.get('answer', 'Yes'))} {res(8)} {res(9)} {res(10)})")
    trace = "[" + ";".join(str(n) for n, _ in ob["calls"]) + "]"
    if sc.get("via_main"):
        if r[0] == "exit":
            # main() turns results into statuses; recover the function result from the status and the calls
            last = ob["calls"][-1] if ob["calls"] else None
            if r[1] == 0:
                result = "RTrue"
            elif last and last[1] != "ok" and not (last[0] in (0, 1, 5)) :
                result = f"(RRaise {last[1]})"
            elif last and last[0] == 0 and last[1] == EXN["ValidationError"]:
                result = f"(RRaise {EXN['ConfigurationError']})"
            else:
                result = "RFalse"
        else:
            result = f"(RRaise {r[1]})"
    else:
        result = "RTrue" if r == ("ok", True) else "RFalse" if r == ("ok", False) else f"(RRaise {r[1]})" if r[0] == "exc" else "RFalse"
    cases.append(f"({env}, {trace}, {result}, {ob['status']})")
    meta.append({"kind": kind, "desc": {"result": str(r)[:80], "stages_called": [STAGES[n] for n, _ in ob["calls"]], "failed_stage": [STAGES[n] for n, o in ob["calls"] if o != "ok"],
                                        "sign_ops": ob["signs"], "token_ops": ob["opcount"], "output": "unchanged" if not changed else ("created" if ob["before"] is None else "overwritten"),
                                        "faults": {str(k): v for k, v in (sc.get("faults") or {}).items()}, "answer": sc.get("answer"), "force": bool(sc.get("force")),
                                        "schema": sc.get("schema", "one"), "why": sc.get("why", "")},
                 "spec_ok": not probs, "spec_msg": "; ".join(probs[:4]), "key": None})
    count(kind)


def go(sc, kind, expect):
    ob = run_ceremony(sc, kind)
    judge(sc, ob, kind, expect)
    return ob


ZP = ksrxml.default_zsk_policy()
PREV1, PREV2 = prev_skr(2, SCHEMA1, ZP), prev_skr(2, SCHEMA2, ZP)
KSR1, KSR2 = successor(PREV1, ZP), successor(PREV2, ZP)
OLD = b"<previous output that must survive a failed run/>\n"
base1 = {"ksr": KSR1, "prev": PREV1, "schema": "one", "force": True}
base2 = {"ksr": KSR2, "prev": PREV2, "schema": "two", "force": True}

# ---- A. clean ceremonies
for b in (base1, base2):
    for force, ans in ((True, ""), (False, "Yes")):
        for with_prev in (True, False):
            for existing in (None, OLD):
                sc = dict(b, force=force, answer=ans, out_existing=existing)
                if not with_prev:
                    sc["prev"] = None
                go(sc, "clean", "success")
OLD_LONG = b"<!-- the output of an earlier, larger ceremony -->\n" + b"<x>" + b"0123456789abcdef" * 20000 + b"</x>\n"
for b in (base1, base2):
    go(dict(b, out_existing=OLD_LONG), "clean-over-longer-file", "success")
go(dict(base1, via_main=True), "clean-main", "success")
go(dict(base1, via_main=True, force=False, answer="Yes", out_existing=OLD), "clean-main", "success")
# ---- B. confirmation strings
for ans in ["yes", "YES", "Yes ", " Yes", "Y", "", "No", "Yes\r", "Ye", "Yess", "\tYes", "Yes\x00", "y", "Yes.", "Oui", "Yes Yes"]:
    go(dict(base1, force=False, answer=ans, out_existing=R.choice([None, OLD]), why=f"the operator answered {ans!r}"), "declined", "pre-sign-failure")
go(dict(base1, force=False, answer="no", via_main=True, out_existing=OLD, why="the operator declined"), "declined-main", "pre-sign-failure")
# ---- C. single-rule violations in the KSR / the chain
bad_pop = copy.deepcopy(KSR1)
sd = bytearray(bad_pop["bundles"][1]["sigs"][0]["data"])
sd[9] ^= 2
bad_pop["bundles"][1]["sigs"][0]["data"] = bytes(sd)
viol = [("proof of possession of bundle 2 is broken", dict(base1, ksr=bad_pop)),
        ("the KSR has fewer bundles than the policy demands", dict(base1, n=3, shape=([2, 1, 1], 2))),
        ("the KSR is for another domain", dict(base1, ksr=dict(KSR1, domain="example"))),
        ("the signature validity differs from the ZSK policy", dict(base1, ksr=skrgen.honest_request("next-req", KSR1["bundles"][0]["inc"], 2, [b["keys"] for b in KSR1["bundles"]], ZP, validity=D(days=25)))),
        ("the KSR replays the id of the previous SKR", dict(base1, ksr=successor(PREV1, ZP, rid=PREV1["id"]))),
        ("the KSR replays the id of the previous SKR under another serial", dict(base1, ksr=dict(successor(PREV1, ZP, rid=PREV1["id"]), serial=5,
                                                                                              bundles=[dict(b, id=f"fresh-{j}") for j, b in enumerate(successor(PREV1, ZP, rid=PREV1["id"])["bundles"])]))),
        ("the overlap with the previous SKR is below the minimum", dict(base1, ksr=successor(PREV1, ZP, overlap=D(days=8)))),
        ("the first bundle's keys are not those of the previous SKR's last bundle", dict(base1, ksr=successor(PREV1, ZP, first_keys=[ZSKS[3]]))),
        ("the KSR is truncated", dict(base1, ksr=ksrxml.render_ksr(KSR1).encode()[:900], shape=([2, 1], 2))),
        ("the previous SKR has the wrong number of bundles", dict(base1, n_prev=3)),
        ("the schema does not exist", dict(base1, schema="nonexistent")),
        ("no KSR file is named", dict(base1, ksr=None, shape=([2, 1], 2))),
        ("the key that signed the previous SKR is not on the token", dict(base1, token_keys=["ksk_next", "ksk_new"]))]
tam = copy.deepcopy({**PREV1, "bundles": [dict(b, sigs=[dict(s) for s in b["sigs"]]) for b in PREV1["bundles"]]})
sd = bytearray(tam["bundles"][-1]["sigs"][0]["data"])
sd[3] ^= 1
tam["bundles"][-1]["sigs"][0]["data"] = bytes(sd)
viol.append(("the previous SKR's last signature does not verify", dict(base1, prev=tam)))
# the previous SKR was signed by someone else's key under our label: whichever other chain rule is switched off, the token check alone stops the run
FOREIGN = skrgen.ksk("Kcur", 9)
ksrxml.POOL.save()
_zs = [[ZSKS[0], ZSKS[1]], [ZSKS[1], ZSKS[2]]]
PREV_F = skrgen.simulate_skr(skrgen.honest_request("prev-req", T0, 2, _zs, ZP, sign=False), SCHEMA1, {**KSKS, "ksk_current": FOREIGN}, ZP)
for rp_ in ({}, {"check_chain_keys": False}, {"check_chain_overlap": False}, {"check_chain_keys": False, "check_chain_overlap": False}):
    viol.append((f"the previous SKR was signed by another key under our label (request_policy {rp_ or 'defaults'})", dict(base1, prev=PREV_F, ksr=successor(PREV_F, ZP), request_policy=rp_)))
    viol.append((f"the key that signed the previous SKR is not on the token (request_policy {rp_ or 'defaults'})", dict(base2, token_keys=["ksk_next", "ksk_new"], schema="drop", request_policy=rp_)))
for why, sc in viol:
    for existing in (None, OLD):
        go(dict(sc, why=why, out_existing=existing, force=R.random() < 0.5, answer="Yes"), "violation", "pre-sign-failure")
go(dict(viol[0][1], why=viol[0][0], via_main=True, out_existing=OLD), "violation-main", "pre-sign-failure")
go(dict(base1, schema="nonexistent", why="the schema does not exist", via_main=True), "violation-main", "pre-sign-failure")
# ---- D. the generated SKR fails the publish / retire safety checks against the previous one (after signing)
for schema, why in (("unpublished", "the new SKR signs with a key that was never pre-published"), ("drop", "the new SKR drops the previous signing key at once")):
    for existing in (None, OLD):
        go(dict(base1, schema=schema, why=why, out_existing=existing), "safety", "post-sign-failure")
go(dict(base1, schema="unpublished", why="publish safety", via_main=True, out_existing=OLD), "safety-main", "post-sign-failure")
PREV3 = prev_skr(3, SCHEMA2, ZP)
KSR3 = successor(PREV3, ZP, n=3)
for existing in (None, OLD):
    go(dict(ksr=KSR3, prev=PREV3, schema="srd", force=True, n=3, n_prev=3, out_existing=existing,
            why="a key that signed un-revoked in slot 1 is revoked in slot 2 and no longer published in slot 3"), "safety", "post-sign-failure")
    go(dict(ksr=KSR3, prev=PREV3, schema="srk", force=True, n=3, n_prev=3, out_existing=existing), "clean-revocation", "success")
# ---- D2. the schema has fewer slots than the KSR has bundles: not every requested bundle can be signed
for existing in (None, OLD):
    go(dict(base1, schema="short", why="the schema has no action for bundle 2", out_existing=existing), "schema-too-short", "post-sign-failure")
    go(dict(base1, schema="short", prev=None, why="the schema has no action for bundle 2", out_existing=existing), "schema-too-short", "post-sign-failure")
# ---- D3. everything succeeds up to the write, and the SKR cannot be serialised (the KSR's policy names an algorithm the writer cannot express):
#          nothing may be left at the output path, an existing file stays as it was
ZP_EC = ksrxml.default_zsk_policy(algs=[("RSA", 8, 1024, 65537), ("ECDSA", 13, 256)])
PREV_EC = prev_skr(2, SCHEMA1, ZP_EC)
KSR_EC = successor(PREV_EC, ZP_EC)
for existing in (None, OLD):
    for with_prev in (True, False):
        go(dict(ksr=KSR_EC, prev=PREV_EC if with_prev else None, schema="one", force=True, out_existing=existing,
                request_policy={"enable_unsupported_ecdsa": True, "approved_algorithms": ["RSASHA256", "ECDSAP256SHA256"]},
                why="the generated SKR cannot be written (its ZSK policy names an ECDSA algorithm)"), "write-stage-failure", "post-sign-failure")
# ---- E. token faults at every position of the operation sequence
KINDS = {"open": ["error"], "login": ["error"], "find": ["error", "missing", "duplicate"], "attr": ["error"], "sign": ["error", "corrupt", "truncate", "wrong-key", "wrong-hash"]}
FAULT_BASES = [(base1, "one-signer"), (base2, "two-signers")]
if THOROUGH:
    PREV9 = prev_skr(9, SCHEMA2, ZP)
    KSR9 = successor(PREV9, ZP, n=9)
    FAULT_BASES.append(({"ksr": KSR9, "prev": PREV9, "schema": "two", "force": True, "n": 9, "n_prev": 9}, "nine-bundles-two-signers"))
for b, label in FAULT_BASES:
    ref = run_ceremony(dict(b), "probe")
    ops = [(e[1], e[0]) for e in ref["ops"] if len(e) == 3 and isinstance(e[1], int)]
    positions = []
    for idx, op in ops:
        for k in KINDS.get(op, ["error"]):
            positions.append((idx, op, k))
    if not THOROUGH:
        signpos = [p for p in positions if p[1] in ("sign", "open", "login")]       # every signing call and every session set-up step, the rest sampled
        rest = [p for p in positions if p[1] not in ("sign", "open", "login")]
        positions = signpos + R.sample(rest, min(len(rest), 25))
    for idx, op, k in positions:
        # an error returned by the token is a token fault whatever the tool does next: no SKR (the other kinds may be harmless; their outcome is judged on the SKR)
        go(dict(b, faults={idx: k}, out_existing=R.choice([None, OLD]), why=f"the token returned an error on {op} operation #{idx} of the ceremony" if k == "error" else f"token fault {k} on {op} operation #{idx}"),
           f"fault-{label}-{op}", "fault-error" if k == "error" else "fault")

# a token that returns RSA results as minimal-length integers: harmless unless a signature starts with a zero octet - ceremonies are searched
# (cycle start shifted second by second) until the reference signer says one of the requested signatures does, then every signing call strips
found = 0
for b, label, schema in ((base1, "one-signer", SCHEMA1), (base2, "two-signers", SCHEMA2)):
    for s_ in range(1, 4000):
        cand = successor(b["prev"], ZP, overlap=D(days=11) - D(seconds=s_), rid=f"next-req-z{s_}")
        if not any(sg["data"][0] == 0 for bb in skrgen.simulate_skr(cand, schema, KSKS, ZP)["bundles"] for sg in bb["sigs"]):
            continue
        ref = run_ceremony(dict(b, ksr=cand), "probe")
        if ref["r"] != ("ok", True):
            rep.violation("impl-vs-spec", f"a clean ceremony did not complete: {ref['r']}", {"kind": "short-signature-probe", "shift_s": s_})
            break
        signs = [e[1] for e in ref["ops"] if len(e) == 3 and isinstance(e[1], int) and e[0] == "sign"]
        ob_ = go(dict(b, ksr=cand, faults={i: "strip-zero" for i in signs}, out_existing=OLD,
                why="the token returned an RSA signature one octet short of the modulus (leading zero dropped)"), f"fault-{label}-short-signature", "fault")
        if os.environ.get("VERIF_DEBUG"): print("DBG", s_, signs, ref["r"], ob_["r"], [(e.get("fault"), len(e["result"] or b"")) for e in ob_["sign_log"]], file=sys.stderr)
        found += 1
        break
hist["short-signature-search"] = found

vp.datetime = dt.datetime
ok_build, blog = vlib.make(["Checks/C03Check.vo"])
runner = vlib.CaseRun("C03", "main", "From KV Require Import Base.Prelude Base.Exn Model.Data Model.Pipeline Checks.C03Check.", "case", "check", shard=100)
results = runner.run(cases) if ok_build else [-1] * len(cases)
vlib.classify(rep, props, meta, results, cases, runner, "Checks.C03Check.check (ksrsigner stage sequence and result)")
runner.cleanup()
shutil.rmtree(WORK, ignore_errors=True)
rep.coverage.update({
    "evaluations": len(cases), "distinct_nontrivial": len(set(cases)),
    "rule": "whole ceremonies through the real ksrsigner() (and main() for exit statuses) on the token emulator with files on disk: clean runs (one / two signers, forced / "
            "'Yes', with / without previous SKR, output absent / pre-existing); 16 confirmation strings; 13 single-rule violations (KSR, chain, previous SKR, schema, file name, "
            "token content); publish- and retire-safety failures of the generated SKR; a token fault at every position of the operation sequence of a one-signer and a "
            "two-signer ceremony (quick: every signing call x 5 fault kinds + 25 sampled other positions; thorough: all positions x all kinds). Observed per run: sequence "
            "of stage functions called with their outcomes (spies), result / exit status, bytes at the output path before and after, other files created, number of "
            "private-key operations, prompts; a written SKR is re-read with ElementTree and every signature verified with dnspython against the schema's signer list",
    "distribution": hist, "samples": [dict(kind=m["kind"], **{k: str(v)[:200] for k, v in m["desc"].items()}) for m in meta[:: max(1, len(meta) // 6)]][:6],
})
rep.assumptions += ["stage outcomes are inputs of the pipeline model (what each stage computes is C01..C09's subject); outcomes of stages that were not called are set to a poison value",
                    "a crash during the final write can leave a truncated file (open(..., 'wb') truncates): OS-level atomicity is not modelled (what a truncated SKR loads to is C11's prefix theorem)",
                    "private-key operations happen only inside create_skr: checked per run by the emulator's sign log"]
sys.exit(rep.finish())
