"""C04 - A KSK signs only inside its validity window and only if it is the configured key."""
import argparse
import datetime as dt
import sys

import vlib

ap = argparse.ArgumentParser()
ap.add_argument("--tier")
ap.add_argument("--replay")
ap.add_argument("--optimized-child", action="store_true")      # the same scenarios judged in an interpreter started with -O (asserts compiled away)
args = ap.parse_args()
CHILD = args.optimized_child
TIER = vlib.tier(args.tier)
SCALE = 1 if TIER == "quick" else 6

vlib.setup_impl_path()
rep = vlib.Report("C04", TIER)
props = vlib.build_props("C04") if not CHILD else []
if not CHILD:
    rep.add_props(props)

import PyKCS11.LowLevel as LL

import ceremony
import ksrxml
import signcases as S
import skrgen

D = dt.timedelta
R = vlib.rng("C04")
NOW = dt.datetime(2026, 1, 1, tzinfo=dt.timezone.utc)
P = ksrxml.POOL
KA = ksrxml.mk_key(P.rsa(1024, 65537, 100), alg=8, flags=257, ident="Ka")
KA_OTHER = ksrxml.mk_key(P.rsa(1024, 65537, 110), alg=8, flags=257, ident="Ka")        # different key, same label
KA_2048 = ksrxml.mk_key(P.rsa(2048, 65537, 100), alg=8, flags=257, ident="Ka")
KA_E3 = ksrxml.mk_key(P.rsa(1024, 3, 100), alg=8, flags=257, ident="Ka")
KA_EC = ksrxml.mk_key(P.ec(256, 110), alg=13, flags=257, ident="Ka")
KB = ksrxml.mk_key(P.rsa(1024, 65537, 101), alg=8, flags=257, ident="Kb")
KEC = ksrxml.mk_key(P.ec(256, 100), alg=13, flags=257, ident="Kec")
Z = [skrgen.zsk(i) for i in range(3)]
ZEC = ksrxml.mk_key(P.ec(256, 5), alg=13)
P.save()

cases, meta, hist = [], [], {}


def run(kind, modules, ksks, schema=None, nb=2, desc=None, strict=True, zs=None, via_xml=False):
    zsl = zs or [[Z[0]]] * nb
    rq = skrgen.honest_request(f"req-{R.randrange(10**6)}", NOW, len(zsl), zsl, ksrxml.default_zsk_policy(), sign=True)
    schema = schema or {i: {"publish": ["ksk_a"], "sign": ["ksk_a"], "revoke": []} for i in range(1, len(zsl) + 1)}
    sc = {"modules": modules, "ksks": ksks, "schema": schema, "request": rq, "strict": strict, "via_xml": via_xml}
    r = S.run_sign(sc)
    exp = S.expect(sc)
    impl = r["impl"]
    probs = []
    if exp[0] == "ok" and impl[0] != "ok":
        probs.append(f"run stopped ({impl[2]}) although the configured key is on the token and valid for every slot")
    elif exp[0] == "reject" and impl[0] == "ok":
        probs.append(f"signed although: {exp[1]}")
    elif exp[0] == "ok":
        probs += S.compare_result(sc, impl, exp)
    # whatever happened: no private-key operation with a label whose key must not be used
    if exp[0] == "reject":
        used = {e["label"] for e in r["token"].sign_log if e["result"] is not None}
        # signatures of earlier slots are allowed; a refused slot must not have produced a signature - checked through the result being an error
    cases.append(r["coq"])
    d = {"impl": "ok" if impl[0] == "ok" else impl[2], "expected": exp[0] if exp[0] == "ok" else exp[1], "token_sign_calls": len(r["token"].sign_log)}
    if desc:
        d.update(desc)
    meta.append({"kind": kind, "desc": d, "spec_ok": not probs, "spec_msg": "; ".join(probs[:3]), "key": None})
    hist[kind] = hist.get(kind, 0) + 1


def mods_for(*objlists, login=(True,)):
    return [[{"id": i, "login_ok": login[i] if i < len(login) else True, "objs": objs} for i, objs in enumerate(objlists)]]


BASE_MODS = mods_for(S.pair("Ka", KA) + S.pair("Kb", KB))
inc1, exp1 = NOW, NOW + D(days=21)
inc2, exp2 = NOW + D(days=10), NOW + D(days=31)

# 1. validity window on the lattice around each bundle's inception / expiration; the configured instants written with various UTC offsets
TZS = [dt.timezone.utc, dt.timezone(D(hours=-5)), dt.timezone(D(hours=2)), dt.timezone(D(hours=5, minutes=30)), dt.timezone(D(hours=-11))]
for delta in [D(days=-1), D(seconds=-1), D(0), D(seconds=1), D(days=1)]:
    for anchor_name, anchor in [("inc1", inc1), ("inc2", inc2)]:
        for tz in (TZS if delta in (D(seconds=-1), D(0), D(seconds=1)) else TZS[:1]):
            run("window-valid-from", BASE_MODS, {"ksk_a": ceremony.ksk_def(KA, valid_from=(anchor + delta).astimezone(tz))},
                desc={"valid_from": f"{anchor_name}{delta.total_seconds():+.0f}s", "written_as": (anchor + delta).astimezone(tz).isoformat()})
    for anchor_name, anchor in [("exp1", exp1), ("exp2", exp2), ("inc2", inc2)]:
        for tz in (TZS if delta in (D(seconds=-1), D(0), D(seconds=1)) and anchor_name != "inc2" else TZS[:1]):
            run("window-valid-until", BASE_MODS, {"ksk_a": ceremony.ksk_def(KA, valid_until=(anchor + delta).astimezone(tz))},
                desc={"valid_until": f"{anchor_name}{delta.total_seconds():+.0f}s", "written_as": (anchor + delta).astimezone(tz).isoformat()})
# the window is compared with the instants the KSR states (UTC), wherever the process runs and whether or not its timestamps carry an offset
for tz, suffix in (("VRF+05", ""), ("VRF-09", ""), ("VRF+05", "+00:00"), (None, "")):
    with ksrxml.process_zone(tz, suffix):
        for delta in (D(seconds=-1), D(0), D(seconds=1)):
            run("zone-valid-from", BASE_MODS, {"ksk_a": ceremony.ksk_def(KA, valid_from=inc1 + delta)}, desc={"TZ": tz or "(unset)", "timestamps": suffix or "no offset", "valid_from": f"inc1{delta.total_seconds():+.0f}s"}, via_xml=True)
            run("zone-valid-until", BASE_MODS, {"ksk_a": ceremony.ksk_def(KA, valid_until=exp2 + delta)}, desc={"TZ": tz or "(unset)", "timestamps": suffix or "no offset", "valid_until": f"exp2{delta.total_seconds():+.0f}s"}, via_xml=True)
run("window-no-valid-until", BASE_MODS, {"ksk_a": ceremony.ksk_def(KA)})
# window applies to publish / revoke too, and per slot
for role in ("publish", "revoke", "sign"):
    sch = {1: {"publish": ["ksk_b"], "sign": ["ksk_b"], "revoke": []}, 2: {"publish": ["ksk_b"], "sign": ["ksk_b"], "revoke": []}}
    sch[2][role] = sch[2][role] + ["ksk_a"]
    for vu in (exp2 - D(seconds=1), exp2):
        run("window-role-" + role, BASE_MODS, {"ksk_a": ceremony.ksk_def(KA, valid_until=vu), "ksk_b": ceremony.ksk_def(KB)}, schema=sch)

# 2. identity of the key: tag / DS present-right, present-wrong, absent
for with_tag, with_ds in [(True, True), (True, False), (False, True), (False, False)]:
    run("identity-right", BASE_MODS, {"ksk_a": ceremony.ksk_def(KA, with_tag=with_tag, with_ds=with_ds)})
    # a different key of the same size/exponent under the label
    run("identity-other-key-same-label", mods_for(S.pair("Ka", KA_OTHER)), {"ksk_a": ceremony.ksk_def(KA, with_tag=with_tag, with_ds=with_ds)},
        desc={"with_tag": with_tag, "with_ds": with_ds})
    # sign-only schema (the key is never looked up as 'publish')
    run("identity-other-key-sign-only", mods_for(S.pair("Ka", KA_OTHER) + S.pair("Kb", KB)),
        {"ksk_a": ceremony.ksk_def(KA, with_tag=with_tag, with_ds=with_ds), "ksk_b": ceremony.ksk_def(KB)},
        schema={1: {"publish": ["ksk_b"], "sign": ["ksk_a"], "revoke": []}}, nb=1, desc={"with_tag": with_tag, "with_ds": with_ds})
run("identity-wrong-tag", BASE_MODS, {"ksk_a": ceremony.ksk_def(KA, key_tag=(KA["tag"] % 65535) + 1)})
run("identity-wrong-ds", BASE_MODS, {"ksk_a": ceremony.ksk_def(KA, ds_sha256="00" * 32)})
run("identity-lowercase-ds", BASE_MODS, {"ksk_a": dict(ceremony.ksk_def(KA), ds_sha256=ceremony.ksk_def(KA)["ds_sha256"].lower())})
# right public object, wrong private object (split pair)
run("identity-split-pair", mods_for([S.obj("Ka", "pub", KA), S.obj("Ka", "priv", KA_OTHER)]), {"ksk_a": ceremony.ksk_def(KA)}, strict=False)

# a key whose key tag sum carries a second time (RFC 4034 App. B discards that carry): its tag is its tag, and the tag one higher is another key's
KCARRY = ksrxml.mk_key(P.ec_tag_carry(13, 257), alg=13, flags=257, ident="Kcarry")
P.save()
for with_ds in (True, False):
    run("identity-tag-carry-right", mods_for(S.pair("Kcarry", KCARRY)), {"ksk_a": ceremony.ksk_def(KCARRY, with_ds=with_ds)}, zs=[[ZEC]], desc={"tag": KCARRY["tag"], "with_ds": with_ds})
    for off in (1, -1):
        run("identity-tag-carry-off-by-one", mods_for(S.pair("Kcarry", KCARRY)), {"ksk_a": ceremony.ksk_def(KCARRY, with_ds=with_ds, key_tag=(KCARRY["tag"] + off) % 65536 or 1)},
            zs=[[ZEC]], desc={"tag": KCARRY["tag"], "configured": (KCARRY["tag"] + off) % 65536 or 1, "with_ds": with_ds})
        run("identity-tag-carry-off-by-one", mods_for(S.pair("Kcarry", KCARRY) + S.pair("Kb", KB)), {"ksk_a": ceremony.ksk_def(KCARRY, with_ds=with_ds, key_tag=(KCARRY["tag"] + off) % 65536 or 1), "ksk_b": ceremony.ksk_def(KB)},
            schema={1: {"publish": ["ksk_a", "ksk_b"], "sign": ["ksk_b"], "revoke": []}}, nb=1, desc={"tag": KCARRY["tag"], "role": "published only", "with_ds": with_ds})

# 3. size / exponent / algorithm family claims
run("claim-other-size", mods_for(S.pair("Ka", KA_2048)), {"ksk_a": ceremony.ksk_def(KA)})
run("claim-other-exponent", mods_for(S.pair("Ka", KA_E3)), {"ksk_a": ceremony.ksk_def(KA)})
run("claim-size-absent", BASE_MODS, {"ksk_a": {k: v for k, v in ceremony.ksk_def(KA).items() if k != "rsa_size"}})
run("claim-exponent-absent", BASE_MODS, {"ksk_a": {k: v for k, v in ceremony.ksk_def(KA).items() if k != "rsa_exponent"}})
run("claim-ec-token-rsa-config", mods_for(S.pair("Ka", KA_EC)), {"ksk_a": ceremony.ksk_def(KA, with_tag=False, with_ds=False)})
run("claim-rsa-token-ec-config", BASE_MODS, {"ksk_a": dict(ceremony.ksk_def(KA_EC, with_tag=False, with_ds=False))}, zs=[[ZEC]])
# every algorithm name the configuration accepts, claimed for an RSA key on the token: only the three RSA algorithms are its family
for name_ in sorted(S.specs.ALGNUM):
    for role_schema in ({1: {"publish": ["ksk_a"], "sign": ["ksk_a"], "revoke": []}}, {1: {"publish": ["ksk_a", "ksk_b"], "sign": ["ksk_b"], "revoke": []}},
                        {1: {"publish": ["ksk_b"], "sign": ["ksk_b"], "revoke": ["ksk_a"]}}):
        run("claim-algorithm-name-for-rsa-key", BASE_MODS, {"ksk_a": dict(ceremony.ksk_def(KA, with_tag=False, with_ds=False), algorithm=name_), "ksk_b": ceremony.ksk_def(KB)},
            schema=role_schema, nb=1, desc={"configured_algorithm": name_, "roles": {k: v for k, v in role_schema[1].items() if v}}, strict=False)
run("claim-ec-right", mods_for(S.pair("Kec", KEC)), {"ksk_a": ceremony.ksk_def(KEC)}, zs=[[ZEC]])
run("claim-ec-p384-config-p256-key", mods_for(S.pair("Kec", KEC)), {"ksk_a": dict(ceremony.ksk_def(KEC, with_tag=False, with_ds=False), algorithm="ECDSAP384SHA384")}, zs=[[ZEC]])
run("claim-rsasha512-config", BASE_MODS, {"ksk_a": dict(ceremony.ksk_def(KA, with_tag=False, with_ds=False), algorithm="RSASHA512")}, strict=False)
run("claim-symmetric-key", mods_for([S.obj("Ka", "pub", None, ktype=LL.CKK_AES), S.obj("Ka", "priv", None, ktype=LL.CKK_AES)]), {"ksk_a": ceremony.ksk_def(KA)}, strict=False)
run("claim-secret-object-only", mods_for([S.obj("Ka", "secret", None)]), {"ksk_a": ceremony.ksk_def(KA)})

# 4. presence: missing label, missing public / private object, duplicates, second slot / second module, refused login
run("present-nowhere", mods_for(S.pair("Kb", KB)), {"ksk_a": ceremony.ksk_def(KA)})
run("present-public-only", mods_for([S.obj("Ka", "pub", KA)]), {"ksk_a": ceremony.ksk_def(KA)})
run("present-private-only-with-pub-attrs", mods_for([S.obj("Ka", "priv", KA)]), {"ksk_a": ceremony.ksk_def(KA)})
run("present-private-only-no-pub-attrs", mods_for([S.obj("Ka", "priv", KA, pub_attrs=False)]), {"ksk_a": ceremony.ksk_def(KA)}, strict=False)
run("present-ec-private-no-pub-attrs", mods_for([S.obj("Kec", "pub", KEC), S.obj("Kec", "priv", KEC, pub_attrs=False)]), {"ksk_a": ceremony.ksk_def(KEC)}, zs=[[ZEC]])
run("present-ec-private-only-no-pub-attrs", mods_for([S.obj("Kec", "priv", KEC, pub_attrs=False)]), {"ksk_a": ceremony.ksk_def(KEC)}, zs=[[ZEC]])
run("duplicate-public", mods_for([S.obj("Ka", "pub", KA), S.obj("Ka", "pub", KA_OTHER), S.obj("Ka", "priv", KA)]), {"ksk_a": ceremony.ksk_def(KA)})
run("duplicate-private", mods_for([S.obj("Ka", "pub", KA), S.obj("Ka", "priv", KA), S.obj("Ka", "priv", KA_OTHER)]), {"ksk_a": ceremony.ksk_def(KA)})
run("duplicate-identical", mods_for(S.pair("Ka", KA) + S.pair("Ka", KA)), {"ksk_a": ceremony.ksk_def(KA)})
run("second-slot", mods_for(S.pair("Kb", KB), S.pair("Ka", KA)), {"ksk_a": ceremony.ksk_def(KA)})
run("second-slot-shadowed-by-other-key", mods_for(S.pair("Ka", KA_OTHER), S.pair("Ka", KA)), {"ksk_a": ceremony.ksk_def(KA)})
run("first-slot-login-refused", mods_for(S.pair("Ka", KA_OTHER), S.pair("Ka", KA), login=(False, True)), {"ksk_a": ceremony.ksk_def(KA)})
run("all-logins-refused", mods_for(S.pair("Ka", KA), login=(False,)), {"ksk_a": ceremony.ksk_def(KA)}, strict=False)
run("second-module", [[{"id": 0, "objs": S.pair("Kb", KB)}], [{"id": 0, "objs": S.pair("Ka", KA)}]], {"ksk_a": ceremony.ksk_def(KA)})
run("second-module-public-first-module-private", [[{"id": 0, "objs": [S.obj("Ka", "priv", KA)]}], [{"id": 0, "objs": [S.obj("Ka", "pub", KA)]}]], {"ksk_a": ceremony.ksk_def(KA)})
# an ambiguous or unreadable label in an earlier module stops the run, whatever a later module holds
M2 = [{"id": 0, "objs": S.pair("Ka", KA)}]
for wt in (True, False):
    kd = {"ksk_a": ceremony.ksk_def(KA, with_tag=wt, with_ds=wt)}
    run("first-module-duplicate-public", [[{"id": 0, "objs": [S.obj("Ka", "pub", KA), S.obj("Ka", "pub", KA_OTHER), S.obj("Ka", "priv", KA)]}], M2], kd)
    run("first-module-duplicate-private", [[{"id": 0, "objs": [S.obj("Ka", "pub", KA), S.obj("Ka", "priv", KA), S.obj("Ka", "priv", KA_OTHER)]}], M2], kd)
    run("first-module-duplicate-identical", [[{"id": 0, "objs": S.pair("Ka", KA) + S.pair("Ka", KA)}], M2], kd)
    run("first-module-duplicate-in-second-slot", [[{"id": 0, "objs": S.pair("Kb", KB)}, {"id": 1, "objs": S.pair("Ka", KA) + S.pair("Ka", KA_OTHER)}], M2], kd)
    run("first-module-private-unreadable", [[{"id": 0, "objs": [S.obj("Ka", "pub", KA), S.obj("Ka", "priv", KA, pub_attrs=False)]}], M2], kd, strict=False)
    run("first-module-symmetric-key", [[{"id": 0, "objs": [S.obj("Ka", "pub", None, ktype=LL.CKK_AES), S.obj("Ka", "priv", None, ktype=LL.CKK_AES)]}], M2], kd, strict=False)
    # the public key published and signed for is that of the private object found, not of a public object with the label somewhere else
    run("sign-only-public-copy-of-other-key-in-earlier-module", [[{"id": 0, "objs": [S.obj("Ka", "pub", KA_OTHER)] + S.pair("Kb", KB)}], M2],
        {**kd, "ksk_b": ceremony.ksk_def(KB)}, schema={1: {"publish": ["ksk_b"], "sign": ["ksk_a"], "revoke": []}}, nb=1)
    run("sign-only-public-copy-in-same-slot", mods_for([S.obj("Ka", "pub", KA_OTHER), S.obj("Ka", "priv", KA)] + S.pair("Kb", KB)),
        {**kd, "ksk_b": ceremony.ksk_def(KB)}, schema={1: {"publish": ["ksk_b"], "sign": ["ksk_a"], "revoke": []}}, nb=1)
run("unknown-key-name-in-schema", BASE_MODS, {"ksk_a": ceremony.ksk_def(KA)}, schema={1: {"publish": ["ksk_zz"], "sign": ["ksk_a"], "revoke": []}}, nb=1)

if CHILD:
    import json
    for m in meta:
        if not m["spec_ok"]:
            print("CHILD-PROBLEM " + json.dumps({"kind": m["kind"], "msg": m["spec_msg"], "desc": {k: str(v)[:200] for k, v in m["desc"].items()}}))
    print(f"CHILD-DONE {len(meta)}")
    sys.exit(0)
# the same deterministic scenarios in an interpreter that runs optimised (python -O / PYTHONOPTIMIZE): which keys may sign does not depend on how the tool is started
import json
import os
import subprocess
child = subprocess.run([sys.executable, "-O", "-B", os.path.abspath(__file__), "--optimized-child", "--tier", TIER], capture_output=True, text=True, timeout=900,
                       env=dict(os.environ, PYTHONOPTIMIZE="1"))
done = [l for l in child.stdout.splitlines() if l.startswith("CHILD-DONE ")]
hist["optimised-interpreter-scenarios"] = int(done[0].split()[1]) if done else 0
if not done:
    rep.violation("model-mismatch", "the scenarios could not be run in an optimised interpreter: " + (child.stderr or child.stdout)[-400:], {"kind": "optimised-interpreter"}, found_input=False)
for l in child.stdout.splitlines():
    if l.startswith("CHILD-PROBLEM "):
        d_ = json.loads(l[len("CHILD-PROBLEM "):])
        rep.violation("impl-vs-spec", f"{d_['kind']} (interpreter started with -O): {d_['msg']}", {"kind": d_["kind"], "interpreter": "python -O", **d_["desc"]})
# 5. random combinations
for i in range(25 * SCALE):
    tokkey = R.choice([KA, KA, KA, KA_OTHER, KA_2048, KA_E3])
    objs = R.choice([S.pair("Ka", tokkey), S.pair("Ka", tokkey, pub_attrs=R.random() < 0.8), [S.obj("Ka", "pub", tokkey)], S.pair("Ka", tokkey) + [S.obj("Ka", R.choice(["pub", "priv"]), KA_OTHER)]])
    modules = mods_for(S.pair("Kb", KB), objs, login=(R.random() < 0.85, True)) if R.random() < 0.5 else mods_for(objs + S.pair("Kb", KB))
    kd = ceremony.ksk_def(KA, valid_from=R.choice([inc1, inc1 + D(seconds=1), inc2]), valid_until=R.choice([None, exp2, exp2 - D(seconds=1), exp1]),
                          with_tag=R.random() < 0.6, with_ds=R.random() < 0.6)
    sch = {i: {"publish": R.choice([["ksk_a"], ["ksk_b"], ["ksk_a", "ksk_b"]]), "sign": R.choice([["ksk_a"], ["ksk_b"], ["ksk_a", "ksk_b"]]), "revoke": R.choice([[], [], ["ksk_a"]])} for i in (1, 2)}
    run("random", modules, {"ksk_a": kd, "ksk_b": ceremony.ksk_def(KB)}, schema=sch, strict=False)

ok_build, log = vlib.make(["Checks/SignCheck.vo"])
runner = vlib.CaseRun("C04", "main", "From KV Require Import Base.Prelude Base.Exn Model.Data Model.KsrPolicy Model.Token Model.Sign Checks.SignCheck.", "case", "check", shard=8)
results = runner.run(cases) if ok_build else [-1] * len(cases)
vlib.classify(rep, props, meta, results, cases, runner, "Checks.SignCheck.check (sign_bundles / load_pkcs11_key)")
runner.cleanup()
rep.coverage.update({
    "evaluations": len(cases), "distinct_nontrivial": len(set(cases)),
    "rule": "two-slot ceremonies through the real sign_bundles on the token emulator: validity windows on {b-1d,b-1s,b,b+1s,b+1d} around each bundle's "
            "inception/expiration (with/without valid-until, per role), key tag / DS right-wrong-absent, token holding the right key / another key under the "
            "label / other size / other exponent / EC vs RSA / symmetric, missing public or private object (with and without public attributes), duplicates, "
            "key in second slot or module, refused logins, random combinations; outcome compared with an independent reading of the property and the Coq model",
    "distribution": hist, "samples": [dict(m["desc"], kind=m["kind"]) for m in meta[:: max(1, len(meta) // 6)]][:6],
})
sys.exit(rep.finish())
