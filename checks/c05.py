"""C05 - KSR timing rules accept exactly the documented region, bounds inclusive."""
import argparse
import datetime as dt
import sys

import vlib
from kgen import coq_reqpolicy, coq_request, us
from vlib import z

ap = argparse.ArgumentParser()
ap.add_argument("--tier")
ap.add_argument("--replay")
args = ap.parse_args()
TIER = vlib.tier(args.tier)
SCALE = 1 if TIER == "quick" else 12

vlib.setup_impl_path()
rep = vlib.Report("C05", TIER)
vlib.regen("Policy", "Skeleton")
props = vlib.build_props("C05")
rep.add_props(props)

import ksrxml
import kskm.ksr.verify_policy as vp
from kskm.common.config_misc import RequestPolicy
from kskm.ksr.load import request_from_xml
from kskm.ksr.validate import validate_request

D = dt.timedelta
UTC = dt.timezone.utc
R = vlib.rng("C05")
NOW = dt.datetime(2026, 3, 1, 12, 0, 0, tzinfo=UTC)


class PinnedDT(dt.datetime):
    pinned = NOW

    @classmethod
    def now(cls, tz=None):
        return cls.pinned


DUMMY = ksrxml.mk_key(ksrxml.POOL.rsa(1024, 65537, 0), alg=8, ttl=172800)
ksrxml.POOL.save()
DUMMY_SIG = {"id": DUMMY["id"], "ttl": 172800, "alg": 8, "labels": 0, "ottl": 172800, "exp": NOW, "inc": NOW, "tag": DUMMY["tag"], "name": ".", "data": b"\x01\x02"}

FLAGS = ["check_cycle_length", "check_bundle_overlap", "signature_validity_match_zsk_policy",
         "signature_check_expire_horizon", "check_bundle_intervals"]


def spec(now, pol, zsk, bundles):
    """The documented region, written from the property text. bundles sorted chronologically. -> accept?"""
    if len(bundles) != pol.num_bundles:
        return False
    if pol.check_cycle_length and bundles:
        c = bundles[-1][0] - bundles[0][0]
        if not (pol.min_cycle_inception_length <= c <= pol.max_cycle_inception_length):
            return False
    for (i0, e0), (i1, e1) in zip(bundles, bundles[1:]):
        if pol.check_bundle_overlap:
            ov = e0 - i1
            if ov < D(0) or not (zsk["min_overlap"] <= ov <= zsk["max_overlap"]):
                return False
        if pol.check_bundle_intervals:
            if not (pol.min_bundle_interval <= i1 - i0 <= pol.max_bundle_interval):
                return False
    for (i0, e0) in bundles:
        if pol.signature_validity_match_zsk_policy and not (zsk["min_validity"] <= e0 - i0 <= zsk["max_validity"]):
            return False
        if pol.signature_check_expire_horizon:
            days = (e0 - now) // D(days=1)
            hz = pol.signature_horizon_days
            if (hz != 0 and days > hz) or (hz > 0 and days < 0):
                return False
    return True


cases, meta = [], []
hist = {}
accepts = 0


import contextlib
import os
import time


@contextlib.contextmanager
def process_zone(tz, suffix):
    """The ceremony laptop's local time zone is not part of the rules: run with TZ=tz and timestamps written with the given suffix ('' = no offset)."""
    old_tz, old_suffix = os.environ.get("TZ"), ksrxml.TS_SUFFIX
    if tz is not None:
        os.environ["TZ"] = tz
        time.tzset()
    ksrxml.TS_SUFFIX = suffix
    try:
        yield
    finally:
        ksrxml.TS_SUFFIX = old_suffix
        if tz is not None:
            if old_tz is None:
                os.environ.pop("TZ", None)
            else:
                os.environ["TZ"] = old_tz
            time.tzset()


ID_STYLE = ["short"]


def policy_via_config(pol_kw):
    """The request policy as the tools get it: written in ksrsigner.yaml (periods as ISO 8601 text), loaded through the configuration reader."""
    import io
    import yaml
    from kskm.common.config import KSKMConfig
    rp = {k: (ksrxml.fmt_dur(v) if isinstance(v, D) else v) for k, v in pol_kw.items()}
    rp.update(validate_signatures=False, keys_match_zsk_policy=False, check_keys_match_ksk_operator_policy=False, signature_algorithms_match_zsk_policy=False)
    text = yaml.safe_dump({"request_policy": rp})
    return KSKMConfig.from_dict(yaml.safe_load(io.StringIO(text))).request_policy


DR = vlib.rng("C05-dur")


def run_case(kind, n, incs, exps, zsk, pol_kw, now=NOW, shuffle=False, desc=None, fixed_ids=None, via_config=False):
    global accepts
    # bundle ids are opaque: unique, but free to share a long common prefix (operators name them by quarter) or to be UUIDs
    style = ID_STYLE[0] if ID_STYLE[0] != "mixed" else R.choice(["short", "named", "uuid", "suffix"])
    tag_ = R.randrange(10**6)
    ids = [{"short": f"b{j:02d}-{tag_}", "named": f"2027Q1-bundle-{tag_}-{j}", "uuid": f"{R.randrange(16**8):08x}-{R.randrange(16**4):04x}-4000-8000-{j:012x}",
            "suffix": f"{'x' * 40}{j}"}[style] for j in range(n)]
    if fixed_ids is not None:
        ids = list(fixed_ids)
    bundles = [{"id": ids[j], "inc": incs[j], "exp": exps[j], "keys": [DUMMY], "sigs": [DUMMY_SIG]} for j in range(n)]
    order = list(range(n))
    if shuffle:
        R.shuffle(order)
    doc = [bundles[j] for j in order]
    # the declared bounds spelt as operators may spell them: one case in three uses another ISO 8601 notation of the same periods
    ksrxml.POLICY_DUR_STYLE[0] = (lambda: DR.choice(["weeks", "weeks", "hours", "minutes", "seconds", "days-hours", "days"])) if DR.random() < 0.34 else None
    try:
        xml = ksrxml.render_ksr({"id": "req-1", "serial": 1, "domain": ".", "zsk": zsk, "bundles": doc})
    finally:
        ksrxml.POLICY_DUR_STYLE[0] = None
    pol = RequestPolicy(validate_signatures=False, keys_match_zsk_policy=False, check_keys_match_ksk_operator_policy=False,
                        signature_algorithms_match_zsk_policy=False, **pol_kw)
    if via_config:
        want_pol = pol
        pol = policy_via_config(pol_kw)
        if pol != want_pol:
            diff_ = [f for f in pol_kw if getattr(pol, f) != getattr(want_pol, f)]
            rep.violation("impl-vs-spec", f"{kind}: the request policy written in the configuration file is not the one loaded: {[(f, pol_kw[f], getattr(pol, f)) for f in diff_][:4]}",
                          {"kind": kind, "options": {k: str(v) for k, v in pol_kw.items()}, "loaded": {f: str(getattr(pol, f)) for f in diff_}})
    PinnedDT.pinned = now
    lr_ = vlib.run_impl(request_from_xml, xml)
    if lr_[0] != "ok":
        # the document itself is refused before any policy is consulted: a rejection no switch can turn off
        srt_ = sorted(((b["exp"], b["inc"], b["id"]) for b in bundles))
        if spec(now, pol, zsk, [(i, e) for (e, i, _) in srt_]):
            rep.violation("impl-vs-spec", f"{kind}: the KSR is refused while it is read ({lr_[2]}) although the documented region says accept under this policy",
                          {"kind": kind, "inc": [ksrxml.fmt_dt(x) for x in incs], "exp": [ksrxml.fmt_dt(x) for x in exps], "policy": {k: str(v) for k, v in pol_kw.items()}, **(desc or {})})
        hist[kind] = hist.get(kind, 0) + 1
        return
    req = lr_[1]
    if len(cases) % 4 == 3:
        with vlib.debug_logging():              # every fourth request is judged with debug logging on (the tools' --debug): same verdict
            r = vlib.run_impl(validate_request, req, pol)
    else:
        r = vlib.run_impl(validate_request, req, pol)
    impl_accept = r[0] == "ok"
    srt = sorted(((b["exp"], b["inc"], b["id"]) for b in bundles))
    want = spec(now, pol, zsk, [(i, e) for (e, i, _) in srt])
    ok = impl_accept == want
    read = {b.id: (b.inception, b.expiration) for b in req.bundles}
    misread = [b["id"] for b in bundles if read.get(b["id"]) != (b["inc"], b["exp"])]
    if impl_accept:
        accepts += 1
    # the model is given the bundles in document order
    req_doc = req.model_copy(update={"bundles": [next(b for b in req.bundles if b.id == d["id"]) for d in doc]})
    coq = f"({z(us(now))}, {coq_reqpolicy(pol)}, {coq_request(req_doc, with_txt=False, with_pub=False)}, {'OK tt' if impl_accept else f'Raise {r[1]}'})"
    cases.append(coq)
    d = {"n": n, "inc": [ksrxml.fmt_dt(x) for x in incs], "exp": [ksrxml.fmt_dt(x) for x in exps],
         "zsk": {k: str(v) for k, v in zsk.items() if k != "algs"}, "policy": {k: str(v) for k, v in pol_kw.items()},
         "now": ksrxml.fmt_dt(now), "impl": "accept" if impl_accept else r[2], "spec": "accept" if want else "reject", "xml_doc_order": order}
    if desc:
        d.update(desc)
    d["timestamps"] = "with +00:00" if ksrxml.TS_SUFFIX else "without offset"
    d["TZ"] = os.environ.get("TZ", "(unset)")
    msg = f"implementation {'accepts' if impl_accept else 'rejects (' + r[2] + ')'} but the documented region says {'accept' if want else 'reject'}"
    if misread and ok:
        ok = False
        b0 = next(b for b in bundles if b["id"] == misread[0])
        msg = (f"bundle {misread[0]} is judged on inception/expiration {read[misread[0]][0]} / {read[misread[0]][1]} but the document states "
               f"{ksrxml.fmt_dt(b0['inc'])} / {ksrxml.fmt_dt(b0['exp'])} (UTC)")
    meta.append({"kind": kind, "desc": d, "spec_ok": ok, "spec_msg": msg, "key": None})
    hist[kind] = hist.get(kind, 0) + 1


def baseline(n, start=None, interval=D(days=10), validity=D(days=21)):
    start = start or (NOW + D(days=5))
    incs = [start + interval * j for j in range(n)]
    exps = [i + validity for i in incs]
    return incs, exps


def pol_for(n, flags_on=None, minmax_equal=False, hz=180, **over):
    kw = {"num_bundles": n, "signature_horizon_days": hz}
    cyc = D(days=10) * (n - 1)
    kw["min_cycle_inception_length"] = cyc - (D(0) if minmax_equal else D(days=1))
    kw["max_cycle_inception_length"] = cyc + (D(0) if minmax_equal else D(days=1))
    kw["min_bundle_interval"] = D(days=10) - (D(0) if minmax_equal else D(days=1))
    kw["max_bundle_interval"] = D(days=10) + (D(0) if minmax_equal else D(days=1))
    for f in FLAGS:
        kw[f] = True if flags_on is None else (f in flags_on)
    kw.update(over)
    return kw


def zsk_for(minmax_equal=False):
    if minmax_equal:
        return ksrxml.default_zsk_policy(min_validity=D(days=21), max_validity=D(days=21), min_overlap=D(days=11), max_overlap=D(days=11))
    return ksrxml.default_zsk_policy(min_validity=D(days=15), max_validity=D(days=21), min_overlap=D(days=9), max_overlap=D(days=12))


DELTAS = [D(days=-1), D(seconds=-1), D(0), D(seconds=1), D(days=1)]
patch_dt = vp.datetime
vp.datetime = PinnedDT
try:
    ID_STYLE[0] = "mixed"
    # A. lattice around every bound of every rule, every position, n = 1..9
    for n in range(1, 10):
        for eq in (False, True):
            zsk = zsk_for(eq)
            positions = range(n) if TIER == "thorough" else sorted({0, n - 1, R.randrange(n)})
            for pos in positions:
                for delta in DELTAS:
                    for rule in ["vmin", "vmax", "omin", "omax", "gap", "imin", "imax", "cmin", "cmax", "hz", "past", "count"]:
                        incs, exps = baseline(n, validity=D(days=21) if eq else D(days=19))
                        flags = None if R.random() < 0.6 else {f for f in FLAGS if R.random() < 0.6}
                        kw = pol_for(n, flags, eq)
                        now = NOW
                        if rule in ("vmin", "vmax"):
                            b = zsk["min_validity"] if rule == "vmin" else zsk["max_validity"]
                            exps[pos] = incs[pos] + b + delta
                        elif rule in ("omin", "omax", "gap"):
                            if pos == 0 or n < 2:
                                continue
                            b = {"omin": zsk["min_overlap"], "omax": zsk["max_overlap"], "gap": D(0)}[rule]
                            incs[pos] = exps[pos - 1] - (b + delta)
                            exps[pos] = max(exps[pos], incs[pos] + D(days=19 if not eq else 21))
                        elif rule in ("imin", "imax"):
                            if pos == 0 or n < 2:
                                continue
                            b = kw["min_bundle_interval"] if rule == "imin" else kw["max_bundle_interval"]
                            incs[pos] = incs[pos - 1] + b + delta
                            exps[pos] = incs[pos] + D(days=19 if not eq else 21)
                        elif rule in ("cmin", "cmax"):
                            if n < 2 or pos != n - 1:
                                continue
                            b = kw["min_cycle_inception_length"] if rule == "cmin" else kw["max_cycle_inception_length"]
                            incs[-1] = incs[0] + b + delta
                            exps[-1] = incs[-1] + D(days=19 if not eq else 21)
                        elif rule == "hz":
                            now = exps[pos] - D(days=kw["signature_horizon_days"]) - delta - D(hours=R.choice([0, 0, 5]))
                        elif rule == "past":
                            now = exps[pos] + delta
                        elif rule == "count":
                            if pos != 0:
                                continue
                            kw["num_bundles"] = n + R.choice([-1, 1])
                        run_case("lattice-" + rule, n, incs, exps, zsk, kw, now, shuffle=R.random() < 0.3,
                                 desc={"rule": rule, "pos": pos, "delta_s": delta.total_seconds(), "minmax_equal": eq})

    # A1. a single bundle spans zero: it passes the cycle rule only if zero is inside the operator's bounds
    for lo, hi in ((D(days=79), D(days=81)), (D(0), D(days=81)), (D(seconds=1), D(days=1)), (D(0), D(0)), (-D(days=1), D(days=1))):
        for flag in (True, False):
            incs, exps = baseline(1, validity=D(days=19))
            kw = pol_for(1, None, False, check_cycle_length=flag, min_cycle_inception_length=lo, max_cycle_inception_length=hi)
            run_case("one-bundle-cycle", 1, incs, exps, zsk_for(False), kw, NOW, desc={"min_cycle": str(lo), "max_cycle": str(hi), "check_cycle_length": flag})

    # A1b. bundles that expire at the same instant are neighbours in the order of their inceptions, whatever their ids
    for ida, idb in (("a-first", "b-second"), ("b-first", "a-second"), ("0000", "zzzz"), ("zzzz", "0000")):
        for ov_max, expect_note in ((D(days=16), "15 d overlap inside"), (D(days=14), "15 d overlap above the maximum"), (D(days=25), "wide bounds")):
            t_ = NOW + D(days=5)
            incs, exps = [t_, t_ + D(days=6)], [t_ + D(days=21), t_ + D(days=21)]
            zsk = ksrxml.default_zsk_policy(min_validity=D(days=15), max_validity=D(days=21), min_overlap=D(days=9), max_overlap=ov_max)
            kw = pol_for(2, {"check_bundle_overlap", "signature_validity_match_zsk_policy", "signature_check_expire_horizon"}, False)
            run_case("equal-expirations", 2, incs, exps, zsk, kw, NOW, shuffle=R.random() < 0.5, desc={"ids": [ida, idb], "note": expect_note}, fixed_ids=[ida, idb])

    # A2. the same bounds with timestamps written without an offset (the form of the archived KSRs) and with the process in some other time zone
    for tz, suffix in ((None, ""), ("VRF+05", ""), ("VRF-05:30", ""), ("VRF+05", "+00:00"), ("VRF-11", "")):
        with process_zone(tz, suffix):
            for n in (1, 2, 9):
                zsk = zsk_for(False)
                for rule in ("hz", "past", "ok", "omin", "vmax"):
                    for delta in (D(seconds=-1), D(0), D(seconds=1)):
                        incs, exps = baseline(n, validity=D(days=19))
                        kw = pol_for(n, None, False)
                        now = NOW
                        pos = n - 1
                        if rule == "hz":
                            now = exps[pos] - D(days=kw["signature_horizon_days"]) - delta
                        elif rule == "past":
                            now = exps[0] + delta
                        elif rule == "vmax":
                            exps[pos] = incs[pos] + zsk["max_validity"] + delta
                        elif rule == "omin":
                            if n < 2:
                                continue
                            incs[pos] = exps[pos - 1] - (zsk["min_overlap"] + delta)
                            exps[pos] = incs[pos] + D(days=19)
                        elif delta != D(0):
                            continue
                        run_case("zone-" + rule, n, incs, exps, zsk, kw, now, desc={"rule": rule, "delta_s": delta.total_seconds()})

    # B0. the same through the configuration file: one check switched off there (false), one rule violated; zero and empty values written there too
    for off in FLAGS:
        for rule in ["vmin", "omax", "imin", "cmax", "past", "ok"]:
            n = 3
            zsk = zsk_for(False)
            incs, exps = baseline(n, validity=D(days=19))
            kw = pol_for(n, set(FLAGS) - {off})
            now = NOW
            if rule == "vmin":
                exps[0] = incs[0] + zsk["min_validity"] - D(seconds=1)
            elif rule == "omax":
                exps[0] = incs[1] + zsk["max_overlap"] + D(seconds=1)
            elif rule == "imin":
                incs[1] = incs[0] + kw["min_bundle_interval"] - D(seconds=1)
                exps[1] = incs[1] + D(days=19)
            elif rule == "cmax":
                incs[-1] = incs[0] + kw["max_cycle_inception_length"] + D(seconds=1)
                exps[-1] = incs[-1] + D(days=19)
            elif rule == "past":
                now = exps[0] + D(seconds=1)
            run_case("config-file-flag-off-" + rule, n, incs, exps, zsk, kw, now, desc={"flag_off_in_file": off, "rule": rule}, via_config=True)
    run_case("config-file-zero-values", 1, *baseline(1, validity=D(days=19)), zsk_for(False), pol_for(1, None, min_cycle_inception_length=D(0), max_cycle_inception_length=D(0), min_bundle_interval=D(0)),
             NOW, via_config=True)

    # B00. zero-length and inverted bundles: with every timing check off nothing about them is checked; with only the validity check on, a bundle of
    #      length zero is inside a declared [PT0S, P21D]
    for n in (1, 3):
        for kind_, dlt in (("zero-length", D(0)), ("inverted-by-a-second", D(seconds=-1)), ("inverted-by-a-day", D(days=-1))):
            for j in sorted({0, n - 1}):
                incs, exps = baseline(n, validity=D(days=19))
                exps[j] = incs[j] + dlt
                run_case("all-timing-checks-off-" + kind_, n, incs, exps, zsk_for(False), pol_for(n, set()), NOW, desc={"bundle": j, "flags_on": []})
        incs, exps = baseline(n, validity=D(days=19))
        exps[n - 1] = incs[n - 1]
        zsk0 = ksrxml.default_zsk_policy(min_validity=D(0), max_validity=D(days=21), min_overlap=D(days=9), max_overlap=D(days=12))
        run_case("zero-length-under-declared-minimum-PT0S", n, incs, exps, zsk0, pol_for(n, {"signature_validity_match_zsk_policy"}), NOW, desc={"flags_on": ["signature_validity_match_zsk_policy"]})

    # B. all 2^5 flag subsets on a reduced lattice (one rule violated at a time)
    for mask in range(32):
        flags = {f for j, f in enumerate(FLAGS) if mask >> j & 1}
        for rule in ["vmin", "omax", "imin", "cmax", "past", "ok", "gap0", "gap0eq"]:
            n = R.choice([2, 3, 9])
            zsk = zsk_for(False)
            incs, exps = baseline(n, validity=D(days=19))
            kw = pol_for(n, flags)
            now = NOW
            if rule == "vmin":
                exps[0] = incs[0] + zsk["min_validity"] - D(seconds=1)
            elif rule == "omax":
                exps[0] = incs[1] + zsk["max_overlap"] + D(seconds=1)
            elif rule == "imin":
                incs[1] = incs[0] + kw["min_bundle_interval"] - D(seconds=1)
                exps[1] = incs[1] + D(days=19)
            elif rule == "cmax":
                incs[-1] = incs[0] + kw["max_cycle_inception_length"] + D(seconds=1)
                exps[-1] = incs[-1] + D(days=19)
            elif rule == "past":
                now = exps[0] + D(seconds=1)
            elif rule in ("gap0", "gap0eq"):
                # back to back: the next bundle begins exactly when the previous one ends (overlap zero, below the declared minimum)
                if rule == "gap0eq":
                    zsk = zsk_for(True)
                    incs, exps = baseline(n, validity=D(days=21))
                j = R.randrange(1, n)
                shift = exps[j - 1] - incs[j]
                for q in range(j, n):
                    incs[q] += shift
                    exps[q] += shift
            run_case("flags-" + rule, n, incs, exps, zsk, kw, now, desc={"flags_on": sorted(flags), "rule": rule})

    # B2. the cycle length is the span from the first bundle's inception to the last bundle's (bundles in order of expiration), also when some bundle in between
    #     - or the last one - starts out of step (only the cycle rule switched on)
    for n in (2, 3, 5, 9):
        for which in ("last-starts-before-its-predecessor", "first-starts-after-its-successor", "middle-starts-before-the-first"):
            if which.startswith("middle") and n < 3:
                continue
            for d_ in (D(seconds=1), D(days=1), D(days=4)):
                incs, exps = baseline(n, validity=D(days=21))
                if which.startswith("last"):
                    incs[-1] = incs[-2] - d_
                elif which.startswith("first"):
                    incs[0] = incs[1] + d_
                else:
                    incs[n // 2] = incs[0] - d_
                span = incs[-1] - incs[0]
                widest = max(incs) - min(incs)
                for lo, hi in ((span, span), (widest, widest), (span - D(seconds=1), span + D(seconds=1)), (min(span, widest) + D(seconds=1), max(span, widest)),
                               (min(span, widest), max(span, widest) - D(seconds=1))):
                    if lo > hi or lo < D(0):
                        continue
                    kw = pol_for(n, {"check_cycle_length"}, min_cycle_inception_length=lo, max_cycle_inception_length=hi)
                    run_case("cycle-span-out-of-step-inceptions", n, incs, exps, zsk_for(False), kw, NOW, shuffle=R.random() < 0.3,
                             desc={"which": which, "span_first_to_last_s": span.total_seconds(), "widest_s": widest.total_seconds(), "bounds_s": [lo.total_seconds(), hi.total_seconds()]})

    # C. random timelines (varied validity per bundle, equal expirations, shuffled document order)
    for i in range(400 * SCALE):
        n = R.randrange(1, 10)
        eq = R.random() < 0.3
        zsk = zsk_for(eq)
        start = NOW + D(days=R.randrange(-30, 60), seconds=R.randrange(86400))
        incs, exps = [], []
        t = start
        for j in range(n):
            incs.append(t)
            v = R.choice([D(days=21), D(days=19), D(days=15), D(days=15, seconds=-1), D(days=21, seconds=1), D(days=R.randrange(10, 25))])
            exps.append(t + v)
            t = t + R.choice([D(days=10), D(days=10), D(days=9), D(days=11), D(days=9, seconds=-1), D(days=11, seconds=1), D(days=R.randrange(5, 15))])
        if n > 2 and R.random() < 0.15:
            j = R.randrange(1, n)
            exps[j] = exps[j - 1]            # equal expirations: order decided by inception / id
        flags = None if R.random() < 0.5 else {f for f in FLAGS if R.random() < 0.7}
        kw = pol_for(n, flags, eq, hz=R.choice([180, 180, 30, 1, 0, -5]))
        run_case("random", n, incs, exps, zsk, kw, NOW + D(days=R.randrange(-3, 3)), shuffle=R.random() < 0.5)
finally:
    vp.datetime = patch_dt

# D. horizon against the real clock, one-hour margins
real_now = dt.datetime.now(UTC)
for hz, margin_h, pastcase in [(180, 1, False), (180, -1, False), (30, 1, False), (30, -1, False), (180, 1, True), (180, -1, True)]:
    n = 1
    if pastcase:
        exp = real_now + D(hours=margin_h)           # +1h: not yet expired ; -1h: expired an hour ago
    else:
        exp = real_now + D(days=hz + 1) - D(hours=margin_h)  # +1h margin inside the horizon, -1h beyond
    inc = exp - D(days=21)
    zsk = zsk_for(True)
    pol = RequestPolicy(validate_signatures=False, keys_match_zsk_policy=False, check_keys_match_ksk_operator_policy=False,
                        signature_algorithms_match_zsk_policy=False, num_bundles=1, signature_horizon_days=hz,
                        check_cycle_length=False, check_bundle_intervals=False)
    xml = ksrxml.render_ksr({"id": "r", "serial": 1, "domain": ".", "zsk": zsk,
                             "bundles": [{"id": "b", "inc": inc, "exp": exp, "keys": [DUMMY], "sigs": [DUMMY_SIG]}]})
    r = vlib.run_impl(validate_request, request_from_xml(xml), pol)
    want = (margin_h > 0)
    if (r[0] == "ok") != want:
        rep.violation("impl-vs-spec", f"real clock: horizon {hz} d, margin {margin_h} h, past={pastcase}: implementation {'accepts' if r[0] == 'ok' else 'rejects'}",
                      {"real_clock": True, "hz": hz, "margin_h": margin_h, "past": pastcase, "exp": ksrxml.fmt_dt(exp)})
    hist["real-clock"] = hist.get("real-clock", 0) + 1

ok_build, log = vlib.make(["Checks/C05Check.vo"])
runner = vlib.CaseRun("C05", "main", "From KV Require Import Base.Prelude Base.Exn Model.Data Model.KsrPolicy Checks.C05Check.", "case", "check", shard=250)
results = runner.run(cases) if ok_build else [-1] * len(cases)
vlib.classify(rep, props, meta, results, cases, runner, "Checks.C05Check.check (timing_checks vs validate_request)")
runner.cleanup()

rep.coverage.update({
    "evaluations": len(cases) + hist.get("real-clock", 0),
    "distinct_nontrivial": len(set(cases)),
    "rule": "KSR XML documents (1..9 bundles, dummy key/signature, non-timing checks disabled) parsed by request_from_xml and judged by "
            "validate_request with the clock pinned; lattice {b-1d,b-1s,b,b+1s,b+1d} around every bound of every rule at bundle positions, "
            "min<max and min==max policies, all 32 flag subsets on a reduced lattice, random timelines with per-bundle validity, equal expirations "
            "and shuffled document order; plus 6 runs against the real clock with one-hour margins. distinct_nontrivial = distinct (clock, policy, request, verdict) tuples; every case reaches the timing rules",
    "distribution": hist, "accepted": accepts, "rejected": len(cases) - accepts,
    "samples": [m["desc"] for m in meta[:: max(1, len(meta) // 6)]][:6],
})
rep.assumptions += ["clock pinned by replacing kskm.ksr.verify_policy.datetime (real clock exercised separately)",
                    "pydantic/fromisoformat parsing of the generated documents is Python's"]
sys.exit(rep.finish())
