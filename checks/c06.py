"""C06 - KSR key, algorithm and header rules accept exactly the documented region."""
import argparse
import copy
import datetime as dt
import sys

import vlib

ap = argparse.ArgumentParser()
ap.add_argument("--tier")
ap.add_argument("--replay")
args = ap.parse_args()
TIER = vlib.tier(args.tier)
SCALE = 1 if TIER == "quick" else 6

vlib.setup_impl_path()
rep = vlib.Report("C06", TIER)
vlib.regen("Wire", "Skeleton")
props = vlib.build_props("C06")
rep.add_props(props)

import ksrxml
import reqcases
import skrgen
from kskm.common.config_misc import RequestPolicy
from kskm.common.data import AlgorithmDNSSEC, AlgorithmPolicyRSA
from kskm.ksr.load import request_from_xml

D = dt.timedelta
R = vlib.rng("C06")
NOW = reqcases.NOW
P = ksrxml.POOL

RSA_A = [ksrxml.mk_key(P.rsa(1024, 65537, i), alg=8) for i in range(4)]
RSA_E3 = [ksrxml.mk_key(P.rsa(1024, 3, i), alg=8) for i in range(2)]
RSA_512 = [ksrxml.mk_key(P.rsa(1024, 65537, 10 + i), alg=10) for i in range(2)]
RSA_BIGE = [ksrxml.mk_key(P.rsa(1024, 2**32 + 1, i), alg=8) for i in range(1)]
RSA_2048 = [ksrxml.mk_key(P.rsa(2048, 65537, 0), alg=8)]
EC256 = [ksrxml.mk_key(P.ec(256, i), alg=13) for i in range(2)] + [ksrxml.mk_key(P.ec_tag_carry(13, 256), alg=13)] + [ksrxml.mk_key(P.ec_x_first(13, 4), alg=13)]     # [3]: X begins with 0x04     # [2]: the final carry of its key tag sum is discarded (RFC 4034 App. B)
EC384 = [ksrxml.mk_key(P.ec(384, i), alg=14) for i in range(1)] + [ksrxml.mk_key(P.ec_x_first(14, 4), alg=14)]
P.save()

ALG_OF = {"a": ("RSA", 8, 1024, 65537), "e3": ("RSA", 8, 1024, 3), "s512": ("RSA", 10, 1024, 65537), "bige": ("RSA", 8, 1024, 2**32 + 1),
          "2048": ("RSA", 8, 2048, 65537), "ec256": ("ECDSA", 13, 256), "ec384": ("ECDSA", 14, 384)}
POOLS = {"a": RSA_A, "e3": RSA_E3, "s512": RSA_512, "bige": RSA_BIGE, "2048": RSA_2048, "ec256": EC256, "ec384": EC384}
NAMES = {8: "RSASHA256", 10: "RSASHA512", 13: "ECDSAP256SHA256", 14: "ECDSAP384SHA384", 5: "RSASHA1", 15: "ED25519"}


def build(n, slot_kinds, declared=None, sign=False):
    """slot_kinds: per slot a list of (family, index). -> request dict"""
    slots = [[POOLS[f][i % len(POOLS[f])] for f, i in sk] for sk in slot_kinds]
    fams = sorted({f for sk in slot_kinds for f, _ in sk})
    algs = [ALG_OF[f] for f in (declared if declared is not None else fams)]
    zskpol = ksrxml.default_zsk_policy(algs=algs)
    return skrgen.honest_request(f"req-{R.randrange(10**6)}", NOW + D(days=5), n, slots, zskpol, sign=sign), fams


def policy(n, req, fams, **over):
    allids = {k["id"] for b in req["bundles"] for k in b["keys"]}
    algnums = sorted({ALG_OF[f][1] for f in fams})
    kw = dict(num_bundles=n, validate_signatures=False, check_cycle_length=False, check_bundle_intervals=False,
              check_bundle_overlap=False, signature_validity_match_zsk_policy=False, signature_check_expire_horizon=False,
              approved_algorithms=[NAMES[a] for a in algnums], rsa_approved_key_sizes=sorted({ALG_OF[f][2] for f in fams if ALG_OF[f][0] == "RSA"}) or [2048],
              rsa_approved_exponents=sorted({ALG_OF[f][3] for f in fams if ALG_OF[f][0] == "RSA"}) or [65537],
              num_keys_per_bundle=[len(b["keys"]) for b in req["bundles"]], num_different_keys_in_all_bundles=len(allids),
              enable_unsupported_ecdsa=any(f.startswith("ec") for f in fams))
    kw.update(over)
    return RequestPolicy(**kw)


C = reqcases.Cases()
try:
    shapes = [
        (1, [[("a", 0)]]),
        (2, [[("a", 0), ("a", 1)], [("a", 1)]]),
        (3, [[("a", 0), ("a", 1)], [("a", 1)], [("a", 1), ("a", 2)]]),
        (3, [[("a", 0), ("e3", 0)], [("e3", 0)], [("e3", 0), ("s512", 0)]]),
        (2, [[("ec256", 0), ("a", 0)], [("ec256", 0), ("ec384", 0)]]),
        (2, [[("2048", 0)], [("2048", 0), ("bige", 0)]]),
        (3, [[("ec256", 0), ("ec256", 1)], [("ec256", 1)], [("ec256", 1), ("a", 3)]]),
        (2, [[("ec256", 2), ("a", 0)], [("ec256", 2)]]),
        (2, [[("ec256", 3), ("ec384", 1)], [("ec256", 3)]]),
    ]
    for rnd in range(SCALE):
        for n, sk in shapes:
            req, fams = build(n, sk)
            pol = policy(n, req, fams)
            xml = ksrxml.render_ksr(req)
            C.judge("honest", pol, xml=xml, desc={"shape": str(sk)})
            # every subset of the five enable flags on the honest request
            for mask in (range(32) if rnd == 0 and n <= 2 else R.sample(range(32), 4)):
                fl = dict(keys_match_zsk_policy=bool(mask & 1), rsa_exponent_match_zsk_policy=bool(mask & 2),
                          signature_algorithms_match_zsk_policy=bool(mask & 4), check_keys_match_ksk_operator_policy=bool(mask & 8),
                          enable_unsupported_ecdsa=bool(mask & 16))
                C.judge("honest-flags", policy(n, req, fams, **fl), xml=xml, desc={"flags": fl})

            def corrupt(name, mutate, pol_over=None, flagsets=((),), built=None):
                for fs in flagsets:
                    r2 = copy.deepcopy({**req, "bundles": [dict(b, keys=[dict(k) for k in b["keys"]]) for b in req["bundles"]]})
                    r2["zsk"] = dict(req["zsk"], algs=list(req["zsk"]["algs"]))
                    mutate(r2)
                    over = dict(pol_over or {})
                    over.update(dict(fs))
                    C.judge(name, policy(n, req, fams, **over), xml=ksrxml.render_ksr(r2), desc={"flags_off": [k for k, _ in fs], **({"configured_list": pol_over.get("acceptable_domains")} if built else {})}, built=built)

            bi = R.randrange(n)
            OFF_K = (("keys_match_zsk_policy", False),)
            corrupt("flags-257", lambda r: r["bundles"][bi]["keys"][0].update(flags=257), flagsets=((), OFF_K))
            corrupt("tag+1", lambda r: r["bundles"][bi]["keys"][0].update(tag=(r["bundles"][bi]["keys"][0]["tag"] + 1) % 65536), flagsets=((), OFF_K))
            corrupt("tag-1", lambda r: r["bundles"][bi]["keys"][0].update(tag=(r["bundles"][bi]["keys"][0]["tag"] - 1) % 65536))
            corrupt("domain", lambda r: r.update(domain="example"))
            corrupt("domain-acceptable-list", lambda r: r.update(domain="example"), pol_over={"acceptable_domains": [".", "example"]})
            # membership in the list, not resemblance: parts, parents and joins of the listed names are other domains
            for lst, dom in [(["example.org."], "org."), (["example.org."], "."), (["example.org."], "example.org"), (["example.org."], "ample.org."), (["example.", "test."], "."),
                             (["example.", "test."], "est."), (["example.", "test."], "example., test."), (["example.", "test."], "test."), (["example.org."], "example.org."),
                             (["example.org.", "."], "."), (["a", "b"], "ab"), (["a", "b"], "a, b"), (["."], ".."),
                             ([".", "Example."], "Example."), ([".", "Example."], "example."), (["EXAMPLE.ORG."], "example.org."), (["example.org."], "EXAMPLE.ORG."), (["Example."], "Example.")]:
                corrupt("domain-list-membership", lambda r, dom=dom: r.update(domain=dom), pol_over={"acceptable_domains": lst}, built="accept" if dom in lst else "reject")
            if n >= 2:
                # identifier reuse: another key under the identifier of an earlier key, in a later bundle
                def reuse(r):
                    first = r["bundles"][0]["keys"][0]
                    other = dict(RSA_A[3], id=first["id"])
                    r["bundles"][-1]["keys"].append(other)
                corrupt("identifier-reuse-other-key", reuse, pol_over={"check_keys_match_ksk_operator_policy": False}, flagsets=((), OFF_K))

                # later occurrence of the same identifier + same public key with one altered field
                def later_field(field, val):
                    def f(r):
                        first = r["bundles"][0]["keys"][0]
                        tgt = [k for b in r["bundles"][1:] for k in b["keys"] if k["id"] == first["id"]]
                        if tgt:
                            tgt[0].update({field: val(first)})
                        else:
                            r["bundles"][-1]["keys"].append(dict(first, **{field: val(first)}))
                    return f
                corrupt("later-occurrence-flags", later_field("flags", lambda k: 257), pol_over={"check_keys_match_ksk_operator_policy": False})
                corrupt("later-occurrence-tag", later_field("tag", lambda k: (k["tag"] + 1) % 65536), pol_over={"check_keys_match_ksk_operator_policy": False})
                corrupt("later-occurrence-ttl", later_field("ttl", lambda k: k["ttl"] + 1), pol_over={"check_keys_match_ksk_operator_policy": False})
                corrupt("duplicate-bundle-id", lambda r: r["bundles"][-1].update(id=r["bundles"][0]["id"]))
                if len(req["bundles"]) >= 3:
                    corrupt("duplicate-bundle-id-not-adjacent", lambda r: r["bundles"][2].update(id=r["bundles"][0]["id"]))
                    corrupt("duplicate-bundle-id-adjacent", lambda r: r["bundles"][1].update(id=r["bundles"][0]["id"]))
            # declared size / exponent mismatch
            rsa_fams = [f for f in fams if ALG_OF[f][0] == "RSA"]
            if rsa_fams:
                f0 = rsa_fams[0]

                def decl(size=None, exp=None, alg=None):
                    def f(r):
                        a = list(ALG_OF[f0])
                        if size: a[2] = size
                        if exp: a[3] = exp
                        if alg: a[1] = alg
                        r["zsk"]["algs"] = [tuple(a) if x == ALG_OF[f0] else x for x in r["zsk"]["algs"]]
                    return f
                big = {"rsa_approved_key_sizes": [1024, 2048, 4096], "rsa_approved_exponents": [3, 65537, 2**32 + 1, 17]}
                WAIVE = (("rsa_exponent_match_zsk_policy", False),)
                corrupt("declared-size-mismatch", decl(size=2048 if ALG_OF[f0][2] != 2048 else 1024), pol_over=big, flagsets=((), WAIVE, OFF_K))
                corrupt("declared-size-and-exponent-mismatch", decl(size=2048 if ALG_OF[f0][2] != 2048 else 1024, exp=17), pol_over=big, flagsets=((), WAIVE))
                corrupt("declared-exponent-mismatch", decl(exp=17), pol_over=big, flagsets=((), WAIVE, OFF_K))
                corrupt("declared-alg-mismatch", decl(alg=10 if ALG_OF[f0][1] == 8 else 8), pol_over={**big, "approved_algorithms": ["RSASHA256", "RSASHA512"]})
                corrupt("size-not-approved", lambda r: None, pol_over={"rsa_approved_key_sizes": [4096]}, flagsets=((), (("signature_algorithms_match_zsk_policy", False),)))
                corrupt("exponent-not-approved", lambda r: None, pol_over={"rsa_approved_exponents": [17]}, flagsets=((), (("signature_algorithms_match_zsk_policy", False),)))
                corrupt("algorithm-not-approved", lambda r: None, pol_over={"approved_algorithms": ["ECDSAP256SHA256"]}, flagsets=((), (("signature_algorithms_match_zsk_policy", False),)))
                corrupt("declared-rsasha1-extra", lambda r: r["zsk"]["algs"].append(("RSA", 5, 1024, 65537)),
                        pol_over={"approved_algorithms": ["RSASHA256", "RSASHA512", "RSASHA1"]}, flagsets=((), (("signature_algorithms_match_zsk_policy", False),)))
                corrupt("declared-ed25519-extra", lambda r: r["zsk"]["algs"].append(("EdDSA", 15, 256)),
                        flagsets=((), (("signature_algorithms_match_zsk_policy", False),), (("enable_unsupported_edwards_dsa", True), ("signature_algorithms_match_zsk_policy", False))))
            if any(f.startswith("ec") for f in fams):
                corrupt("ecdsa-not-enabled", lambda r: None, pol_over={"enable_unsupported_ecdsa": False},
                        flagsets=((), (("signature_algorithms_match_zsk_policy", False),), OFF_K))

                def ecsize(r):
                    r["zsk"]["algs"] = [("ECDSA", a[1], 384 if a[2] == 256 else 256) if a[0] == "ECDSA" else a for a in r["zsk"]["algs"]]
                corrupt("declared-ecdsa-size-mismatch", ecsize)
            else:
                corrupt("declared-ecdsa-extra-not-enabled", lambda r: r["zsk"]["algs"].append(("ECDSA", 13, 256)),
                        pol_over={"approved_algorithms": ["RSASHA256", "RSASHA512", "ECDSAP256SHA256"]},
                        flagsets=((), (("signature_algorithms_match_zsk_policy", False),), (("enable_unsupported_ecdsa", True),)))
            # per-slot counts / distinct keys
            counts = [len(b["keys"]) for b in req["bundles"]]
            c2 = list(counts); c2[bi] += 1
            OFF_C = (("check_keys_match_ksk_operator_policy", False),)
            corrupt("slot-count", lambda r: None, pol_over={"num_keys_per_bundle": c2}, flagsets=((), OFF_C))
            corrupt("slot-list-length", lambda r: None, pol_over={"num_keys_per_bundle": counts + [1]}, flagsets=((), OFF_C))
            nd = len({k["id"] for b in req["bundles"] for k in b["keys"]})
            corrupt("distinct-keys", lambda r: None, pol_over={"num_different_keys_in_all_bundles": nd + R.choice([-1, 1])}, flagsets=((), OFF_C))
            corrupt("bundle-count", lambda r: None, pol_over={"num_bundles": n + 1})

    # declared algorithm numbers that the XML loader cannot express (1..16): judged on directly built objects
    req0, fams0 = build(1, [[("a", 0)]])
    base = request_from_xml(ksrxml.render_ksr(req0))
    for a in AlgorithmDNSSEC:
        for extra in (True, False):
            pols = set(base.zsk_policy.algorithms) if extra else set()
            pols.add(AlgorithmPolicyRSA(bits=1024, exponent=65537, algorithm=a))
            robj = base.model_copy(update={"zsk_policy": base.zsk_policy.replace(algorithms=pols)})
            for fl in (True, False):
                pol = policy(1, req0, fams0, signature_algorithms_match_zsk_policy=fl, keys_match_zsk_policy=extra,
                             enable_unsupported_ecdsa=R.random() < 0.5, approved_algorithms=[x.name for x in AlgorithmDNSSEC])
                C.judge("declared-algorithm-number", pol, req=robj, desc={"algorithm": a.value, "with_rsasha256": extra, "alg_flag": fl})
    # PoP on for a few honest / corrupted requests: no masking across rule families
    for n, sk in shapes[:4]:
        req, fams = build(n, sk, sign=True)
        C.judge("honest-signed", policy(n, req, fams, validate_signatures=True), xml=ksrxml.render_ksr(req))
        r2 = copy.deepcopy({**req, "bundles": [dict(b, keys=[dict(k) for k in b["keys"]]) for b in req["bundles"]]})
        r2["bundles"][0]["keys"][0]["flags"] = 257
        C.judge("signed-flags-257", policy(n, req, fams, validate_signatures=True), xml=ksrxml.render_ksr(r2), strict=False)
finally:
    C.close()

meta = C.run(rep, props, "C06")
rep.coverage.update({
    "evaluations": len(C.cases) + C.load_rejects, "distinct_nontrivial": len(set(C.cases)),
    "rule": "KSR documents built from RSA-1024/2048 keys (e = 3, 65537, 2^32+1), RSASHA256/512 and ECDSA P-256/P-384 keys; honest requests under "
            "all 32 subsets of five enable flags; one single-field corruption at a time (flags, tag+-1, identifier reuse, later occurrence with altered "
            "flags/tag/TTL, declared size/exponent/algorithm mismatch with and without waiver, approved lists, ECDSA/EdDSA enabling, per-slot counts, "
            "distinct keys, domain, duplicate bundle id), algorithm numbers 1..16 on directly built objects. distinct_nontrivial = distinct cases that "
            "passed the XML loader and were judged by validate_request",
    "distribution": C.hist, "accepted": C.accepts, "rejected": len(C.cases) - C.accepts, "rejected_by_loader": C.load_rejects,
    "samples": [m["desc"] | {"kind": m["kind"]} for m in meta[:: max(1, len(meta) // 6)]][:6],
    "interpretation": "an identifier 'denotes the same key' = identical key record (tag, TTL, flags, protocol, algorithm, public key), as the documented KSR-BUNDLE-KEYS rule says",
})
rep.assumptions += ["theorem hypotheses: policy entries have the class of their algorithm family (what the loader produces); base64 decoding is a function of the text"]
sys.exit(rep.finish())
