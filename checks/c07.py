"""C07 - Proof of possession: every ZSK of an accepted KSR signed the whole key set."""
import argparse
import copy
import datetime as dt
import itertools
import struct
import sys

import vlib

ap = argparse.ArgumentParser()
ap.add_argument("--tier")
ap.add_argument("--replay")
args = ap.parse_args()
TIER = vlib.tier(args.tier)
SCALE = 1 if TIER == "quick" else 6

vlib.setup_impl_path()
rep = vlib.Report("C07", TIER)
vlib.regen("Wire", "Skeleton")
props = vlib.build_props("C07")
rep.add_props(props)

import ksrxml
import reqcases
from kskm.common.config_misc import RequestPolicy

D = dt.timedelta
R = vlib.rng("C07")
NOW = reqcases.NOW
P = ksrxml.POOL
KEYS = ([ksrxml.mk_key(P.rsa(1024, 65537, 20 + i), alg=8) for i in range(6)] + [ksrxml.mk_key(P.rsa(1024, 3, 20 + i), alg=10) for i in range(2)]
        + [ksrxml.mk_key(P.ec(256, 20 + i), alg=13) for i in range(6)] + [ksrxml.mk_key(P.ec(384, 20 + i), alg=14) for i in range(3)]
        + [ksrxml.mk_key(P.rsa(2048, 65537, 20), alg=8)])
P.save()


def declared(keys):
    out = []
    for k in keys:
        if k["alg"] in (8, 10):
            nums = k["priv"].public_key().public_numbers()
            a = ("RSA", k["alg"], nums.n.bit_length(), nums.e)
        else:
            a = ("ECDSA", k["alg"], 256 if k["alg"] == 13 else 384)
        if a not in out:
            out.append(a)
    return out


def request(bundles_keys, sigmaker=None):
    """bundles_keys: list of key lists. sigmaker(keys, signer, inc, exp) -> sig dict"""
    bundles = []
    allk = [k for ks in bundles_keys for k in ks]
    for j, keys in enumerate(bundles_keys):
        inc = NOW + D(days=5 + 10 * j)
        exp = inc + D(days=21)
        mk = sigmaker or (lambda keys, k, inc, exp: ksrxml.mk_sig(k, keys, inc, exp))
        bundles.append({"id": f"b{j}-{R.randrange(10**6)}", "inc": inc, "exp": exp, "keys": list(keys), "sigs": [mk(keys, k, inc, exp) for k in keys]})
    return {"id": "pop-req", "serial": 3, "domain": ".", "zsk": ksrxml.default_zsk_policy(algs=declared(allk)), "bundles": bundles}


def pol(n, keys_match=False):
    return RequestPolicy(num_bundles=n, validate_signatures=True, keys_match_zsk_policy=keys_match, check_cycle_length=False,
                         check_bundle_intervals=False, check_bundle_overlap=False, signature_validity_match_zsk_policy=False,
                         signature_check_expire_horizon=False, signature_algorithms_match_zsk_policy=False,
                         check_keys_match_ksk_operator_policy=False, enable_unsupported_ecdsa=True)


def clone(req):
    return {**req, "bundles": [dict(b, keys=[dict(k) for k in b["keys"]], sigs=[dict(s) for s in b["sigs"]]) for b in req["bundles"]]}


def flip(b: bytes, bit: int) -> bytes:
    ba = bytearray(b)
    ba[bit // 8] ^= 1 << (bit % 8)
    return bytes(ba)


C = reqcases.Cases()
try:
    for rnd in range(10 * SCALE):
        nk = 1 + rnd % 3
        keys = R.sample(KEYS, nk)
        req = request([keys])
        C.judge("honest", pol(1, keys_match=rnd % 2 == 0), xml=ksrxml.render_ksr(req), desc={"algs": [k["alg"] for k in keys]}, built="accept")
        # every document order of keys and signatures
        b = req["bundles"][0]
        perms = list(itertools.permutations(range(nk)))
        for pk in perms:
            for ps in (perms if nk <= 2 or TIER == "thorough" else R.sample(perms, 2)):
                r2 = clone(req)
                r2["bundles"][0]["keys"] = [b["keys"][i] for i in pk]
                r2["bundles"][0]["sigs"] = [b["sigs"][i] for i in ps]
                C.judge("document-order", pol(1), xml=ksrxml.render_ksr(r2), desc={"key_order": pk, "sig_order": ps})
        # dishonest generators: signature over the signer's own key only / over document order instead of canonical order
        if nk >= 2:
            def own_only(keys, k, inc, exp):
                return ksrxml.mk_sig(k, [k], inc, exp)
            C.judge("signed-own-key-only", pol(1), xml=ksrxml.render_ksr(request([keys], own_only)))

            def doc_order(keys, k, inc, exp):
                s = {"id": k["id"], "ttl": k["ttl"], "alg": k["alg"], "labels": 0, "ottl": k["ttl"], "exp": exp, "inc": inc, "tag": k["tag"], "name": "."}
                hdr = struct.pack("!HBBIIIH", 48, s["alg"], 0, s["ottl"], ksrxml.ts(exp), ksrxml.ts(inc), s["tag"]) + b"\x00"
                rds = [ksrxml.rdata(x["flags"], 3, x["alg"], x["pub"]) for x in keys]
                if rds == sorted(rds):
                    rds = list(reversed(rds))
                body = b"".join(b"\x00" + struct.pack("!HHIH", 48, 1, s["ottl"], len(rd)) + rd for rd in rds)
                s["data"] = ksrxml.sign_raw(k["priv"], k["alg"], hdr + body)
                return s
            C.judge("signed-non-canonical-order", pol(1), xml=ksrxml.render_ksr(request([keys], doc_order)))
        # single-field tamperings of signed fields
        si = R.randrange(nk)
        for field, fn in [("ottl", lambda s: s["ottl"] + 1), ("ottl", lambda s: 0), ("ottl", lambda s: s["ttl"] + 7), ("labels", lambda s: 1), ("labels", lambda s: 128),
                          ("exp", lambda s: s["exp"] + D(seconds=1)), ("inc", lambda s: s["inc"] - D(seconds=1)),
                          ("tag", lambda s: (s["tag"] + 1) % 65536), ("alg", lambda s: 10 if s["alg"] == 8 else (8 if s["alg"] == 10 else (14 if s["alg"] == 13 else 13)))]:
            r2 = clone(req)
            s = r2["bundles"][0]["sigs"][si]
            s[field] = fn(s)
            C.judge("tamper-signed-field-" + field, pol(1), xml=ksrxml.render_ksr(r2), desc={"field": field})
        # a proof of possession honestly made with Original TTL 0 (a legal TTL) next to a non-zero <TTL>: what was signed is what is stated
        zreq = request([keys], sigmaker=lambda ks_, k, inc, exp: ksrxml.mk_sig(k, ks_, inc, exp, ottl=0, ttl=k["ttl"]))
        C.judge("original-ttl-zero-honest", pol(1), xml=ksrxml.render_ksr(zreq), desc={"original_ttl": 0, "ttl": keys[0]["ttl"]})
        # TTLs over their whole range (RFC 2181: 0 .. 2^31-1), stated and signed
        for t_ in (0, 1, 2**31 - 2, 2**31 - 1):
            tk = [dict(k, ttl=t_) for k in keys]
            C.judge("honest-ttl-range", pol(1), xml=ksrxml.render_ksr(request([tk])), desc={"ttl": t_}, built="accept")
        # fields that are not part of the signed data: still accepted
        r2 = clone(req); r2["bundles"][0]["sigs"][si]["ttl"] += 7
        C.judge("unsigned-field-sig-ttl", pol(1), xml=ksrxml.render_ksr(r2))
        r2 = clone(req); r2["bundles"][0]["keys"][si]["ttl"] += 7
        C.judge("unsigned-field-key-ttl", pol(1), xml=ksrxml.render_ksr(r2))
        # single-bit changes of signature and keys
        sd = b["sigs"][si]["data"]
        for bit in R.sample(range(len(sd) * 8), 3 if TIER == "quick" else 12):
            r2 = clone(req); r2["bundles"][0]["sigs"][si]["data"] = flip(sd, bit)
            C.judge("flip-signature-bit", pol(1), xml=ksrxml.render_ksr(r2), desc={"bit": bit}, strict=False)
        ki = R.randrange(nk)
        kp = b["keys"][ki]["pub"]
        for bit in R.sample(range(len(kp) * 8), 3 if TIER == "quick" else 12):
            r2 = clone(req); r2["bundles"][0]["keys"][ki]["pub"] = flip(kp, bit)
            C.judge("flip-key-bit", pol(1), xml=ksrxml.render_ksr(r2), desc={"bit": bit, "key": ki}, strict=False)
        r2 = clone(req); r2["bundles"][0]["keys"][ki]["flags"] = 257
        C.judge("flip-key-flags", pol(1), xml=ksrxml.render_ksr(r2), strict=False)
        for pv in (2, 0, 255):
            r2 = clone(req); r2["bundles"][0]["keys"][ki]["proto"] = pv
            C.judge("key-protocol-changed-after-signing", pol(1), xml=ksrxml.render_ksr(r2), desc={"protocol": pv}, built="reject")
        # the children of a bundle in any document order, Key and Signature elements interleaved
        if nk >= 2:
            tree_ = ksrxml.ksr_tree(req)
            reqel = tree_[2][0]
            bidx = next(i_ for i_, c_ in enumerate(reqel[2]) if c_[0] == "RequestBundle")
            bname, battrs, bch = reqel[2][bidx]
            fixed_ = [c_ for c_ in bch if c_[0] not in ("Key", "Signature")]
            ks_, ss_ = [c_ for c_ in bch if c_[0] == "Key"], [c_ for c_ in bch if c_[0] == "Signature"]
            for variant_ in range(3):
                mixed = []
                a_, b_ = list(ks_), list(ss_)
                R.shuffle(a_); R.shuffle(b_)
                if variant_ == 0:
                    for x_, y_ in zip(a_, b_):
                        mixed += [x_, y_]
                elif variant_ == 1:
                    mixed = b_[:1] + a_ + b_[1:]
                else:
                    mixed = a_[:1] + b_ + a_[1:]
                ch2 = list(reqel[2]); ch2[bidx] = (bname, battrs, fixed_[:2] + mixed + fixed_[2:])
                doc_ = ksrxml.render_tree((tree_[0], tree_[1], [(reqel[0], reqel[1], ch2)]))
                C.judge("document-order-interleaved", pol(1), xml=doc_, desc={"layout": variant_}, built="accept")
        # omission / misattribution
        if nk >= 2:
            r2 = clone(req); del r2["bundles"][0]["sigs"][si]
            C.judge("omit-one-signature", pol(1), xml=ksrxml.render_ksr(r2))
            r2 = clone(req); r2["bundles"][0]["sigs"][si]["id"] = b["keys"][(si + 1) % nk]["id"]
            C.judge("misattributed-signature", pol(1), xml=ksrxml.render_ksr(r2), strict=False)
            r2 = clone(req); r2["bundles"][0]["keys"][1]["id"] = b["keys"][0]["id"]
            C.judge("duplicate-key-identifier", pol(1), xml=ksrxml.render_ksr(r2), strict=False)
        extra = [k for k in KEYS if k not in keys][0]
        r2 = clone(req); r2["bundles"][0]["keys"].append(dict(extra))
        C.judge("extra-key-added-after-signing", pol(1), xml=ksrxml.render_ksr(r2), strict=False)
        r2 = clone(req); r2["bundles"][0]["sigs"][si]["id"] = "ZSK-nobody"
        C.judge("signature-names-no-key", pol(1), xml=ksrxml.render_ksr(r2), strict=False)
        # signature made by a key that is not in the bundle, attributed to a key of the bundle
        r2 = clone(req)
        forged = ksrxml.mk_sig(dict(extra, id=b["keys"][si]["id"], tag=b["keys"][si]["tag"], alg=b["keys"][si]["alg"]) if extra["alg"] == b["keys"][si]["alg"] else dict(extra), b["keys"], b["inc"], b["exp"])
        forged["id"] = b["keys"][si]["id"]
        r2["bundles"][0]["sigs"][si] = forged
        C.judge("signature-by-foreign-key", pol(1), xml=ksrxml.render_ksr(r2), strict=False)
        # PoP switched off: nothing of the above matters
        r2 = clone(req); r2["bundles"][0]["sigs"][si]["data"] = flip(sd, 5)
        C.judge("flag-off", pol(1).replace(validate_signatures=False), xml=ksrxml.render_ksr(r2))
    # two keys with the SAME key tag: identity must go by identifier, not by tag
    ca, cb = P.ec_tag_collision(13)
    P.save()
    ka, kb = ksrxml.mk_key(ca, alg=13, ident="ZSK-coll-a"), ksrxml.mk_key(cb, alg=13, ident="ZSK-coll-b")
    assert ka["tag"] == kb["tag"] and ka["pub"] != kb["pub"]
    req = request([[ka, kb]])
    C.judge("equal-key-tags-honest", pol(1), xml=ksrxml.render_ksr(req), desc={"tag": ka["tag"]})
    for drop in (0, 1):
        r2 = clone(req); del r2["bundles"][0]["sigs"][drop]
        C.judge("equal-key-tags-omit-one-signature", pol(1), xml=ksrxml.render_ksr(r2), desc={"tag": ka["tag"], "dropped": drop})
        r2 = clone(req); r2["bundles"][0]["sigs"][drop]["id"] = r2["bundles"][0]["sigs"][1 - drop]["id"]
        C.judge("equal-key-tags-misattributed", pol(1), xml=ksrxml.render_ksr(r2), desc={"tag": ka["tag"]}, strict=False)
    # multi-bundle requests: one bad bundle among good ones
    for rnd in range(4 * SCALE):
        ks = [R.sample(KEYS, R.randrange(1, 4)) for _ in range(3)]
        req = request(ks)
        C.judge("honest-3-bundles", pol(3), xml=ksrxml.render_ksr(req))
        r2 = clone(req); j = R.randrange(3)
        r2["bundles"][j]["sigs"][0]["data"] = flip(r2["bundles"][j]["sigs"][0]["data"], R.randrange(64))
        C.judge("one-bad-bundle", pol(3), xml=ksrxml.render_ksr(r2), desc={"bundle": j}, strict=False)
    # a later bundle lists somebody else's key under an identifier an earlier bundle used, "proved" by the earlier key:
    # possession must be judged against the key that is listed, in every bundle (no carry-over between bundles or requests)
    for rnd in range(3 * SCALE):
        same_alg = [k for k in KEYS if k["alg"] == KEYS[0]["alg"]]
        a, v = R.sample(same_alg, 2)
        v2 = dict(v, id=a["id"])                                      # the other key, relabelled with a's identifier
        good = request([[a], [v2]])                                   # honest: each bundle signed by the key it lists
        C.judge("identifier-reused-honestly", pol(2), xml=ksrxml.render_ksr(good), strict=False)
        forged = request([[a], [v2]], sigmaker=lambda keys, k, inc, exp: ksrxml.mk_sig(dict(k, priv=a["priv"]), keys, inc, exp))
        C.judge("other-key-under-known-identifier-signed-by-first-key", pol(2), xml=ksrxml.render_ksr(forged), strict=False)
        C.judge("other-key-under-known-identifier-keys-match-on", pol(2, keys_match=True), xml=ksrxml.render_ksr(forged), strict=False)
    # a ZSK whose key tag sum carries a second time (RFC 4034 App. B discards that carry): honestly tagged and signed, alone and with others
    ztc = ksrxml.mk_key(P.ec_tag_carry(13, 256), alg=13, ident="ZSK-tag-carry")
    P.save()
    C.judge("honest-key-tag-double-carry", pol(1), xml=ksrxml.render_ksr(request([[ztc]])), desc={"tag": ztc["tag"]}, built="accept")
    C.judge("honest-key-tag-double-carry", pol(1, keys_match=True), xml=ksrxml.render_ksr(request([[ztc]])), desc={"tag": ztc["tag"], "keys_match_zsk_policy": True}, built="accept")
    oth_ = R.choice([x for x in KEYS if x["alg"] == 13])
    C.judge("honest-key-tag-double-carry", pol(2, keys_match=True), xml=ksrxml.render_ksr(request([[ztc, oth_], [oth_, ztc]])), desc={"tag": ztc["tag"], "keys_match_zsk_policy": True}, built="accept")
    r2 = clone(request([[ztc]])); r2["bundles"][0]["keys"][0]["tag"] = (ztc["tag"] + 1) % 65536; r2["bundles"][0]["sigs"][0]["tag"] = (ztc["tag"] + 1) % 65536
    C.judge("key-tag-double-carry-off-by-one", pol(1), xml=ksrxml.render_ksr(r2), desc={"tag": ztc["tag"]}, built="reject")
    # honest bundles with ECDSA keys of awkward byte patterns: X starting with 0x04 (looks like a SEC1 prefix), 0x00, the DER length octet
    ODD = [ksrxml.mk_key(P.ec_x_first(13, 4), alg=13, ident="ZSK-x04-256"), ksrxml.mk_key(P.ec_x_first(14, 4), alg=14, ident="ZSK-x04-384"),
           ksrxml.mk_key(P.ec_x_first(13, 0), alg=13, ident="ZSK-x00-256"), ksrxml.mk_key(P.ec_x_lenlike(13), alg=13, ident="ZSK-x3f-256")]
    P.save()
    for k in ODD:
        C.judge("honest-odd-ec-key", pol(1), xml=ksrxml.render_ksr(request([[k]])), desc={"x0": hex(k["pub"][0])})
        other = R.choice([x for x in KEYS if x["alg"] == k["alg"]])
        C.judge("honest-odd-ec-key", pol(2), xml=ksrxml.render_ksr(request([[k, other], [other, k]])), desc={"x0": hex(k["pub"][0])})
        r2 = clone(request([[k]])); r2["bundles"][0]["keys"][0]["pub"] = flip(k["pub"], 9)
        C.judge("odd-ec-key-flipped", pol(1), xml=ksrxml.render_ksr(r2), strict=False)
    # the signed inception/expiration are the instants the document states (UTC), wherever the validating process runs and
    # whether or not the timestamps carry an offset (the archived KSRs write none)
    for tz, suffix in ((None, ""), ("VRF+05", ""), ("VRF-05:30", ""), ("VRF+05", "+00:00"), ("VRF-11", "Z")):
        with ksrxml.process_zone(tz, suffix):
            for rnd in range(2):
                keys = R.sample(KEYS, 1 + rnd)
                req = request([keys])
                C.judge("honest-zone", pol(1), xml=ksrxml.render_ksr(req), desc={"TZ": tz or "(unset)", "timestamps": suffix or "no offset"}, built="accept")
                r2 = clone(req); r2["bundles"][0]["sigs"][0]["exp"] = r2["bundles"][0]["sigs"][0]["exp"] + D(hours=5)
                C.judge("zone-expiration-shifted", pol(1), xml=ksrxml.render_ksr(r2), desc={"TZ": tz or "(unset)"}, built="reject")
    # key material is octets: a modulus that ends in 0x09 / 0x0b / 0x0d (or an ECDSA key whose octets begin or end with such values) is an ordinary key
    WS = [ksrxml.mk_key(P.rsa_ending(0x0D), alg=8, ident="ZSK-mod-ends-0d"), ksrxml.mk_key(P.rsa_ending(0x09), alg=8, ident="ZSK-mod-ends-09"),
          ksrxml.mk_key(P.rsa_ending(0x0B), alg=10, ident="ZSK-mod-ends-0b")]
    P.save()
    for k in WS:
        other = R.choice([x for x in KEYS if x["alg"] == k["alg"]])
        C.judge("honest-key-ending-in-whitespace-octet", pol(1), xml=ksrxml.render_ksr(request([[k]])), desc={"last_octet": hex(k["pub"][-1])}, built="accept")
        C.judge("honest-key-ending-in-whitespace-octet", pol(2), xml=ksrxml.render_ksr(request([[k, other], [other, k]])), desc={"last_octet": hex(k["pub"][-1])}, built="accept")
        r2 = clone(request([[k]])); r2["bundles"][0]["keys"][0]["pub"] = k["pub"][:-1]
        C.judge("whitespace-octet-dropped-from-key", pol(1), xml=ksrxml.render_ksr(r2), strict=False, built="reject")
    # canonical order is the order of the RDATA octets, not of the base64 texts that carry them: pairs on which the two orders disagree
    import base64 as _b64
    pool_ = [k for k in KEYS if k["alg"] == 13]
    extra_ = []
    while len([1 for a in pool_ + extra_ for b in pool_ + extra_ if a is not b and (a["pub"] < b["pub"]) != (_b64.b64encode(a["pub"]) < _b64.b64encode(b["pub"]))]) < 6 and len(extra_) < 40:
        from cryptography.hazmat.primitives.asymmetric import ec as _ec
        extra_.append(ksrxml.mk_key(_ec.generate_private_key(_ec.SECP256R1()), alg=13))
    allk_ = pool_ + extra_
    pairs_ = [(a, b) for a in allk_ for b in allk_ if a["pub"] < b["pub"] and (_b64.b64encode(a["pub"]) > _b64.b64encode(b["pub"]))]
    for a, b in pairs_[: (4 if TIER == "quick" else 20)]:
        C.judge("honest-octet-order-differs-from-base64-order", pol(1), xml=ksrxml.render_ksr(request([[b, a]])), desc={"tags": [a["tag"], b["tag"]]}, built="accept")
        third_ = R.choice(pool_)
        C.judge("honest-octet-order-differs-from-base64-order", pol(1), xml=ksrxml.render_ksr(request([[a, b] + ([third_] if third_ is not a and third_ is not b else [])])), built="accept")
    # a signature is the octet string, not the integer: an RSA signature that starts with a zero octet, handed in with that octet dropped
    # (or padded with one more), is a changed signature
    rk = [k for k in KEYS if k["alg"] in (8, 10)][:3]
    nshort = 0
    for k in rk:
        for s_ in range(4000):
            inc = NOW + D(days=5, seconds=s_)
            sg = ksrxml.mk_sig(k, [k], inc, inc + D(days=21))
            if sg["data"][0] != 0:
                continue
            base = {"id": "pop-short", "serial": 3, "domain": ".", "zsk": ksrxml.default_zsk_policy(algs=declared([k])),
                    "bundles": [{"id": f"bz-{s_}", "inc": inc, "exp": inc + D(days=21), "keys": [k], "sigs": [sg]}]}
            C.judge("honest-leading-zero-signature", pol(1), xml=ksrxml.render_ksr(base), desc={"shift_s": s_})
            r2 = clone(base); r2["bundles"][0]["sigs"][0]["data"] = sg["data"].lstrip(b"\0")
            C.judge("signature-leading-zero-dropped", pol(1), xml=ksrxml.render_ksr(r2), desc={"len": len(r2["bundles"][0]["sigs"][0]["data"])})
            r3 = clone(base); r3["bundles"][0]["sigs"][0]["data"] = b"\0" + sg["data"]
            C.judge("signature-zero-prepended", pol(1), xml=ksrxml.render_ksr(r3), desc={"len": len(sg["data"]) + 1})
            nshort += 1
            break
finally:
    C.close()

meta = C.run(rep, props, "C07", shard=40)
rep.coverage.update({
    "evaluations": len(C.cases) + C.load_rejects, "distinct_nontrivial": len(set(C.cases)),
    "rule": "bundles of 1..3 RSA-1024/2048 (e=3, 65537; SHA-256/512) and ECDSA P-256/P-384 keys signed by a reference signer; every document order of "
            "keys and signatures; dishonest signers (own key only, non-canonical order, foreign key); single-field tamperings of every signed field; "
            "single-bit flips of signatures and keys; omitted / misattributed signatures, duplicate identifiers, keys added after signing; controls on "
            "unsigned fields and with the check switched off. The model receives the crypto library's verdict for the reference signature data only. "
            "distinct_nontrivial = distinct cases reaching validate_request",
    "distribution": C.hist, "accepted": C.accepts, "rejected": len(C.cases) - C.accepts, "rejected_by_loader": C.load_rejects,
    "samples": [m["desc"] | {"kind": m["kind"]} for m in meta[:: max(1, len(meta) // 6)]][:6],
})
rep.assumptions += ["'changing any bit leads to rejection' rests on the unforgeability of RSA/ECDSA: measured on the implementation, not provable",
                    "verify oracle = cryptography's verdict on (bundle key named by the signature, reference RFC 4034 signature data, signature)"]
sys.exit(rep.finish())
