"""C08 - A KSR is processed only if it chains to the previous SKR and that SKR is ours."""
import argparse
import base64
import copy
import datetime as dt
import os
import sys
import tempfile
import types

import vlib
from kgen import coq_reqpolicy, coq_request, coq_response
from vlib import txt

ap = argparse.ArgumentParser()
ap.add_argument("--tier")
ap.add_argument("--replay")
args = ap.parse_args()
TIER = vlib.tier(args.tier)
SCALE = 1 if TIER == "quick" else 8

vlib.setup_impl_path()
rep = vlib.Report("C08", TIER)
vlib.regen("Skeleton")
props = vlib.build_props("C08")
rep.add_props(props)

import ksrxml
import skrgen
from kskm.common.config_misc import RequestPolicy, ResponsePolicy
from kskm.signer.policy import check_skr_and_ksr
from kskm.skr.load import load_skr

D = dt.timedelta
UTC = dt.timezone.utc
R = vlib.rng("C08")
KSKS = {"ksk_current": skrgen.ksk("Kcur", 0), "ksk_next": skrgen.ksk("Knext", 1), "foreign": skrgen.ksk("Kcur", 7)}
ZSKS = [skrgen.zsk(i) for i in range(5)]
ksrxml.POOL.save()
T0 = dt.datetime(2026, 1, 1, tzinfo=UTC)


class FakeModule:
    """Stands in for KSKM_P11Module at the find_key_by_label level (the PKCS#11 layer itself is C15)."""

    def __init__(self, table):
        self.table = table      # label -> ('found', pubtxt|None) | ('dup',) ; absent -> not found

    def find_key_by_label(self, label, key_class, hash_using_hsm=None):
        e = self.table.get(label)
        if e is None:
            return None
        if e[0] == "dup":
            raise RuntimeError(f"More than one (2) keys with label {label!r} found in slot 0")
        return types.SimpleNamespace(label=label, public_key=e[1])


def coq_token(table):
    if table is None:
        return "None"
    rows = []
    for label, e in table.items():
        if e[0] == "dup":
            rows.append(f"({txt(label)}, Raise 2)")
        elif e[1] is None:
            rows.append(f"({txt(label)}, OK (Some None))")
        else:
            rows.append(f"({txt(label)}, OK (Some (Some {txt(e[1].decode())})))")
    return "(Some [" + ";".join(rows) + "])"


def spec(pol, ksr, skr, table):
    """Independent transcription of the property text -> accept?"""
    if ksr["id"] == skr["id"]:
        return False
    if {b["id"] for b in ksr["bundles"]} & {b["id"] for b in skr["bundles"]}:
        return False
    lastb, first = skr["bundles"][-1], ksr["bundles"][0]
    rec = lambda k: (k["id"], k["tag"], k["ttl"], k["flags"], k.get("proto", 3), k["alg"], k["pub"])
    if pol.check_chain_keys and not {rec(k) for k in first["keys"]} <= {rec(k) for k in lastb["keys"]}:
        return False
    if pol.check_chain_overlap:
        ov = lastb["exp"] - first["inc"]
        if not (ksr["zsk"]["min_overlap"] <= ov <= ksr["zsk"]["max_overlap"]):
            return False
    if table is not None and pol.check_chain_keys_in_hsm:
        if not lastb["sigs"]:
            return False
        for s in lastb["sigs"]:
            e = table.get(s["id"])
            if e is None or e[0] != "found" or e[1] is None:
                return False
            key = [k for k in lastb["keys"] if k["id"] == s["id"]]
            if not key or base64.b64encode(key[0]["pub"]) != e[1]:
                return False
    return True


SCHEMA1 = {i: {"publish": ["ksk_current"], "sign": ["ksk_current"], "revoke": []} for i in range(1, 10)}
SCHEMA2 = {i: {"publish": ["ksk_current", "ksk_next"], "sign": ["ksk_current", "ksk_next"], "revoke": []} for i in range(1, 10)}
SCHEMA_FOREIGN = {i: {"publish": ["foreign"], "sign": ["foreign"], "revoke": []} for i in range(1, 10)}


def prev_skr(n, schema, zskpol):
    zs = [[ZSKS[0], ZSKS[1]]] + [[ZSKS[1]]] * (n - 2) + [[ZSKS[1], ZSKS[2]]] if n >= 2 else [[ZSKS[1], ZSKS[2]]]
    req = skrgen.honest_request("prev-req", T0, n, zs, zskpol, sign=False)
    return skrgen.simulate_skr(req, schema, KSKS, ksrxml.default_zsk_policy())


cases, meta, hist = [], [], {}
accepts = 0


def run_pair(kind, ksr, skr, pol, table, strict=True, desc=None, layout="single"):
    global accepts
    kreq, kresp = skrgen.k_request(ksr), skrgen.k_response(skr)
    if table is None:
        mods = None
    elif layout == "second":          # an HSM without the key is configured first, the key lives on the second one
        mods = [FakeModule({}), FakeModule(table)]
    elif layout == "split":           # the keys are spread over two HSMs, an empty one in between
        items = list(table.items())
        mods = [FakeModule(dict(items[::2])), FakeModule({}), FakeModule(dict(items[1::2]))]
    else:
        mods = [FakeModule(table)]
    if len(cases) % 4 == 3:
        with vlib.debug_logging():              # every fourth pair is judged with debug logging on (the tools' --debug): same verdict
            r = vlib.run_impl(check_skr_and_ksr, kreq, kresp, pol, mods)
    else:
        r = vlib.run_impl(check_skr_and_ksr, kreq, kresp, pol, mods)
    acc = r[0] == "ok"
    accepts += acc
    want = spec(pol, ksr, skr, table)
    cases.append(f"({coq_reqpolicy(pol)}, {coq_request(kreq, with_pub=False)}, {coq_response(kresp, with_pub=False)}, {coq_token(table)}, "
                 f"{vlib.coq_bool(strict)}, {'OK tt' if acc else f'Raise {r[1]}'})")
    d = {"kind": kind, "impl": "accept" if acc else r[2], "spec": "accept" if want else "reject",
         "flags": [pol.check_chain_keys, pol.check_chain_keys_in_hsm, pol.check_chain_overlap],
         "ksr_first_inc": ksrxml.fmt_dt(ksr["bundles"][0]["inc"]), "skr_last_exp": ksrxml.fmt_dt(skr["bundles"][-1]["exp"]),
         "first_keys": [(k["id"], k["ttl"]) for k in ksr["bundles"][0]["keys"]], "token": {k: (v[0], None if len(v) < 2 or v[1] is None else v[1][:16].decode()) for k, v in (table or {}).items()} if table is not None else None}
    if desc:
        d.update(desc)
    meta.append({"kind": kind, "desc": d, "spec_ok": acc == want, "key": None,
                 "spec_msg": f"implementation {'accepts' if acc else 'refuses (' + r[2] + ')'} but the documented chain rules say {'accept' if want else 'refuse'}"})
    hist[kind] = hist.get(kind, 0) + 1


def successor(skr, zskpol, n=3, overlap=D(days=11), first_keys=None, rid="next-req"):
    lastb = skr["bundles"][-1]
    start = lastb["exp"] - overlap
    pub = [k for k in lastb["keys"] if k["flags"] == 256]
    fk = first_keys if first_keys is not None else pub
    zs = [fk] + [[fk[-1]]] * (n - 1)
    return skrgen.honest_request(rid, start, n, zs, zskpol, sign=False)


def token_for(skr, mode="right"):
    lastb = skr["bundles"][-1]
    t = {}
    for s in lastb["sigs"]:
        key = [k for k in lastb["keys"] if k["id"] == s["id"]][0]
        t[s["id"]] = ("found", base64.b64encode(key["pub"]))
    if mode == "other" and t:
        lab = sorted(t)[0]
        t[lab] = ("found", base64.b64encode(KSKS["foreign"]["pub"] if t[lab][1] != base64.b64encode(KSKS["foreign"]["pub"]) else KSKS["ksk_next"]["pub"]))
    elif mode == "absent" and t:
        del t[sorted(t)[0]]
    elif mode == "nopub" and t:
        t[sorted(t)[0]] = ("found", None)
    elif mode == "dup" and t:
        t[sorted(t)[0]] = ("dup",)
    return t


for rnd in range(12 * SCALE):
    eq = rnd % 3 == 0
    zskpol = ksrxml.default_zsk_policy(min_overlap=D(days=11) if eq else D(days=9), max_overlap=D(days=11) if eq else D(days=12))
    n_prev = R.choice([1, 2, 3, 9])
    schema = R.choice([SCHEMA1, SCHEMA1, SCHEMA2])
    skr = prev_skr(n_prev, schema, zskpol)
    lastb = skr["bundles"][-1]
    pub = [k for k in lastb["keys"] if k["flags"] == 256]

    def pol(flags=None):
        f = flags if flags is not None else (True, True, True)
        return RequestPolicy(check_chain_keys=f[0], check_chain_keys_in_hsm=f[1], check_chain_overlap=f[2])

    # honest successors (keys as published), every flag subset, with and without token
    for fl in [(a, b, c) for a in (True, False) for b in (True, False) for c in (True, False)]:
        run_pair("honest", successor(skr, zskpol), skr, pol(fl), token_for(skr) if R.random() < 0.8 else None)
    for lay in ("second", "split"):
        run_pair("honest-several-hsms", successor(skr, zskpol), skr, pol(), token_for(skr), desc={"hsm_layout": lay}, layout=lay)
        run_pair("token-absent-several-hsms", successor(skr, zskpol), skr, pol(), token_for(skr, "absent"), desc={"hsm_layout": lay}, layout=lay)
    # replayed ids
    k = successor(skr, zskpol, rid=skr["id"])
    run_pair("replayed-request-id", k, skr, pol(), token_for(skr))
    def fresh_bundle_ids(q):
        return dict(q, bundles=[dict(b, id=f"fresh-{R.randrange(10**9)}-{j}") for j, b in enumerate(q["bundles"])])
    run_pair("replayed-request-id-fresh-bundle-ids", fresh_bundle_ids(successor(skr, zskpol, rid=skr["id"])), skr, pol(), token_for(skr))
    for ser in (0, 2, 10**6):
        run_pair("replayed-request-id-other-serial", dict(fresh_bundle_ids(successor(skr, zskpol, rid=skr["id"])), serial=ser), skr, pol(), token_for(skr))
    run_pair("same-serial-other-id", dict(successor(skr, zskpol), serial=skr["serial"]), skr, pol(), token_for(skr))
    k = successor(skr, zskpol)
    k["bundles"][R.randrange(len(k["bundles"]))]["id"] = skr["bundles"][R.randrange(n_prev)]["id"]
    run_pair("replayed-bundle-id", k, skr, pol(), token_for(skr))
    # first-bundle key sets: equal / subset / superset / disjoint / same identifier different key / TTL differs
    other = dict(ZSKS[3])
    sameid = dict(ZSKS[4], id=pub[0]["id"])
    for name, fk in [("equal", pub), ("subset", pub[:1]), ("superset", pub + [dict(other, ttl=pub[0]["ttl"])]),
                     ("disjoint", [other]), ("same-id-different-key", [sameid] + pub[1:]),
                     ("ttl-differs", [dict(pub[0], ttl=3600)] + pub[1:]),
                     ("flags-differ", [dict(pub[0], flags=257)] + pub[1:]), ("tag-differs", [dict(pub[0], tag=(pub[0]["tag"] + 1) % 65536)] + pub[1:])]:
        for fl in [(True, True, True), (False, True, True)]:
            run_pair("keys-" + name, successor(skr, zskpol, first_keys=fk), skr, pol(fl), token_for(skr))
    # overlap lattice around both bounds
    for b in (zskpol["min_overlap"], zskpol["max_overlap"]):
        for delta in [D(days=-1), D(seconds=-1), D(0), D(seconds=1), D(days=1)]:
            fl = (True, True, True) if R.random() < 0.7 else (True, True, False)
            run_pair("overlap", successor(skr, zskpol, overlap=b + delta), skr, pol(fl), token_for(skr), desc={"bound": str(b), "delta_s": delta.total_seconds()})
    # a gap is not an overlap: the next cycle starting as long AFTER the previous expiry as an acceptable overlap would start before it
    for gap in (zskpol["min_overlap"], zskpol["max_overlap"], (zskpol["min_overlap"] + zskpol["max_overlap"]) / 2, D(seconds=1)):
        run_pair("gap-of-overlap-size", successor(skr, zskpol, overlap=-gap), skr, pol(), token_for(skr), desc={"gap_s": gap.total_seconds()})
    # the KSR's own bounds decide, not the SKR's
    k = successor(skr, ksrxml.default_zsk_policy(min_overlap=D(days=5), max_overlap=D(days=10)), overlap=D(days=10, seconds=1))
    run_pair("overlap-own-policy", k, skr, pol(), token_for(skr))
    k = successor(skr, ksrxml.default_zsk_policy(min_overlap=D(days=5), max_overlap=D(days=14)), overlap=D(days=13))
    run_pair("overlap-own-policy", k, skr, pol(), token_for(skr))
    # token variants
    for mode in ["right", "other", "absent", "nopub", "dup"]:
        for fl in [(True, True, True), (True, False, True)]:
            strict = not (mode in ("dup",) and len(lastb["sigs"]) > 1)
            run_pair("token-" + mode, successor(skr, zskpol), skr, pol(fl), token_for(skr, mode), strict=strict)
    # previous SKR re-signed by a foreign key under the same label / unsigned last bundle
    forged = prev_skr(n_prev, SCHEMA_FOREIGN, zskpol)
    honest_tok = {"Kcur": ("found", base64.b64encode(KSKS["ksk_current"]["pub"]))}
    run_pair("prev-signed-by-foreign-key-same-label", successor(forged, zskpol), forged, pol(), honest_tok)
    uns = copy.deepcopy({**skr, "bundles": [dict(b) for b in skr["bundles"]]})
    uns["bundles"][-1] = dict(uns["bundles"][-1], sigs=[])
    run_pair("prev-last-bundle-unsigned", successor(skr, zskpol), uns, pol(), token_for(skr))
    run_pair("prev-last-bundle-unsigned", successor(skr, zskpol), uns, pol((True, False, True)), token_for(skr))

# ---- a previous SKR whose own signatures do not verify, or whose bundle count is wrong, is refused by the loader
loader_cases = 0
tmpd = tempfile.mkdtemp(prefix="c08-", dir=str(vlib.WORK)) if (vlib.WORK.mkdir(exist_ok=True) or True) else None
for rnd in range(6 * SCALE):
    zskpol = ksrxml.default_zsk_policy()
    n = R.choice([2, 3, 9])
    skr = prev_skr(n, R.choice([SCHEMA1, SCHEMA2]), zskpol)
    variants = [("honest", skr, n, True)]
    bad = copy.deepcopy({**skr, "bundles": [dict(b, sigs=[dict(s) for s in b["sigs"]]) for b in skr["bundles"]]})
    j = R.randrange(n)
    sd = bytearray(bad["bundles"][j]["sigs"][0]["data"])
    sd[R.randrange(len(sd))] ^= 1 << R.randrange(8)
    bad["bundles"][j]["sigs"][0]["data"] = bytes(sd)
    variants.append(("bad-signature", bad, n, False))
    variants.append(("wrong-count", skr, n + R.choice([-1, 1]), False))
    extra = copy.deepcopy({**skr, "bundles": [dict(b) for b in skr["bundles"]]})
    extra["bundles"][j] = dict(extra["bundles"][j], keys=extra["bundles"][j]["keys"] + [dict(ZSKS[4], ttl=172800)])
    variants.append(("key-added-after-signing", extra, n, False))
    for what_, val_ in (("proto", 2), ("proto", 0), ("flags", 256), ("alg", 10)):
        chg = copy.deepcopy({**skr, "bundles": [dict(b, keys=[dict(k) for k in b["keys"]]) for b in skr["bundles"]]})
        jj = R.randrange(1, n) if n > 1 else 0
        ki = next(i_ for i_, k in enumerate(chg["bundles"][jj]["keys"]) if k["flags"] == 257)
        chg["bundles"][jj]["keys"][ki][what_] = val_
        variants.append((f"ksk-{what_}-changed-after-signing", chg, n, False))
    for name, doc, cnt, want in variants:
        path = os.path.join(tmpd, "prev.xml")
        with open(path, "w") as f:
            f.write(ksrxml.render_skr(doc))
        r = vlib.run_impl(load_skr, path, ResponsePolicy(num_bundles=cnt))
        loader_cases += 1
        hist["loader-" + name] = hist.get("loader-" + name, 0) + 1
        if (r[0] == "ok") != want:
            rep.violation("impl-vs-spec", f"load_skr on a previous SKR ({name}): {'loaded' if r[0] == 'ok' else 'refused ' + r[2]}, expected {'load' if want else 'refusal'}",
                          {"kind": name, "xml": ksrxml.render_skr(doc), "num_bundles": cnt})
# ---- file to verdict: a previous SKR that publishes, under the identifier of our KSK, both our key and a foreign key, and is signed by the foreign one.
# Whoever made those signatures is not on the token: the KSR must not be processed (refusing the file or refusing the chain are both fine).
from cryptography.hazmat.primitives.asymmetric import rsa as _rsa
for v in range(8 * SCALE):
    zskpol = ksrxml.default_zsk_policy()
    n = R.choice([2, 3])
    skr = prev_skr(n, SCHEMA1, zskpol)
    ours = KSKS["ksk_current"]
    foreign = ksrxml.mk_key(_rsa.generate_private_key(65537, 1024), alg=8, flags=257, ident=ours["id"])
    doc = copy.deepcopy({**skr, "bundles": [dict(b) for b in skr["bundles"]]})
    for b in doc["bundles"]:
        b["keys"] = list(b["keys"]) + [dict(foreign, ttl=172800)]
        b["sigs"] = [ksrxml.mk_sig(dict(foreign, ttl=172800), b["keys"], b["inc"], b["exp"])]
    path = os.path.join(tmpd, "prev-twin.xml")
    with open(path, "w") as f:
        f.write(ksrxml.render_skr(doc))
    loader_cases += 1
    hist["file-two-keys-one-identifier"] = hist.get("file-two-keys-one-identifier", 0) + 1
    r = vlib.run_impl(load_skr, path, ResponsePolicy(num_bundles=n))
    if r[0] != "ok":
        continue
    table = {ours["id"]: ("found", base64.b64encode(ours["pub"]))}
    r2 = vlib.run_impl(check_skr_and_ksr, skrgen.k_request(successor(skr, zskpol)), r[1], RequestPolicy(check_chain_keys=True, check_chain_keys_in_hsm=True, check_chain_overlap=True), [FakeModule(table)])
    if r2[0] == "ok":
        rep.violation("impl-vs-spec", f"a KSR was chained to a previous SKR whose last bundle is signed by a key that is not on the token (published under the identifier "
                      f"{ours['id']!r} next to our own key); the token holds only our key",
                      {"kind": "file-two-keys-one-identifier", "xml": ksrxml.render_skr(doc), "num_bundles": n, "token": {ours["id"]: base64.b64encode(ours["pub"]).decode()[:24]}})
# ---- file to verdict: the first bundle publishes a foreign key under our identifier (and is signed by it); the later bundles publish our key
# but their signatures are still the foreign key's. None of the later bundles verifies: the file is not ours.
for v in range(3 * SCALE):
    zskpol = ksrxml.default_zsk_policy()
    n = R.choice([2, 3, 9])
    fresh_id = f"Kcur-{v}-{R.randrange(10**6)}"          # an identifier this process has not met before
    ours = dict(KSKS["ksk_current"], id=fresh_id)
    skr = skrgen.simulate_skr(skrgen.honest_request("prev-req", T0, n, [[ZSKS[0], ZSKS[1]]] + [[ZSKS[1]]] * (n - 2) + [[ZSKS[1], ZSKS[2]]], zskpol, sign=False),
                              SCHEMA1, {**KSKS, "ksk_current": ours}, ksrxml.default_zsk_policy())
    foreign = dict(ksrxml.mk_key(_rsa.generate_private_key(65537, 1024), alg=8, flags=257, ident=fresh_id), ttl=172800)
    doc = copy.deepcopy({**skr, "bundles": [dict(b) for b in skr["bundles"]]})
    for j, b in enumerate(doc["bundles"]):
        zs = [k for k in b["keys"] if k["flags"] == 256]
        signed_set = zs + [foreign]
        b["keys"] = signed_set if j == 0 else zs + [dict(ours, ttl=172800)]
        sg = ksrxml.mk_sig(foreign, b["keys"], b["inc"], b["exp"])
        b["sigs"] = [sg]
    path = os.path.join(tmpd, "prev-swapped.xml")
    with open(path, "w") as f:
        f.write(ksrxml.render_skr(doc))
    loader_cases += 1
    hist["file-key-swapped-after-first-bundle"] = hist.get("file-key-swapped-after-first-bundle", 0) + 1
    r = vlib.run_impl(load_skr, path, ResponsePolicy(num_bundles=n))
    if r[0] == "ok":
        rep.violation("impl-vs-spec", f"a previous SKR whose bundles 2..{n} carry signatures that do not verify under the key they publish (made by a foreign key that bundle 1 "
                      f"published under the same identifier {ours['id']!r}) was loaded as valid",
                      {"kind": "file-key-swapped-after-first-bundle", "xml": ksrxml.render_skr(doc), "num_bundles": n})
    # and the honest file right after it, in the same process, is still ours
    with open(path, "w") as f:
        f.write(ksrxml.render_skr(skr))
    r = vlib.run_impl(load_skr, path, ResponsePolicy(num_bundles=n))
    loader_cases += 1
    if r[0] != "ok":
        rep.violation("impl-vs-spec", f"an honest previous SKR is refused ({r[2]}) after another file with a foreign key under the same identifier was read in this process",
                      {"kind": "honest-after-foreign", "xml": ksrxml.render_skr(skr), "num_bundles": n})
# ---- file to verdict under other process time zones and timestamp notations: a KSR file is read in the zone the host happens to be in;
# every notation ("...", "...Z", "...+00:00") means UTC, so the overlap verdict is the one the written instants give
from kskm.ksr import request_from_xml
from kskm.skr import response_from_xml
for v in range(2 * SCALE):
    zskpol = ksrxml.default_zsk_policy(min_overlap=D(days=9), max_overlap=D(days=12))
    skr = prev_skr(R.choice([2, 3]), SCHEMA1, zskpol)
    skr_xml = ksrxml.render_skr(skr)
    for tz in ("UTC", "JST-9", "PST8", "IST-5:30"):
        for suffix in ("", "Z", "+00:00"):
            for b in (zskpol["min_overlap"], zskpol["max_overlap"]):
                for delta in [D(hours=-10), D(seconds=-1), D(0), D(seconds=1), D(hours=10)]:
                    ov = b + delta
                    k = successor(skr, zskpol, overlap=ov)
                    want = zskpol["min_overlap"] <= ov <= zskpol["max_overlap"]
                    with ksrxml.process_zone(tz, suffix):
                        ksr_xml = ksrxml.render_ksr(k)
                        rq, rs = vlib.run_impl(request_from_xml, ksr_xml), vlib.run_impl(response_from_xml, skr_xml)
                        r = vlib.run_impl(check_skr_and_ksr, rq[1], rs[1], RequestPolicy(), [FakeModule(token_for(skr))]) if rq[0] == rs[0] == "ok" else ("exc", 0, "document not read: " + str((rq, rs))[:200])
                    loader_cases += 1
                    kind = "file-overlap-zone-" + tz
                    hist[kind] = hist.get(kind, 0) + 1
                    if (r[0] == "ok") != want:
                        rep.violation("impl-vs-spec", f"{kind}: a KSR file (timestamps written as ...{suffix!r}) whose first bundle starts {ov} before the previous SKR's last bundle ends "
                                      f"(declared bounds {zskpol['min_overlap']}..{zskpol['max_overlap']}) is {'accepted' if r[0] == 'ok' else 'refused (' + str(r[2]) + ')'} when the process runs with TZ={tz}",
                                      {"kind": kind, "TZ": tz, "ksr_xml": ksr_xml[:6000], "skr_xml": skr_xml[:6000], "overlap_s": ov.total_seconds()})
import shutil

shutil.rmtree(tmpd, ignore_errors=True)

ok_build, log = vlib.make(["Checks/C08Check.vo"])
runner = vlib.CaseRun("C08", "main", "From KV Require Import Base.Prelude Base.Exn Model.Data Model.KsrPolicy Model.Chain Checks.C08Check.", "case", "check", shard=40)
results = runner.run(cases) if ok_build else [-1] * len(cases)
vlib.classify(rep, props, meta, results, cases, runner, "Checks.C08Check.check (check_skr_and_ksr)")
runner.cleanup()
rep.coverage.update({
    "evaluations": len(cases) + loader_cases, "distinct_nontrivial": len(set(cases)),
    "rule": "(previous SKR, KSR) pairs: honest successors under all 8 chain-flag subsets with/without token, replayed request/bundle ids, first-bundle key "
            "sets equal/subset/superset/disjoint/same-identifier-different-key/TTL-flags-tag differing, overlaps on the lattice around both declared bounds "
            "(min<max and min==max), token holding right key/other key/no key/no public part/duplicates, previous SKR signed by a foreign key under the same "
            "label or unsigned; plus load_skr on honest / bad-signature / wrong-count / key-added previous SKR files. distinct_nontrivial = distinct (policy, pair, token, verdict)",
    "distribution": hist, "accepted": accepts, "rejected": len(cases) - accepts,
    "samples": [m["desc"] for m in meta[:: max(1, len(meta) // 6)]][:6],
    "observation": "check_chain_keys compares whole key records including TTL (documented 'must match'); a KSR whose ZSK TTL differs from the TTL the SKR republished it with is refused",
})
rep.assumptions += ["token abstracted at find_key_by_label level (PKCS#11 layer is C15)", "honest successor = first-bundle keys as published in the previous SKR"]
sys.exit(rep.finish())
