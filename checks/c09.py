"""C09 - A new SKR is released only if KSK publish and retire safety hold at the boundary."""
import argparse
import datetime as dt
import sys

import vlib
from kgen import coq_reqpolicy, coq_response

ap = argparse.ArgumentParser()
ap.add_argument("--tier")
ap.add_argument("--replay")
args = ap.parse_args()
TIER = vlib.tier(args.tier)
SCALE = 1 if TIER == "quick" else 8

vlib.setup_impl_path()
rep = vlib.Report("C09", TIER)
vlib.regen("Skeleton", "Pipeline", "Policy")
props = vlib.build_props("C09")
rep.add_props(props)

import yaml

import ksrxml
import skrgen
from kskm.common.config_misc import RequestPolicy
from kskm.signer.policy import check_last_skr_and_new_skr

D = dt.timedelta
UTC = dt.timezone.utc
R = vlib.rng("C09")

KSKS = {"ksk_current": skrgen.ksk("Kcur", 0), "ksk_next": skrgen.ksk("Knext", 1), "ksk_third": skrgen.ksk("Kthird", 2)}
ZSKS = [skrgen.zsk(i) for i in range(3)]
ksrxml.POOL.save()


def norm(v):
    return [] if v is None else ([v] if isinstance(v, str) else list(v))


cfg = yaml.safe_load(open(vlib.REPO / "config/ksrsigner.yaml"))
SCHEMAS = {}
for name, s in cfg["schemas"].items():
    SCHEMAS[name] = {int(k): {"publish": norm(v.get("publish")), "sign": norm(v.get("sign")), "revoke": norm(v.get("revoke"))} for k, v in s.items()}


def custom_schemas():
    """variants over 2..3 KSKs: drop a key at slot j, sign with unpublished key, third key."""
    out = {}
    for j in range(1, 10):
        s = {k: {kk: list(vv) for kk, vv in v.items()} for k, v in SCHEMAS["publish+"].items()}
        for i in range(j, 10):
            s[i]["publish"] = ["ksk_current"]          # ksk_next dropped from slot j on
        out[f"drop-next@{j}"] = s
        s = {k: {kk: list(vv) for kk, vv in v.items()} for k, v in SCHEMAS["rollover+"].items()}
        for i in range(j, 10):
            s[i]["publish"] = ["ksk_next"]             # ksk_current (which signed the previous SKR) dropped at j
        out[f"drop-cur@{j}"] = s
        s = {k: {kk: list(vv) for kk, vv in v.items()} for k, v in SCHEMAS["normal"].items()}
        s[j]["sign"] = ["ksk_current", "ksk_third"]    # co-signer never published before / dropped afterwards
        s[j]["publish"] = ["ksk_current"]
        out[f"cosign-third@{j}"] = s
        s = {k: {kk: list(vv) for kk, vv in v.items()} for k, v in SCHEMAS["revoke"].items()}
        s[j]["revoke"] = ["ksk_current"]
        s[j]["sign"] = ["ksk_current", "ksk_next"]
        s[j]["publish"] = ["ksk_next"]
        out[f"revoke-at@{j}"] = s
    # a KSK that signs un-revoked, is revoked in one slot, and is gone afterwards: the un-revoked signature of the early slots
    # still obliges it to stay published later (the exemption is per bundle, for the bundle in which the key is revoked)
    for j in range(2, 9):
        s = {}
        for i in range(1, 10):
            if i < j:
                s[i] = {"publish": ["ksk_current", "ksk_next"], "sign": ["ksk_current"], "revoke": []}
            elif i == j:
                s[i] = {"publish": ["ksk_next"], "sign": ["ksk_current", "ksk_next"], "revoke": ["ksk_current"]}
            else:
                s[i] = {"publish": ["ksk_next"], "sign": ["ksk_next"], "revoke": []}
        out[f"sign-revoke-drop@{j}"] = s
        s2 = {k: {kk: list(vv) for kk, vv in v.items()} for k, v in s.items()}
        for i in range(j + 1, 10):
            s2[i]["publish"] = ["ksk_current", "ksk_next"]          # stays published: fine
        out[f"sign-revoke-keep@{j}"] = s2
        s3 = {k: {kk: list(vv) for kk, vv in v.items()} for k, v in s.items()}
        if j + 1 <= 9:
            s3[j + 1]["publish"] = ["ksk_current", "ksk_next"]      # published once more, then dropped
        out[f"sign-revoke-publish-drop@{j}"] = s3
    # a key that signs slot j, is missing from slot j+1 only and is back afterwards: the very next bundle counts too
    for j in range(1, 9):
        s = {}
        for i in range(1, 10):
            s[i] = {"publish": ["ksk_current", "ksk_next"], "sign": ["ksk_current", "ksk_next"] if i == j else ["ksk_current"], "revoke": []}
        s[j + 1] = {"publish": ["ksk_current"], "sign": ["ksk_current"], "revoke": []}
        out[f"gap-next@{j}"] = s
    return out


ALL = dict(SCHEMAS)
ALL.update(custom_schemas())


def spec(pol, last, new):
    """Property text -> accept? (independent transcription)."""
    lastb = last["bundles"][-1]
    first = new["bundles"][0]
    ids = lambda b: {k["id"] for k in b["keys"]}
    if pol.check_keys_publish_safety:
        if not all(s["id"] in ids(lastb) for s in first["sigs"]):
            return False
        t = first["inc"] - new["ksk"]["publish_safety"]
        if not (lastb["inc"] <= t <= lastb["exp"]):
            return False
    if pol.check_keys_retire_safety:
        retire_at = first["inc"] + new["ksk"]["retire_safety"]
        for b in new["bundles"]:
            if b["inc"] <= retire_at and not all(s["id"] in ids(b) for s in lastb["sigs"]):
                return False
        for i, cur in enumerate(new["bundles"]):
            rev = {k["id"] for k in cur["keys"] if k["flags"] & 128}
            for b in new["bundles"][i + 1:]:
                for s in cur["sigs"]:
                    if s["id"] not in rev and s["id"] not in ids(b):
                        return False
    return True


def make_req(rid, start):
    zs = [[ZSKS[0], ZSKS[1]]] + [[ZSKS[1]]] * 7 + [[ZSKS[1], ZSKS[2]]]
    return skrgen.honest_request(rid, start, 9, zs, ksrxml.default_zsk_policy(), sign=False)


cases, meta, hist = [], [], {}
accepts = 0
T0 = dt.datetime(2026, 1, 1, tzinfo=UTC)
names = list(ALL)
pairs = [(a, b) for a in SCHEMAS for b in SCHEMAS] + [(a, b) for a in SCHEMAS for b in ALL if b not in SCHEMAS]
if TIER == "quick":
    must = [p for p in pairs if p[0] in ("normal", "publish+") and (p[1].startswith("sign-revoke") or p[1].startswith("gap-next"))]
    pairs = [p for p in pairs if p[1] in SCHEMAS] + must + R.sample([p for p in pairs if p[1] not in SCHEMAS and p not in must], 110)
_cache = {}


def simulated(name, rid, start, ksk_pol):
    key = (name, rid, start, tuple(sorted((k, str(v)) for k, v in ksk_pol.items() if k != "algs")))
    if key not in _cache:
        _cache[key] = skrgen.simulate_skr(make_req(rid, start), ALL[name], KSKS, ksk_pol)
    return _cache[key]


for (a, b) in pairs:
    base_pol = ksrxml.default_zsk_policy(publish_safety=D(days=10), retire_safety=D(days=10))
    last = simulated(a, "prev", T0, base_pol)
    lastb = last["bundles"][-1]
    variants = []
    # first inception from -1 to +2 cycles after the previous one; lattice around the decisive differences
    for cyc in ([1] if TIER == "quick" else [-1, 0, 1, 2]):
        variants.append((T0 + D(days=90 * cyc), D(days=10), D(days=10)))
    first_inc = T0 + D(days=90)
    for delta in [D(seconds=-1), D(0), D(seconds=1)] + ([D(days=-1), D(days=1)] if TIER != "quick" else []):
        variants.append((first_inc, first_inc - lastb["inc"] + delta, D(days=10)))     # publish point at last inception +- delta
        variants.append((first_inc, first_inc - lastb["exp"] + delta, D(days=10)))     # publish point at last expiration +- delta
        variants.append((first_inc, D(days=10), D(days=10 * R.randrange(0, 9)) + delta))  # retire boundary on a bundle inception
    if TIER == "quick":
        variants = variants[:1] + R.sample(variants[1:], 4)
    for (start, ps, rs) in variants:
        pol_new = ksrxml.default_zsk_policy(publish_safety=ps, retire_safety=rs)
        new = simulated(b, "new", start, pol_new)
        fl = R.random()
        if (b.startswith("sign-revoke") or b.startswith("gap-next")) and (start, ps, rs) == variants[0]:
            fl = 0.5                                     # both checks on for the plain-timing variant of these schemas
        pol = RequestPolicy(check_keys_publish_safety=fl < 0.8, check_keys_retire_safety=(0.1 < fl < 0.9) or fl > 0.95)
        kl, kn = skrgen.k_response(last), skrgen.k_response(new)
        if len(cases) % 4 == 3:
            with vlib.debug_logging():          # every fourth pair with debug logging on (the tools' --debug): same verdict
                r = vlib.run_impl(check_last_skr_and_new_skr, kl, kn, pol)
        else:
            r = vlib.run_impl(check_last_skr_and_new_skr, kl, kn, pol)
        acc = r[0] == "ok"
        accepts += acc
        want = spec(pol, last, new)
        cases.append(f"({coq_reqpolicy(pol)}, {coq_response(kl, with_txt=False, with_pub=False)}, {coq_response(kn, with_txt=False, with_pub=False)}, "
                     f"{'OK tt' if acc else f'Raise {r[1]}'})")
        meta.append({"kind": "schema-pair", "spec_ok": acc == want, "key": None,
                     "spec_msg": f"implementation {'releases' if acc else 'refuses (' + r[2] + ')'} but the documented rules say {'release' if want else 'refuse'}",
                     "desc": {"prev_schema": a, "new_schema": b, "first_inception": ksrxml.fmt_dt(start), "publish_safety": str(ps),
                              "retire_safety": str(rs), "flags": [pol.check_keys_publish_safety, pol.check_keys_retire_safety],
                              "impl": "release" if acc else r[2], "spec": "release" if want else "refuse"}})
        hist[("std" if b in SCHEMAS else b.split("@")[0])] = hist.get(("std" if b in SCHEMAS else b.split("@")[0]), 0) + 1

# ---- the SKR the tools themselves produce: the periods the safety checks read are the configured KSK policy's, publish and retire each its own
import ceremony
import emu
from kskm.misc.hsm import init_pkcs11_modules
from kskm.signer import create_skr


NOTATIONS = ["days", "weeks", "hours", "seconds", "days-hours", "minutes"]
NOTE_I = [0]


def tool_skr(req, schema, ps, rs):
    NOTE_I[0] += 1
    nt = NOTATIONS[NOTE_I[0] % len(NOTATIONS)]          # the operator may write a period in any ISO 8601 notation: P11D = P1W4D = PT264H
    cfg = ceremony.make_config({n: ceremony.ksk_def(k) for n, k in KSKS.items()}, {"s": {i: {k: v for k, v in a.items() if v} for i, a in schema.items()}},
                               ksk_policy={"publish_safety": ksrxml.fmt_dur_as(ps, nt), "retire_safety": ksrxml.fmt_dur_as(rs, nt), "max_signature_validity": "P21D",
                                           "min_signature_validity": "P21D", "max_validity_overlap": "P16D", "min_validity_overlap": "P9D", "ttl": 172800})
    emu.install(ceremony.token_with(list(KSKS.values())))
    p11 = init_pkcs11_modules(cfg)
    return create_skr(skrgen.k_request(req), cfg.get_schema("s"), p11, cfg)


DROP = {}
for j in range(2, 7):
    sj = {}
    for i in range(1, 10):
        sj[i] = ({"publish": ["ksk_current", "ksk_next"], "sign": ["ksk_next"], "revoke": []} if i < j
                 else {"publish": ["ksk_next"], "sign": ["ksk_next"], "revoke": []})
    DROP[j] = sj
ALL.update({f"tool-drop@{j}": v for j, v in DROP.items()})
for j, sj in DROP.items():
    for ps, rs in ([(D(days=10), D(days=10)), (D(days=10), D(days=30)), (D(days=10), D(0)), (D(days=0), D(days=20)), (D(days=10), D(days=10 * (j - 1))),
                    (D(days=10), D(days=10 * (j - 1)) - D(seconds=1)), (D(days=10), D(days=10 * (j - 2)))] if TIER != "quick" or j in (2, 4) else [(D(days=10), D(days=30))]):
        base_pol = ksrxml.default_zsk_policy(publish_safety=D(days=10), retire_safety=D(days=10))
        last = simulated("rollover+" if False else "publish+", "prev", T0, base_pol)
        start = T0 + D(days=90)
        req = make_req("new", start)
        rt = vlib.run_impl(tool_skr, req, sj, ps, rs)
        if rt[0] != "ok":
            rep.violation("impl-vs-spec", f"create_skr failed ({rt[2]}) on a two-KSK schema", {"schema": f"tool-drop@{j}"})
            continue
        new_tool = rt[1]
        new_ref = skrgen.simulate_skr(req, sj, KSKS, ksrxml.default_zsk_policy(publish_safety=ps, retire_safety=rs))
        pol = RequestPolicy()
        kl = skrgen.k_response(last)
        r = vlib.run_impl(check_last_skr_and_new_skr, kl, new_tool, pol)
        acc = r[0] == "ok"
        accepts += acc
        want = spec(pol, last, new_ref)
        cases.append(f"({coq_reqpolicy(pol)}, {coq_response(kl, with_txt=False, with_pub=False)}, {coq_response(new_tool, with_txt=False, with_pub=False)}, "
                     f"{'OK tt' if acc else f'Raise {r[1]}'})")
        meta.append({"kind": "tool-made-skr", "spec_ok": acc == want, "key": None,
                     "spec_msg": f"SKR made by create_skr under publish_safety={ps}, retire_safety={rs}: the safety checks {'release' if acc else 'refuse (' + r[2] + ')'} it "
                                 f"but the documented rules with the configured periods say {'release' if want else 'refuse'}",
                     "desc": {"prev_schema": "publish+", "new_schema": f"drops ksk_current at slot {j}", "publish_safety": str(ps), "retire_safety": str(rs),
                              "impl": "release" if acc else r[2], "spec": "release" if want else "refuse"}})
        hist["tool-made-skr"] = hist.get("tool-made-skr", 0) + 1

# ---- the previous SKR as a file: its last bundle is signed by two KSKs that share their 16-bit key tag (key tags are checksums, not identifiers);
#      each of the two signers has to stay published for the retire-safety period, whichever the new SKR withdraws
from kskm.skr import response_from_xml as _skr_from_xml
_kta, _ktb = ksrxml.POOL.rsa_tag_collision(8, 257, 1024)
TWK = {"tw1": ksrxml.mk_key(_kta, alg=8, flags=257, ident="Ktwin1"), "tw2": ksrxml.mk_key(_ktb, alg=8, flags=257, ident="Ktwin2")}
ksrxml.POOL.save()
_bp = ksrxml.default_zsk_policy(publish_safety=D(days=10), retire_safety=D(days=10))
_both = {i: {"publish": ["tw1", "tw2"], "sign": ["tw1", "tw2"], "revoke": []} for i in range(1, 10)}
_prev_tw = skrgen.simulate_skr(make_req("prev-twins", T0), _both, TWK, _bp)
_prev_loaded = vlib.run_impl(_skr_from_xml, ksrxml.render_skr(_prev_tw))
if _prev_loaded[0] != "ok":
    rep.violation("impl-vs-spec", f"a previous SKR double-signed by two KSKs with equal key tags does not load: {_prev_loaded[2]}", {"kind": "equal-ksk-tags"})
else:
    for keep, want_ok in ((["tw1", "tw2"], True), (["tw1"], False), (["tw2"], False)):
        for first_only in (False, True):
            sch = {i: {"publish": list(keep) if not (first_only and i > 1) else ["tw1", "tw2"], "sign": list(keep), "revoke": []} for i in range(1, 10)}
            if first_only and want_ok:
                continue
            new_tw = skrgen.simulate_skr(make_req("new-twins", T0 + D(days=90)), sch, TWK, _bp)
            r_ = vlib.run_impl(check_last_skr_and_new_skr, _prev_loaded[1], skrgen.k_response(new_tw), RequestPolicy())
            hist["equal-ksk-tags"] = hist.get("equal-ksk-tags", 0) + 1
            if (r_[0] == "ok") != want_ok:
                rep.violation("impl-vs-spec", f"previous SKR (read from its file) signed by Ktwin1 and Ktwin2, which share key tag {TWK['tw1']['tag']}; new SKR publishes {keep}"
                              f"{' in its first bundle' if first_only else ''}: {'released' if r_[0] == 'ok' else 'refused (' + r_[2] + ')'}, the safety rules say "
                              f"{'release' if want_ok else 'refuse (a signer of the last bundle is withdrawn at once)'}", {"kind": "equal-ksk-tags", "keeps": keep})

# ---- the previous SKR (file) publishes, next to the signing key, another key whose identifier is the next KSK's label plus a blank: that is not the next KSK,
#      which therefore was not pre-published when it starts signing
_pad_key = dict(KSKS["ksk_third"], id=KSKS["ksk_next"]["id"] + " ")
for pad_name, pubkey, want_ok in (("identifier-with-trailing-blank", _pad_key, False), ("control-real-next-ksk", KSKS["ksk_next"], True)):
    _prev_p = skrgen.simulate_skr(make_req("prev-pad", T0), {i: {"publish": ["ksk_current", "other"], "sign": ["ksk_current"], "revoke": []} for i in range(1, 10)},
                                  {**KSKS, "other": pubkey}, _bp)
    _pl = vlib.run_impl(_skr_from_xml, ksrxml.render_skr(_prev_p))
    hist["padded-identifier"] = hist.get("padded-identifier", 0) + 1
    if _pl[0] != "ok":
        if want_ok:
            rep.violation("impl-vs-spec", f"previous SKR does not load: {_pl[2]}", {"kind": "padded-identifier"})
        continue
    _new_p = skrgen.simulate_skr(make_req("new-pad", T0 + D(days=90)), {i: {"publish": ["ksk_current", "ksk_next"], "sign": ["ksk_current", "ksk_next"], "revoke": []} for i in range(1, 10)}, KSKS, _bp)
    r_ = vlib.run_impl(check_last_skr_and_new_skr, _pl[1], skrgen.k_response(_new_p), RequestPolicy())
    if (r_[0] == "ok") != want_ok:
        rep.violation("impl-vs-spec", f"{pad_name}: previous SKR (read from its file) publishes {pubkey['id']!r}; the new SKR signs with {KSKS['ksk_next']['id']!r} from its first bundle: "
                      f"{'released' if r_[0] == 'ok' else 'refused (' + r_[2] + ')'}, the safety rules say {'release' if want_ok else 'refuse (that key was never pre-published)'}",
                      {"kind": "padded-identifier", "published": pubkey["id"]})

# ---- "released" means the file the ceremony hands over: the real ksrsigner, previous SKR and KSR on disk, output path observed afterwards
import shutil
import tempfile

import kskm.ksr.verify_policy as vpol
from kskm.tools import ksrsigner as tool


class _Pinned(dt.datetime):
    @classmethod
    def now(cls, tz=None):
        return T0 + D(days=60)


def ceremony_release(prev_name, new_name, ps, rs, existing, configured_prev=None, notation="days"):
    base_pol = ksrxml.default_zsk_policy(publish_safety=D(days=10), retire_safety=D(days=10))
    last = simulated(prev_name, "prev", T0, base_pol)
    zs = [[ZSKS[0], ZSKS[1]]] + [[ZSKS[1]]] * 7 + [[ZSKS[1], ZSKS[2]]]
    lastz = [k for k in last["bundles"][-1]["keys"] if k["flags"] == 256]
    zs[0] = lastz
    zs[1:8] = [[lastz[-1]]] * 7
    zs[8] = [lastz[-1], ZSKS[0]]
    req = skrgen.honest_request("new", T0 + D(days=90), 9, zs, ksrxml.default_zsk_policy(), sign=True)
    d = os.path.join(str(vlib.WORK), "c09-ceremony")        # one place for every ceremony of this run: the previous SKR is whatever is at that path now
    shutil.rmtree(d, ignore_errors=True)
    os.mkdir(d)
    try:
        paths = {n: os.path.join(d, n + ".xml") for n in ("ksr", "prev", "out")}
        open(paths["ksr"], "w").write(ksrxml.render_ksr(req))
        open(paths["prev"], "w").write(ksrxml.render_skr(last))
        if existing is not None:
            open(paths["out"], "wb").write(existing)
        fnames = None
        if configured_prev is not None:
            # the configuration names another previous SKR; the one given on the command line is the one the operator supplies for this ceremony
            paths["cfgprev"] = os.path.join(d, "configured-prev.xml")
            open(paths["cfgprev"], "w").write(ksrxml.render_skr(simulated(configured_prev, "prev", T0, base_pol)))
            fnames = {"previous_skr": paths["cfgprev"]}
        cfg = ceremony.make_config({n: ceremony.ksk_def(k) for n, k in KSKS.items()}, {"s": {i: {k: v for k, v in a.items() if v} for i, a in ALL[new_name].items()}},
                                   request_policy={"num_bundles": 9, "rsa_approved_key_sizes": [1024], "num_keys_per_bundle": [len(x) for x in zs],
                                                   "num_different_keys_in_all_bundles": len({k["pub"] for x in zs for k in x}), "check_cycle_length": False, "signature_horizon_days": 400},
                                   response_policy={"num_bundles": 9},
                                   ksk_policy={"publish_safety": ksrxml.fmt_dur_as(ps, notation), "retire_safety": ksrxml.fmt_dur_as(rs, notation), "max_signature_validity": "P21D",
                                               "min_signature_validity": "P21D", "max_validity_overlap": "P16D", "min_validity_overlap": "P9D", "ttl": 172800},
                                   filenames=fnames)
        emu.install(ceremony.token_with(list(KSKS.values())))
        vpol.datetime = _Pinned
        try:
            with contextlib.redirect_stdout(io.StringIO()):
                r = vlib.run_impl(tool.ksrsigner, logging.getLogger("verif.c09"), ceremony.args_ns(ksr=paths["ksr"], skr=paths["out"], previous_skr=paths["prev"], force=True, schema="s"), cfg)
        finally:
            vpol.datetime = dt.datetime
        after = open(paths["out"], "rb").read() if os.path.exists(paths["out"]) else None
    finally:
        shutil.rmtree(d, ignore_errors=True)
    new_ref = skrgen.simulate_skr(req, ALL[new_name], KSKS, ksrxml.default_zsk_policy(publish_safety=ps, retire_safety=rs))
    return r, after, spec(RequestPolicy(), last, new_ref)


import contextlib
import io
import logging
import os
vlib.WORK.mkdir(exist_ok=True)
OLDF = b"<the output of an earlier attempt/>\n"
CER = [("normal", "normal", D(days=10), D(days=10)), ("publish+", "tool-drop@2", D(days=10), D(days=30)), ("normal", "cosign-third@1", D(days=10), D(days=10)),
       ("normal", "normal", D(days=200), D(days=10)), ("publish+", "rollover+", D(days=10), D(days=10)), ("normal", "drop-cur@1", D(days=10), D(days=10)),
       ("normal", "sign-revoke-drop@3", D(days=10), D(days=10)), ("publish+", "tool-drop@4", D(days=10), D(days=20))]
# the configured periods written in other notations: eleven days is eleven days (a key dropped at day 10 is dropped too early), three weeks are 21 days
CER += [("publish+", "tool-drop@2", D(days=10), D(days=11), "weeks"), ("publish+", "tool-drop@2", D(days=10), D(days=11), "hours"), ("publish+", "tool-drop@2", D(days=10), D(days=9), "weeks"),
        ("publish+", "tool-drop@4", D(days=10), D(days=30), "weeks"), ("publish+", "tool-drop@4", D(days=10), D(days=21), "weeks"), ("normal", "normal", D(days=200), D(days=10), "weeks"),
        ("publish+", "tool-drop@2", D(days=10), D(days=11), "days-hours"), ("publish+", "tool-drop@2", D(days=10), D(days=9, hours=23), "minutes")]
for (a, b, ps, rs, *nt_) in (CER if TIER == "quick" else CER + [(a, b, D(days=10), D(days=10)) for a in SCHEMAS for b in SCHEMAS]):
    for existing in (None, OLDF):
        r, after, want = ceremony_release(a, b, ps, rs, existing, notation=nt_[0] if nt_ else "days")
        hist["ceremony-release"] = hist.get("ceremony-release", 0) + 1
        released = after is not None and after != existing
        hist["ceremony-released" if released else "ceremony-refused"] = hist.get("ceremony-released" if released else "ceremony-refused", 0) + 1
        what = None
        if released and not want:
            what = f"a new SKR ({len(after)} octets) is at the output path although the safety rules refuse it (the run ended with {r[2] if r[0] != 'ok' else r[1]})"
        elif want and not released:
            what = f"no SKR was released ({r[2] if r[0] != 'ok' else r[1]}) although the safety rules allow it"
        elif (r == ("ok", True)) != released:
            what = f"the run reported {r[1] if r[0] == 'ok' else r[2]} but the output path was {'written' if released else 'left alone'}"
        if what:
            rep.violation("impl-vs-spec", f"ceremony {a} -> {b}, publish_safety={ps}, retire_safety={rs} (configured as {ksrxml.fmt_dur_as(ps, nt_[0] if nt_ else 'days')} / {ksrxml.fmt_dur_as(rs, nt_[0] if nt_ else 'days')}): {what}",
                          {"kind": "ceremony-release", "prev_schema": a, "new_schema": b, "publish_safety": str(ps), "retire_safety": str(rs), "output_existed": existing is not None})

# the previous SKR of a ceremony is the one named on the command line, whatever the configuration file also names
_pol0 = RequestPolicy()
_trip = []
for a in SCHEMAS:
    for dcy in SCHEMAS:
        for b in SCHEMAS:
            if a == dcy or len(_trip) >= (3 if TIER == "quick" else 12):
                continue
            la, ld = simulated(a, "prev", T0, ksrxml.default_zsk_policy(publish_safety=D(days=10), retire_safety=D(days=10))), simulated(dcy, "prev", T0, ksrxml.default_zsk_policy(publish_safety=D(days=10), retire_safety=D(days=10)))
            nb_ = simulated(b, "new", T0 + D(days=90), ksrxml.default_zsk_policy(publish_safety=D(days=10), retire_safety=D(days=10)))
            if spec(_pol0, la, nb_) != spec(_pol0, ld, nb_) and {k["pub"] for k in la["bundles"][-1]["keys"] if k["flags"] == 256} == {k["pub"] for k in ld["bundles"][-1]["keys"] if k["flags"] == 256}:
                _trip.append((a, dcy, b))
for (a, dcy, b) in _trip:
    r, after, want = ceremony_release(a, b, D(days=10), D(days=10), None, configured_prev=dcy)
    hist["ceremony-two-previous-skrs"] = hist.get("ceremony-two-previous-skrs", 0) + 1
    released = after is not None
    if released != want:
        rep.violation("impl-vs-spec", f"ceremony with --previous_skr = SKR({a}) while the configuration names SKR({dcy}), new schema {b}: "
                      + ("a new SKR was released although the safety rules refuse it against the previous SKR the operator supplied" if released else
                         f"no SKR was released ({r[2] if r[0] != 'ok' else r[1]}) although the safety rules allow it against the previous SKR the operator supplied"),
                      {"kind": "ceremony-two-previous-skrs", "command_line_previous": a, "configured_previous": dcy, "new_schema": b})

ok_build, log = vlib.make(["Checks/C08Check.vo"])
runner = vlib.CaseRun("C09", "main", "From KV Require Import Base.Prelude Base.Exn Model.Data Model.KsrPolicy Model.Chain Checks.C08Check.", "case9", "check9", shard=60)
results = runner.run(cases) if ok_build else [-1] * len(cases)
vlib.classify(rep, props, meta, results, cases, runner, "Checks.C08Check.check9 (check_last_skr_and_new_skr)")
runner.cleanup()
rep.coverage.update({
    "evaluations": len(cases) + hist.get("ceremony-release", 0), "distinct_nontrivial": len(set(cases)),
    "rule": "whole ceremonies through the real ksrsigner tool (previous SKR and KSR on disk, token emulator) observing the output path; (previous SKR, new SKR) pairs built by a reference signer from ordered pairs of the example schemas and custom schemas over 2..3 KSKs "
            "(key dropped at slot j, unpublished co-signer, revocation at slot j), publish/retire safety periods on the lattice around the decisive "
            "differences, first inception -1..+2 cycles (thorough), flag subsets; judged by check_last_skr_and_new_skr; distinct_nontrivial = distinct (policy, pair, verdict)",
    "distribution": hist, "released": accepts, "refused": len(cases) - accepts,
    "samples": [m["desc"] for m in meta[:: max(1, len(meta) // 6)]][:6],
})
sys.exit(rep.finish())
