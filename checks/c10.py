"""C10 - Over successive ceremonies accepted SKRs form one unbroken, authentic timeline."""
import argparse
import re
import base64
import contextlib
import copy
import datetime as dt
import hashlib
import io
import logging
import os
import shutil
import sys
import xml.etree.ElementTree as ET

import vlib
from vlib import coq_bool, txt, z, zlist

ap = argparse.ArgumentParser()
ap.add_argument("--tier")
ap.add_argument("--replay")
args = ap.parse_args()
TIER = vlib.tier(args.tier)
THOROUGH = TIER == "thorough"

vlib.setup_impl_path()
rep = vlib.Report("C10", TIER)
vlib.regen("Skeleton", "Policy", "Wire", "Hsm", "Schemas")
props = vlib.build_props("C10")
rep.add_props(props)

import yaml

import ceremony
import emu
import ksrxml
import signcases as S
import skrgen
import specs
from kgen import coq_reqpolicy, coq_request, coq_response, coq_sigpolicy, handle, us
import kskm.ksr.verify_policy as vp
import kskm.signer.sign as ksign
from kskm.skr.load import load_skr, response_from_xml
from kskm.tools import ksrsigner as tool

D = dt.timedelta
UTC = dt.timezone.utc
R = vlib.rng("C10")
EXN = vlib.exn_table()
WORK = vlib.VERIF / "work" / "c10"
shutil.rmtree(WORK, ignore_errors=True)
WORK.mkdir(parents=True)
cases, meta, hist = [], [], {}
log = logging.getLogger("verif.c10")


def count(k, n=1):
    hist[k] = hist.get(k, 0) + n


def norm(v):
    return [] if v is None else ([v] if isinstance(v, str) else list(v))


EXAMPLE = yaml.safe_load(open(vlib.REPO / "config/ksrsigner.yaml"))
SCHEMAS = {name: {int(k): {"publish": norm(v.get("publish")), "sign": norm(v.get("sign")), "revoke": norm(v.get("revoke"))} for k, v in s.items()}
           for name, s in EXAMPLE["schemas"].items()}
KSKS = {"ksk_current": skrgen.ksk("Kcur", 0), "ksk_next": skrgen.ksk("Knext", 1)}
ZSKS = [skrgen.zsk(i) for i in range(8)]
# two of the ZSKs that roll into each other share their 16-bit key tag (legal, about one pair in 65536): the timeline has to survive that
_ta, _tb = ksrxml.POOL.rsa_tag_collision(8, 256, 1024)
ZSKS[3], ZSKS[4] = ksrxml.mk_key(_ta, alg=8, ident="ZSK-twin-a"), ksrxml.mk_key(_tb, alg=8, ident="ZSK-twin-b")
ksrxml.POOL.save()
RP = dict(EXAMPLE["request_policy"], rsa_approved_key_sizes=[1024])
CFG = ceremony.make_config({n: ceremony.ksk_def(k) for n, k in KSKS.items()},
                           # a schema is a table from slot number to actions: the order in which its slots are written down in the file is the author's business
                           {n: {i: {k: v for k, v in a.items() if v} for i, a in (list(s.items())[j % 9:] + list(s.items())[:j % 9] if j % 3 else reversed(list(s.items())))}
                            for j, (n, s) in enumerate(SCHEMAS.items(), 1)},
                           request_policy=RP, response_policy=EXAMPLE["response_policy"],
                           ksk_policy={k: v for k, v in EXAMPLE["ksk_policy"].items() if k != "signers_name"})
POL = CFG.request_policy
MODULES = [[{"id": 0, "objs": S.pair("Kcur", KSKS["ksk_current"]) + S.pair("Knext", KSKS["ksk_next"])}]]
KSKCFG = {n: ceremony.ksk_def(k) for n, k in KSKS.items()}
T0 = dt.datetime(2026, 1, 1, tzinfo=UTC)
ZP = ksrxml.default_zsk_policy()


class PinnedNow(dt.datetime):
    pinned = T0

    @classmethod
    def now(cls, tz=None):
        return cls.pinned


vp.datetime = PinnedNow


# ------------------------------------------------------------------ independent reading of SKR files and of the rules
def read_skr(xml_bytes):
    root = ET.fromstring(xml_bytes)
    out = {"id": root.attrib["id"], "serial": int(root.attrib["serial"]), "domain": root.attrib["domain"], "bundles": []}
    pol = root.find("Response/ResponsePolicy/KSK")
    out["ksk"] = {"publish_safety": specs_dur(pol.find("PublishSafety").text), "retire_safety": specs_dur(pol.find("RetireSafety").text)}
    for b in root.iter("ResponseBundle"):
        keys, sigs = [], []
        for k in b.findall("Key"):
            keys.append({"id": k.attrib["keyIdentifier"], "tag": int(k.attrib["keyTag"]), "ttl": int(k.find("TTL").text), "flags": int(k.find("Flags").text),
                         "proto": int(k.find("Protocol").text), "alg": int(k.find("Algorithm").text), "pub": base64.b64decode(k.find("PublicKey").text)})
        for s in b.findall("Signature"):
            sigs.append({"id": s.attrib["keyIdentifier"], "ttl": int(s.find("TTL").text), "alg": int(s.find("Algorithm").text), "labels": int(s.find("Labels").text),
                         "ottl": int(s.find("OriginalTTL").text), "exp": dt.datetime.fromisoformat(s.find("SignatureExpiration").text),
                         "inc": dt.datetime.fromisoformat(s.find("SignatureInception").text), "tag": int(s.find("KeyTag").text), "name": s.find("SignersName").text,
                         "data": base64.b64decode(s.find("SignatureData").text)})
        out["bundles"].append({"id": b.attrib["id"], "inc": dt.datetime.fromisoformat(b.find("Inception").text), "exp": dt.datetime.fromisoformat(b.find("Expiration").text),
                               "keys": keys, "sigs": sigs})
    return out


def specs_dur(s):
    """ISO 8601 duration as the policies write it (PnDTnHnMnS) -> timedelta; independent of kskm"""
    import re
    m = re.fullmatch(r"P(?:(\d+)W)?(?:(\d+)D)?(?:T(?:(\d+)H)?(?:(\d+)M)?(?:(\d+)S)?)?", s)
    w, d, h, mi, se = (int(x) if x else 0 for x in m.groups())
    return D(weeks=w, days=d, hours=h, minutes=mi, seconds=se)


def chain_spec(ksr, skr):
    """C08's documented chain rules (all flags on, token holds the right keys) -> accept?"""
    if ksr["id"] == skr["id"]:
        return False
    if {b["id"] for b in ksr["bundles"]} & {b["id"] for b in skr["bundles"]}:
        return False
    lastb, first = skr["bundles"][-1], ksr["bundles"][0]
    rec = lambda k: (k["id"], k["tag"], k["ttl"], k["flags"], k.get("proto", 3), k["alg"], k["pub"])
    if not {rec(k) for k in first["keys"]} <= {rec(k) for k in lastb["keys"]}:
        return False
    ov = lastb["exp"] - first["inc"]
    if not (ksr["zsk"]["min_overlap"] <= ov <= ksr["zsk"]["max_overlap"]):
        return False
    for s in lastb["sigs"]:
        key = [k for k in lastb["keys"] if k["id"] == s["id"]]
        tokkey = [k for k in KSKS.values() if k["id"] == s["id"]]
        if not key or not tokkey or key[0]["pub"] != tokkey[0]["pub"]:
            return False
    return bool(lastb["sigs"])


def safety_spec(last, new, ksk):
    """C09's documented publish / retire safety rules -> accept?"""
    lastb, first = last["bundles"][-1], new["bundles"][0]
    ids = lambda b: {k["id"] for k in b["keys"]}
    if not all(s["id"] in ids(lastb) for s in first["sigs"]):
        return False
    t = first["inc"] - ksk["publish_safety"]
    if not (lastb["inc"] <= t <= lastb["exp"]):
        return False
    retire_at = first["inc"] + ksk["retire_safety"]
    for b in new["bundles"]:
        if b["inc"] <= retire_at and not all(s["id"] in ids(b) for s in lastb["sigs"]):
            return False
    for i, cur in enumerate(new["bundles"]):
        rev = {k["id"] for k in cur["keys"] if k["flags"] & 128}
        for b in new["bundles"][i + 1:]:
            for s in cur["sigs"]:
                if s["id"] not in rev and s["id"] not in ids(b):
                    return False
    return True


def timeline_problems(prev, new):
    """the property's predicate on two neighbouring accepted SKRs, evaluated on the files"""
    probs = []
    lastb, first = prev["bundles"][-1], new["bundles"][0]
    if first["inc"] > lastb["exp"]:
        probs.append(f"coverage gap: previous SKR ends {lastb['exp'].isoformat()}, next begins {first['inc'].isoformat()}")
    if prev["id"] == new["id"]:
        probs.append("request id reused between neighbours")
    both = {b["id"] for b in prev["bundles"]} & {b["id"] for b in new["bundles"]}
    if both:
        probs.append(f"bundle ids reused between neighbours: {sorted(both)}")
    prev_pubs = {k["pub"] for k in lastb["keys"]}
    fresh = [k["id"] for k in first["keys"] if k["flags"] == 256 and k["pub"] not in prev_pubs]
    if fresh:
        probs.append(f"first-bundle ZSK not in the preceding bundle: {fresh}")
    prev_ids = {k["id"] for k in lastb["keys"]}
    unpub = [s["id"] for s in first["sigs"] if s["id"] not in prev_ids]
    if unpub:
        probs.append(f"first-bundle signing key not published in the preceding bundle: {unpub}")
    return probs


# ------------------------------------------------------------------ KSR variants for the quarter following a given state
def quarter(start, zidx, rid):
    zs = [[ZSKS[zidx % 8], ZSKS[(zidx + 1) % 8]]] + [[ZSKS[(zidx + 1) % 8]]] * 7 + [[ZSKS[(zidx + 1) % 8], ZSKS[(zidx + 2) % 8]]]
    return skrgen.honest_request(rid, start, 9, zs, ZP, sign=True)


VARIANTS = ["honest", "replayed", "replayed-other-serial", "gapped", "re-keyed", "partly-re-keyed", "re-keyed-same-identifier", "overlapping-ids", "too-early", "gapped-by-an-overlap's-length"]


def ksr_for(state, variant, seq):
    """state: {'skr': dict read from the file, 'zidx': index of the outgoing ZSK of its last bundle, 'depth'}"""
    lastb = state["skr"]["bundles"][-1]
    start = lastb["exp"] - D(days=11)
    zidx = state["zidx"] + 1
    rid = f"ksr-{seq}"
    if variant == "honest":
        return quarter(start, zidx, rid)
    def fresh_bundle_ids(q):
        return dict(q, bundles=[dict(b, id=f"fresh-{seq}-{j}") for j, b in enumerate(q["bundles"])])
    if variant == "replayed":
        return fresh_bundle_ids(quarter(start, zidx, state["skr"]["id"]))
    if variant == "replayed-other-serial":
        return dict(fresh_bundle_ids(quarter(start, zidx, state["skr"]["id"])), serial=state["skr"]["serial"] + 1)
    if variant == "gapped":
        return quarter(lastb["exp"] + D(days=1), zidx, rid)
    if variant == "gapped-by-an-overlap's-length":
        return quarter(lastb["exp"] + D(days=9, hours=12), zidx, rid)          # coverage missing for 9.5 days: the same number as an acceptable overlap, the other sign
    if variant == "too-early":
        return quarter(lastb["exp"] - D(days=13), zidx, rid)
    if variant == "re-keyed":
        return quarter(start, zidx + 3, rid)
    if variant == "partly-re-keyed":
        q = quarter(start, zidx, rid)
        keep = q["bundles"][0]["keys"][0]
        newk = ZSKS[(zidx + 4) % 8]
        zs = [[keep, newk]] + [[newk]] * 7 + [[newk, ZSKS[(zidx + 5) % 8]]]
        return skrgen.honest_request(rid, start, 9, zs, ZP, sign=True)
    if variant == "re-keyed-same-identifier":
        # other key pairs under the identifiers the previous SKR published (key tag, TTL and proof of possession all in order)
        q = quarter(start, zidx, rid)
        olds = q["bundles"][0]["keys"]
        a = dict(ZSKS[(zidx + 4) % 8], id=olds[0]["id"])
        b = dict(ZSKS[(zidx + 5) % 8], id=olds[1]["id"])
        zs = [[a, b]] + [[b]] * 7 + [[b, ZSKS[(zidx + 6) % 8]]]
        return skrgen.honest_request(rid, start, 9, zs, ZP, sign=True)
    if variant == "overlapping-ids":
        q = quarter(start, zidx, rid)
        q["bundles"][4]["id"] = state["skr"]["bundles"][2]["id"]
        return q
    raise ValueError(variant)


SEQ = [0]
FOLLOWS = {}
ZONES = [(None, "+00:00"), ("JST-9", ""), (None, ""), ("PST8", "Z"), ("UTC", "Z"), ("PST8", ""), ("IST-5:30", "+00:00")]


def run_transition(state, schema_name, variant, model=True):
    SEQ[0] += 1
    seq = SEQ[0]
    d = WORK / "t"
    shutil.rmtree(d, ignore_errors=True)
    d.mkdir()
    if state is None:
        ksr = quarter(T0 + D(days=30), 0, f"ksr-{seq}")
        prev_path = None
    else:
        tampered = variant.startswith("previous-file-")
        ksr = ksr_for(state, "honest" if tampered else variant, seq)
        prev_path = state["path"]
        if tampered:
            # the file handed in as previous SKR is the emitted one with one signature octet changed (first / middle / last signature of the file)
            raw = open(state["path"], encoding="utf-8").read()
            spans = [m.span(1) for m in re.finditer(r"<SignatureData>([^<]*)</SignatureData>", raw)]
            a, b = spans[{"first": 0, "middle": len(spans) // 2, "last": -1}[variant.rsplit("-", 1)[1]]]
            sig = bytearray(base64.b64decode(raw[a:b]))
            sig[len(sig) // 2] ^= 0x10
            prev_path = str(d / "previous-tampered.xml")
            with open(prev_path, "w", encoding="utf-8") as f:
                f.write(raw[:a] + base64.b64encode(bytes(sig)).decode() + raw[b:])
    ksr_path, out_path = str(d / "ksr.xml"), str(d / "out.xml")
    # the host's time zone and the notation of the KSR's timestamps (all three mean UTC) vary from ceremony to ceremony
    tz, suffix = ZONES[(seq - 1) % len(ZONES)]
    with ksrxml.process_zone(tz, suffix):
        with open(ksr_path, "w") as f:
            f.write(ksrxml.render_ksr(ksr))
    now = ksr["bundles"][0]["inc"] - D(days=20)
    PinnedNow.pinned = now
    tok = S.build_token(MODULES)
    emu.install(tok)
    ns = ceremony.args_ns(ksr=ksr_path, skr=out_path, previous_skr=prev_path, force=True, schema=schema_name)
    raws = []
    orig_raw = ksign.make_raw_rrsig

    def spy_raw(sig, keys):
        r = orig_raw(sig, keys)
        raws.append(r)
        return r

    ksign.make_raw_rrsig = spy_raw
    try:
        with contextlib.redirect_stdout(io.StringIO()), ksrxml.process_zone(tz, suffix):
            r = vlib.run_impl(tool.ksrsigner, log, ns, CFG)
    finally:
        ksign.make_raw_rrsig = orig_raw
    accepted = r == ("ok", True) and os.path.exists(out_path)
    # ---- the documented rules applied to the actual previous output
    kreq = skrgen.k_request(ksr)
    want = specs.validate(now, POL, kreq)
    reason = "" if want else "KSR rules"
    expected_new = skrgen.simulate_skr(ksr, SCHEMAS[schema_name], KSKS, ZP)
    want_chain_ok = want and (state is None or chain_spec(ksr, state["skr"]))
    if want and state is not None:
        if not chain_spec(ksr, state["skr"]):
            want, reason = False, "chain rules"
        elif not safety_spec(state["skr"], expected_new, state["skr"]["ksk"] if False else {"publish_safety": D(days=10), "retire_safety": D(days=10)}):
            want, reason = False, "publish/retire safety"
    if state is not None and variant.startswith("previous-file-"):
        want, reason = False, "the previous SKR handed in is not the authentic one (a signature in it does not verify)"
    probs = []
    if accepted != want:
        probs.append(f"ceremony {'accepted' if accepted else 'refused (' + str(r[2] if r[0] == 'exc' else r[1]) + ')'} but the documented rules applied to the actual previous "
                     f"output say {'accept' if want else 'refuse: ' + reason}")
    if not accepted and os.path.exists(out_path):
        probs.append("refused ceremony left an output file")
    new_state = None
    if accepted:
        raw_out = open(out_path, "rb").read()
        try:
            new = read_skr(raw_out)
        except Exception as e:  # noqa: BLE001
            new = None
            probs.append(f"emitted SKR unreadable by a standard XML parser: {type(e).__name__}")
        if new is not None:
            got_periods = [(b["inc"], b["exp"]) for b in new["bundles"]]
            asked = [(b["inc"], b["exp"]) for b in ksr["bundles"]]
            if got_periods != asked:
                j = next((n for n, (a, b) in enumerate(zip(got_periods, asked)) if a != b), min(len(got_periods), len(asked)))
                probs.append(f"the emitted SKR covers other periods than the KSR (timestamps written ...{suffix!r}, process TZ={tz}) asked for: bundle {j + 1} "
                             f"{[ksrxml.fmt_dt(x) for x in got_periods[j]] if j < len(got_periods) else 'missing'} instead of {[ksrxml.fmt_dt(x) for x in asked[j]] if j < len(asked) else 'nothing'}")
            if state is not None:
                probs += timeline_problems(state["skr"], new)
            lr = vlib.run_impl(load_skr, out_path, CFG.response_policy)
            if lr[0] != "ok":
                probs.append(f"the emitted SKR cannot be loaded as a previous SKR: {lr[2]}")
            keep = WORK / f"state-{seq}.xml"
            shutil.copy(out_path, keep)
            new_state = {"skr": new, "path": str(keep), "zidx": (state["zidx"] + 1) if state else 0, "depth": (state["depth"] + 1) if state else 0,
                         "trail": (state["trail"] if state else []) + [schema_name]}
    # ---- model case
    if model:
        bl, hrows, trows, vrows, drows = S.oracle_tables(tok, MODULES, KSKCFG, raws)
        # proof-of-possession of the KSR and the signatures of the previous SKR, as the crypto library judges them
        def add_vrows(bundles):
            for b in bundles:
                keys = [specs.keyd(k) for k in b.keys]
                for s in b.signatures:
                    tbs, verdict = specs.sig_verdict(specs.sigd(s), keys)
                    signer = [k for k in b.keys if k.key_identifier == s.key_identifier]
                    if signer:
                        vrows.append(f"({handle(bytes(signer[0].public_key))}, {signer[0].algorithm.value}, {bl.add(tbs)}, {handle(b'sig:' + bytes(s.signature_data))}, {coq_bool(verdict)})")
        add_vrows(kreq.bundles)
        prev_lit = "None"
        if state is not None:
            pr = vlib.run_impl(lambda: response_from_xml(open(prev_path, "rb").read().decode()))
            if pr[0] == "ok":
                add_vrows(pr[1].bundles)
                prev_lit = f"(Some {coq_response(pr[1], with_txt='handle', with_data='handle', with_pub=True, keep_order=True)})"
        oracles = f"(mkOracles {bl.coq()} [{';'.join(hrows)}] [{';'.join(trows)}] [{';'.join(dict.fromkeys(vrows))}] [{';'.join(drows)}])"
        if accepted:
            lr2 = vlib.run_impl(lambda: response_from_xml(open(out_path, "rb").read().decode()))
            impl = "(OK [" + ";".join(S.coq_bundle_out(b) for b in lr2[1].bundles) + "])" if lr2[0] == "ok" else f"(Raise {lr2[1]})"
        else:
            impl = f"(Raise {r[1] if r[0] == 'exc' else EXN['OtherError']})"
        kks = "[" + ";".join(f"({txt(n)}, {S.coq_ksk(dd)})" for n, dd in KSKCFG.items()) + "]"
        cases.append(f"CCeremony ({coq_reqpolicy(POL)}, {CFG.response_policy.num_bundles}, {coq_bool(CFG.response_policy.validate_signatures)}, {z(CFG.ksk_policy.ttl)}, {kks}, "
                     f"{coq_sigpolicy(CFG.ksk_policy.signature_policy)}, {prev_lit}, {z(us(now))}, {S.coq_schema(SCHEMAS[schema_name])}, "
                     f"{coq_request(kreq, with_txt='handle', with_data='handle', with_pub=True, keep_order=True)}, {S.coq_modules(MODULES)}, {oracles}, true, {impl})")
        meta.append({"kind": f"{variant}", "desc": {"history": (state["trail"] if state else []), "schema": schema_name, "variant": variant,
                                                    "outcome": "accepted" if accepted else str(r[2] if r[0] == "exc" else r[1]), "rules": "accept" if want else reason},
                     "spec_ok": not probs, "spec_msg": "; ".join(probs[:3]), "key": None})
    elif probs:
        rep.violation("impl-vs-spec", f"{variant} after {state['trail'] if state else []} with schema {schema_name}: {'; '.join(probs[:3])}",
                      {"history": state["trail"] if state else [], "schema": schema_name, "variant": variant})
    if variant == "honest" and state is not None and want_chain_ok:
        FOLLOWS[(state["trail"][-1], schema_name)] = accepted
    count("ceremony")
    count(f"variant-{variant}")
    count("accepted" if accepted else "refused")
    return new_state


DEPTH = 4 if THOROUGH else 3
root = run_transition(None, "normal", "honest")
frontier = [root] if root else []
if not root:
    rep.violation("impl-vs-spec", "the first ceremony (no previous SKR, schema normal, honest KSR) was refused", {})
level = 0
while frontier and level < DEPTH:
    nxt = []
    for st in frontier:
        for sname in SCHEMAS:
            ns_ = run_transition(st, sname, "honest", model=(not THOROUGH and level < 2) or (THOROUGH and level < 2) or R.random() < 0.25)
            if ns_:
                nxt.append(ns_)
        others = [(s, v) for s in SCHEMAS for v in VARIANTS[1:]]
        picks = others if (THOROUGH and level < 3) else R.sample(others, 6 if level < 2 else 3)
        for sname, v in picks:
            bad = run_transition(st, sname, v, model=R.random() < (0.5 if level < 2 else 0.15))
            if bad:
                nxt.append(bad)
    # keep the frontier bounded: distinct (last schema, depth) states, at most a handful per level
    seen, keep = set(), []
    for s_ in nxt:
        key = tuple(s_["trail"][-2:])
        if key not in seen:
            seen.add(key)
            keep.append(s_)
    # authenticity of the whole previous file, not just of its first bundle
    for st in (frontier[:2] if not THOROUGH else frontier[:6]):
        for which in ("first", "middle", "last"):
            run_transition(st, st["trail"][-1] if st["trail"][-1] in SCHEMAS else "normal", f"previous-file-signature-changed-{which}", model=False)
    frontier = keep if THOROUGH else keep[:8]
    level += 1
    count(f"level-{level}-states", len(frontier))

for (a_, b_), acc in sorted(FOLLOWS.items()):
    cases.append(f'CFollows "{a_}" "{b_}" {coq_bool(acc)}')
    meta.append({"kind": "schema-pair", "desc": {"previous": a_, "next": b_, "accepted": acc}, "spec_ok": True, "spec_msg": "", "key": None})
count("schema-pairs-observed", len(FOLLOWS))
vp.datetime = dt.datetime
vlib.regen("Schemas")
ok_build, blog = vlib.make(["Checks/C10Check.vo"])
runner = vlib.CaseRun("C10", "main", "From Coq Require Import String.\nFrom KV Require Import Base.Prelude Base.Exn Model.Data Model.KsrPolicy Model.Chain Model.Token Model.Sign Model.History Checks.SignCheck Checks.C10Check.\nOpen Scope string_scope.",
                      "case", "check", shard=4)
results = runner.run(cases) if ok_build else [-1] * len(cases)
vlib.classify(rep, props, meta, results, cases, runner, "Checks.C10Check.check (one ceremony: reload, KSR checks, chain checks, signing, safety checks)")
runner.cleanup()
shutil.rmtree(WORK, ignore_errors=True)
rep.coverage.update({
    "evaluations": hist.get("ceremony", 0), "distinct_nontrivial": len(set(cases)),
    "rule": f"ceremony histories to depth {DEPTH} on the real ksrsigner() with the example configuration's seven schemas and policies (1024-bit ZSKs), every transition fed the SKR *file* "
            "the previous ceremony wrote: from each accepted state all 7 schemas x honest KSR, plus non-honest KSR variants (replayed id, gap, too early, fully and partly "
            "re-keyed first bundle, reused bundle id) x schemas (quick: sampled; thorough: all at depth < 3); only accepted states are extended (distinct last-two-schema "
            "trails). Each outcome is compared with the documented KSR / chain / safety rules applied to the previous file as read by ElementTree and to the SKR a reference "
            "signer would produce; each emitted SKR is re-read, reloaded with load_skr and checked against its predecessor for gaps, id reuse, first-bundle ZSKs and signers; "
            "a sample of ceremonies is replayed in the Coq model of the composition",
    "distribution": hist, "model_cases": len(cases),
    "samples": [dict(kind=m["kind"], **{k: str(v)[:200] for k, v in m["desc"].items()}) for m in meta[:: max(1, len(meta) // 6)]][:6],
})
rep.assumptions += ["request and response bundle counts are configured equal (9/9 in the example configuration); the tools do not check that the two settings agree - "
                    "theorem C10_emitted_skr_reloads carries it as a hypothesis",
                    "string-level round trip of the SKR writer/reader is exercised on every transition (real files) but proved only at the level of C11's theorems",
                    "crypto as oracle tables; the token always holds both configured KSKs"]
sys.exit(rep.finish())
