"""C11 - An emitted SKR reads back identically, fits the schema; no truncation loads."""
import argparse
import datetime as dt
import os
import re
import sys
import tempfile

import vlib
from vlib import txt, z

ap = argparse.ArgumentParser()
ap.add_argument("--tier")
ap.add_argument("--replay")
args = ap.parse_args()
TIER = vlib.tier(args.tier)
SCALE = 1 if TIER == "quick" else 8

vlib.setup_impl_path()
rep = vlib.Report("C11", TIER)
vlib.regen("Output")
props = vlib.build_props("C11")
rep.add_props(props)

import etref
import ksrxml
import rncref
import skrgen
from kskm.common import xml_parser as xp
from kskm.common.config_misc import ResponsePolicy
from kskm.common.parse_utils import duration_to_timedelta
from kskm.skr.load import load_skr, response_from_xml
from kskm.skr.output import skr_to_xml, timedelta_to_duration
from kskm.skr.validate import validate_response

D = dt.timedelta
R = vlib.rng("C11")
NOW = dt.datetime(2026, 4, 1, tzinfo=dt.timezone.utc)
hist = {}
samples = []


def count(k, n=1):
    hist[k] = hist.get(k, 0) + n


# ------------------------------------------------------------------ 1. duration writer / reader vs the Coq model
cases, meta = [], []
boundary = sorted(set(list(range(0, 130)) + [b + d for b in (3600, 7200, 86400, 2 * 86400, 21 * 86400, 400 * 86400, 3660, 3661, 86400 + 3600, 86400 + 60)
                                             for d in (-61, -60, -59, -1, 0, 1, 59, 60, 61)] + [R.randrange(0, 400 * 86400) for _ in range(150 * SCALE)]))
for n in boundary:
    if n < 0:
        continue
    s = timedelta_to_duration(D(seconds=n))
    back = vlib.run_impl(duration_to_timedelta, s)
    ok = back == ("ok", D(seconds=n)) and bool(rncref.DUR.match(s))
    cases.append(f"CPrint {z(n)} {txt(s)}")
    meta.append({"kind": "duration-print", "desc": {"seconds": n, "text": s, "read_back": str(back[1]) if back[0] == "ok" else back[2]}, "spec_ok": ok, "key": None,
                 "spec_msg": f"duration of {n} s is written as {s!r} which reads back as {back[1] if back[0] == 'ok' else back[2]} / xsd:duration={bool(rncref.DUR.match(s))}"})
    count("duration-print")
GRAMMAR = ["P", "PT", "PT0S", "P1D", "P1W", "P2W3D", "P1M", "PT1M", "P1DT1M", "P1MT1M", "PT1H30M", "PT1H30", "P1D12", "PT5", "P5", "P1DT", "PT1S2", "P1D\nP2D",
           "P1D\n", "", "1D", "p1d", "P-1D", "P1.5D", "PT1.5S", "P1Y", "P01D", "P1D ", " P1D", "P1D+5", "P1D-5", "P1D 5 ", "P1D5_0", "P1D_5", "PT1H1H", "P1DT1H1D",
           "PTT1S", "P1DTT1S", "P1SD", "P1D1", "PD", "P1", "P1X", "P999999999D", "PT00000005S", "P1D\tT1S", "PT1S\r"]
for s in GRAMMAR + ["P" + "".join(f"{R.randrange(0, 500)}{R.choice('WDHMS')}" if R.random() < 0.8 else R.choice(["T", "", "1", "x", "_", " "]) for _ in range(R.randrange(0, 5)))
                    for _ in range(120 * SCALE)]:
    r = vlib.run_impl(duration_to_timedelta, s)
    if r[0] == "ok":
        us = (r[1].days * 86400 + r[1].seconds) * 10**6 + r[1].microseconds
        if us % 10**6:
            continue
        impl = f"(OK {z(us // 10**6)})"
    else:
        impl = f"(Raise {r[1]})"
    cases.append(f"CParse {txt(s)} {impl}")
    meta.append({"kind": "duration-parse", "desc": {"text": s, "impl": str(r[1]) if r[0] == "ok" else r[2]}, "spec_ok": True, "spec_msg": "", "key": None})
    count("duration-parse")

ok_build, log = vlib.make(["Checks/C11Check.vo"])
runner = vlib.CaseRun("C11", "dur", "From KV Require Import Base.Prelude Base.Exn Model.Data Model.Duration Checks.C11Check.", "case", "check", shard=300)
results = runner.run(cases) if ok_build else [-1] * len(cases)
vlib.classify(rep, props, meta, results, cases, runner, "Checks.C11Check.check (timedelta_to_duration / duration_to_timedelta)")
runner.cleanup()

# ------------------------------------------------------------------ 2. emitted SKRs: read back, schema, standard parser, validation
P = ksrxml.POOL
ZS = [skrgen.zsk(i) for i in range(4)] + [ksrxml.mk_key(P.rsa(1024, 3, 50), alg=10)]
KS = {"ksk_current": skrgen.ksk("Kcur", 0), "ksk_next": skrgen.ksk("Knext", 1), "ksk_512": ksrxml.mk_key(P.rsa(1024, 65537, 160), alg=10, flags=257, ident="K512")}
_ca, _cb = P.ec_tag_collision(13)
ZTWIN = [ksrxml.mk_key(_ca, alg=13, ident="ZSK-twin-a"), ksrxml.mk_key(_cb, alg=13, ident="ZSK-twin-b")]      # two different ZSKs with the same 16-bit key tag
P.save()
vlib.WORK.mkdir(exist_ok=True)
tmpd = tempfile.mkdtemp(prefix="c11-", dir=str(vlib.WORK))
emitted = []
n_skr = 0


def rand_dur():
    c = R.randrange(6)
    if c == 0:
        return D(0)
    if c == 1:
        return D(days=R.randrange(0, 401))
    if c == 2:
        return D(seconds=R.choice([59, 60, 61, 3599, 3600, 3601, 3660, 86399, 86400 + 3600, 86400 * 7 + 60]))
    return D(seconds=R.randrange(0, 400 * 86400))


def fail(kind, msg, xml=None, extra=None):
    rep.violation("impl-vs-spec", f"{kind}: {msg}", {"kind": kind, "xml": (xml or "")[:8000], **(extra or {})})


from kskm.common.config_misc import RequestPolicy
from kskm.signer.policy import check_last_skr_and_new_skr, check_publish_safety, check_retire_safety
PREV_RESP = [None]
ODD_ID_CHARS = ["'", "o'clock '", "''", ";", "#x27;", "\u2028", "\u2029", "\u0085", "\u00e9", "\u4e2d", " ", "\u00a0", "\u200b", "\u2028\u2029", ".", "\ufeff", "\U0001f511"]
for i in range(30 * SCALE):
    nb = 1 + i % 9
    zsl = [[R.choice(ZS)] + ([R.choice(ZS[:4])] if R.random() < 0.4 else []) for _ in range(nb)]
    zsl = [list({k["pub"]: k for k in ks}.values()) for ks in zsl]
    if i % 6 == 2:
        zsl[R.randrange(nb)] = list(ZTWIN) + ([R.choice(ZS[:4])] if R.random() < 0.5 else [])      # a roll between two keys whose tags collide
    if i % 4 == 3:
        # identifiers are opaque text copied from the KSR: letters of any script, inner blanks, the Unicode line and paragraph separators and NEL are all legal XML characters
        odd = R.choice(ODD_ID_CHARS)
        zsl = [[dict(k, id=k["id"][:4] + odd + k["id"][4:]) for k in ks] for ks in zsl]
    rq = skrgen.honest_request(f"{R.randrange(16**8):08x}-{R.randrange(16**4):04x}", NOW + D(days=R.randrange(0, 50), seconds=R.randrange(86400)), nb, zsl,
                               ksrxml.default_zsk_policy(**{k: rand_dur() for k in ("publish_safety", "retire_safety", "max_validity", "min_validity", "max_overlap", "min_overlap")},
                                                         algs=[("RSA", 8, 1024, 65537)] + ([("RSA", 10, 1024, 3)] if R.random() < 0.5 else [])), sign=False)
    rq["serial"] = R.choice([0, 1, 7, 10**9, R.randrange(10**6)])
    if i % 5 == 4 and nb >= 2:
        # a bundle that starts before its predecessor and still expires after it (legal when the interval checks are off): the SKR keeps the signer's order
        j_ = R.randrange(1, nb)
        rq["bundles"][j_] = dict(rq["bundles"][j_], inc=rq["bundles"][j_ - 1]["inc"] - D(days=R.choice([1, 3]), seconds=R.randrange(3600)))
    if i % 4 in (2, 3):
        odd = R.choice(ODD_ID_CHARS)
        rq["bundles"] = [dict(b, id=f"b{j}{odd}x-{R.randrange(10**6)}") for j, b in enumerate(rq["bundles"])]
        if i % 8 == 2:
            rq["id"] = rq["id"][:5] + odd + rq["id"][5:]
    schema = {}
    for j in range(1, nb + 1):
        mode = R.randrange(5)
        if mode == 0:
            schema[j] = {"publish": ["ksk_current"], "sign": ["ksk_current"], "revoke": []}
        elif mode == 1:
            schema[j] = {"publish": ["ksk_current", "ksk_next"], "sign": ["ksk_current", "ksk_next"], "revoke": []}
        elif mode == 2:
            schema[j] = {"publish": ["ksk_next"], "sign": ["ksk_current", "ksk_next"], "revoke": ["ksk_current"]}
        elif mode == 3:
            schema[j] = {"publish": ["ksk_current"], "sign": ["ksk_512"], "revoke": []}
        else:
            schema[j] = {"publish": [], "sign": ["ksk_next"], "revoke": []}
    if i == 0:
        schema = {j: {"publish": ["ksk_current"], "sign": ["ksk_current"], "revoke": []} for j in schema}
    elif i % 7 == 1:
        # a roll with revocation after an SKR signed by ksk_current alone: both sign the first slot, afterwards ksk_current is revoked and still signs
        schema = {j: ({"publish": ["ksk_current", "ksk_next"], "sign": ["ksk_current", "ksk_next"], "revoke": []} if j == 1 else
                      {"publish": ["ksk_next"], "sign": ["ksk_current", "ksk_next"], "revoke": ["ksk_current"]}) for j in schema}
    kskpol = ksrxml.default_zsk_policy(**{k: rand_dur() for k in ("publish_safety", "retire_safety", "max_validity", "min_validity", "max_overlap", "min_overlap")},
                                       algs=[("RSA", 8, 1024, 65537)] + ([("RSA", 10, 1024, 65537)] if any(schema[j]["sign"] == ["ksk_512"] for j in schema) else []))
    skr = skrgen.simulate_skr(rq, schema, KS, kskpol)
    rk = vlib.run_impl(skrgen.k_response, skr)
    if rk[0] != "ok":
        # the data classes refuse a response the signer can produce (e.g. a bundle with a revoked KSK): it could then not be read back either
        fail("construct", f"a response the signer can produce is refused by the SKR data classes: {rk[2]}", None,
             {"schemas": [sorted(schema[j]["sign"]) + ["revoke:" + ",".join(schema[j]["revoke"])] for j in schema], "reference_document": ksrxml.render_skr(skr)[:6000]})
        count("emitted-skr")
        continue
    resp = rk[1]
    # the tool compares the new SKR with the previous one between signing and writing (whatever the verdict, the response stays what was signed)
    if i == 0:
        PREV0 = resp
    for prev in ([PREV_RESP[0]] if PREV_RESP[0] is not None else []) + ([PREV0] if i % 7 == 1 else []):
        vlib.run_impl(check_last_skr_and_new_skr, prev, resp, RequestPolicy())
        vlib.run_impl(check_publish_safety, prev, resp, RequestPolicy())
        vlib.run_impl(check_retire_safety, prev, resp, RequestPolicy())
        count("safety-checks-between-signing-and-writing")
    again = vlib.run_impl(skrgen.k_response, skr)
    if again[0] != "ok" or again[1] != resp:
        what = [f"bundle {n + 1}: keys {sorted(k.key_tag for k in b.keys)} (signed: {sorted(k.key_tag for k in a.keys)})"
                for n, (a, b) in enumerate(zip(again[1].bundles, resp.bundles)) if a != b] if again[0] == "ok" else [again[2]]
        fail("checked-then-written", "comparing the new SKR with the previous one changed the response that is then written: " + "; ".join(what)[:600], None,
             {"schemas": [sorted(schema[j]["sign"]) + ["revoke:" + ",".join(schema[j]["revoke"])] for j in schema], "reference_document": ksrxml.render_skr(skr)[:6000]})
    PREV_RESP[0] = again[1] if again[0] == "ok" else resp
    resp = PREV_RESP[0]
    r = vlib.run_impl(skr_to_xml, resp)
    n_skr += 1
    count("emitted-skr")
    if r[0] != "ok":
        fail("emit", f"skr_to_xml raised {r[2]}")
        continue
    xml = r[1]
    if len(samples) < 3:
        samples.append({"bundles": nb, "ksk_policy": {k: str(v) for k, v in kskpol.items() if k != "algs"}, "xml_bytes": len(xml), "schemas": [sorted(schema[j]["sign"]) for j in schema]})
    # (i) reads back identically
    rb = vlib.run_impl(response_from_xml, xml)
    if rb[0] != "ok":
        fail("read-back", f"emitted SKR does not load: {rb[2]}", xml)
        continue
    if rb[1] != resp:
        diffs = [f for f in ("id", "serial", "domain", "ksk_policy", "zsk_policy") if getattr(rb[1], f) != getattr(resp, f)]
        if rb[1].bundles != resp.bundles:
            diffs.append("bundles")
        fail("read-back", f"emitted SKR reads back differently in {diffs}", xml)
    # (ii) passes response validation
    v = vlib.run_impl(validate_response, rb[1], ResponsePolicy(num_bundles=nb))
    if v[0] != "ok":
        fail("validate", f"emitted SKR fails response validation: {v[2]}", xml)
    # (iii) conforms to the schema, (iv) parses identically under a standards parser
    try:
        rncref.validate(xml)
    except rncref.SchemaError as e:
        fail("schema", f"emitted SKR does not conform to ksr.rnc: {e}", xml)
    except Exception as e:  # noqa: BLE001
        fail("schema", f"emitted SKR is not well-formed XML: {e}", xml)
    else:
        if etref.et_dict(xml) != xp.parse_ksr(xml):
            fail("standard-parser", "ElementTree and the reader extract different data from the emitted SKR", xml)
    # (v) the independent reference writer's document loads to the same response
    ref = vlib.run_impl(response_from_xml, ksrxml.render_skr(skr))
    if ref[0] != "ok" or ref[1] != resp:
        fail("reference-writer", "reference rendering of the same response loads differently", xml)
    emitted.append((xml, resp, nb))

# ------------------------------------------------------------------ 2a. the file the tool writes: exactly the document, whatever was at the path before
from kskm.signer import output_skr_xml
from kskm.skr.load import load_skr
for xml, resp, nb in emitted[: (8 if TIER == "quick" else 60)]:
    for before in (None, b"", b"<old/>\n", xml.encode() + b"<!-- tail of a longer, earlier file -->\n" * 3, b"\xff" * (len(xml.encode()) + R.randrange(1, 4000))):
        path = os.path.join(tmpd, "written.xml")
        if os.path.exists(path):
            os.unlink(path)
        if before is not None:
            with open(path, "wb") as f:
                f.write(before)
        w = vlib.run_impl(output_skr_xml, resp, path)
        count("written-file")
        got = open(path, "rb").read() if os.path.exists(path) else None
        if w[0] != "ok":
            fail("write", f"output_skr_xml raised {w[2]}", xml)
        elif got != xml.encode():
            fail("write", f"the file written over {'nothing' if before is None else str(len(before)) + ' earlier octets'} holds {len(got or b'')} octets, the SKR document has {len(xml.encode())}"
                          + ("; the document is followed by remains of the earlier file" if got and got.startswith(xml.encode()) else ""), xml, {"before_len": None if before is None else len(before)})
        else:
            lf = vlib.run_impl(load_skr, path, ResponsePolicy(num_bundles=nb))
            if lf[0] != "ok" or lf[1] != resp:
                fail("write", f"the written file does not load back to the same response ({lf[2] if lf[0] != 'ok' else 'differs'})", xml)

# ------------------------------------------------------------------ 2b. document level: the writer's element structure and the loader vs Model.SkrDoc
from kgen import coq_response, handle


def coq_val(v, name=None):
    if isinstance(v, str):
        if name == "PublicKey":
            return f"(VStr {handle(v.encode())})"
        if name == "SignatureData":
            return f"(VStr {handle(b'sig:' + v.encode())})"
        return f"(VStr {txt(v)})"
    if isinstance(v, list):
        return "(VList [" + ";".join(coq_val(x, name) for x in v) + "])"
    if isinstance(v, dict):
        if set(v.keys()) == {"attrs", "value"}:
            return f"(VAttrs [{';'.join(f'({txt(k)}, {txt(x)})' for k, x in v['attrs'].items())}] {coq_val(v['value'], name)})"
        return "(VNode [" + ";".join(f"({txt(k)}, {coq_val(x, k)})" for k, x in v.items()) + "])"
    raise TypeError(type(v))


dcases, dmeta = [], []
for xml, resp, nb in emitted[: (10 if TIER == "quick" else 60)]:
    pr = vlib.run_impl(xp.parse_ksr, xml)
    ld = vlib.run_impl(response_from_xml, xml)
    doc = "(OK [" + ";".join(f"({txt(k)}, {coq_val(v, k)})" for k, v in pr[1].items()) + "])" if pr[0] == "ok" else f"(Raise {pr[1]})"
    loaded = f"(OK {coq_response(ld[1], with_txt='handle', with_data='handle', with_pub=False, keep_order=True)})" if ld[0] == "ok" else f"(Raise {ld[1]})"
    dcases.append(f"({coq_response(resp, with_txt='handle', with_data='handle', with_pub=False, keep_order=True)}, {doc}, {loaded})")
    dmeta.append({"kind": "skr-document", "desc": {"bundles": nb, "xml_bytes": len(xml)}, "spec_ok": True, "spec_msg": "", "key": None})
    count("skr-document")
if dcases:
    drunner = vlib.CaseRun("C11", "doc", "From KV Require Import Base.Prelude Base.Exn Model.Data Model.Xml Model.SkrDoc Checks.C11Check.", "doc_case", "check_doc", shard=2)
    dresults = drunner.run(dcases) if ok_build else [-1] * len(dcases)
    props_doc = dict(props)
    props_doc["ok"] = True
    vlib.classify(rep, props_doc, dmeta, dresults, dcases, drunner, "Checks.C11Check.check_doc (skr_to_xml element structure / response_from_xml vs Model.SkrDoc)")
    drunner.cleanup()

# ------------------------------------------------------------------ 2c. text level: Model.SkrText.skr_text r is the text the real writer emits
tcases, tmeta = [], []
for xml, resp, nb in sorted(emitted, key=lambda e: len(e[0]))[: (6 if TIER == "quick" else 40)]:
    tcases.append(f"({coq_response(resp, with_txt=True, with_data=True, with_pub=False, keep_order=True)}, {txt(xml)})")
    tmeta.append({"kind": "skr-text", "desc": {"bundles": nb, "xml_bytes": len(xml)}, "spec_ok": True, "spec_msg": "", "key": None})
    count("skr-text")
if tcases:
    trunner = vlib.CaseRun("C11", "text", "From KV Require Import Base.Prelude Base.Exn Model.Data Model.Xml Model.SkrDoc Checks.C11Check.", "text_case", "check_text", shard=2)
    tresults = trunner.run(tcases) if ok_build else [-1] * len(tcases)
    props_t = dict(props)
    props_t["ok"] = True
    vlib.classify(rep, props_t, tmeta, tresults, tcases, trunner, "Checks.C11Check.check_text (skr_to_xml text vs Model.SkrText.skr_text; premises of skr_file_roundtrip)")
    trunner.cleanup()

# ------------------------------------------------------------------ 3. every proper prefix fails to load or loads identically
n_prefix = 0
loads_identical = 0
for idx, (xml, resp, nb) in enumerate(emitted[: (3 if TIER == "quick" else 6)]):
    data = xml.encode()
    if data.count(b"</KSR>") != 1 or not data.rstrip().endswith(b"</KSR>"):
        fail("prefix-premise", "'</KSR>' does not occur exactly once, at the end of the emitted file", xml)
    n = len(data)
    if TIER == "thorough" and idx < 3:
        offsets = range(n)
    else:
        offsets = sorted(set(list(range(max(0, n - 300), n)) + [m.start() for m in re.finditer(rb"[<>]", data)] + [m.end() for m in re.finditer(rb"[<>]", data)]
                             + [R.randrange(n) for _ in range(500)]))
    path = os.path.join(tmpd, "prefix.xml")
    pol = ResponsePolicy(num_bundles=nb)
    pol_any = [ResponsePolicy(num_bundles=k) for k in range(1, nb + 1)]
    for off in offsets:
        if off >= n:
            continue
        n_prefix += 1
        with open(path, "wb") as f:
            f.write(data[:off])
        got = None
        for p_ in ([pol] if off % 7 else pol_any):     # a shorter file must not load even if the operator expects fewer bundles
            r = vlib.run_impl(load_skr, path, p_)
            if r[0] == "ok":
                got = r[1]
                break
        if got is not None:
            if got == resp:
                loads_identical += 1
            else:
                fail("prefix", f"a write cut at byte {off} of {n} loads as a valid response with {len(got.bundles)} of {nb} bundles", xml, {"offset": off})
    count("prefix-files")
count("prefixes", n_prefix)
import shutil

shutil.rmtree(tmpd, ignore_errors=True)

# ------------------------------------------------------------------ 4. the truncation theorem's model vs the real reader on prefixes
import xmlcases as X

small = min(emitted, key=lambda e: len(e[0]))[0] if emitted else None
pcases, pmeta = [], []
if small:
    n = len(small)
    for off in sorted(set([n, n - 1, n - 2, n - 7, n - 8] + [R.randrange(1, n) for _ in range(40 if TIER == "quick" else 200)])):
        c, r = X.case_parse(xp, small[:off], ksr=True)
        pcases.append(c)
        pmeta.append({"kind": "model-prefix", "desc": {"offset": off, "of": n, "impl": r[0] if r[0] == "ok" else r[2]}, "spec_ok": True, "spec_msg": "", "key": None})
    count("model-prefix", len(pcases))
    # character level: what the writer emits is a plain-form tree (premises of reader_extracts_tree), and the reader's result is the tree's data
    for xml_, _resp, _nb in sorted(emitted, key=lambda e: len(e[0]))[: (4 if TIER == "quick" else 20)]:
        if len(xml_) > 12000:
            break
        ct = X.case_tree(xp, xml_)
        if ct is None:
            fail("plain-form", "an emitted SKR is outside the plain form (start tags on one line, double-quoted non-empty attributes, text without '<')", xml_)
            continue
        pcases.append(ct)
        pmeta.append({"kind": "emitted-skr-is-plain-form-tree", "desc": {"xml_bytes": len(xml_)}, "spec_ok": True, "spec_msg": "", "key": None})
        count("emitted-skr-is-plain-form-tree")
    okb, _ = vlib.make(["Checks/XmlCheck.vo"])
    prunner = vlib.CaseRun("C11", "prefix", "From KV Require Import Base.Prelude Base.Exn Model.Data Model.Xml Model.XmlTree Checks.XmlCheck.", "case", "check", shard=12)
    presults = prunner.run(pcases) if okb else [-1] * len(pcases)
    props_ok = dict(props)
    props_ok["ok"] = True      # the proof-broken report was already issued by the first classify() call
    vlib.classify(rep, props_ok, pmeta, presults, pcases, prunner, "Checks.XmlCheck.check (reader on prefixes of an emitted SKR)")
    prunner.cleanup()

rep.coverage.update({
    "evaluations": len(cases) + n_skr + n_prefix + len(pcases), "distinct_nontrivial": len(set(cases)) + n_skr + n_prefix,
    "rule": "(1) timedelta_to_duration on 0..129 s, every carry boundary (60 s, 3600 s, 1 d, 21 d, 400 d, +-61 s) and random durations to 400 d; "
            "duration_to_timedelta on a grammar of well- and ill-formed ISO 8601 strings; both compared with the Coq model, and the writer's output must "
            "read back exactly and be an xsd:duration. (2) responses built by a reference signer (1..9 bundles, 1..2 ZSKs, publish/sign/revoke mixes, "
            "two signers, RSASHA256/512 policies, arbitrary ids/serials, policy durations incl. carries) -> skr_to_xml -> response_from_xml equality, "
            "validate_response, ksr.rnc conformance (hand-translated), ElementTree agreement, reference-writer agreement. (3) load_skr on proper prefixes "
            "(last 300 bytes, every tag boundary, 500 random offsets; thorough: every byte of 3 files).",
    "distribution": hist, "prefixes_loading_identically": loads_identical, "samples": samples or ["(none)"],
})
rep.assumptions += ["OS-level atomicity of the final write is not modelled; a cut write = a proper prefix of the file", "calendar/timezone conversion (strftime/fromisoformat) is Python's"]
sys.exit(rep.finish())
