"""C12 - The KSR/SKR reader agrees with a standard XML parser, in any sibling order."""
import argparse
import os
import datetime as dt
import sys

import vlib

ap = argparse.ArgumentParser()
ap.add_argument("--tier")
ap.add_argument("--replay")
args = ap.parse_args()
TIER = vlib.tier(args.tier)
SCALE = 1 if TIER == "quick" else 10

vlib.setup_impl_path()
rep = vlib.Report("C12", TIER)
props = vlib.build_props("C12")
rep.add_props(props)

import etref
import ksrxml
import skrgen
import xmlcases as X
from kskm.common import xml_parser as xp
from kskm.common.config_misc import RequestPolicy, ResponsePolicy
from kskm.ksr.load import request_from_xml
from kskm.ksr.validate import validate_request
from kskm.skr.load import response_from_xml
from kskm.skr.validate import validate_response

D = dt.timedelta
R = vlib.rng("C12")
NOW = dt.datetime.now(dt.timezone.utc).replace(microsecond=0)
P = ksrxml.POOL
RSAK = [ksrxml.mk_key(P.rsa(1024, 65537, 40 + i), alg=8) for i in range(4)]
ECK = [ksrxml.mk_key(P.ec(256, 40 + i), alg=13) for i in range(4)] + [ksrxml.mk_key(P.ec_x_first(13, 4), alg=13), ksrxml.mk_key(P.ec_x_lenlike(13), alg=13)]     # incl. keys whose octets begin like a SEC1 / DER prefix
KS = {"ksk_current": skrgen.ksk("Kcur", 0), "ksk_next": skrgen.ksk("Knext", 1)}
P.save()
hist = {}
cases, meta = [], []
n_docs = 0
samples = []


def count(k):
    hist[k] = hist.get(k, 0) + 1


def gen_request(nb=None, small=False):
    nb = nb or R.randrange(1, 10)
    pool = ECK if small else R.choice([RSAK, ECK, RSAK + ECK])
    slots = []
    for j in range(nb):
        ks = R.sample(pool, R.randrange(1, min(3, len(pool)) + 1))
        slots.append(ks)
    algs = []
    for k in {id(k): k for s in slots for k in s}.values():
        a = ("RSA", 8, 1024, 65537) if k["alg"] == 8 else ("ECDSA", 13, 256)
        if a not in algs:
            algs.append(a)
    # further declared algorithms, among them entries that differ from another one in a single parameter (exponent only, size only, number only)
    for extra in R.sample([("RSA", 10, 2048, 3), ("ECDSA", 14, 384), ("RSA", 8, 4096, 65537), ("RSA", 8, 1024, 3), ("RSA", 10, 1024, 65537), ("RSA", 8, 1024, 2**32 + 1),
                           ("RSA", 10, 2048, 65537)], R.randrange(0, 4)):
        if len(algs) < 4 and extra not in algs:
            algs.append(extra)
    req = skrgen.honest_request(f"id-{R.randrange(10**8):x}", NOW + D(days=3, seconds=R.randrange(86400)), nb, slots,
                                ksrxml.default_zsk_policy(algs=algs), sign=True)
    for b in req["bundles"]:
        b["signers"] = [f"KC{R.randrange(10**5):05d}" for _ in range(R.choice([0, 0, 1, 2, 3]))]
        extra_sigs = R.choice([0, 0, 1])
        if extra_sigs and len(b["keys"]) > 0:   # up to 3 signatures: a second signature by the same key over other times is still a valid document
            pass
    req["serial"] = R.randrange(0, 10**6)
    if R.random() < 0.3:
        req["timestamp"] = NOW
    if R.random() < 0.35:
        # attribute values with characters that are ordinary inside double quotes: apostrophes, '=', '/', '>' as &gt; is not needed, spaces, non-ASCII
        spice = lambda v: v + R.choice(["'", "'s", " o'clock", "='x'", "/2", " ", ".b", "-é", "'\''"])
        req["id"] = spice(req["id"])
        if R.random() < 0.5:
            req["id"] = R.choice([" ", ""]) + req["id"] + R.choice([" ", "  ", "\t"])
        j = R.randrange(len(req["bundles"]))
        req["bundles"][j]["id"] = spice(req["bundles"][j]["id"])
        if req["bundles"][j].get("signers"):
            req["bundles"][j]["signers"][0] = spice(req["bundles"][j]["signers"][0])
    return req


def same(a, b):
    return a == b


def violation(kind, msg, doc, extra=None, key=None):
    rep.violation("impl-vs-spec", f"{kind}: {msg}", {"kind": kind, "document": doc[:200000], **(extra or {})}, key=key)


def tabs_to_spaces(v):
    """the reader's dict with XML attribute-value normalisation of tabs applied (to tell that one known difference from any other)"""
    if isinstance(v, dict):
        if set(v.keys()) == {"attrs", "value"}:
            return {"attrs": {k: x.replace("\t", " ") for k, x in v["attrs"].items()}, "value": tabs_to_spaces(v["value"])}
        return {k: tabs_to_spaces(x) for k, x in v.items()}
    if isinstance(v, list):
        return [tabs_to_spaces(x) for x in v]
    return v


def compare_with_et(kind, doc, ksr=True):
    """A: kskm's reader vs ElementTree on the same text."""
    global n_docs
    n_docs += 1
    count(kind)
    r = X.run_timed(xp.parse_ksr, doc, budget=20)
    try:
        ref = etref.et_dict(doc[doc.index("<KSR"):] if not doc.lstrip().startswith("<?xml") else doc)
    except Exception as e:  # noqa: BLE001 - generator bug, not a finding
        raise RuntimeError(f"reference parser rejected a generated document: {e}\n{doc[:400]}")
    if r[0] != "ok":
        violation(kind, f"reader failed ({r[2]}) on a plain-form document a standard parser accepts", doc)
        return None
    if r[1] != ref:
        if tabs_to_spaces(r[1]) == ref:
            violation(kind, "a tab inside an attribute value is kept by the reader and normalised to a space by ElementTree", doc, key="attr-value-tab-not-normalised")
            return r[1]
        violation(kind, "reader and ElementTree extract different data", doc, {"reader": str(r[1])[:1500], "elementtree": str(ref)[:1500]})
        return None
    return r[1]


POL = lambda nb: RequestPolicy(num_bundles=nb, validate_signatures=True, keys_match_zsk_policy=True, check_cycle_length=False,
                               check_bundle_intervals=False, check_keys_match_ksk_operator_policy=False, enable_unsupported_ecdsa=True,
                               signature_algorithms_match_zsk_policy=False, signature_horizon_days=400)


def verdict(req, nb):
    r = vlib.run_impl(validate_request, req, POL(nb))
    return "ok" if r[0] == "ok" else r[2]


# ---- 1. grammar-generated documents: layouts, attribute order, empty-element form, prolog
PROLOGS = ["", '<?xml version="1.0" encoding="UTF-8"?>\n', '<?xml version="1.0"?>\n<!-- document generated by ksr-client.pl revision 75 -->\n',
           "\n\n  ", '<?xml version="1.0" encoding="UTF-8"?><!-- K S R --><!-- second comment -->\n']
for i in range(120 * SCALE):
    req = gen_request()
    tree = ksrxml.ksr_tree(req)
    canon = ksrxml.render_tree(tree)
    rb_ = vlib.run_impl(request_from_xml, canon)
    if rb_[0] != "ok":
        violation("canonical", f"a conformant KSR (canonical layout) is refused by the reader: {rb_[2]}", canon)
        continue
    base = rb_[1]
    # the request object against the generator's own data (what any reader of the document must extract), field by field
    want_req = skrgen.k_request(req)
    diffs = [f for f in ("id", "serial", "domain") if getattr(base, f) != getattr(want_req, f)]
    if base.timestamp != req.get("timestamp"):
        diffs.append("timestamp")
    for f in ("publish_safety", "retire_safety", "max_signature_validity", "min_signature_validity", "max_validity_overlap", "min_validity_overlap", "algorithms"):
        if getattr(base.zsk_policy, f) != getattr(want_req.zsk_policy, f):
            diffs.append("zsk_policy." + f)
    if {b.id: b for b in base.bundles} != {b.id: b for b in want_req.bundles} or len(base.bundles) != len(want_req.bundles):
        diffs.append("bundles")
    # identifiers character for character, against the generator's own strings (not re-built through the tool's data classes)
    if base.id != req["id"]:
        diffs.append(f"id {base.id!r} != {req['id']!r}")
    if sorted(b.id for b in base.bundles) != sorted(b["id"] for b in req["bundles"]):
        diffs.append("bundle ids")
    if sorted(k.key_identifier for b in base.bundles for k in b.keys) != sorted(k["id"] for b in req["bundles"] for k in b["keys"]):
        diffs.append("key identifiers")
    if sorted(s.key_identifier for b in base.bundles for s in b.signatures) != sorted(s["id"] for b in req["bundles"] for s in b["sigs"]):
        diffs.append("signature key identifiers")
    if sorted(x.key_identifier for b in base.bundles for x in (b.signers or [])) != sorted(x for b in req["bundles"] for x in b.get("signers", [])):
        diffs.append("signer identifiers")
    count("request-vs-generator")
    if diffs:
        violation("canonical", f"the loaded request differs from the document's content in {diffs}"
                  + (f": algorithms read {sorted(map(str, base.zsk_policy.algorithms))}, document states {sorted(map(str, want_req.zsk_policy.algorithms))}" if "zsk_policy.algorithms" in diffs else ""), canon)
    base_verdict = verdict(base, len(req["bundles"]))
    d0 = compare_with_et("canonical", canon)
    for variant in range(2):
        doc = R.choice(PROLOGS) + ksrxml.render_tree(tree, R, permute=False)
        d1 = compare_with_et("layout", doc)
        if d1 is not None and d0 is not None and d1 != d0:
            violation("layout", "extracted data depends on whitespace / empty-element form / prolog", doc)
        r = vlib.run_impl(request_from_xml, doc)
        if r[0] != "ok" or r[1] != base:
            violation("layout", f"request differs from the canonical rendering's ({r[2] if r[0] != 'ok' else 'unequal'})", doc)
    # timestamps in each UTC notation, read by a process in another time zone: the instants are the document's (what ElementTree + fromisoformat give)
    if i % 4 == 1:
        tz_, sfx_ = [("JST-9", ""), ("PST8", "Z"), ("IST-5:30", ""), ("PST8", "+00:00"), ("UTC", ""), ("JST-9", "Z")][(i // 4) % 6]
        with ksrxml.process_zone(tz_, sfx_):
            zdoc = ksrxml.render_tree(ksrxml.ksr_tree(req), R)
            rz = vlib.run_impl(request_from_xml, zdoc)
        count("time-zone")
        n_docs += 1
        if rz[0] != "ok":
            violation("time-zone", f"a KSR with timestamps written ...{sfx_!r} is refused ({rz[2]}) when the process runs with TZ={tz_}", zdoc)
        else:
            got_t = {b.id: (b.inception, b.expiration, sorted((s_.key_identifier, s_.signature_inception, s_.signature_expiration) for s_ in b.signatures)) for b in rz[1].bundles}
            want_t = {b["id"]: (b["inc"], b["exp"], sorted((s_["id"], s_["inc"], s_["exp"]) for s_ in b["sigs"])) for b in req["bundles"]}
            if got_t != want_t or rz[1].timestamp != req.get("timestamp"):
                bid = next((k for k in want_t if got_t.get(k) != want_t[k]), None)
                violation("time-zone", f"timestamps written ...{sfx_!r} are read differently when the process runs with TZ={tz_}: "
                          + (f"bundle {bid}: read {got_t.get(bid, ('?', '?'))[0]} / {got_t.get(bid, ('?', '?'))[1]}, document states {want_t[bid][0]} / {want_t[bid][1]}" if bid else
                             f"header timestamp read {rz[1].timestamp}, document states {req.get('timestamp')}"), zdoc)
    # base64 content broken into lines (xsd:base64Binary allows it; mail and PEM tools do it): same octets, same verdict
    if i % 3 == 0:
        doc = ksrxml.render_tree(tree, R, wrap=True)
        compare_with_et("wrapped-base64", doc)
        r = vlib.run_impl(request_from_xml, doc)
        if r[0] != "ok":
            violation("wrapped-base64", f"a KSR whose base64 content is broken into lines is refused by the reader ({r[2]}); on one line it loads", doc)
        else:
            import base64 as _b64
            got_k = sorted((k.key_identifier, _b64.b64decode(k.public_key)) for b in r[1].bundles for k in b.keys)
            want_k = sorted((k["id"], k["pub"]) for b in req["bundles"] for k in b["keys"])
            got_s = sorted((s_.key_identifier, _b64.b64decode(s_.signature_data)) for b in r[1].bundles for s_ in b.signatures)
            want_s = sorted((s_["id"], s_["data"]) for b in req["bundles"] for s_ in b["sigs"])
            if got_k != want_k or got_s != want_s:
                violation("wrapped-base64", "key or signature octets read from line-broken base64 differ from the document's", doc)
            else:
                v = verdict(r[1], len(req["bundles"]))
                if v != base_verdict:
                    violation("wrapped-base64", f"validation verdict depends on line breaks inside base64 content: {base_verdict} on one line, {v} broken into lines", doc)
    # sibling permutations (bundles, keys, signatures, signers, policy children, attribute order)
    for variant in range(2):
        doc = ksrxml.render_tree(tree, R, permute=True)
        compare_with_et("permuted", doc)
        r = vlib.run_impl(request_from_xml, doc)
        if r[0] != "ok":
            violation("permuted", f"loader failed ({r[2]}) on a permuted document", doc)
        elif r[1] != base:
            violation("permuted", "request depends on the document order of sibling elements", doc)
        else:
            v = verdict(r[1], len(req["bundles"]))
            if v != base_verdict:
                violation("permuted", f"validation verdict depends on document order: {base_verdict} vs {v}", doc)
    if len(samples) < 3:
        samples.append({"bundles": len(req["bundles"]), "keys": [len(b["keys"]) for b in req["bundles"]], "signers": [len(b["signers"]) for b in req["bundles"]],
                        "algs": len(req["zsk"]["algs"]), "layout_doc_head": doc[:160], "verdict": base_verdict})

# equal expirations / equal slots: order must still not matter
for i in range(10 * SCALE):
    req = gen_request(nb=3)
    req["bundles"][1]["exp"] = req["bundles"][0]["exp"]
    if i % 2:
        req["bundles"][1]["inc"] = req["bundles"][0]["inc"]
    for b in req["bundles"]:
        b["sigs"] = [ksrxml.mk_sig(k, b["keys"], b["inc"], b["exp"]) for k in b["keys"]]
    tree = ksrxml.ksr_tree(req)
    rb_ = vlib.run_impl(request_from_xml, ksrxml.render_tree(tree))
    if rb_[0] != "ok":
        violation("canonical", f"a conformant KSR is refused by the reader: {rb_[2]}", ksrxml.render_tree(tree))
        continue
    base = rb_[1]
    for _ in range(4):
        doc = ksrxml.render_tree(tree, R, permute=True)
        count("equal-expirations")
        n_docs += 1
        r = vlib.run_impl(request_from_xml, doc)
        if r[0] != "ok" or r[1] != base:
            violation("equal-expirations", "request depends on document order when bundles share expiration (and inception)", doc)

# ---- 2. repetition count exactly one, for every repeatable element
for i in range(8 * SCALE):
    req = gen_request(nb=1)
    b = req["bundles"][0]
    b["keys"] = b["keys"][:1]
    b["sigs"] = [ksrxml.mk_sig(b["keys"][0], b["keys"], b["inc"], b["exp"])]
    b["signers"] = ["KC00001"]
    req["zsk"]["algs"] = req["zsk"]["algs"][:1]
    doc = ksrxml.render_tree(ksrxml.ksr_tree(req), R)
    d = compare_with_et("count-one", doc)
    r = vlib.run_impl(request_from_xml, doc)
    if r[0] != "ok":
        violation("count-one", f"a KSR with exactly one bundle/key/signature/signer/algorithm does not load: {r[2]}", doc)
    elif (len(r[1].bundles), len(r[1].bundles[0].keys), len(r[1].bundles[0].signatures), len(r[1].bundles[0].signers or ()), len(r[1].zsk_policy.algorithms)) != (1, 1, 1, 1, 1):
        violation("count-one", "wrong element counts extracted", doc)
    # SKR with exactly one ResponseBundle
    schema = {1: {"publish": ["ksk_current"], "sign": ["ksk_current"], "revoke": []}}
    rsareq = skrgen.honest_request("one", NOW + D(days=3), 1, [[RSAK[0]]], ksrxml.default_zsk_policy(), sign=False)
    skr = skrgen.simulate_skr(rsareq, schema, KS, ksrxml.default_zsk_policy())
    sdoc = ksrxml.render_tree(ksrxml.skr_tree(skr), R)
    compare_with_et("count-one-skr", sdoc)
    r = vlib.run_impl(response_from_xml, sdoc)
    if r[0] != "ok" or len(r[1].bundles) != 1:
        violation("count-one-skr", f"an SKR with exactly one ResponseBundle does not load: {r[2] if r[0] != 'ok' else ''}", sdoc)

# ---- 3. SKR documents: layouts and permutations (bundle order is positional by design -> compared as multisets)
for i in range(25 * SCALE):
    nb = R.randrange(1, 10)
    zs = [[R.choice(RSAK)] for _ in range(nb)]
    rq = skrgen.honest_request(f"skr-{i}", NOW + D(days=3), nb, zs, ksrxml.default_zsk_policy(), sign=False)
    schema = {j: {"publish": ["ksk_current"] + (["ksk_next"] if R.random() < 0.4 else []), "sign": ["ksk_current"] + (["ksk_next"] if R.random() < 0.3 else []),
                  "revoke": []} for j in range(1, nb + 1)}
    skr = skrgen.simulate_skr(rq, schema, KS, ksrxml.default_zsk_policy(publish_safety=D(days=R.randrange(0, 30), seconds=R.randrange(0, 4000))))
    tree = ksrxml.skr_tree(skr)
    canon = ksrxml.render_tree(tree)
    compare_with_et("skr-canonical", canon)
    rb_ = vlib.run_impl(response_from_xml, canon)
    if rb_[0] != "ok":
        violation("canonical", f"a conformant SKR is refused by the reader: {rb_[2]}", canon)
        continue
    base = rb_[1]
    for variant in range(2):
        doc = ksrxml.render_tree(tree, R, permute=variant == 1)
        compare_with_et("skr-layout" if variant == 0 else "skr-permuted", doc)
        r = vlib.run_impl(response_from_xml, doc)
        key = lambda resp: (resp.id, resp.serial, resp.domain, resp.ksk_policy, resp.zsk_policy, sorted(resp.bundles, key=lambda b: b.id))
        if r[0] != "ok" or key(r[1]) != key(base):
            violation("skr", f"response differs ({r[2] if r[0] != 'ok' else 'unequal'})", doc)
        else:
            v1 = vlib.run_impl(validate_response, base, ResponsePolicy(num_bundles=nb))[0]
            v2 = vlib.run_impl(validate_response, r[1], ResponsePolicy(num_bundles=nb))[0]
            if v1 != v2 or v1 != "ok":
                violation("skr", f"validation verdict differs or honest SKR refused: {v1} / {v2}", doc)

# ---- 3b. an SKR with one signature that does not verify, in a bundle other than the first: refused whatever the order of the bundles in the document
import copy as _copy
for i in range(6 * SCALE):
    nb = R.randrange(2, 6)
    rq = skrgen.honest_request(f"skr-bad-{i}", NOW + D(days=3), nb, [[R.choice(RSAK)] for _ in range(nb)], ksrxml.default_zsk_policy(), sign=False)
    skr = skrgen.simulate_skr(rq, {j: {"publish": ["ksk_current"], "sign": ["ksk_current"], "revoke": []} for j in range(1, nb + 1)}, KS, ksrxml.default_zsk_policy())
    bad = {**skr, "bundles": [dict(b, sigs=[dict(s_) for s_ in b["sigs"]]) for b in skr["bundles"]]}
    jb = R.randrange(1, nb)
    sd_ = bytearray(bad["bundles"][jb]["sigs"][0]["data"]); sd_[R.randrange(len(sd_))] ^= 0x20
    bad["bundles"][jb]["sigs"][0]["data"] = bytes(sd_)
    tree_b = ksrxml.skr_tree(bad)
    for variant in range(4):
        doc = ksrxml.render_tree(tree_b, R, permute=variant > 0)
        count("skr-bad-signature-any-order")
        n_docs += 1
        r = vlib.run_impl(response_from_xml, doc)
        if r[0] == "ok" and vlib.run_impl(validate_response, r[1], ResponsePolicy(num_bundles=nb))[0] == "ok":
            violation("skr-bad-signature-any-order", f"an SKR whose bundle {jb + 1} of {nb} carries a signature that does not verify passes response validation"
                      f" ({'canonical' if variant == 0 else 'permuted'} document order)", doc)

# ---- 4. prolog containing the literal '<KSR' (known finding: not ignored)
doc = '<?xml version="1.0"?>\n<!-- a <KSR id="x"> element follows -->\n' + ksrxml.render_tree(ksrxml.ksr_tree(gen_request(nb=1)))
n_docs += 1
count("prolog-with-ksr-literal")
r = vlib.run_impl(request_from_xml, doc)
if r[0] != "ok":
    rep.violation("impl-vs-spec", "prolog comment containing '<KSR' is not ignored", {"document": doc[:600], "impl": r[2]}, key="prolog-comment-containing-KSR-open")

# ---- 5. model correspondence: the Coq reader on small plain-form documents and their permutations
for i in range(40 * SCALE):
    req = gen_request(nb=1, small=True)
    req["bundles"][0]["keys"] = req["bundles"][0]["keys"][:1]
    b = req["bundles"][0]
    b["sigs"] = [ksrxml.mk_sig(b["keys"][0], b["keys"], b["inc"], b["exp"])]
    req["zsk"]["algs"] = req["zsk"]["algs"][:1]
    doc = R.choice(PROLOGS[:3]) + ksrxml.render_tree(ksrxml.ksr_tree(req), R, permute=i % 2 == 1)
    if len(doc) > 2800:
        continue
    c, r = X.case_parse(xp, doc, ksr=True)
    cases.append(c)
    meta.append({"kind": "model-plain-doc", "desc": {"doc_head": doc[:200], "len": len(doc)}, "spec_ok": True, "spec_msg": "", "key": None})
    count("model-plain-doc")
    # the same document as a plain-form tree: premises of reader_extracts_tree (wf, depth), tree serialisation = document, tree data = reader's result
    doc_t = R.choice(["", "", "\n", "generated by a client\n"]) + ksrxml.render_tree(ksrxml.ksr_tree(req), R, permute=i % 2 == 1, tail_blanks=i % 4 != 3)
    ct = X.case_tree(xp, doc_t) if len(doc_t) <= 2800 else None
    if ct is None:
        count("plain-form-tree-not-applicable")        # a prolog comment or padded text: outside the theorem's form
    else:
        cases.append(ct)
        meta.append({"kind": "plain-form-tree", "desc": {"doc_head": doc[:200], "len": len(doc)}, "spec_ok": True, "spec_msg": "", "key": None})
        count("plain-form-tree")
# the archived KSRs of the repository's test data are in the theorem's form too
import glob
for path in sorted(glob.glob(str(vlib.REPO / "src/kskm/ksr/tests/data/ksr-root-*.xml")))[: (2 if TIER == "quick" else 5)]:
    ct = X.case_tree(xp, open(path, encoding="utf-8").read())
    if ct is None:
        count("plain-form-tree-not-applicable")
        continue
    cases.append(ct)
    meta.append({"kind": "plain-form-tree", "desc": {"file": os.path.basename(path)}, "spec_ok": True, "spec_msg": "", "key": None})
    count("plain-form-tree-archived")
for i in range(120 * SCALE):
    s = R.choice([X.rand_tagish, X.rand_attrish, X.rand_doc])(R)
    if s.startswith("<") and i % 3 == 0:
        c, r = X.case_parse(xp, s)
    else:
        c, r = (X.case_tag if s.startswith("<") else X.case_attrs)(xp, s)
    cases.append(c)
    meta.append({"kind": "model-function-level", "desc": {"s": s[:200]}, "spec_ok": True, "spec_msg": "", "key": None})
    count("model-function-level")

# timestamps: kskm's reader against Model.Datetime.read_utc on the notations KSR/SKR files use, each read under another process time zone
from kskm.common.parse_utils import parse_datetime as _kskm_parse_datetime
_EPOCH = dt.datetime(1970, 1, 1, tzinfo=dt.timezone.utc)
_special = [dt.datetime(1000, 1, 1, tzinfo=dt.timezone.utc), dt.datetime(9999, 12, 31, 23, 59, 59, tzinfo=dt.timezone.utc), dt.datetime(2024, 2, 29, 12, 0, 0, tzinfo=dt.timezone.utc),
            dt.datetime(2100, 2, 28, 23, 59, 59, tzinfo=dt.timezone.utc), dt.datetime(2000, 2, 29, tzinfo=dt.timezone.utc), dt.datetime(1969, 12, 31, 23, 59, 59, tzinfo=dt.timezone.utc),
            dt.datetime(2038, 1, 19, 3, 14, 8, tzinfo=dt.timezone.utc), dt.datetime(2026, 3, 29, 1, 30, 0, tzinfo=dt.timezone.utc), dt.datetime(2026, 11, 1, 8, 30, 0, tzinfo=dt.timezone.utc)]
_ZONES = [None, "JST-9", "PST8PDT,M3.2.0,M11.1.0", "IST-5:30", "UTC", "CET-1CEST,M3.5.0,M10.5.0/3"]
for i in range(60 * SCALE + len(_special)):
    inst = _special[i] if i < len(_special) else _EPOCH + D(seconds=R.randrange(-30610224000, 253402300799))
    secs = (inst - _EPOCH) // D(seconds=1)
    body = inst.strftime("%Y-%m-%dT%H:%M:%S") if inst.year >= 1000 else None
    for sfx in ("", "Z", "+00:00", "+01:00", "-08:00"):
        text_ = body + sfx
        with ksrxml.process_zone(_ZONES[(i + len(sfx)) % len(_ZONES)], ""):
            r_ = vlib.run_impl(_kskm_parse_datetime, text_)
            got = (r_[1] - _EPOCH) // D(seconds=1) if r_[0] == "ok" else None
        want = secs if sfx in ("", "Z", "+00:00") else None
        cases.append(f"CStamp {vlib.txt(text_)} {'None' if got is None else '(Some (' + str(got) + '))'}")
        meta.append({"kind": "timestamp-notation", "desc": {"text": text_, "TZ": _ZONES[(i + len(sfx)) % len(_ZONES)] or "(unset)", "read_as": got}, "spec_ok": got == want,
                     "spec_msg": f"timestamp {text_!r} read with TZ={_ZONES[(i + len(sfx)) % len(_ZONES)]} as {got} s since the epoch; the document states {want}", "key": None})
        count("timestamp-notation")

ok_build, log = vlib.make(["Checks/XmlCheck.vo"])
runner = vlib.CaseRun("C12", "xml", "From KV Require Import Base.Prelude Base.Exn Model.Data Model.Datetime Model.Xml Model.XmlTree Checks.XmlCheck.", "case", "check", shard=40)
results = runner.run(cases) if ok_build else [-1] * len(cases)
vlib.classify(rep, props, meta, results, cases, runner, "Checks.XmlCheck.check (xml_parser vs Model.Xml)")
runner.cleanup()

rep.coverage.update({
    "evaluations": n_docs + len(cases), "distinct_nontrivial": n_docs + len(set(cases)),
    "rule": "schema-conformant KSR/SKR documents from a grammar-based generator (1..9 bundles, 1..3 keys and signatures, 0..3 signers, 1..3 algorithms, "
            "RSA and ECDSA keys) rendered in plain form with random inter-element whitespace, spaces/tabs inside attribute-carrying start tags, both "
            "empty-element forms, prologs with comments; every document is parsed by kskm and by ElementTree and the two dicts compared; layouts and "
            "random sibling/attribute permutations must give the same Request/Response and the same validation verdict; repetition count one for every "
            "repeatable element; equal-expiration bundles; plus the Coq reader vs kskm on small documents and tag/attribute strings. "
            "distinct_nontrivial = documents accepted by the reference parser + distinct model cases",
    "distribution": hist, "samples": samples or ["(none)"],
    "interpretation": "SKR bundle order is positional by design (no sort on load): responses are compared up to bundle permutation",
})
rep.assumptions += ["ElementTree is the standards-conforming reference parser", "plain form = no comments/CDATA/entities/namespaces inside the KSR element, start tags on one line"]
sys.exit(rep.finish())
