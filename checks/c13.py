"""C13 - Loading any file terminates promptly: a fully validated object or a clean error."""
import argparse
import os
import datetime as dt
import re
import sys

import vlib

ap = argparse.ArgumentParser()
ap.add_argument("--tier")
ap.add_argument("--replay")
args = ap.parse_args()
TIER = vlib.tier(args.tier)
SCALE = 1 if TIER == "quick" else 10

vlib.setup_impl_path()
rep = vlib.Report("C13", TIER)
vlib.regen("IO")
props = vlib.build_props("C13")
rep.add_props(props)

import ksrxml
import loadworker
import skrgen
import xmlcases as X
from kskm.common import xml_parser as xp

D = dt.timedelta
R = vlib.rng("C13")
NOW = dt.datetime.now(dt.timezone.utc).replace(microsecond=0)
BUDGET = 10.0
hist = {}


def count(k):
    hist[k] = hist.get(k, 0) + 1


# ------------------------------------------------------------------ base documents
Z0, Z1, Z2 = skrgen.zsk(0), skrgen.zsk(1), skrgen.zsk(2)
KS = {"ksk_current": skrgen.ksk("Kcur", 0)}
ksrxml.POOL.save()
zs9 = [[Z0, Z1]] + [[Z1]] * 7 + [[Z1, Z2]]
req9 = skrgen.honest_request("c13-req", NOW + D(days=3), 9, zs9, ksrxml.default_zsk_policy(), sign=True)
KSR9 = ksrxml.render_ksr(req9)
POL9 = dict(rsa_approved_key_sizes=[1024], num_bundles=9)
schema = {i: {"publish": ["ksk_current"], "sign": ["ksk_current"], "revoke": []} for i in range(1, 10)}
SKR9 = ksrxml.render_skr(skrgen.simulate_skr(req9, schema, KS, ksrxml.default_zsk_policy()))
ec = ksrxml.mk_key(ksrxml.POOL.ec(256, 0), alg=13)
req1 = skrgen.honest_request("small", NOW + D(days=3), 1, [[ec]], ksrxml.default_zsk_policy(algs=[("ECDSA", 13, 256)]), sign=True)
KSR1 = ksrxml.render_ksr(req1)
ksrxml.POOL.save()
real_files = []
for sub in ["ksr/tests/data", "skr/tests/data", "signer/tests/data"]:
    d = vlib.SRC / "kskm" / sub
    if d.exists():
        for f in sorted(d.glob("*.xml"))[:6]:
            real_files.append(("skr" if "skr" in f.name.lower() else "ksr", f.read_bytes(), f.name))


def variants(doc: str):
    """dictionary of XML syntax variants applied to a valid document"""
    v = {}
    v["single-quotes"] = doc.replace('"', "'")
    v["one-single-quoted-attr"] = re.sub(r'id="([^"]*)"', r"id='\1'", doc, count=1)
    v["empty-attr-value"] = re.sub(r'domain="[^"]*"', 'domain=""', doc, count=1)
    v["stray-attr-name"] = doc.replace("<KSR ", "<KSR checked ", 1)
    v["attr-no-quotes"] = re.sub(r'serial="(\d+)"', r"serial=\1", doc, count=1)
    v["attr-spaces-around-eq"] = re.sub(r'serial="', 'serial = "', doc, count=1)
    v["cdata"] = doc.replace("<Flags>256</Flags>", "<Flags><![CDATA[256]]></Flags>", 1)
    v["comment-inside"] = doc.replace("<Request>", "<Request><!-- note -->", 1)
    v["comment-with-tag-inside"] = doc.replace("<Request>", "<!-- <Request> --><Request>", 1)
    v["entity"] = doc.replace("<Protocol>3</Protocol>", "<Protocol>&#51;</Protocol>", 1)
    v["namespace-prefix"] = doc.replace("<Request>", "<k:Request>", 1).replace("</Request>", "</k:Request>", 1)
    v["xmlns-attr"] = doc.replace("<KSR ", '<KSR xmlns="urn:x" ', 1)
    v["doctype"] = doc.replace("<KSR ", '<!DOCTYPE KSR [<!ENTITY a "b">]>\n<KSR ', 1)
    v["non-utc-time"] = re.sub(r"(<Inception>[^<]*)\+00:00", r"\1+02:00", doc, count=1)
    v["naive-time"] = re.sub(r"(<Inception>[^<]*)\+00:00", r"\1", doc, count=1)
    v["z-time"] = re.sub(r"(<Inception>[^<]*)\+00:00", r"\1Z", doc, count=1)
    v["garbage-time"] = re.sub(r"<Inception>[^<]*", "<Inception>yesterday", doc, count=1)
    v["non-numeric-ttl"] = doc.replace("<TTL>172800</TTL>", "<TTL>lots</TTL>", 1)
    v["float-ttl"] = doc.replace("<TTL>172800</TTL>", "<TTL>1.5</TTL>", 1)
    v["negative-flags"] = doc.replace("<Flags>256</Flags>", "<Flags>-256</Flags>", 1)
    v["huge-serial"] = re.sub(r'serial="\d+"', 'serial="' + "9" * 400 + '"', doc, count=1)
    v["unknown-algorithm"] = re.sub(r"<Algorithm>\d+</Algorithm>", "<Algorithm>99</Algorithm>", doc, count=1)
    v["algorithm-2"] = re.sub(r"<Algorithm>\d+</Algorithm>", "<Algorithm>2</Algorithm>", doc, count=1)
    v["unknown-policy-algorithm"] = re.sub(r'algorithm="\d+"', 'algorithm="200"', doc, count=1)
    v["bad-base64"] = re.sub(r"<PublicKey>....", "<PublicKey>!!*~", doc, count=1)
    v["bad-base64-sig"] = re.sub(r"<SignatureData>....", "<SignatureData>####", doc, count=1)
    v["truncated-base64"] = re.sub(r"(<PublicKey>[^<]{10})[^<]*", r"\1", doc, count=1)
    v["trailing-garbage"] = doc + "garbage after the document"
    v["trailing-element"] = doc + "<Extra>1</Extra>"
    v["two-documents"] = doc + doc[doc.index("<KSR"):]
    v["missing-key"] = re.sub(r"<Key .*?</Key>\s*", "", doc, count=1, flags=re.S)
    v["missing-signature"] = re.sub(r"<Signature .*?</Signature>\s*", "", doc, flags=re.S)
    v["missing-inception"] = re.sub(r"<Inception>.*?</Inception>", "", doc, count=1)
    v["missing-policy"] = re.sub(r"<RequestPolicy>.*?</RequestPolicy>", "", doc, count=1, flags=re.S)
    v["missing-bundle-id"] = re.sub(r'<RequestBundle id="[^"]*"', "<RequestBundle", doc, count=1)
    v["no-ksr-element"] = doc.replace("<KSR", "<ksr").replace("</KSR", "</ksr")
    v["unclosed"] = doc[: doc.rindex("</KSR>")]
    v["wrong-close"] = doc.replace("</Request>", "</Reques>", 1)
    v["type-covered"] = doc.replace("<TypeCovered>DNSKEY</TypeCovered>", "<TypeCovered>SOA</TypeCovered>", 1)
    v["signers-name"] = doc.replace("<SignersName>.</SignersName>", "<SignersName>example.</SignersName>", 1)
    v["ws-in-tags"] = doc.replace("<Request>", "<Request >", 1).replace("<Flags>", "<Flags\t>", 1)
    v["newline-in-tag"] = doc.replace('<KSR id=', '<KSR\n  id=', 1)
    v["newline-between-attrs"] = re.sub(r'(<KSR id="[^"]*") ', r"\1\n     ", doc, count=1)
    v["bom"] = "﻿" + doc
    v["nul-byte"] = doc.replace("<Flags>256", "<Flags>25\x006", 1)
    v["nested-7-levels"] = doc.replace("<Protocol>3</Protocol>", "<Protocol><a><b><c><d><e>3</e></d></c></b></a></Protocol>", 1)
    v["empty"] = ""
    v["whitespace-only"] = " \n\t "
    v["only-open"] = "<KSR"
    v["only-tag"] = '<KSR id="1" domain="." serial="1">'
    v["self-closed-ksr"] = '<KSR id="1" domain="." serial="1"/>'
    v["signer-single"] = doc.replace("</RequestBundle>", '<Signer keyIdentifier="K1"/></RequestBundle>', 1)
    v["signer-empty-pair"] = doc.replace("</RequestBundle>", '<Signer keyIdentifier="K1"></Signer></RequestBundle>', 1)
    return v


def mutate(data: bytes) -> bytes:
    b = bytearray(data)
    op = R.randrange(9)
    n = len(b)
    if n == 0:
        return bytes(b)
    if op == 0:
        for _ in range(R.choice([1, 1, 2, 8])):
            b[R.randrange(n)] ^= 1 << R.randrange(8)
    elif op == 1:
        i, j = sorted((R.randrange(n), R.randrange(n)))
        k = R.randrange(n)
        b[k:k] = b[i:min(j, i + 400)]
    elif op == 2:
        b = b[: R.randrange(n)]
    elif op == 3:
        i = R.randrange(n)
        b[i:i] = b[i:i + R.choice([10, 200, 2000])]
    elif op == 4:
        tags = [m.span() for m in re.finditer(rb"</?\w+[^>]*>", bytes(b))]
        if tags:
            s, e = R.choice(tags)
            del b[s:e]
    elif op == 5:
        qs = [m.start() for m in re.finditer(rb'"', bytes(b))]
        if qs:
            del b[R.choice(qs)]
    elif op == 6:
        i = R.randrange(n)
        del b[i:i + R.choice([1, 5, 50, 500])]
    elif op == 7:
        i = R.randrange(n)
        b[i:i] = R.choice([b"<", b">", b"/>", b"</", b'"', b"\n", b" ", b"<!--", b"<KSR", b"</KSR>", b"\xff", b"\x00"])
    else:
        gts = [m.start() for m in re.finditer(rb">", bytes(b))]
        if gts:
            i = R.choice(gts)
            b[i:i] = b" " * R.choice([1, 3]) + R.choice([b"", b"\n", b"\t"])
    return bytes(b)


# ------------------------------------------------------------------ (1) model correspondence on small documents
cases, meta = [], []
small_variants = variants(KSR1)
for name, doc in small_variants.items():
    if len(doc) < 2600:
        c, r = X.case_parse(xp, doc, ksr=True)
        cases.append(c)
        meta.append({"kind": "variant-" + name, "desc": {"variant": name, "impl": r[0] if r[0] == "ok" else r[2], "doc_len": len(doc)},
                     "spec_ok": r[:2] != ("exc", 0), "spec_msg": "reader did not terminate within 3 s", "key": None})
        count("model:variant")
for i in range(150 * SCALE):
    src = R.choice([KSR1, KSR1, X.rand_doc(R), X.rand_doc(R), "<KSR>" + X.rand_doc(R) + "</KSR>"])
    data = src.encode()
    for _ in range(R.choice([1, 1, 2, 3])):
        data = mutate(data)
    try:
        text = data.decode()
    except UnicodeDecodeError:
        text = data.decode("latin-1")
    if len(text) > 2600:
        continue
    c, r = X.case_parse(xp, text, ksr=True)
    cases.append(c)
    meta.append({"kind": "mutated-small", "desc": {"doc": text[:300], "impl": r[0] if r[0] == "ok" else r[2]},
                 "spec_ok": r[:2] != ("exc", 0), "spec_msg": "reader did not terminate within 3 s", "key": None})
    count("model:mutated-small")
for i in range(100 * SCALE):
    s = R.choice([X.rand_tagish, X.rand_attrish])(R)
    c, r = (X.case_tag if s.startswith("<") else X.case_attrs)(xp, s)
    cases.append(c)
    meta.append({"kind": "tag-or-attr", "desc": {"s": s, "impl": r[0] if r[0] == "ok" else r[2]}, "spec_ok": r[:2] != ("exc", 0),
                 "spec_msg": "did not terminate within 3 s", "key": None})
    count("model:tag-or-attr")

ok_build, log = vlib.make(["Checks/XmlCheck.vo"])
runner = vlib.CaseRun("C13", "xml", "From KV Require Import Base.Prelude Base.Exn Model.Data Model.Xml Checks.XmlCheck.", "case", "check", shard=60)
results = runner.run(cases) if ok_build else [-1] * len(cases)
vlib.classify(rep, props, meta, results, cases, runner, "Checks.XmlCheck.check (xml_parser vs Model.Xml)")
runner.cleanup()

# ------------------------------------------------------------------ (2) the real loaders under a watchdog
W = loadworker.Watchdog(BUDGET)
outcomes = {}
slowest = (0.0, None)
loader_runs = 0
samples = []


def judge(kind, data: bytes, label, opts=None, expect=None, key=None):
    """expect: None | 'object' | 'refused-unread'"""
    global slowest, loader_runs
    out = W.run(kind, data, opts)
    loader_runs += 1
    cls = out[0] if out[0] != "exception" else "exception:" + out[1]
    outcomes[cls] = outcomes.get(cls, 0) + 1
    count("loader:" + label.split(":")[0])
    if out[3] > slowest[0]:
        slowest = (round(out[3], 2), label)
    if len(samples) < 6 and loader_runs % 97 == 1:
        samples.append({"label": label, "size": len(data), "outcome": cls, "seconds": round(out[3], 3)})
    bad = None
    if out[0] == "timeout":
        bad = f"loading did not finish within {BUDGET} s"
    elif out[0] == "crash" or (out[0] == "exception" and out[1] in ("RecursionError", "MemoryError")):
        bad = f"loader ended with {out[1]}"
    elif out[0] == "object" and not out[2].get("validated"):
        bad = "loader returned an object that did not pass through full validation"
    elif out[0] == "object" and out[2].get("signatures_verify") is False:
        bad = "loader returned an object carrying a signature that does not verify under the key the object lists for it (signature validation was on)"
    elif expect == "refused" and out[0] == "object":
        bad = "an invalid document was loaded"
    elif expect == "object" and out[0] != "object":
        bad = f"valid document was not loaded: {out[1]} {out[2]}"
    elif expect == "refused-unread" and not (out[0] == "exception" and out[2].get("reads") == 0):
        bad = f"file larger than 1 MiB was not refused unread: {out[0]} {out[1]} {out[2]}"
    if bad:
        rep.violation("impl-vs-spec", f"{label}: {bad}", {"kind": kind, "label": label, "size": len(data), "outcome": list(out[:3]),
                                                          "head": data[:400].decode("latin-1"), "tail": data[-200:].decode("latin-1"),
                                                          "how_to_rebuild": label}, key=key)
    return out


judge("ksr", KSR9.encode(), "valid:ksr9", POL9, expect="object")
judge("skr", SKR9.encode(), "valid:skr9", None, expect="object")
for name, doc in variants(KSR9).items():
    judge("ksr", doc.encode("utf-8", "surrogatepass") if isinstance(doc, str) else doc, "variant:" + name, POL9)
for name, doc in variants(SKR9.replace("Response", "Response")).items():
    judge("skr", doc.encode(), "variant-skr:" + name)
bases = [("ksr", KSR9.encode(), POL9), ("skr", SKR9.encode(), None)] + [(k, d, None) for k, d, _ in real_files]
for i in range(250 * SCALE):
    kind, data, opts = R.choice(bases)
    for _ in range(R.choice([1, 1, 2, 4])):
        data = mutate(data)
    judge(kind, data[:65536], f"mutation:{i}", opts)
# grammar-violating and large shapes (<= 64 KiB)
judge("ksr", b"\xff\xfe" + KSR9.encode("utf-16-le"), "shape:utf16", POL9)
judge("ksr", KSR9.encode("latin-1").replace(b"Request", b"Requ\xe9st"), "shape:invalid-utf8", POL9)
judge("ksr", ("<KSR>" + "<a>" * 30000 + "</a>" * 30000 + "</KSR>").encode()[:65536], "shape:deep-nesting-64k")
judge("ksr", ('<KSR id="1" domain="." serial="1">' + "<a>" * 8 + "x" + "</a>" * 8 + "</KSR>").encode(), "shape:nesting-8")
judge("ksr", ("<KSR " + 'a="b" ' * 9000 + ">x</KSR>").encode(), "shape:many-attrs-64k")
judge("ksr", ('<KSR id="' + "x" * 60000 + '">y</KSR>').encode(), "shape:long-attr-64k")
judge("ksr", (KSR9[: KSR9.index("<Request>")] + " " * 40000 + KSR9[KSR9.index("<Request>"):]).encode(), "shape:ws-between-elements", POL9, expect="object")
judge("ksr", ("x" * 30000 + KSR9).encode(), "shape:long-prolog", POL9, expect="object")
judge("ksr", ("<KSR>" + "<Request>" * 3000 + "</KSR>").encode(), "shape:unclosed-many")
judge("ksr", ("<KSR>" + "<a>1</a>" * 8000 + "</KSR>").encode(), "shape:siblings-64k")
judge("ksr", ("<KSR" + " " * 2000 + "\n>x</KSR>").encode(), "shape:ws-run-2k")
# field contents that invite backtracking or unbounded conversion: every text field of a signed KSR/SKR in turn
import re as _re
FIELD_TAGS = ["PublishSafety", "MaxSignatureValidity", "MinValidityOverlap", "Inception", "Expiration", "TTL", "Flags", "Algorithm", "PublicKey", "SignatureData", "KeyTag", "SignersName"]
FIELD_VALUES = ["P" + "1" * 28 + "X", "P" + "7" * 4000 + "!", "PT" + "1" * 40 + "Z", "P" + "1D" * 3000, "P" + "T" * 5000, "P" + "1" * 30 + "W" + "2" * 30 + "Q", "9" * 5000,
                "2026-01-01T" + "0" * 3000, "A" * 4001, "=" * 3000, "1" * 26 + "e" + "1" * 26, "P1" + "\u0661" * 30 + "D"]
for kind_, doc_, opts_ in (("ksr", KSR9, POL9), ("skr", SKR9, None)):
    for tag in FIELD_TAGS:
        for vi, val in enumerate(FIELD_VALUES if TIER == "thorough" else FIELD_VALUES[:3] + R.sample(FIELD_VALUES[3:], 3)):
            m = _re.search(f"<{tag}>[^<]*</{tag}>", doc_)
            if not m:
                continue
            judge(kind_, (doc_[:m.start()] + f"<{tag}>{val}</{tag}>" + doc_[m.end():]).encode(), f"field:{kind_}:{tag}:{val[:12]}..{len(val)}", opts_)
# with the contents-logging switches on, every line of the file is echoed to the log: what the file says must stay data
for kind_, doc_, opts_ in (("ksr", KSR9, POL9), ("skr", SKR9, None)):
    for pat in ("{0:0120000000}", "{0!r:>99999999}", "%(x)s %999999999d %n", "{", "}}{{", "{0.__class__.__mro__}", "${jndi:x}"):
        prolog_ = "".join(f"<!-- records {pat} checked -->\n" for _ in range(60))
        judge(kind_, (prolog_ + doc_).encode(), f"log-contents:{kind_}:{pat[:14]}", dict(opts_ or {}, log_contents=True), expect="object")
# the same guarantee whatever interpreter options the tool is started with: -O / PYTHONOPTIMIZE strip assert statements
import json as _json
import subprocess as _sp
OPT_SCRIPT = r"""
import json, logging, sys
sys.path.insert(0, sys.argv[3])
logging.disable(logging.CRITICAL)
import kskm.ksr.load as kload
from kskm.common.config_misc import RequestPolicy
seen = {"validated": False}
orig = kload.validate_request
def vr(req, pol):
    r = orig(req, pol)
    seen["validated"] = r is True
    return r
kload.validate_request = vr
try:
    obj = kload.load_ksr(sys.argv[1], RequestPolicy(**json.loads(sys.argv[2])), raise_original=True)
    print(json.dumps({"outcome": "object", "validated": seen["validated"], "optimize": sys.flags.optimize}))
except BaseException as e:
    print(json.dumps({"outcome": "exception", "class": type(e).__name__, "optimize": sys.flags.optimize}))
"""
_bad_domain = KSR9.replace('domain="."', 'domain="example."', 1)
_m = _re.search(r"<SignatureData>([^<]{20})", KSR9)
_bad_sig = KSR9[:_m.start(1)] + ("A" if KSR9[_m.start(1)] != "A" else "B") + KSR9[_m.start(1) + 1:]
_m2 = _re.search(r'keyTag="(\d+)"', KSR9)
_bad_tag = KSR9[:_m2.start(1)] + str((int(_m2.group(1)) + 1) % 65536) + KSR9[_m2.end(1):]
vlib.WORK.mkdir(exist_ok=True)
for flag_name, argv, env in (("-O", ["-O"], {}), ("-OO", ["-OO"], {}), ("PYTHONOPTIMIZE=1", [], {"PYTHONOPTIMIZE": "1"})):
    for label, doc_, must_load in (("valid", KSR9, True), ("wrong-domain", _bad_domain, False), ("tampered-signature", _bad_sig, False), ("wrong-key-tag", _bad_tag, False)):
        path_ = str(vlib.WORK / "c13-opt.xml")
        with open(path_, "w") as f_:
            f_.write(doc_)
        pr = _sp.run([sys.executable, "-B", *argv, "-c", OPT_SCRIPT, path_, _json.dumps(POL9), str(vlib.REPO / "src")], capture_output=True, text=True, timeout=120,
                     env={**os.environ, **env, "PYTHONDONTWRITEBYTECODE": "1"})
        loader_runs += 1
        count("loader:optimized")
        try:
            out_ = _json.loads(pr.stdout.strip().splitlines()[-1])
        except Exception:  # noqa: BLE001
            out_ = {"outcome": "crash", "stderr": pr.stderr[-300:]}
        bad_ = None
        if out_["outcome"] == "object" and not out_.get("validated"):
            bad_ = "loader returned an object that did not pass through full validation"
        elif out_["outcome"] == "object" and not must_load:
            bad_ = "an invalid KSR was loaded"
        elif out_["outcome"] != "object" and must_load:
            bad_ = f"a valid KSR was not loaded: {out_}"
        if bad_:
            rep.violation("impl-vs-spec", f"interpreter started with {flag_name}, {label} KSR: {bad_}", {"kind": "optimized-interpreter", "flag": flag_name, "document": label, "outcome": out_})
# several files in one process (previous SKR then KSR; a receiver that stays up): what one file said about an identifier says nothing about the next file.
# File B lists, under the identifiers of file A, other keys (key tags in order) but is still signed by A's keys.
_zk = [ksrxml.mk_key(ksrxml.POOL.rsa(1024, 65537, 40 + j), alg=8, ident=f"ZSK-seq-{j}") for j in range(2)]
_zo = [dict(ksrxml.mk_key(ksrxml.POOL.rsa(1024, 65537, 50 + j), alg=8, ident=f"ZSK-seq-{j}")) for j in range(2)]
ksrxml.POOL.save()
_seq_pol = dict(rsa_approved_key_sizes=[1024], num_bundles=2, check_cycle_length=False, num_keys_per_bundle=[2, 1], num_different_keys_in_all_bundles=2)
_reqA = skrgen.honest_request("seq-a", NOW + D(days=3), 2, [[_zk[0], _zk[1]], [_zk[1]]], ksrxml.default_zsk_policy(), sign=True)
_reqB = skrgen.honest_request("seq-b", NOW + D(days=3), 2, [[_zo[0], _zo[1]], [_zo[1]]], ksrxml.default_zsk_policy(), sign=False)
for b_ in _reqB["bundles"]:
    b_["sigs"] = [ksrxml.mk_sig(dict(k_, priv=_zk[int(k_["id"][-1])]["priv"]), b_["keys"], b_["inc"], b_["exp"]) for k_ in b_["keys"]]
_reqB_honest = skrgen.honest_request("seq-b2", NOW + D(days=3), 2, [[_zo[0], _zo[1]], [_zo[1]]], ksrxml.default_zsk_policy(), sign=True)
for rnd_ in range(2):
    judge("ksr", ksrxml.render_ksr(_reqA).encode(), "sequence:honest-file-first", _seq_pol, expect="object")
    judge("ksr", ksrxml.render_ksr(_reqB).encode(), "sequence:other-keys-under-known-identifiers-signed-by-the-first-file's-keys", _seq_pol, expect="refused")
    judge("ksr", ksrxml.render_ksr(_reqB_honest).encode(), "sequence:other-keys-under-known-identifiers-honestly-signed", _seq_pol, expect="object")
    judge("ksr", ksrxml.render_ksr(_reqA).encode(), "sequence:first-file-again", _seq_pol, expect="object")
_skA = skrgen.simulate_skr(skrgen.honest_request("seq-sa", NOW + D(days=3), 2, [[_zk[0]], [_zk[0]]], ksrxml.default_zsk_policy(), sign=False), {i: schema[i] for i in (1, 2)}, KS, ksrxml.default_zsk_policy())
_KS2 = {n: (dict(ksrxml.mk_key(ksrxml.POOL.rsa(1024, 65537, 60), alg=8, flags=257, ident=k_["id"])) if n == "ksk_current" else k_) for n, k_ in KS.items()}
ksrxml.POOL.save()
_skB = skrgen.simulate_skr(skrgen.honest_request("seq-sb", NOW + D(days=3), 2, [[_zk[0]], [_zk[0]]], ksrxml.default_zsk_policy(), sign=False), {i: schema[i] for i in (1, 2)}, _KS2, ksrxml.default_zsk_policy())
_skB_forged = {**_skB, "bundles": [dict(b_, sigs=a_["sigs"], keys=[k_ for k_ in b_["keys"]]) for a_, b_ in zip(_skA["bundles"], _skB["bundles"])]}
judge("skr", ksrxml.render_skr(_skA).encode(), "sequence:honest-skr-first", {"num_bundles": 2}, expect="object")
judge("skr", ksrxml.render_skr(_skB_forged).encode(), "sequence:skr-other-ksk-under-known-identifier-with-the-first-file's-signatures", {"num_bundles": 2}, expect="refused")
judge("skr", ksrxml.render_skr(_skB).encode(), "sequence:skr-other-ksk-under-known-identifier-honestly-signed", {"num_bundles": 2}, expect="object")
# a bundle carrying, next to the valid signature of a key, a second signature naming the same key that does not verify: "fully validated" means every signature
import base64 as _b64
import copy as _copy
_seq9 = dict(rsa_approved_key_sizes=[1024], num_bundles=9)
for v_ in range(8 * SCALE):
    rq_ = _copy.deepcopy({**req9, "bundles": [dict(b_, sigs=[dict(s_) for s_ in b_["sigs"]]) for b_ in req9["bundles"]]})
    j_ = R.randrange(9)
    b_ = rq_["bundles"][j_]
    stray = dict(R.choice(b_["sigs"]))
    stray["data"] = bytes(R.randrange(256) for _ in range(len(stray["data"])))
    if v_ % 3 == 1:
        stray["inc"] = stray["inc"] + D(seconds=1)         # a signature over other times: another RRSIG by the same key, not a duplicate
    b_["sigs"] = ([stray] + b_["sigs"]) if v_ % 2 else (b_["sigs"] + [stray])
    judge("ksr", ksrxml.render_ksr(rq_).encode(), f"stray-signature:ksr-{v_}", _seq9, expect="refused")
    sk_ = skrgen.simulate_skr(req9, schema, KS, ksrxml.default_zsk_policy())
    bb_ = sk_["bundles"][j_]
    stray = dict(bb_["sigs"][0])
    stray["data"] = bytes(R.randrange(256) for _ in range(len(stray["data"])))
    sk_["bundles"][j_] = dict(bb_, sigs=([stray] + bb_["sigs"]) if v_ % 2 else (bb_["sigs"] + [stray]))
    judge("skr", ksrxml.render_skr(sk_).encode(), f"stray-signature:skr-{v_}", None, expect="refused")
# the tools' --debug switch changes what is logged, not what is accepted: valid and invalid documents loaded with debug logging on
_long_validity = ksrxml.render_ksr(skrgen.honest_request("c13-long", NOW + D(days=3), 9, zs9, ksrxml.default_zsk_policy(max_overlap=D(days=16)), validity=D(days=25), sign=True))    # violates only the validity rule
_short_overlap = ksrxml.render_ksr(skrgen.honest_request("c13-gap", NOW + D(days=3), 9, zs9, ksrxml.default_zsk_policy(), interval=D(days=21), sign=True))
for label_, doc_, exp_ in (("valid", KSR9, "object"), ("wrong-domain", _bad_domain, "refused"), ("tampered-signature", _bad_sig, "refused"), ("wrong-key-tag", _bad_tag, "refused"),
                           ("signature-validity-25-days-under-P21D", _long_validity, "refused"), ("bundles-without-overlap", _short_overlap, "refused")):
    for dbg_ in (False, True):
        judge("ksr", doc_.encode(), f"debug-logging:{label_}:{'debug' if dbg_ else 'plain'}", dict(POL9, debug=dbg_), expect=exp_)
_skr_bad = SKR9.replace("<SignatureData>", "<SignatureData>AAAA", 1) if False else None
for dbg_ in (False, True):
    judge("skr", SKR9.encode(), f"debug-logging:valid-skr:{'debug' if dbg_ else 'plain'}", {"num_bundles": 9, "debug": dbg_}, expect="object")
    _m9 = list(_re.finditer(r"<SignatureData>([^<]{20})", SKR9))[-1]
    _skr_tam = SKR9[:_m9.start(1)] + ("A" if SKR9[_m9.start(1)] != "A" else "B") + SKR9[_m9.start(1) + 1:]
    judge("skr", _skr_tam.encode(), f"debug-logging:skr-last-signature-tampered:{'debug' if dbg_ else 'plain'}", {"num_bundles": 9, "debug": dbg_}, expect="refused")
# size cap: exactly 1 MiB is read, one byte more is refused before reading
pad = lambda doc, n: (doc + " " * (n - len(doc.encode()))).encode()
judge("ksr", pad(KSR9, 1024 * 1024), "size:exactly-1MiB", POL9, expect="object")
judge("ksr", pad(KSR9, 1024 * 1024 + 1), "size:1MiB+1", POL9, expect="refused-unread")
judge("skr", pad(SKR9, 1024 * 1024 + 1), "size:skr-1MiB+1", None, expect="refused-unread")
judge("skr", pad(SKR9, 1024 * 1024) + b"\n<KSR>second document</KSR>" * 40, "size:skr-1MiB-then-second-doc", None, expect="refused-unread")
# the two shapes with super-linear cost (findings recorded in known_findings.json)
judge("ksr", ("<KSR" + " " * 65000 + "\n>x</KSR>").encode(), "timing:ws-run-before-newline-64KiB", key="timing-ws-run-before-newline")
judge("ksr", ("<KSR>" + "<a>1</a>" * 131000 + "</KSR>").encode(), "timing:many-siblings-1MiB", key="timing-many-siblings-1MiB")
W.close()

rep.coverage.update({
    "evaluations": len(cases) + loader_runs,
    "distinct_nontrivial": len(set(cases)) + loader_runs - outcomes.get("exception:ValueError", 0) // 2,
    "rule": "(1) parse_ksr / _parse_tag / _parse_attrs on a dictionary of ~50 XML syntax variants of a small valid KSR, byte-level mutations "
            "(bit flips, splices, truncations, duplications, tag/quote deletions, token insertions) and tag/attribute shaped strings, compared with the Coq "
            "model by vm_compute; (2) load_ksr / load_skr on files in a forked worker killed after 10 s: the same variants on 9-bundle signed KSR/SKR, "
            "mutations of generated and archived files (<= 64 KiB), grammar-violating shapes, size-cap files of 1 MiB and 1 MiB + 1, and the two known "
            "super-linear shapes. distinct_nontrivial counts distinct model cases plus loader runs, discounting half of the plain ValueError rejections",
    "distribution": hist, "loader_outcomes": outcomes, "slowest_loader_run": slowest,
    "samples": ([m["desc"] for m in meta[:: max(1, len(meta) // 3)]][:3] + samples)[:8],
})
rep.assumptions += ["wall-clock promptness is measured (10 s budget), not proved; the theorem is termination of every loop with fuel = length + 1",
                    "object => validated is observed by wrapping validate_request/validate_response in the worker"]
sys.exit(rep.finish())
