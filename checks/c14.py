"""C14 - DNSSEC wire-format primitives agree with the RFCs for every key."""
import argparse
import re
import base64
import datetime as dt
import hashlib
import sys
import types

import vlib
from kgen import coq_key, coq_sig, fake_alg, from_us, res_coq
from vlib import z, zlist

ap = argparse.ArgumentParser()
ap.add_argument("--tier")
ap.add_argument("--replay")
args = ap.parse_args()
TIER = vlib.tier(args.tier)
N = 1 if TIER == "quick" else 8

vlib.setup_impl_path()
rep = vlib.Report("C14", TIER)

# ---- Tie 1: regenerate Gen, build proof cone
import subprocess

subprocess.run([vlib.PY, str(vlib.VERIF / "translate/gen.py"), "Wire"], env={**__import__("os").environ, "PYTHONPATH": str(vlib.SRC)})
props = vlib.build_props("C14")
rep.add_props(props)

# ---- implementation under test
import dns.dnssec
import dns.name
import dns.rdata
import dns.rdataclass
import dns.rdatatype
import dns.rrset
from dns.rdtypes.ANY.DNSKEY import DNSKEY
from dns.rdtypes.ANY.RRSIG import RRSIG

import kskm.ta.keydigest as kd
from kskm.common import ecdsa_utils
from kskm.common.data import AlgorithmDNSSEC, Key, Signature, TypeDNSSEC
from kskm.common.dnssec import calculate_key_tag, key_to_rdata
from kskm.common.ecdsa_utils import ECCurve, KSKM_PublicKey_ECDSA, ecdsa_public_key_without_prefix
from kskm.common.rsa_utils import KSKM_PublicKey_RSA
from kskm.common.signature import make_raw_rrsig
from kskm.misc.hsm import KSKM_P11Module, _p11

R = vlib.rng("C14")
cases: list[str] = []
meta: list[dict] = []   # python-side description, spec verdict on the implementation
hist: dict[str, int] = {}


def add(kind, coq, desc, spec_ok=True, spec_msg="", key=None):
    cases.append(coq)
    meta.append({"kind": kind, "desc": desc, "spec_ok": spec_ok, "spec_msg": spec_msg, "key": key})
    hist[kind] = hist.get(kind, 0) + 1


def rand_bytes(n):
    return bytes(R.randrange(256) for _ in range(n))


def pub_material():
    c = R.randrange(8)
    n = R.choice([0, 1, 2, 3, 4, 31, 32, 33, 64, 65, 66, 67, 96, 97, 128, 129, 131, 200, 259, 260])
    if c == 0:
        return b"\xff" * n
    if c == 1:
        return bytes([0xff] * (n // 2) + [R.randrange(256) for _ in range(n - n // 2)])
    if c == 2:
        return b"\x00" * n
    return rand_bytes(n)


ALGS = [a.value for a in AlgorithmDNSSEC]


def mk_key(flags, proto, alg, pub, kid="K", tag=0, ttl=3600):
    algo = AlgorithmDNSSEC(alg) if alg in ALGS else fake_alg(alg)
    return Key.model_construct(key_identifier=kid, key_tag=tag, ttl=ttl, flags=flags, protocol=proto, algorithm=algo,
                               public_key=base64.b64encode(pub))


def dns_dnskey(flags, proto, alg, pub):
    return DNSKEY(dns.rdataclass.IN, dns.rdatatype.DNSKEY, flags, proto, alg, pub)




def steered_pub(flags, alg, n, low16, fold_overflow=False):
    """n (even) random octets whose RFC 4034 App. B accumulator over RDATA(flags, 3, alg, pub) has the given low 16 bits
    (e.g. >= 0xFF80: setting the REVOKE bit carries into the next half-word; 0xFFFF with a non-zero high part: the final fold overflows)."""
    body = rand_bytes(n - 2)
    rd = bytes([flags >> 8, flags & 255, 3, alg]) + body
    acc = sum(b if i & 1 else b << 8 for i, b in enumerate(rd))
    w = (low16 - acc) % 65536
    pub = body + bytes([w >> 8, w & 255])
    return pub

# 1 --- key tag / RDATA
STEER = [(f, a, n, t) for f in (256, 257, 385) for a in (8, 13, 14) for n in ((260,) if a == 8 else (64,) if a == 13 else (96,))
         for t in (0xFF7F, 0xFF80, 0xFFFF, 0x0000, 0x007F, 0x0080, 0xFFFE)]
for i in range(350 * N + len(STEER)):
    flags = R.choice([256, 257, 385, 0, 65535, R.randrange(65536), R.randrange(65536)]) if i % 25 else R.choice([-1, 65536, 70000])
    proto = R.choice([3, 3, 3, 0, 255, R.randrange(256)]) if i % 31 else R.choice([-1, 256])
    alg = R.choice(ALGS + [0, 255, R.randrange(256)]) if i % 37 else R.choice([-1, 256, 300])
    pub = pub_material()
    if i >= 350 * N:
        flags, alg, n_, t_ = STEER[i - 350 * N]
        proto, pub = 3, steered_pub(flags, alg, n_, t_)
    k = mk_key(flags, proto, alg, pub)
    ir = vlib.run_impl(key_to_rdata, k)
    it = vlib.run_impl(calculate_key_tag, k)
    ok, msg = True, ""
    if ir[0] == "ok":
        try:
            ref = dns_dnskey(flags, proto, alg, pub)
            refw = ref.to_wire()
            reft = dns.dnssec.key_id(ref)
            # RFC 4034 App. B.1 defines a different tag for algorithm 1 (RSA/MD5, deprecated, never accepted by the tools)
            if refw != ir[1] or (alg != 1 and it != ("ok", reft)):
                ok, msg = False, f"dnspython rdata/tag = {refw.hex()[:40]}../{reft}, implementation {ir[1].hex()[:40]}../{it}"
        except Exception as e:  # noqa: BLE001
            msg = f"reference unavailable: {e}"
    else:
        in_range = 0 <= flags < 65536 and 0 <= proto < 256 and 0 <= alg < 256
        if in_range:
            ok, msg = False, f"implementation raised {ir} on in-range fields"
    add("keytag", f"CKeyTag {z(flags)} {z(proto)} {z(alg)} {zlist(pub)} {res_coq(ir, zlist)} {res_coq(it, z)}",
        {"flags": flags, "proto": proto, "alg": alg, "pub": pub.hex()}, ok, msg)


# 2 --- RFC 3110 codec
def ref_rfc3110_encode(e, n):
    el = (e.bit_length() + 7) // 8
    eb = e.to_bytes(el, "big")
    hdr = bytes([el]) if el <= 255 else b"\x00" + el.to_bytes(2, "big")
    return hdr + eb + n


for i in range(120 * N):
    el = R.choice([1, 1, 2, 3, 3, 4, 5, 8, 17, 100, 254, 255, 256, 257, 300])
    e = R.choice([3, 65537, 2**32 + 1]) if i % 3 == 0 else (R.getrandbits(8 * el) | (1 << (8 * el - 1)) | 1)
    n = rand_bytes(R.choice([0, 1, 2, 64, 65, 128, 129]))

    def enc():
        return base64.b64decode(KSKM_PublicKey_RSA(bits=len(n) * 8, exponent=e, n=n, algorithm=AlgorithmDNSSEC.RSASHA256).encode_public_key())

    ie = vlib.run_impl(enc)
    ok, msg = True, ""
    if ie[0] == "ok":
        if ie[1] != ref_rfc3110_encode(e, n):
            ok, msg = False, "encoding differs from RFC 3110 reference"
        else:
            d = KSKM_PublicKey_RSA.decode_public_key(base64.b64encode(ie[1]), AlgorithmDNSSEC.RSASHA256)
            if (d.exponent, d.n, d.bits) != (e, n, 8 * len(n)):
                ok, msg = False, f"decode(encode(e,n)) != (e,n): got e={d.exponent} bits={d.bits}"
    else:
        ok, msg = False, f"encode raised {ie}"
    add("rsa_enc", f"CRsaEnc {z(e)} {zlist(n)} {res_coq(ie, zlist)}", {"e": e, "n": n.hex()}, ok, msg)

for i in range(120 * N):
    c = R.randrange(6)
    if c == 0:
        b = rand_bytes(R.choice([0, 1, 2, 3, 4]))
    elif c == 1:
        b = b"\x00" + rand_bytes(R.choice([0, 1, 2, 5]))
    elif c == 2:
        b = bytes([R.randrange(1, 256)]) + rand_bytes(R.randrange(0, 40))   # exponent length beyond data
    else:
        el = R.choice([1, 3, 4, 255, 256, 300])
        b = ref_rfc3110_encode(R.getrandbits(8 * el) | 1, rand_bytes(R.choice([8, 64, 128])))

    def dec():
        d = KSKM_PublicKey_RSA.decode_public_key(base64.b64encode(b), AlgorithmDNSSEC.RSASHA256)
        return (d.bits, d.exponent, d.n)

    idr = vlib.run_impl(dec)
    add("rsa_dec", f"CRsaDec {zlist(b)} {res_coq(idr, lambda t: f'({z(t[0])}, {z(t[1])}, {zlist(t[2])})')}", {"b": b.hex()})

# 3 --- RRSIG to-be-signed data
ROOT = dns.name.root
for i in range(160 * N):
    nk = R.randrange(1, 7)
    keys = []
    common = rand_bytes(R.choice([0, 8, 30]))
    for j in range(nk):
        flags = R.choice([256, 257, 385])
        alg = R.choice([5, 8, 10, 13, 14])
        pub = common + rand_bytes(R.choice([0, 1, 33, 64, 66, 131]))   # shared prefixes, different lengths
        keys.append(mk_key(flags, 3, alg, pub, kid=f"K{j}"))
    bad = (i % 23 == 0)
    labels = R.choice([0, 0, 1, 255]) if not bad else R.choice([0, 256, -1])
    ottl = R.choice([0, 3600, 172800, 2**32 - 1]) if not bad else R.choice([3600, 2**32, -1])
    ttl = R.choice([ottl, ottl, 0, 86400]) if 0 <= ottl < 2**31 else 0
    exp_s = R.choice([1, 1262304000, 1700000000, 2**31, 2**32 - 1]) if not bad else R.choice([1700000000, 2**32])
    inc_s = R.choice([0, 1262304000 - 86400, 1690000000, 2**32 - 1])
    tag = R.choice([0, 1, 19036, 20326, 65535]) if not bad else R.choice([19036, 65536, -1])
    alg = R.choice([5, 8, 10, 13, 14, 0, 255]) if not bad else R.choice([8, 256])
    name = "." if i % 29 else "example."
    # a time given with a fraction of a second (the readers accept one) is signed as the whole second it lies in, the second the SKR states
    exp_frac, inc_frac = R.choice([0, 0, 1, 499999, 500000, 750000, 999999]), R.choice([0, 0, 1, 499999, 500000, 750000, 999999])
    sig = Signature.model_construct(key_identifier="K0", ttl=ttl, type_covered=TypeDNSSEC.DNSKEY,
                                    algorithm=AlgorithmDNSSEC(alg) if alg in ALGS else fake_alg(alg), labels=labels,
                                    original_ttl=ottl, signature_expiration=from_us(exp_s * 10**6 + exp_frac),
                                    signature_inception=from_us(inc_s * 10**6 + inc_frac), key_tag=tag, signers_name=name,
                                    signature_data=b"")
    R.shuffle(keys)
    if i % 3 == 1:
        with vlib.debug_logging():          # the tools' --debug switch: the octets do not depend on what is logged
            it = vlib.run_impl(make_raw_rrsig, sig, list(keys))
    else:
        it = vlib.run_impl(make_raw_rrsig, sig, list(keys))
    ok, msg = True, ""
    if it[0] == "ok":
        try:
            rrset = dns.rrset.RRset(ROOT, dns.rdataclass.IN, dns.rdatatype.DNSKEY)
            rrset.ttl = ttl
            for k in keys:
                rrset.add(dns_dnskey(k.flags, 3, k.algorithm.value, base64.b64decode(k.public_key)), ttl=ttl)
            rrsig = RRSIG(dns.rdataclass.IN, dns.rdatatype.RRSIG, dns.rdatatype.DNSKEY, alg, labels, ottl, exp_s, inc_s, tag, ROOT, b"")
            ref = dns.dnssec._make_rrsig_signature_data(rrset, rrsig)
            if len({base64.b64decode(k.public_key) + bytes([k.flags & 255, k.flags >> 8, k.algorithm.value]) for k in keys}) == len(keys) and ref != it[1]:
                ok, msg = False, f"dnspython signature data differs: ref {ref.hex()[:60]}.. impl {it[1].hex()[:60]}.."
        except Exception as e:  # noqa: BLE001
            msg = f"reference unavailable: {type(e).__name__}: {e}"
    add("tbs", f"CTbs {coq_sig(sig, with_data=False)} [{';'.join(coq_key(k, with_txt=False) for k in keys)}] {res_coq(it, zlist)}",
        {"sig": {"alg": alg, "labels": labels, "ottl": ottl, "ttl": ttl, "exp": exp_s, "inc": inc_s, "exp_microseconds": exp_frac, "inc_microseconds": inc_frac, "tag": tag, "name": name},
         "keys": [(k.flags, k.algorithm.value, base64.b64decode(k.public_key).hex()) for k in keys]}, ok, msg)

# 4 --- DS preimage / digest, 5 --- revocation
captured = {}
_real_sha256 = kd.sha256


def _cap(data=b""):
    captured["pre"] = bytes(data)
    return _real_sha256(data)


kd.sha256 = _cap
ZERO_DS = []
while len(ZERO_DS) < 6:
    pub_ = rand_bytes(64)
    dg_ = dns.dnssec.make_ds(ROOT, dns_dnskey(257, 3, 13, pub_), "SHA256").digest
    if dg_[0] < 16 and (len(ZERO_DS) < 4 or dg_[0] == 0):
        ZERO_DS.append(pub_)
for i in range(100 * N + len(STEER) + len(ZERO_DS)):
    flags = R.choice([256, 257, 385])
    alg = R.choice([8, 10, 13, 14])
    pub = rand_bytes(64 if alg == 13 else 96 if alg == 14 else R.choice([67, 131, 260]))
    if i >= 100 * N + len(STEER):
        flags, alg, pub = 257, 13, ZERO_DS[i - 100 * N - len(STEER)]          # DS digests beginning with a zero nibble / a zero octet
    if 100 * N <= i < 100 * N + len(STEER):
        flags, alg, n_, t_ = STEER[i - 100 * N]
        pub = steered_pub(flags, alg, n_, t_)
    k0 = mk_key(flags, 3, alg, pub, kid="Kds")
    tag = calculate_key_tag(k0)
    k = Key(key_identifier="Kds", key_tag=tag, ttl=172800, flags=flags, protocol=3, algorithm=AlgorithmDNSSEC(alg),
            public_key=base64.b64encode(pub))
    ksk = types.SimpleNamespace(label="Kds", valid_from=dt.datetime(2020, 1, 1, tzinfo=dt.timezone.utc), valid_until=None)

    def ds():
        captured.clear()
        r = kd.create_trustanchor_keydigest(ksk, k)
        m_ = re.search(r"<Digest>([^<]*)</Digest>", r.to_xml())
        return captured["pre"], r.digest, r.key_tag, r.algorithm.value, r.hexdigest(), m_.group(1) if m_ else None

    ir = vlib.run_impl(ds)
    ok, msg = True, ""
    if ir[0] == "ok":
        pre, digest, ktag, kalg, hexd, xmld = ir[1]
        ref = dns.dnssec.make_ds(ROOT, dns_dnskey(flags, 3, alg, pub), "SHA256")
        if ref.digest != digest or hashlib.sha256(pre).digest() != digest or ref.key_tag != ktag or ref.algorithm != kalg:
            ok, msg = False, f"DS differs from dnspython: {ref.digest.hex()} vs {digest.hex()}"
        elif hexd != ref.digest.hex().upper() or xmld != ref.digest.hex().upper():
            ok, msg = False, f"DS digest as text ({hexd} / in XML {xmld}) is not the 64 hexadecimal digits of the RFC 4509 digest {ref.digest.hex().upper()}"
        add("ds", f"CDs {coq_key(k, with_txt=False)} (OK {zlist(pre)})", {"flags": flags, "alg": alg, "pub": pub.hex()}, ok, msg)
    else:
        add("ds", f"CDs {coq_key(k, with_txt=False)} (Raise {ir[1]})", {"flags": flags, "alg": alg, "pub": pub.hex()}, False, f"raised {ir}")

    def rev():
        r = k.as_revoked()
        return (r, (r.flags, r.key_tag))

    irv = vlib.run_impl(rev)
    ok, msg = True, ""
    if irv[0] == "ok":
        r, (rf, rt) = irv[1]
        reft = dns.dnssec.key_id(dns_dnskey(flags | 128, 3, alg, pub))
        same = (r.key_identifier, r.ttl, r.protocol, r.algorithm, r.public_key) == (k.key_identifier, k.ttl, k.protocol, k.algorithm, k.public_key)
        if rf != flags | 128 or rt != reft or not same:
            ok, msg = False, f"as_revoked gave flags {rf} tag {rt}; expected {flags | 128} / {reft}"
        add("revoke", f"CRevoke {coq_key(k, with_txt=False)} (OK ({rf}, {rt}))", {"flags": flags, "alg": alg, "pub": pub.hex()}, ok, msg)
    else:
        add("revoke", f"CRevoke {coq_key(k, with_txt=False)} (Raise {irv[1]})", {"flags": flags}, False, f"raised {irv}")
kd.sha256 = _real_sha256


# 6 --- EC point from the token
class FakeSession:
    def __init__(self, attrs):
        self.attrs = attrs

    def getAttributeValue(self, obj, attrs):
        return [self.attrs.get(a) for a in attrs]


OID = {256: bytes.fromhex("06082a8648ce3d030107"), 384: bytes.fromhex("06052b81040022")}
for i in range(200 * N):
    curve = R.choice([256, 384])
    n = curve // 4
    xy = rand_bytes(n)
    form = R.choice(["bare", "wrapped", "wrapped", "bare", "ambiguous", "short", "long", "compressed", "empty", "one", "noprefix", "wrapped_badlen", "lenlike", "lenlike", "bare04", "wrapped04"])
    if form in ("bare04", "wrapped04"):
        # X itself begins with octets equal to the SEC1 prefix: they belong to the key
        xy = bytes([4] * R.choice([1, 1, 2, 3])) + xy[3:]
        xy = (xy + rand_bytes(n))[:n]
        form = form[:-2]
        point = (b"\x04" + xy) if form == "bare" else bytes([4, n + 1, 4]) + xy
    elif form == "lenlike":
        # a bare point whose X begins with the octet a DER wrapper would carry as length, but not followed by 0x04: still a bare point
        xy = bytes([n - 1, R.choice([0, 3, 5, 255, R.randrange(256)])]) + xy[2:]
        if xy[1] == 4:
            xy = bytes([n - 1, 7]) + xy[2:]
        point = b"\x04" + xy
    elif form == "bare":
        point = b"\x04" + xy
    elif form == "wrapped":
        point = bytes([4, n + 1, 4]) + xy
    elif form == "ambiguous":
        xy = bytes([n - 1, 4]) + xy[2:]
        point = b"\x04" + xy
    elif form == "short":
        point = b"\x04" + xy[:-R.choice([1, 2])]
    elif form == "long":
        point = b"\x04" + xy + rand_bytes(R.choice([1, 2]))
    elif form == "compressed":
        point = bytes([R.choice([2, 3])]) + xy[: n // 2]
    elif form == "empty":
        point = b""
    elif form == "one":
        point = bytes([R.choice([4, 0, 2])])
    elif form == "noprefix":
        point = bytes([R.choice([0, 1, 5, 255])]) + xy
    else:
        point = bytes([4, R.choice([n, n + 2, 0]), 4]) + xy
    sess = FakeSession({_p11.CKA_KEY_TYPE: _p11.CKK_EC, _p11.CKA_EC_POINT: tuple(point), _p11.CKA_EC_PARAMS: tuple(OID[curve])})

    def conv():
        r = KSKM_P11Module._p11_object_to_public_key(sess, object())
        return None if r is None else base64.b64decode(r)

    ir = vlib.run_impl(conv)
    ok, msg, key = True, "", None
    if form in ("bare", "wrapped") and ir != ("ok", xy):
        # 1-in-65536 chance that random X starts with (len-2, 4): that is the 'ambiguous' shape
        if not (form == "bare" and xy[:2] == bytes([n - 1, 4])):
            ok, msg = False, f"token point ({form}) did not give the RFC 6605 key X|Y: {ir}"
    if ir[0] == "ok" and ir[1] is not None and (len(ir[1]) != n or ir[1] not in (point[1:], point[3:])):
        ok, msg = False, f"derived key is not the point's X|Y of the RFC 6605 length: {len(ir[1])} octets"
    add("ec_point", f"CEcPoint {zlist(point)} {curve} {res_coq(ir, lambda v: 'None' if v is None else f'(Some {zlist(v)})')}",
        {"form": form, "curve": curve, "point": point.hex()}, ok, msg, key)

# 7 --- ecdsa_utils forms and the Key validator
for i in range(160 * N):
    alg = R.choice([13, 14, 13, 14, 8, 15])
    n = 64 if alg == 13 else 96
    ln = R.choice([n, n + 1, n - 1, n + 2, 0, 1, 2 * n, 65, 97])
    pub = rand_bytes(ln)
    if ln and R.randrange(2):
        pub = b"\x04" + pub[1:]
    algo = AlgorithmDNSSEC(alg)
    ist = vlib.run_impl(ecdsa_public_key_without_prefix, pub, algo)
    add("ec_strip", f"CEcStrip {zlist(pub)} {alg} {res_coq(ist, zlist)}", {"alg": alg, "pub": pub.hex()})
    iv = vlib.run_impl(lambda: Key(key_identifier="E", key_tag=1, ttl=0, flags=256, protocol=3, algorithm=algo, public_key=base64.b64encode(pub)))
    accepted = iv[0] == "ok"
    want = True if alg not in (13, 14) else (len(pub) == n or (len(pub) == n + 1 and pub[0] == 4))
    # documented tolerance: a 04-prefixed key one octet longer than expected is accepted
    add("ec_valid", f"CEcValid {zlist(pub)} {alg} {vlib.coq_bool(accepted)}", {"alg": alg, "len": len(pub), "first": pub[:1].hex()},
        accepted == want or (alg in (13, 14) and pub[:1] == b"\x04" and len(pub) - 1 == n + 1 and False),
        "" if accepted == want else f"Key validator accepted={accepted}, RFC 6605 size rule says {want}")

# 8 --- RFC 6605 -> SEC1 for the crypto library
cap = {}
shim = types.SimpleNamespace(
    SECP256R1=lambda: "P256", SECP384R1=lambda: "P384", ECDSA=ecdsa_utils.ec.ECDSA,
    EllipticCurvePublicKey=types.SimpleNamespace(from_encoded_point=lambda c, q: cap.__setitem__("q", (c, bytes(q)))))
_real_ec = ecdsa_utils.ec
ecdsa_utils.ec = shim
for i in range(60 * N):
    alg = R.choice([13, 14])
    n = 64 if alg == 13 else 96
    q = rand_bytes(R.choice([n, n, n + 1, n - 1]))
    if len(q) == n + 1:
        q = b"\x04" + q[1:]
    pk = KSKM_PublicKey_ECDSA.model_construct(bits=len(q) * 8, algorithm=AlgorithmDNSSEC(alg), q=q,
                                              curve=ECCurve.P256 if alg == 13 else ECCurve.P384)
    pk.to_cryptography_pubkey()
    curve_name, handed = cap["q"]
    ok = not (len(q) == n) or handed == b"\x04" + q
    add("ec_sec1", f"CEcSec1 {zlist(q)} {alg} {zlist(handed)}", {"alg": alg, "q": q.hex()}, ok,
        "" if ok else "RFC 6605 key not turned into 04|X|Y for the crypto library")
ecdsa_utils.ec = _real_ec

# 9 --- the primitives as the signer composes them: a key that is revoked and still signs is published with the REVOKE bit and the recomputed tag,
#       and the RRSIG it makes names that recomputed tag (RFC 4034 3.1.6: the tag of the DNSKEY RR that validates the signature)
import ceremony
import ksrxml
import signcases as S
import skrgen
_P = ksrxml.POOL
_NOW = dt.datetime(2026, 1, 1, tzinfo=dt.timezone.utc)
for alg in (8, 13, 14, 10):
    mkp = (lambda i: _P.rsa(1024, 65537, 200 + i)) if alg in (8, 10) else (lambda i: _P.ec(256 if alg == 13 else 384, 200 + i))
    k1, k2 = ksrxml.mk_key(mkp(0), alg=alg, flags=257, ident="K0"), ksrxml.mk_key(mkp(1), alg=alg, flags=257, ident="K1")
    zk = ksrxml.mk_key((_P.rsa(1024, 65537, 300) if alg in (8, 10) else _P.ec(256 if alg == 13 else 384, 300)), alg=alg)
    rq = skrgen.honest_request(f"c14-revoke-{alg}", _NOW, 3, [[zk]] * 3, ksrxml.default_zsk_policy(), sign=True)
    schema = {1: {"publish": ["k1", "k2"], "sign": ["k1"], "revoke": []}, 2: {"publish": ["k2"], "sign": ["k1", "k2"], "revoke": ["k1"]}, 3: {"publish": ["k2"], "sign": ["k2"], "revoke": ["k1"]}}
    sc = {"modules": [[{"id": 0, "objs": S.pair(k1["id"], k1) + S.pair(k2["id"], k2)}]], "ksks": {"k1": ceremony.ksk_def(k1), "k2": ceremony.ksk_def(k2)}, "schema": schema, "request": rq}
    r_ = S.run_sign(sc)
    exp_ = S.expect(sc)
    hist["signer-revoke-and-sign"] = hist.get("signer-revoke-and-sign", 0) + 1
    probs = []
    if r_["impl"][0] != "ok" or exp_[0] != "ok":
        probs.append(f"signing a revoke-and-sign schema did not complete: {r_['impl'][2] if r_['impl'][0] != 'ok' else exp_}")
    else:
        probs += S.compare_result(sc, r_["impl"], exp_)
        for j, b in enumerate(r_["impl"][1], 1):
            tags = {k.key_identifier: k.key_tag for k in b.keys}
            for s_ in b.signatures:
                if tags.get(s_.key_identifier) != s_.key_tag:
                    probs.append(f"bundle {j}: the RRSIG by {s_.key_identifier} names key tag {s_.key_tag}, the DNSKEY published for it has tag {tags.get(s_.key_identifier)}")
    if probs:
        rep.violation("impl-vs-spec", f"signer-revoke-and-sign (algorithm {alg}): " + "; ".join(probs[:3]), {"kind": "signer-revoke-and-sign", "alg": alg, "schema": str(schema)})
_P.save()

# 10 --- a DNSKEY made from a token's public key (the path every KSK takes): curve/size mismatches and impossible flags are rejected here too,
#        and what is accepted carries the RFC 4034 tag
from kskm.common.dnssec import public_key_to_dnssec_key
for i in range(40 * N):
    alg = R.choice([13, 14])
    n_ok = 64 if alg == 13 else 96
    shape = R.choice(["right", "right", "other-curve", "short", "long", "prefixed", "prefixed-other-curve"])
    n_ = {"right": n_ok, "other-curve": 160 - n_ok, "short": n_ok - 1, "long": n_ok + 2, "prefixed": n_ok + 1, "prefixed-other-curve": 161 - n_ok}[shape]
    q = rand_bytes(n_)
    if shape.startswith("prefixed"):
        q = b"\x04" + q[1:]
    elif q[:1] == b"\x04":
        q = b"\x05" + q[1:]
    flags = R.choice([257, 257, 256, 385, 0, 1, 258])
    r_ = vlib.run_impl(public_key_to_dnssec_key, public_key=base64.b64encode(q), key_identifier="Ktok", algorithm=AlgorithmDNSSEC(alg), ttl=172800, flags=flags)
    fits = shape in ("right", "prefixed") and flags in (256, 257, 385)
    hist["dnskey-from-token-key"] = hist.get("dnskey-from-token-key", 0) + 1
    what = None
    if r_[0] == "ok" and not fits:
        what = f"a {n_}-octet {'SEC1-prefixed ' if shape.startswith('prefixed') else ''}point with flags {flags} was made into an algorithm {alg} DNSKEY (key tag {r_[1].key_tag})"
    elif r_[0] != "ok" and fits:
        what = f"a fitting {n_}-octet point, flags {flags}, algorithm {alg} was refused ({r_[2]})"
    elif r_[0] == "ok":
        bare = q[1:] if shape == "prefixed" else q
        want_tag = dns.dnssec.key_id(dns_dnskey(flags, 3, alg, bare))
        if r_[1].key_tag != want_tag and r_[1].key_tag != dns.dnssec.key_id(dns_dnskey(flags, 3, alg, q)):
            what = f"key tag {r_[1].key_tag} differs from RFC 4034's {want_tag}"
    if what:
        rep.violation("impl-vs-spec", "dnskey-from-token-key: " + what, {"kind": "dnskey-from-token-key", "alg": alg, "flags": flags, "point": q.hex(), "shape": shape})

# ---- run the model on the same cases
runner = vlib.CaseRun("C14", "main", "From KV Require Import Base.Prelude Base.Exn Base.Bytes Model.Data Model.Wire Checks.C14Check.",
                      "case", "check", shard=150)
ok_build, log = vlib.make(["Checks/C14Check.vo"])
if not ok_build:
    rep.violation("model-mismatch", "Checks/C14Check.v does not build", {"log": log[-2000:]}, found_input=False)
    results = [-1] * len(cases)
else:
    results = runner.run(cases)

mismatch = 0
for m, r, c in zip(meta, results, cases):
    if not m["spec_ok"]:
        rep.violation("impl-vs-spec", f"{m['kind']}: {m['spec_msg']}", {"case": m["desc"], "kind": m["kind"], "coq_case": c[:2000]}, key=m["key"])
    elif r != 0:
        mismatch += 1
        rep.violation("model-mismatch",
                      f"correspondence Checks.C14Check.check broke on a {m['kind']} case (model and implementation differ; the independent reference agrees with the implementation)",
                      {"case": m["desc"], "kind": m["kind"], "coq_case": c[:2000], "coq_result": r,
                       "runner_error": getattr(runner, "last_error", "")[:1500]}, found_input=False)
if not props["ok"]:
    # proof obligations broken: concrete failing inputs (if any) were reported above
    rep.violation("proof-broken", f"Props/C14.v no longer checks: {getattr(rep, 'proof_failure', '')}",
                  {"theorem_or_bridge": "Props/C14.v", "detail": getattr(rep, "proof_failure", ""), "log": props["log"][-1500:]},
                  found_input=False)
runner.cleanup()

distinct = len(set(cases))
rep.coverage.update({
    "evaluations": len(cases), "distinct_nontrivial": len({c for c, m in zip(cases, meta) if "Raise" not in c.split(" (mk")[0] or True and "(OK" in c}),
    "rule": "cases generated from VERIF_SEED: random/all-0xFF/carry-provoking key bytes of odd and even length, all flags/algorithm values incl. out-of-range, "
            "exponents of 1..300 octets, RR sets of 1..6 keys with shared prefixes in random order, signature fields over and beyond their wire ranges, "
            "token EC points (bare/wrapped/ambiguous/malformed). non-trivial = distinct case whose implementation result is a value (not an exception)",
    "distribution": hist, "model_mismatches": mismatch,
    "samples": [{"kind": m["kind"], **{k: (str(v)[:120]) for k, v in m["desc"].items()}} for m in meta[:: max(1, len(meta) // 8)]][:8],
    "distinct_cases": distinct,
})
rep.assumptions += ["dnspython 2.8 is the independent RFC 4034/4509 implementation", "base64 decoding and SHA-256 are Python's (oracles to the model)"]
sys.exit(rep.finish())
