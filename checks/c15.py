"""C15 - The PKCS#11 layer finds the right key and hands the token the right octets."""
import argparse
import base64
import datetime as dt
import hashlib
import itertools
import os
import sys

import vlib
from vlib import coq_bool, coq_opt, txt, z, zlist

ap = argparse.ArgumentParser()
ap.add_argument("--tier")
ap.add_argument("--replay")
args = ap.parse_args()
TIER = vlib.tier(args.tier)
SCALE = 1 if TIER == "quick" else 6

vlib.setup_impl_path()
rep = vlib.Report("C15", TIER)
vlib.regen("Hsm")
props = vlib.build_props("C15")
rep.add_props(props)

import PyKCS11.LowLevel as LL

import ceremony
import emu
import ksrxml
import signcases as S
from kgen import handle
from kskm.common.config_misc import KSKMHSM
from kskm.common.data import AlgorithmDNSSEC
from kskm.misc.hsm import KSKM_P11Key, KSKM_P11Module, KeyClass, KeyType, _format_data_for_signing, get_p11_key, sign_using_p11

R = vlib.rng("C15")
P = ksrxml.POOL
KR = [ksrxml.mk_key(P.rsa(1024, 65537, 120 + i), alg=8, flags=257, ident=f"L{i}") for i in range(3)]
KEC = [ksrxml.mk_key(P.ec(256, 120), alg=13, flags=257, ident="E0"), ksrxml.mk_key(P.ec(384, 120), alg=14, flags=257, ident="E1")]
SIZES = {1024: P.rsa(1024, 65537, 130), 2048: P.rsa(2048, 65537, 130)}
if TIER == "thorough":
    SIZES[3072] = P.rsa(3072, 65537, 130)
    SIZES[4096] = P.rsa(4096, 65537, 130)
P.save()
cases, meta, hist = [], [], {}
EXN = vlib.exn_table()


def count(k):
    hist[k] = hist.get(k, 0) + 1


def modules_from(tok_modules):
    """real KSKM_P11Module objects over the emulator"""
    mods = []
    for mi in range(len(tok_modules)):
        mods.append(KSKM_P11Module(f"m{mi}", KSKMHSM(module=f"emu:{mi}", pin="1234"), so_login=False, rw_session=False))
    return mods


# ------------------------------------------------------------------ 1. look-up over token layouts
def lookup_case(modules, label, public, kind):
    tok = S.build_token(modules)
    emu.install(tok)
    ri = vlib.run_impl(modules_from, modules)
    if ri[0] != "ok":
        count(kind + "-init-failed")
        return
    r = vlib.run_impl(get_p11_key, label, ri[1], public)
    cls = "pub" if public else "priv"
    ref = S.ref_lookup(modules, label, cls)
    probs = []
    if r[0] == "ok":
        k = r[1]
        if k is None:
            impl = "(OK None)"
            if ref[0] != "none":
                probs.append(f"key {label}/{cls} not found although the first slot that has one holds exactly one ({ref[:4]})")
        else:
            mi = [i for i in range(len(modules)) if f"emu:{i}" == k.session.module][0]
            hn = emu.handle_num(k.pubkey_handle if public else k.privkey_handle)
            impl = f"(OK (Some ({mi}, {k.session.slot.slot_id}, {hn}, {coq_opt(handle(bytes(k.public_key)) if k.public_key is not None else None)})))"
            if ref[0] != "found" or (mi, k.session.slot.slot_id, hn) != ref[1:4]:
                probs.append(f"found object (module {mi}, slot {k.session.slot.slot_id}, handle {hn}) but the property names {ref[:4]}")
            else:
                rp = S.ref_pubkey(ref[4])
                if rp[0] == "ok" and rp[1] != k.public_key:
                    probs.append("derived public key is not the token's true key")
    else:
        impl = f"(Raise {r[1]})"
        if ref[0] == "none":
            probs.append(f"look-up raised {r[2]} although no object carries the label")
        elif ref[0] == "found" and S.ref_pubkey(ref[4])[0] == "ok":
            probs.append(f"look-up raised {r[2]} although exactly one object is there ({ref[:4]})")
    cases.append(f"CFind {S.coq_modules(modules)} {txt(label)} {coq_bool(public)} {impl}")
    meta.append({"kind": kind, "desc": {"layout": [[(s["id"], s.get("login_ok", True), [(o["label"], o["cls"]) for o in s["objs"]]) for s in m] for m in modules],
                                        "label": label, "class": cls, "impl": impl[:80], "reference": str(ref[:4])},
                 "spec_ok": not probs, "spec_msg": "; ".join(probs), "key": None})
    count(kind)


PLACEMENTS = [[], ["pub"], ["priv"], ["pub", "priv"], ["pub", "pub"], ["priv", "priv"], ["pub", "priv", "priv"]]
layouts = []
for nmod in (1, 2):
    for nslots in (1, 2, 3):
        for logins in itertools.product([True, False], repeat=nslots):
            layouts.append((nmod, nslots, logins))
chosen = layouts if TIER == "thorough" else R.sample(layouts, 12) + [(1, 3, (True, False, True)), (1, 3, (False, True, True)), (2, 2, (False, False))]
for nmod, nslots, logins in chosen:
    for rep_i in range(3 if TIER == "quick" else 8):
        modules = []
        for mi in range(nmod):
            slots = []
            for si in range(nslots):
                objs = []
                for cls in R.choice(PLACEMENTS):
                    objs.append(S.obj("L0", cls, R.choice(KR), pub_attrs=R.random() < 0.8, attr_pad=R.choice([0, 0, 0, 1, 3])))
                if R.random() < 0.5:
                    objs += S.pair("L1", KR[1])
                if R.random() < 0.2:
                    objs.append(S.obj("L0", "secret", None))
                if R.random() < 0.15:
                    objs += S.pair("E0", KEC[0], ec_wrapped=R.random() < 0.5, pub_attrs=R.random() < 0.5)
                R.shuffle(objs)
                slots.append({"id": si if mi == 0 else 10 + si, "login_ok": logins[si] if mi == 0 else R.random() < 0.8, "objs": objs})
            modules.append(slots)
        for label in ("L0", "L1", "E0", "nope"):
            for public in (True, False):
                lookup_case(modules, label, public, "lookup")

# ------------------------------------------------------------------ 1b. the key as it is used for signing: private object found, its own public key, token input
import skrgen
NOWS = dt.datetime(2026, 1, 1, tzinfo=dt.timezone.utc)
A_, B_, PUBK = KR[1], KR[0], KR[2]
CONTENTS = {"empty": [], "noise": S.pair("L1", KR[1]), "pubA": [S.obj("L0", "pub", A_)], "pubB": [S.obj("L0", "pub", B_)], "privB": [S.obj("L0", "priv", B_)],
            "privB+pubB": S.pair("L0", B_), "privB-noattrs+pubB": [S.obj("L0", "pub", B_), S.obj("L0", "priv", B_, pub_attrs=False)]}
shapes = [(1, a, b) for a in CONTENTS for b in CONTENTS] + [(2, a, b) for a in CONTENTS for b in CONTENTS]
shapes = [sh for sh in shapes if "privB" in sh[1] + sh[2]]
for nmod, a, b in (shapes if TIER == "thorough" else R.sample(shapes, 26)):
    first = list(CONTENTS[a]) + S.pair("L2", PUBK)
    modules = [[{"id": 0, "objs": first}, {"id": 1, "objs": list(CONTENTS[b])}]] if nmod == 1 else [[{"id": 0, "objs": first}], [{"id": 0, "objs": list(CONTENTS[b])}]]
    wt = R.random() < 0.3
    sc = {"modules": modules, "ksks": {"k0": ceremony.ksk_def(dict(B_, id="L0"), with_tag=wt, with_ds=wt), "kp": ceremony.ksk_def(dict(PUBK, id="L2"))},
          "schema": {1: {"publish": ["kp"], "sign": ["k0"], "revoke": []}},
          "request": skrgen.honest_request("lay", NOWS, 1, [[skrgen.zsk(0)]], ksrxml.default_zsk_policy(), sign=True), "strict": "noattrs" not in a + b}
    r_ = S.run_sign(sc)
    exp = S.expect(sc)
    impl_ = r_["impl"]
    probs = []
    if exp[0] == "ok" and impl_[0] != "ok":
        probs.append(f"signing stopped ({impl_[2]}) although one private object carries the label in the first slot that has any, with a readable public key")
    elif exp[0] == "reject" and impl_[0] == "ok":
        probs.append(f"signed although: {exp[1]}")
    elif exp[0] == "ok":
        probs += S.compare_result(sc, impl_, exp)       # the reported key is the private object's own key and its signature validates (dnspython)
        probs += S.token_octets_problems(sc, r_)
    cases.append(r_["coq"])
    meta.append({"kind": "signing-key-layout", "desc": {"modules": nmod, "first": a, "second": b, "tag_ds_configured": wt, "impl": "ok" if impl_[0] == "ok" else impl_[2],
                                                        "expected": exp[0] if exp[0] == "ok" else exp[1]}, "spec_ok": not probs, "spec_msg": "; ".join(probs[:3]), "key": None})
    count("signing-key-layout")

# ------------------------------------------------------------------ 2. octets and mechanism handed to the token
DI = {8: ("sha256", bytes.fromhex("3031300d060960864801650304020105000420")), 10: ("sha512", bytes.fromhex("3051300d060960864801650304020305000440")),
      5: ("sha1", bytes.fromhex("3021300906052b0e03021a05000414"))}
HNUM = {"sha1": 1, "sha256": 256, "sha384": 384, "sha512": 512}


def format_case(alg, hh, priv, msg, ktype=KeyType.RSA, with_pub=True):
    pubraw = ksrxml.pub_bytes(priv) if priv is not None else b""
    pub = base64.b64encode(pubraw) if with_pub and priv is not None else None
    key = KSKM_P11Key(label="L", key_type=ktype, key_class=KeyClass.PRIVATE, hash_using_hsm=hh, public_key=pub)
    r = vlib.run_impl(_format_data_for_signing, key, msg, AlgorithmDNSSEC(alg))
    probs = []
    hrows = []
    for name, hid in HNUM.items():
        hrows.append(f"({hid}, 0, {zlist(hashlib.new(name, msg).digest())})")
    if r[0] == "ok":
        d = r[1]
        impl = f"(OK ({d.mechanism}, {zlist(d.data)}))"
        # independent expectation
        if alg in DI and not hh:
            k = (priv.key_size + 7) // 8
            t = DI[alg][1] + hashlib.new(DI[alg][0], msg).digest()
            want = (LL.CKM_RSA_X_509, b"\x00\x01" + b"\xff" * (k - len(t) - 3) + b"\x00" + t)
            if len(want[1]) != k:
                want = None
        elif alg in DI:
            want = ({5: LL.CKM_SHA1_RSA_PKCS, 8: LL.CKM_SHA256_RSA_PKCS, 10: LL.CKM_SHA512_RSA_PKCS}[alg], msg)
        elif alg in (13, 14) and hh:
            want = (LL.CKM_ECDSA_SHA256 if alg == 13 else LL.CKM_ECDSA_SHA384, msg)
        elif alg in (13, 14):
            want = (LL.CKM_ECDSA, hashlib.new("sha256" if alg == 13 else "sha384", msg).digest())
        else:
            want = None
        if want is not None and (d.mechanism, d.data) != want:
            probs.append(f"token input for algorithm {alg}, hash_using_hsm={hh}: mechanism {d.mechanism} / {len(d.data)} octets, expected mechanism {want[0]} / {len(want[1])} octets"
                         + ("" if d.data == want[1] else " (octets differ)"))
    else:
        impl = f"(Raise {r[1]})"
        if alg in (8, 10, 13, 14) and with_pub:
            probs.append(f"formatting raised {r[2]} for a supported algorithm")
    hhc = "None" if hh is None else f"(Some {coq_bool(hh)})"
    cases.append(f"CFormat {hhc} {coq_opt(handle(pub) if pub else None)} {zlist(pubraw)} {ktype.value} {zlist(msg)} {alg} "
                 f"(mkOracles [{zlist(msg)}] [{';'.join(hrows)}] [] [] []) {impl}")
    meta.append({"kind": "token-input", "desc": {"alg": alg, "hash_using_hsm": hh, "key_bits": priv.key_size if priv is not None else None, "msg_len": len(msg),
                                                 "impl": impl[:60]}, "spec_ok": not probs, "spec_msg": "; ".join(probs), "key": None})
    count("token-input")


for alg in (8, 10, 5):
    for hh in (None, False, True):
        for bits, priv in SIZES.items():
            for ml in (0, 1, 55, 56, 64, 300) if TIER == "quick" else (0, 1, 55, 56, 63, 64, 65, 119, 128, 300, 1000):
                format_case(alg, hh, priv, bytes(R.randrange(256) for _ in range(ml)))
for alg, key in ((13, KEC[0]), (14, KEC[1])):
    for hh in (None, False, True):
        for ml in (0, 1, 64, 300):
            format_case(alg, hh, key["priv"], bytes(R.randrange(256) for _ in range(ml)), ktype=KeyType.EC)
format_case(8, False, SIZES[1024], b"abc", with_pub=False)
format_case(8, True, SIZES[1024], b"abc", with_pub=False)
for alg in (1, 3, 6, 7, 12):
    format_case(alg, R.choice([None, True, False]), SIZES[1024], b"abc")

# the same module object asked several times (two KSK entries may share a token label; one ceremony looks a key up once per slot): every look-up is answered
# for its own hash mode and from the token as it is now
for alg, kd in ((8, KR[0]), (13, KEC[0]), (10, KR[1])):
    for seq in ([True, False], [False, True], [None, True, None], [True, True, False, None]):
        layout = [[{"id": 0, "objs": S.pair(kd["id"], kd)}]]
        tok = S.build_token(layout)
        emu.install(tok)
        mods = modules_from(layout)
        msg = bytes(R.randrange(256) for _ in range(80))
        for step, hh in enumerate(seq):
            n0 = len(tok.sign_log)
            k_ = vlib.run_impl(get_p11_key, kd["id"], mods, False, hh)
            count("repeated-lookup")
            if k_[0] != "ok" or k_[1] is None:
                rep.violation("impl-vs-spec", f"repeated look-up #{step + 1} of {kd['id']} (hash_using_hsm={hh}) failed: {k_[2] if k_[0] != 'ok' else 'not found'}", {"kind": "repeated-lookup", "sequence": seq})
                break
            r_ = vlib.run_impl(sign_using_p11, k_[1], msg, AlgorithmDNSSEC(alg))
            ent = tok.sign_log[n0] if len(tok.sign_log) > n0 else None
            if alg in DI and not hh:
                kbytes = 128
                t_ = DI[alg][1] + hashlib.new(DI[alg][0], msg).digest()
                want = (LL.CKM_RSA_X_509, b"\x00\x01" + b"\xff" * (kbytes - len(t_) - 3) + b"\x00" + t_)
            elif alg in DI:
                want = ({8: LL.CKM_SHA256_RSA_PKCS, 10: LL.CKM_SHA512_RSA_PKCS}[alg], msg)
            elif hh:
                want = (LL.CKM_ECDSA_SHA256, msg)
            else:
                want = (LL.CKM_ECDSA, hashlib.sha256(msg).digest())
            if ent is None or (ent["mech"], ent["data"]) != want:
                rep.violation("impl-vs-spec", f"look-up #{step + 1} of {kd['id']} on one module object in the sequence hash_using_hsm={seq}: the key asked for with hash_using_hsm={hh} "
                              f"sent the token mechanism {ent and ent['mech']} with {ent and len(ent['data'])} octets, expected mechanism {want[0]} with {len(want[1])} octets",
                              {"kind": "repeated-lookup", "alg": alg, "sequence": [str(x) for x in seq], "step": step})
                break
    # and after the object is gone from the token, it is not found any more
    layout = [[{"id": 0, "objs": S.pair(kd["id"], kd)}]]
    tok = S.build_token(layout)
    emu.install(tok)
    mods = modules_from(layout)
    first = vlib.run_impl(get_p11_key, kd["id"], mods, False)
    for sl in tok.modules["emu:0"]:
        sl.objects[:] = [o for o in sl.objects if o.label != kd["id"]]
    again = vlib.run_impl(get_p11_key, kd["id"], mods, False)
    count("lookup-after-removal")
    if first[0] == "ok" and first[1] is not None and again[0] == "ok" and again[1] is not None:
        rep.violation("impl-vs-spec", f"{kd['id']} is reported as found after its objects were removed from the token (same module object)", {"kind": "lookup-after-removal"})

# symmetric / unknown key types are never used for signing
for kt in [k_ for k_ in KeyType if k_ not in (KeyType.RSA, KeyType.EC)]:          # whatever key types the layer knows besides RSA and EC
    for alg_, hh_ in ((AlgorithmDNSSEC.RSASHA256, None), (AlgorithmDNSSEC.RSASHA256, True), (AlgorithmDNSSEC.ECDSAP256SHA256, None), (AlgorithmDNSSEC.ECDSAP256SHA256, True), (AlgorithmDNSSEC.RSASHA512, True)):
        for kc_ in (KeyClass.SECRET, KeyClass.PRIVATE):
            sess = type("S", (), {"sign": lambda self, *a: (_ for _ in ()).throw(AssertionError("token asked to sign with a symmetric key"))})()
            key = KSKM_P11Key(label="L", key_type=kt, key_class=kc_, session=sess, privkey_handle=emu.mk_handle(1), hash_using_hsm=hh_)
            r = vlib.run_impl(sign_using_p11, key, b"data", alg_)
            count("never-sign-symmetric")
            if r[0] == "ok" or r[2] == "AssertionError":
                rep.violation("impl-vs-spec", f"sign_using_p11 asked the token to sign with a {kt.name} key ({alg_.name}, hash_using_hsm={hh_}, class {kc_.name})", {"key_type": kt.name})

# ------------------------------------------------------------------ 3. process environment restored after a module is loaded
for i in range(30 * SCALE):
    base = {f"VERIF_E{j}": R.choice([f"v{R.randrange(100)}", f"v{R.randrange(100)}", "", " ", "0"]) for j in range(R.randrange(0, 5))}
    upd = {}
    for j in range(R.randrange(0, 4)):
        upd[R.choice([f"VERIF_E{R.randrange(0, 5)}", f"VERIF_N{R.randrange(3)}"])] = R.choice(["x", "", "long value with spaces", "5"])
    for k in [k for k in os.environ if k.startswith("VERIF_E") or k.startswith("VERIF_N")]:
        del os.environ[k]
    os.environ.update(base)
    before = dict(os.environ)
    tok = S.build_token([[{"id": 0, "objs": []}]])
    emu.install(tok)
    r = vlib.run_impl(KSKM_P11Module, "m0", KSKMHSM(module="emu:0", pin="1234", env=upd), False, False)
    after = dict(os.environ)
    seen = tok.env_seen.get("emu:0", {})
    probs = []
    if r[0] != "ok":
        probs.append(f"module initialisation raised {r[2]}")
    if after != before:
        diff = {k: (before.get(k), after.get(k)) for k in set(before) | set(after) if before.get(k) != after.get(k)}
        probs.append(f"process environment not restored: {diff}")
    if r[0] == "ok" and any(seen.get(k) != str(v) for k, v in upd.items()):
        probs.append("module was loaded without the configured environment")
    e0 = [(k, v) for k, v in before.items() if k.startswith("VERIF_")]
    cases.append(f"CEnv [{';'.join(f'({txt(k)}, {txt(v)})' for k, v in e0)}] [{';'.join(f'({txt(k)}, {txt(str(v))})' for k, v in upd.items())}] "
                 f"[{';'.join(f'({txt(k)}, {txt(v)})' for k, v in after.items() if k.startswith('VERIF_'))}]")
    meta.append({"kind": "env", "desc": {"before": dict(e0), "update": {k: str(v) for k, v in upd.items()}}, "spec_ok": not probs, "spec_msg": "; ".join(probs), "key": None})
    count("env")
for k in [k for k in os.environ if k.startswith("VERIF_E") or k.startswith("VERIF_N")]:
    del os.environ[k]

# ------------------------------------------------------------------ 4. the one ambiguity of the EC point heuristic (recorded finding)
from kskm.misc.hsm import _p11


class _Sess:
    def __init__(self, attrs):
        self.attrs = attrs

    def getAttributeValue(self, obj, attrs):
        return [self.attrs.get(a) for a in attrs]


for second in (0, 3, 5, 63, 255):
    xyl = bytes([63, second]) + bytes(R.randrange(256) for _ in range(62))
    sess = _Sess({_p11.CKA_KEY_TYPE: _p11.CKK_EC, _p11.CKA_EC_POINT: tuple(b"\x04" + xyl), _p11.CKA_EC_PARAMS: tuple(emu.OID[256])})
    r = vlib.run_impl(KSKM_P11Module._p11_object_to_public_key, sess, object())
    count("ec-point-x-starts-with-length-octet")
    if r[0] != "ok" or base64.b64decode(r[1]) != xyl:
        rep.violation("impl-vs-spec", f"bare EC point whose X coordinate begins with octets (0x3f, {second:#04x}) is not returned as the token's key",
                      {"point": (b"\x04" + xyl).hex(), "impl": r[2] if r[0] != "ok" else "wrong key"})
xy = bytes([63, 4]) + bytes(R.randrange(256) for _ in range(62))
sess = _Sess({_p11.CKA_KEY_TYPE: _p11.CKK_EC, _p11.CKA_EC_POINT: tuple(b"\x04" + xy), _p11.CKA_EC_PARAMS: tuple(emu.OID[256])})
r = vlib.run_impl(KSKM_P11Module._p11_object_to_public_key, sess, object())
count("ec-point-ambiguous")
if r[0] != "ok" or base64.b64decode(r[1]) != xy:
    rep.violation("impl-vs-spec", "bare EC point whose X coordinate begins with octets (len-2, 0x04) is taken for a DER-wrapped point and rejected",
                  {"point": (b"\x04" + xy).hex(), "impl": r[2] if r[0] != "ok" else "wrong key"}, key="ec-point-bare-looks-wrapped")

ok_build, log = vlib.make(["Checks/SignCheck.vo"])
runner = vlib.CaseRun("C15", "main", "From KV Require Import Base.Prelude Base.Exn Model.Data Model.KsrPolicy Model.Token Model.Sign Checks.SignCheck.", "case", "check", shard=60)
results = runner.run(cases) if ok_build else [-1] * len(cases)
vlib.classify(rep, props, meta, results, cases, runner, "Checks.SignCheck.check (get_p11_key / _format_data_for_signing / env)")
runner.cleanup()
rep.coverage.update({
    "evaluations": len(cases) + hist.get("never-sign-symmetric", 0) + 1, "distinct_nontrivial": len(set(cases)),
    "rule": "token layouts of 1..2 modules x 1..3 slots x login ok/refused x placements of 0..3 objects per label and class (incl. secret objects, private "
            "objects without public attributes, wrapped/bare EC points) searched through the real KSKM_P11Module/get_p11_key on the emulator; "
            "_format_data_for_signing for algorithms 5/8/10/13/14 (+ deprecated numbers) x hash mode unset/false/true x RSA 1024/2048 (thorough: to 4096) x message lengths, "
            "compared with an independent EMSA-PKCS1-v1_5 / digest reference; symmetric keys; 30 environment dictionaries that add/override/leave variables",
    "distribution": hist, "samples": [dict(m["desc"], kind=m["kind"]) for m in meta[:: max(1, len(meta) // 6)]][:6],
})
rep.assumptions += ["the real process environment is observed (os.environ before/after); a module load that raises is outside the property ('after a module is loaded')"]
sys.exit(rep.finish())
