"""C16 - Configuration is validated fail-closed, defaults are the secure documented ones."""
import argparse
import copy
import datetime as dt
import io
import logging
import os
import sys
import tempfile

import vlib

ap = argparse.ArgumentParser()
ap.add_argument("--tier")
ap.add_argument("--replay")
args = ap.parse_args()
TIER = vlib.tier(args.tier)
SCALE = 1 if TIER == "quick" else 5

vlib.setup_impl_path()
rep = vlib.Report("C16", TIER)
vlib.regen("Policy", "Skeleton", "Pipeline")
props = vlib.build_props("C16")
rep.add_props(props)

import yaml

import ksrxml
import reqcases
import skrgen
from kskm.common.config import KSKMConfig, get_config
from kskm.common.config_misc import RequestPolicy

D = dt.timedelta
R = vlib.rng("C16")
hist = {}
samples = []
vlib.WORK.mkdir(exist_ok=True)
tmpd = tempfile.mkdtemp(prefix="c16-", dir=str(vlib.WORK))
placeholder = os.path.join(tmpd, "placeholder")
open(placeholder, "w").close()


def count(k):
    hist[k] = hist.get(k, 0) + 1


def fail(kind, msg, extra=None):
    rep.violation("impl-vs-spec", f"{kind}: {msg}", {"kind": kind, **(extra or {})})


def example():
    cfg = yaml.safe_load(open(vlib.REPO / "config/ksrsigner.yaml"))
    for h in cfg["hsm"].values():
        h["module"] = placeholder
    for k in ("previous_skr", "input_ksr", "output_skr"):
        cfg["filenames"][k] = placeholder
    return cfg


def load(cfg):
    """through a YAML file, as the tools do"""
    path = os.path.join(tmpd, "cfg.yaml")
    with open(path, "w") as f:
        yaml.safe_dump(cfg, f)
    return vlib.run_impl(get_config, path)


def exit_status_of(cfg) -> str:
    """status main() would end with for this configuration (in process)"""
    from kskm.tools import ksrsigner as tool
    path = os.path.join(tmpd, "cfg-main.yaml")
    with open(path, "w") as f:
        yaml.safe_dump(cfg, f)
    argv = sys.argv
    sys.argv = ["kskm-ksrsigner", "--config", path, "--force", os.path.join(tmpd, "no-such-ksr.xml"), os.path.join(tmpd, "out.xml")]
    orig_logger = tool.get_logger
    tool.get_logger = lambda **kw: logging.getLogger("c16")
    cwd = os.getcwd()
    os.chdir(tmpd)
    try:
        tool.main()
        return "no-exit"
    except SystemExit as e:
        return str(e.code)
    except BaseException as e:  # noqa: BLE001 - an uncaught exception ends the interpreter with status 1
        return f"uncaught:{type(e).__name__}"
    finally:
        sys.argv = argv
        tool.get_logger = orig_logger
        os.chdir(cwd)


def leaves(d, prefix=()):
    for k, v in d.items():
        if isinstance(v, dict):
            yield from leaves(v, prefix + (k,))
        else:
            yield prefix + (k,), v


def get(d, path):
    for k in path:
        d = d[k]
    return d


def setp(d, path, v):
    for k in path[:-1]:
        d = d[k]
    d[path[-1]] = v


def delp(d, path):
    for k in path[:-1]:
        d = d[k]
    del d[path[-1]]


BASE = example()
r0 = load(BASE)
count("example")
if r0[0] != "ok":
    fail("example", f"the example configuration does not load: {r0[2]}")
else:
    base_cfg = r0[1]

# documented defaults (property text) for omitted request_policy options
DEFAULTS = {"acceptable_domains": ["."], "num_bundles": 9, "validate_signatures": True, "keys_match_zsk_policy": True, "enable_unsupported_ecdsa": False,
            "check_cycle_length": True, "min_cycle_inception_length": D(days=79), "max_cycle_inception_length": D(days=81), "min_bundle_interval": D(days=9),
            "max_bundle_interval": D(days=11), "rsa_exponent_match_zsk_policy": True, "check_bundle_overlap": True, "signature_validity_match_zsk_policy": True,
            "signature_algorithms_match_zsk_policy": True, "check_keys_match_ksk_operator_policy": True, "num_keys_per_bundle": [2, 1, 1, 1, 1, 1, 1, 1, 2],
            "num_different_keys_in_all_bundles": 3, "signature_check_expire_horizon": True, "signature_horizon_days": 180, "check_bundle_intervals": True,
            "check_chain_keys": True, "check_chain_overlap": True, "approved_algorithms": ["RSASHA256"], "rsa_approved_exponents": [65537],
            "rsa_approved_key_sizes": [2048], "check_chain_keys_in_hsm": True, "check_keys_publish_safety": True, "check_keys_retire_safety": True,
            "enable_unsupported_edwards_dsa": False}

# ------------------------------------------------------------------ 1. each option in turn: delete, misspell, retype
REQUIRED = {("hsm", "softhsm", "module"), ("hsm", "aep", "module")} | {("keys", k, f) for k in BASE["keys"] for f in ("description", "label", "algorithm", "valid_from")}
for path, val in list(leaves(BASE)):
    if path[0] == "schemas" and path[1] != "normal":
        continue
    # delete
    c = copy.deepcopy(BASE)
    delp(c, path)
    r = load(c)
    count("delete")
    must_load = path not in REQUIRED and not (path[0] == "schemas" and path[-1] in ("publish", "sign"))
    if must_load and r[0] != "ok":
        fail("delete", f"omitting option {'.'.join(map(str, path))} makes the configuration unloadable ({r[2]})", {"path": path})
    if not must_load and r[0] == "ok":
        fail("delete", f"omitting mandatory option {'.'.join(map(str, path))} is accepted", {"path": path})
    if r[0] == "ok" and path[0] == "request_policy" and path[1] in DEFAULTS:
        got = getattr(r[1].request_policy, path[1])
        if got != DEFAULTS[path[1]]:
            fail("default", f"omitted option request_policy.{path[1]} takes {got!r}, documented default is {DEFAULTS[path[1]]!r}", {"path": path})
    # misspell the option name
    c = copy.deepcopy(BASE)
    delp(c, path)
    setp(c, path[:-1] + (str(path[-1]) + "_x",), val)
    r = load(c)
    count("misspell")
    free_form = len(path) >= 3 and path[0] == "hsm" and path[2] == "env"
    if not free_form and r[0] == "ok" and not (path[0] == "schemas"):
        fail("misspell", f"unknown option {'.'.join(map(str, path))}_x is accepted", {"path": path})
    if free_form and r[0] != "ok":
        fail("misspell", "an arbitrary variable in the free-form hsm env map is rejected", {"path": path})
    # retype
    if isinstance(val, bool):
        bad = "maybe"
    elif isinstance(val, int):
        bad = "many"
    elif isinstance(val, list):
        bad = {"a": 1}
    elif isinstance(val, str) and path[0] in ("ksk_policy",) or (path[0] == "request_policy" and "length" in str(path[-1]) or "interval" in str(path[-1])):
        bad = "ten days"
    else:
        bad = None
    if bad is not None and path[0] in ("request_policy", "response_policy", "ksk_policy", "keys"):
        c = copy.deepcopy(BASE)
        setp(c, path, bad)
        r = load(c)
        count("retype")
        if r[0] == "ok":
            fail("retype", f"option {'.'.join(map(str, path))} = {bad!r} is accepted", {"path": path, "value": bad})
# unknown sections
for sec in ({"xyzzy": False}, {"request_policy": {"no_such_flag": True}}, {"ksk_policy": {"colour": "blue"}}, {"filenames": {"other": "x"}},
            {"keys": {"k9": {"description": "d", "label": "L", "algorithm": "RSASHA256", "valid_from": "2020-01-01T00:00:00+00:00", "shoe_size": 42}}}):
    c = copy.deepcopy(BASE)
    for k, v in sec.items():
        if isinstance(v, dict) and k in c:
            c[k] = {**c[k], **v}
        else:
            c[k] = v
    r = load(c)
    count("unknown-section")
    if r[0] == "ok":
        fail("unknown", f"unknown section/option accepted: {sec}")

# ------------------------------------------------------------------ 2. documented constraints: violating values rejected, valid values loaded exactly
BAD = [(("request_policy", "num_bundles"), 0), (("request_policy", "num_bundles"), -3), (("request_policy", "num_different_keys_in_all_bundles"), 0),
       (("request_policy", "signature_horizon_days"), 0), (("request_policy", "signature_horizon_days"), -180), (("request_policy", "dns_ttl"), -1),
       (("ksk_policy", "ttl"), -1), (("request_policy", "rsa_approved_key_sizes"), [0]), (("request_policy", "rsa_approved_key_sizes"), [65536]),
       (("request_policy", "rsa_approved_exponents"), [0]), (("request_policy", "num_keys_per_bundle"), [2, 0, 1]), (("request_policy", "acceptable_domains"), ["bad domain!"]),
       (("keys", "ksk_current", "rsa_size"), 0), (("keys", "ksk_current", "rsa_size"), 65536), (("keys", "ksk_current", "rsa_exponent"), 0),
       (("keys", "ksk_current", "key_tag"), 0), (("keys", "ksk_current", "key_tag"), 65536), (("keys", "ksk_current", "label"), "bad label!"),
       (("keys", "ksk_current", "label"), ""), (("keys", "ksk_current", "ds_sha256"), "not-hex"), (("keys", "ksk_current", "algorithm"), "RSAFOO"),
       (("keys", "ksk_current", "algorithm"), 8), (("keys", "ksk_current", "valid_from"), "yesterday"), (("ksk_policy", "signers_name"), "not a name!"),
       (("ksk_policy", "publish_safety"), "P1X"), (("ksk_policy", "retire_safety"), "10 days"), (("ksk_policy", "max_signature_validity"), "1D"),
       (("request_policy", "min_bundle_interval"), "P1X"), (("request_policy", "max_cycle_inception_length"), "eighty"), (("response_policy", "num_bundles"), 0),
       (("schemas", "normal", 1, "sign"), "bad name!"), (("schemas", "normal", 1, "sign"), {"ksk_current": True}), (("schemas", "normal", 2, "publish"), {"ksk_current": None, "ksk_next": None}),
       (("schemas", "normal", 3, "revoke"), {"ksk_current": "yes"}), (("schemas", "normal", 1, "publish"), 5), (("schemas", "normal", 1, "sign"), [["ksk_current"]]), (("schemas", "normal", 1, "sign"), [5])]
# durations: whatever contains a character that is neither a digit nor a designator, or does not start with P, is not a duration
KP = ["publish_safety", "retire_safety", "max_signature_validity", "min_signature_validity", "max_validity_overlap", "min_validity_overlap"]
for i_, text in enumerate(["P1.5D", "P1,5D", "P-1D", "P+1D", "P 1D", "P1D ", " P1D", "PxD", "Px1D", "P1DX", "P1Y", "P1D2X3H", "PT1.5H", "P1D;", "P1e3D", "P0x10D", "p1d", "P1d", "1D", "D1",
                           "P1D\n", "P10D\nT5H", "P10D\nnot a duration at all", "P\t1D", "PT1H:30M", "P1D+PT1H", "P1_000D", "P\u00b9D", "P1D#comment", "PD", "PTH", "P1TD"]):
    BAD.append((("ksk_policy", KP[i_ % len(KP)]), text))
# documented forms are forms of the whole value: a line break after an otherwise well-formed value is not part of any of them
for path, v in [(("keys", "ksk_current", "label"), "Kjqmt7v\n"), (("keys", "ksk_current", "label"), "\nKjqmt7v"), (("keys", "ksk_current", "ds_sha256"), "AB" * 32 + "\n"),
                (("request_policy", "acceptable_domains"), [".\n"]), (("request_policy", "acceptable_domains"), ["example.org.\n"]), (("ksk_policy", "signers_name"), ".\n"),
                (("schemas", "normal", 1, "sign"), "ksk_current\n"), (("keys", "ksk_current", "algorithm"), "RSASHA256\n")]:
    BAD.append((path, v))
for path, v in BAD:
    c = copy.deepcopy(BASE)
    setp(c, path, v)
    r = load(c)
    count("constraint-violation")
    if r[0] == "ok":
        fail("constraint", f"{'.'.join(map(str, path))} = {v!r} violates its documented constraint but is accepted", {"path": path, "value": v})
    elif len(samples) < 3:
        samples.append({"path": ".".join(map(str, path)), "value": str(v), "outcome": r[2]})
GOOD = [(("request_policy", "num_bundles"), 5, 5), (("request_policy", "signature_horizon_days"), 1, 1), (("request_policy", "dns_ttl"), 3600, 3600),
        (("ksk_policy", "ttl"), 0, 0), (("ksk_policy", "ttl"), 1, 1), (("request_policy", "min_bundle_interval"), "P1W2DT3H4M5S", D(days=9, hours=3, minutes=4, seconds=5)),
        (("request_policy", "max_cycle_inception_length"), "PT36H", D(hours=36)), (("request_policy", "approved_algorithms"), ["RSASHA256", "RSASHA512"], ["RSASHA256", "RSASHA512"]),
        (("request_policy", "rsa_approved_key_sizes"), [1024, 65535], [1024, 65535]), (("request_policy", "acceptable_domains"), [".", "example.org"], [".", "example.org"]),
        (("request_policy", "check_chain_overlap"), False, False), (("request_policy", "num_keys_per_bundle"), [1, 1, 1], [1, 1, 1])]
for path, v, want in GOOD:
    c = copy.deepcopy(BASE)
    setp(c, path, v)
    r = load(c)
    count("valid-value")
    if r[0] != "ok":
        fail("valid", f"{'.'.join(map(str, path))} = {v!r} is a documented value but is rejected ({r[2]})")
    else:
        got = getattr(getattr(r[1], path[0]), path[1])
        if got != want:
            fail("valid", f"{'.'.join(map(str, path))} = {v!r} is loaded as {got!r}, not exactly")
import datetime as _dtm
for field_ in ("valid_from", "valid_until"):
    for text_, want_ in (("2017-02-02T00:00:00+02:00", _dtm.datetime(2017, 2, 1, 22, 0, tzinfo=_dtm.timezone.utc)), ("2017-02-02T00:00:00-05:00", _dtm.datetime(2017, 2, 2, 5, 0, tzinfo=_dtm.timezone.utc)),
                         ("2017-02-02T00:00:00+05:30", _dtm.datetime(2017, 2, 1, 18, 30, tzinfo=_dtm.timezone.utc)), ("2017-02-02T00:00:00+00:00", _dtm.datetime(2017, 2, 2, tzinfo=_dtm.timezone.utc)),
                         ("2017-02-02T00:00:00Z", _dtm.datetime(2017, 2, 2, tzinfo=_dtm.timezone.utc)), (_dtm.datetime(2017, 2, 2, 0, 0, tzinfo=_dtm.timezone(_dtm.timedelta(hours=-8))), _dtm.datetime(2017, 2, 2, 8, 0, tzinfo=_dtm.timezone.utc))):
        c = copy.deepcopy(BASE)
        c["keys"]["ksk_current"][field_] = text_
        if field_ == "valid_until":
            c["keys"]["ksk_current"]["valid_from"] = "2010-01-01T00:00:00+00:00"
        r = load(c)
        count("valid-value")
        got_ = getattr(r[1].ksk_keys["ksk_current"], field_) if r[0] == "ok" else None
        if r[0] != "ok" or got_ is None or (got_ if got_.tzinfo else got_.replace(tzinfo=_dtm.timezone.utc)) != want_:
            fail("valid", f"keys.ksk_current.{field_} = {text_} (the instant {want_.isoformat()}) is {'rejected (' + r[2] + ')' if r[0] != 'ok' else 'loaded as ' + str(got_)}", {"field": field_, "text": str(text_)})
for tag_ in (1, 65535, 65534, 32768):
    c = copy.deepcopy(BASE)
    c["keys"]["ksk_current"]["key_tag"] = tag_
    r = load(c)
    count("valid-value")
    if r[0] != "ok" or r[1].ksk_keys["ksk_current"].key_tag != tag_:
        fail("valid", f"keys.ksk_current.key_tag = {tag_} is inside the documented range 1..65535 but is {'rejected (' + r[2] + ')' if r[0] != 'ok' else 'not loaded exactly'}")
for name, text, want in [("publish_safety", "P10D", D(days=10)), ("retire_safety", "P1W", D(days=7)), ("max_signature_validity", "P21DT1S", D(days=21, seconds=1)),
                         ("min_validity_overlap", "PT0S", D(0)), ("max_validity_overlap", "P16DT12H30M", D(days=16, hours=12, minutes=30))]:
    c = copy.deepcopy(BASE)
    c["ksk_policy"][name] = text
    r = load(c)
    count("valid-value")
    if r[0] != "ok" or getattr(r[1].ksk_policy.signature_policy, name) != want:
        fail("valid", f"ksk_policy.{name} = {text} not loaded exactly")

# the same period in every ISO 8601 notation the documentation allows (weeks, days, hours, minutes, seconds and their combinations) is the same period
for i_ in range(40 * (1 if TIER == "quick" else 8)):
    td = R.choice([D(days=R.randrange(0, 60)), D(days=R.randrange(7, 40), hours=R.randrange(24)), D(seconds=R.randrange(0, 40 * 86400)), D(days=7 * R.randrange(1, 6) + R.randrange(1, 7))])
    nt = R.choice(["days", "weeks", "weeks", "hours", "minutes", "seconds", "days-hours"])
    text = ksrxml.fmt_dur_as(td, nt)
    name = KP[i_ % len(KP)]
    c = copy.deepcopy(BASE)
    c["ksk_policy"][name] = text
    r = load(c)
    count("valid-period-notation")
    if r[0] != "ok" or getattr(r[1].ksk_policy.signature_policy, name) != td:
        fail("valid", f"ksk_policy.{name} = {text} ({td}) is {'rejected (' + r[2] + ')' if r[0] != 'ok' else 'loaded as ' + str(getattr(r[1].ksk_policy.signature_policy, name))}", {"text": text})

# ------------------------------------------------------------------ 3. exit status of the signer
for label, cfg, want in [("unknown-section", {**copy.deepcopy(BASE), "xyzzy": 1}, "2"), ("bad-value", None, "2"), ("horizon-0", None, "2"), ("valid-config-missing-ksr", copy.deepcopy(BASE), "nonzero")]:
    if label == "bad-value":
        cfg = copy.deepcopy(BASE); cfg["request_policy"]["num_bundles"] = "many"
    if label == "horizon-0":
        cfg = copy.deepcopy(BASE); cfg["request_policy"]["signature_horizon_days"] = 0
    cfg["filenames"]["previous_skr"] = None
    st = exit_status_of(cfg)
    count("exit-status")
    ok = (st == want) if want != "nonzero" else (st not in ("0", "no-exit"))
    if not ok:
        fail("exit-status", f"{label}: the signer ends with {st}, expected {'the configuration-error status 2' if want == '2' else 'a non-zero status'}", {"status": st})

# every kind of location an error can have: scalar option, element of a list-valued option, numbered schema slot, nested key entry
for path, v in [(("request_policy", "acceptable_domains"), [".", "exa mple"]), (("request_policy", "num_keys_per_bundle"), [2, 0, 1]), (("request_policy", "rsa_approved_key_sizes"), [2048, 70000]),
                (("request_policy", "rsa_approved_exponents"), [65537, 0]), (("schemas", "normal", 3, "sign"), "bad name!"),
                (("schemas", "normal", 3, "publsh"), "ksk_current"), (("keys", "ksk_current", "key_tag"), 65536), (("request_policy", "num_bundles"), 0), (("ksk_policy", "ttl"), -1),
                (("keys", "ksk_current", "ds_sha256"), "not-hex"), (("request_policy", "min_bundle_interval"), "P1X")]:
    cfg = copy.deepcopy(BASE)
    setp(cfg, path, v)
    cfg["filenames"]["previous_skr"] = None
    st = exit_status_of(cfg)
    count("exit-status")
    if st != "2":
        fail("exit-status", f"{'.'.join(map(str, path))} = {v!r}: the signer ends with {st}, expected the configuration-error status 2", {"status": st, "path": path, "value": v})

# ------------------------------------------------------------------ 4. random well-formed configurations through YAML
for i in range(25 * SCALE):
    rp = {"num_bundles": R.randrange(1, 12), "validate_signatures": R.random() < 0.5, "check_cycle_length": R.random() < 0.5, "signature_horizon_days": R.randrange(1, 400),
          "num_different_keys_in_all_bundles": R.randrange(1, 6), "dns_ttl": R.randrange(0, 10**6), "rsa_approved_key_sizes": sorted(R.sample(range(1, 65536), 2)),
          "rsa_approved_exponents": [R.choice([3, 17, 65537, 2**32 + 1])], "min_bundle_interval": f"P{R.randrange(1, 20)}DT{R.randrange(0, 24)}H", "check_keys_retire_safety": R.random() < 0.5}
    c = {"request_policy": rp, "ksk_policy": {"ttl": R.randrange(0, 10**6), "publish_safety": f"PT{R.randrange(0, 10**5)}S"}}
    r = load(c)
    count("random-config")
    if r[0] != "ok":
        fail("random", f"well-formed configuration rejected: {r[2]}", {"config": c})
        continue
    got = r[1].request_policy
    for k, v in rp.items():
        if k == "min_bundle_interval":
            continue
        if getattr(got, k) != v:
            fail("random", f"request_policy.{k} loaded as {getattr(got, k)!r}, not {v!r}")
    if r[1].ksk_policy.ttl != c["ksk_policy"]["ttl"]:
        fail("random", "ksk_policy.ttl not loaded exactly")

# ------------------------------------------------------------------ 5. one flag, one check: single-flag-off policies x KSRs violating exactly one rule
NOW = reqcases.NOW
P = ksrxml.POOL
Z = [ksrxml.mk_key(P.rsa(2048, 65537, i), alg=8) for i in range(3)]
P.save()


def good_request():
    zs = [[Z[0], Z[1]]] + [[Z[1]]] * 7 + [[Z[1], Z[2]]]
    return skrgen.honest_request(f"c16-{R.randrange(10**6)}", NOW + D(days=3), 9, zs, ksrxml.default_zsk_policy(algs=[("RSA", 8, 2048, 65537)]), sign=True)


def clone(req):
    return {**req, "zsk": dict(req["zsk"]), "bundles": [dict(b, keys=[dict(k) for k in b["keys"]], sigs=[dict(s) for s in b["sigs"]]) for b in req["bundles"]]}


def v_validity(r): r["zsk"]["min_validity"] = D(days=21, seconds=1); r["zsk"]["max_validity"] = D(days=22)
def v_overlap(r): r["zsk"]["min_overlap"] = D(days=11, seconds=1)
def v_interval(r):
    for j in range(1, 9):
        r["bundles"][j]["inc"] += D(days=2) * j; r["bundles"][j]["exp"] += D(days=2) * j
def v_horizon(r):
    for b in r["bundles"]:
        b["inc"] += D(days=400); b["exp"] += D(days=400)
def v_keyflags(r): r["bundles"][0]["keys"][0]["flags"] = 257
def v_keycount(r): r["bundles"][4]["keys"].append(dict(Z[0]))
def v_alg(r): r["zsk"]["algs"] = [("RSA", 8, 2048, 3)]
def v_pop(r): r["bundles"][3]["sigs"][0]["data"] = r["bundles"][3]["sigs"][0]["data"][:-1] + bytes([r["bundles"][3]["sigs"][0]["data"][-1] ^ 1])


def v_ecdsa(r): r["zsk"]["algs"] = r["zsk"]["algs"] + [("ECDSA", 13, 256)]
def v_sha1(r): r["zsk"]["algs"] = r["zsk"]["algs"] + [("RSA", 5, 2048, 65537)]
def v_algsize(r): r["zsk"]["algs"] = r["zsk"]["algs"] + [("RSA", 8, 4096, 65537)]


Z1024 = [ksrxml.mk_key(P.rsa(1024, 65537, i), alg=8) for i in range(3)]
P.save()


def v_keysize(r):
    # the keys offered are 1024-bit keys (honestly signed with them); the policy declares - and the operator approves - 2048 bits only
    sub = {Z[i]["pub"]: Z1024[i] for i in range(3)}
    for b in r["bundles"]:
        b["keys"] = [dict(sub[k["pub"]]) for k in b["keys"]]
        b["sigs"] = [ksrxml.mk_sig(k, b["keys"], b["inc"], b["exp"]) for k in b["keys"]]


ZE3 = [ksrxml.mk_key(P.rsa(2048, 3, i), alg=8) for i in range(3)]
P.save()


def v_keyexp(r):
    # the keys offered have public exponent 3 (honestly signed with them); the policy declares exponent 65537
    sub = {Z[i]["pub"]: ZE3[i] for i in range(3)}
    for b in r["bundles"]:
        b["keys"] = [dict(sub[k["pub"]]) for k in b["keys"]]
        b["sigs"] = [ksrxml.mk_sig(k, b["keys"], b["inc"], b["exp"]) for k in b["keys"]]


RULES = {"key-size-not-declared": (v_keysize, "keys_match_zsk_policy"), "key-exponent-not-declared": (v_keyexp, ("keys_match_zsk_policy", "rsa_exponent_match_zsk_policy")),
         "declared-ecdsa-not-enabled": (v_ecdsa, None), "declared-rsasha1-unsupported": (v_sha1, None),
         "declared-size-not-approved": (v_algsize, "signature_algorithms_match_zsk_policy"),
         "validity": (v_validity, "signature_validity_match_zsk_policy"), "overlap": (v_overlap, "check_bundle_overlap"),
         "interval": (v_interval, "check_bundle_intervals"), "horizon": (v_horizon, "signature_check_expire_horizon"),
         "key-flags": (v_keyflags, "keys_match_zsk_policy"), "key-count": (v_keycount, "check_keys_match_ksk_operator_policy"),
         "pop": (v_pop, "validate_signatures")}
FLAGS = ["signature_validity_match_zsk_policy", "check_bundle_overlap", "check_bundle_intervals", "signature_check_expire_horizon", "keys_match_zsk_policy",
         "check_keys_match_ksk_operator_policy", "validate_signatures", "check_cycle_length", "signature_algorithms_match_zsk_policy", "rsa_exponent_match_zsk_policy"]
C = reqcases.Cases()
try:
    base = good_request()
    C.judge("all-on-honest", RequestPolicy(), xml=ksrxml.render_ksr(base))
    for rule, (mut, flag) in RULES.items():
        bad = clone(base)
        mut(bad)
        if rule in ("interval", "horizon", "key-flags", "key-count"):
            for b in bad["bundles"]:        # re-sign what the mutation invalidated, so exactly one rule is violated
                b["sigs"] = [ksrxml.mk_sig(k, b["keys"], b["inc"], b["exp"]) for k in {k["pub"]: k for k in b["keys"]}.values()]
        xml = ksrxml.render_ksr(bad)
        for off in [None] + FLAGS:
            kw = {off: False} if off else {}
            if rule == "interval":
                kw.setdefault("check_cycle_length", False) if off != "check_cycle_length" else None
            pol = RequestPolicy(**kw)
            acc = C.judge(f"one-rule-{rule}", pol, xml=xml, desc={"violated": rule, "flag_off": off}, strict=rule != "pop")
            count("flag-matrix")
            flags_ = set(flag) if isinstance(flag, tuple) else {flag}
            expected_accept = flag is not None and off in flags_ and rule != "interval"
            if rule == "interval":
                continue   # interval shift also changes the cycle length: judged by the spec transcription inside C.judge only
            if acc is not None and acc != expected_accept:
                fail("one-flag-one-check", f"KSR violating only '{rule}' with flag {off} off: {'accepted' if acc else 'rejected'}; only {flag} may waive it",
                     {"rule": rule, "flag_off": off})
finally:
    C.close()
# ------------------------------------------------------------------ 6. one flag, one check, for the three chain rules (previous SKR -> KSR)
import base64 as _b64
import types as _types
from kskm.signer.policy import check_skr_and_ksr as _chain


class _Tok:
    def __init__(self, table):
        self.table = table

    def find_key_by_label(self, label, key_class, hash_using_hsm=None):
        e = self.table.get(label)
        return None if e is None else _types.SimpleNamespace(label=label, public_key=e)


_KS = {"ksk_current": skrgen.ksk("Kcur", 0)}
_ZP = ksrxml.default_zsk_policy(algs=[("RSA", 8, 2048, 65537)])
_prev = skrgen.simulate_skr(skrgen.honest_request("c16-prev", NOW - D(days=60), 3, [[Z[0], Z[1]], [Z[1]], [Z[1], Z[2]]], _ZP, sign=False),
                            {i: {"publish": ["ksk_current"], "sign": ["ksk_current"], "revoke": []} for i in (1, 2, 3)}, _KS, _ZP)
_last = _prev["bundles"][-1]
_pub = [k for k in _last["keys"] if k["flags"] == 256]


def _succ(overlap=D(days=11), first=None):
    fk = first or _pub
    return skrgen.honest_request("c16-next", _last["exp"] - overlap, 3, [fk] + [[fk[-1]]] * 2, _ZP, sign=False)


_tok_ok = {"Kcur": _b64.b64encode(_KS["ksk_current"]["pub"])}
CHAIN_RULES = {"chain-keys": ("check_chain_keys", _succ(first=[Z[2], Z[0]]), _tok_ok), "chain-overlap": ("check_chain_overlap", _succ(overlap=D(days=3)), _tok_ok),
               "chain-key-on-token": ("check_chain_keys_in_hsm", _succ(), {}), "chain-honest": (None, _succ(), _tok_ok)}
for rule, (flag, ksr_, table) in CHAIN_RULES.items():
    for off in [None, "check_chain_keys", "check_chain_keys_in_hsm", "check_chain_overlap"]:
        pol = RequestPolicy(**({off: False} if off else {}))
        r_ = vlib.run_impl(_chain, skrgen.k_request(ksr_), skrgen.k_response(_prev), pol, [_Tok(table)])
        count("chain-flag-matrix")
        acc = r_[0] == "ok"
        want = flag is None or off == flag
        if acc != want:
            fail("one-flag-one-check", f"previous SKR -> KSR violating only '{rule}' with {off or 'no flag'} off: {'accepted' if acc else 'refused (' + r_[2] + ')'}; "
                 + (f"only {flag} may waive it" if flag else "an honest successor is acceptable under every flag setting"), {"rule": rule, "flag_off": off})

metas = C.run(rep, props, "C16", shard=10)
import shutil

shutil.rmtree(tmpd, ignore_errors=True)
rep.coverage.update({
    "evaluations": sum(hist.values()) + len(C.cases), "distinct_nontrivial": sum(hist.values()) - hist.get("flag-matrix", 0) + len(set(C.cases)),
    "rule": "every option of config/ksrsigner.yaml in turn deleted (defaults compared with the documented ones), misspelled, retyped; unknown sections; a table of "
            "constraint-violating values (non-positive counts/horizon, negative TTL, RSA sizes, key tags, labels, domains, digests, algorithm names, durations) and "
            "of valid values that must be loaded exactly; exit status of main() in process; 25 random well-formed configurations through YAML; and the matrix "
            "of single-flag-off policies x KSRs violating exactly one rule (also run through the Coq model of validate_request)",
    "distribution": hist, "samples": samples or ["(none)"],
})
rep.assumptions += ["pydantic's lax coercions (e.g. '1' -> 1, 0 -> False) are mirrored, not judged", "request_policy durations are parsed by pydantic, ksk_policy durations by the tool's own reader; both agree on the W/D/H/M/S forms used here"]
sys.exit(rep.finish())
