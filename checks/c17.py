"""C17 - The digest and PGP words shown to the operator are of the bytes actually used."""
import argparse
import contextlib
import datetime as dt
import hashlib
import io
import logging
import os
import re
import sys
import tempfile

import vlib
from vlib import txt, zlist

ap = argparse.ArgumentParser()
ap.add_argument("--tier")
ap.add_argument("--replay")
args = ap.parse_args()
TIER = vlib.tier(args.tier)
SCALE = 1 if TIER == "quick" else 6

vlib.setup_impl_path(quiet=False)
rep = vlib.Report("C17", TIER)
vlib.regen("Words", "IO")
props = vlib.build_props("C17")
rep.add_props(props)

sys.path.insert(0, str(vlib.VERIF / "tools"))
import mk_pgpwords as STD   # pinned reference list (independent of /repo)

import ceremony
import emu
import ksrxml
import signcases as S
import skrgen
from kskm.common.config_misc import RequestPolicy, ResponsePolicy
from kskm.common.display import format_bundles_for_humans
from kskm.common.integrity import checksum_bytes2str, sha2wordlist
from kskm.common.wordlist import WORDS, pgp_wordlist
from kskm.ksr.load import load_ksr
from kskm.skr.load import load_skr
from kskm.tools import sha2wordlist as tool_words

D = dt.timedelta
R = vlib.rng("C17")
NOW = dt.datetime.now(dt.timezone.utc).replace(microsecond=0)
hist = {}
cases, meta = [], []


def count(k, n=1):
    hist[k] = hist.get(k, 0) + n


def ref_words(data: bytes):
    return [(STD.ODD if i & 1 else STD.EVEN)[b] for i, b in enumerate(data)]


def ref_decode(words):
    out = bytearray()
    for i, w in enumerate(words):
        col = STD.ODD if i & 1 else STD.EVEN
        out.append(col.index(w))
    return bytes(out)


def fail(kind, msg, extra=None):
    rep.violation("impl-vs-spec", f"{kind}: {msg}", {"kind": kind, **(extra or {})})


# ------------------------------------------------------------------ 1. word encoding: all 512 entries, random digests, model correspondence
for b in range(256):
    for pos in (0, 1):
        data = bytes([0] * pos + [b])
        w = pgp_wordlist(data)
        count("table-entry")
        if w != ref_words(data):
            fail("table", f"byte 0x{b:02x} at {'odd' if pos else 'even'} position renders as {w[-1]!r}, the standard list says {ref_words(data)[-1]!r}", {"byte": b, "odd": bool(pos)})
allw = [pgp_wordlist(bytes([b]))[0] for b in range(256)] + [pgp_wordlist(bytes([0, b]))[1] for b in range(256)]
if len(set(allw)) != 512:
    fail("table", "two table entries carry the same word: renderings are not uniquely decodable")
for i in range(60 * SCALE):
    data = hashlib.sha256(str(R.random()).encode()).digest() if i % 3 else bytes(R.randrange(256) for _ in range(R.choice([0, 1, 2, 31, 33, 64])))
    r = vlib.run_impl(pgp_wordlist, data)
    ok = r[0] == "ok" and r[1] == ref_words(data) and ref_decode(r[1]) == data
    impl = "[" + ";".join(txt(w) for w in r[1]) + "]" if r[0] == "ok" else "[]"
    cases.append(f"({zlist(data)}, {impl})")
    meta.append({"kind": "words", "desc": {"data": data.hex(), "words": " ".join(r[1][:6]) if r[0] == "ok" else r[2]}, "spec_ok": ok,
                 "spec_msg": "rendering differs from the standard list or does not decode to the digest", "key": None})
    count("words-random")

# ------------------------------------------------------------------ 2. KSR / SKR loaders: the file changes between opens
vlib.WORK.mkdir(exist_ok=True)
tmpd = tempfile.mkdtemp(prefix="c17-", dir=str(vlib.WORK))
Z = [skrgen.zsk(i) for i in range(3)]
KS = {"ksk_current": skrgen.ksk("Kcur", 0)}
ksrxml.POOL.save()


def make_ksr(rid):
    zs = [[Z[0], Z[1]]] + [[Z[1]]] * 7 + [[Z[1], Z[2]]]
    return skrgen.honest_request(rid, NOW + D(days=3), 9, zs, ksrxml.default_zsk_policy(), sign=True)


POL = RequestPolicy(rsa_approved_key_sizes=[1024])
reqA, reqB = make_ksr("version-A"), make_ksr("version-B")
reqB["bundles"][0]["inc"] += D(seconds=0)
xmlA, xmlB = ksrxml.render_ksr(reqA).encode(), ksrxml.render_ksr(reqB).encode()


def steer_digest(doc: bytes, prefix: str) -> bytes:
    """the same document with a prolog comment chosen so that its SHA-256 (hex) starts with the given digits -
    a digest with leading zeros must be shown with them"""
    head, sep, tail = doc.partition(b"\n")
    n = 0
    while True:
        cand = head + sep + f"<!-- pad {n} -->\n".encode() + tail
        if hashlib.sha256(cand).hexdigest().startswith(prefix):
            return cand
        n += 1


xmlA, xmlB = steer_digest(xmlA, "0"), steer_digest(xmlB, "00")
schema9 = {i: {"publish": ["ksk_current"], "sign": ["ksk_current"], "revoke": []} for i in range(1, 10)}
skrA = ksrxml.render_skr(skrgen.simulate_skr(reqA, schema9, KS, ksrxml.default_zsk_policy())).encode()
skrB = ksrxml.render_skr(skrgen.simulate_skr(reqB, schema9, KS, ksrxml.default_zsk_policy())).encode()
skrA, skrB = steer_digest(skrA, "00"), steer_digest(skrB, "0")


class Flipper:
    """audit hook: after the n-th open of `path`, the file content is replaced (models replacement on disk during the run)"""

    def __init__(self):
        self.path = None
        self.opens = 0
        self.versions = []
        self.active = False
        sys.addaudithook(self.hook)

    def hook(self, event, a):
        if self.active and event == "open" and a and str(a[0]) == self.path and isinstance(a[1], str) and "r" in a[1]:
            self.opens += 1
            if self.opens >= 2 and self.versions:
                self.active = False
                with open(self.path, "wb") as f:
                    f.write(self.versions[min(self.opens - 2, len(self.versions) - 1)])
                self.active = True

    def arm(self, path, first, later):
        self.path, self.opens, self.versions = path, 0, later
        with open(path, "wb") as f:
            f.write(first)
        self.active = True

    def disarm(self):
        self.active = False


FL = Flipper()


class LogCapture(logging.Handler):
    def __init__(self):
        super().__init__()
        self.lines = []

    def emit(self, record):
        self.lines.append(record.getMessage())


def with_logs(f):
    h = LogCapture()
    root = logging.getLogger()
    old = root.level
    root.setLevel(logging.DEBUG)
    root.addHandler(h)
    try:
        return f(), h.lines
    finally:
        root.removeHandler(h)
        root.setLevel(old)


HEX = re.compile(r"SHA-256 ([0-9a-f]{64}) WORDS (.*)$")
for kind, loader, pol, a, b in [("ksr", load_ksr, POL, xmlA, xmlB), ("skr", load_skr, ResponsePolicy(), skrA, skrB)]:
    for first, later in [(a, [b]), (b, [a]), (a, [a]), (a, [b, a])]:
        path = os.path.join(tmpd, f"flip-{kind}.xml")
        FL.arm(path, first, later)
        try:
            r, lines = with_logs(lambda: vlib.run_impl(loader, path, pol))
        finally:
            FL.disarm()
        count(f"loader-{kind}")
        if r[0] != "ok":
            fail("loader", f"{kind} loader failed on a valid file: {r[2]}")
            continue
        obj = r[1]
        parsed = first if obj.id == ("version-A" if first is a else "version-B") else (later[0] if later else first)
        parsed_version = {"version-A": a, "version-B": b}[obj.id]
        logged = [HEX.search(l) for l in lines if "Loaded" in l and HEX.search(l)]
        if len(logged) != 1:
            fail("loader", f"{kind}: expected one 'Loaded ... SHA-256' log line, saw {len(logged)}")
            continue
        hexd, words = logged[0].group(1), logged[0].group(2).split()
        want = hashlib.sha256(parsed_version).hexdigest()
        if hexd != want or ref_decode(words) != bytes.fromhex(want):
            fail("loader", f"{kind}: logged digest/words are not those of the bytes that were parsed (file replaced between opens)",
                 {"logged": hexd, "sha256_of_parsed": want, "opens": FL.opens})
        if kind == "ksr" and obj.xml_hash != bytes.fromhex(want):
            fail("loader", "Request.xml_hash (shown before the confirmation prompt) is not the digest of the parsed bytes", {"opens": FL.opens})
        if FL.opens != 1:
            fail("loader", f"{kind} file was opened {FL.opens} times during one load", {"opens": FL.opens})
        # bundle table lists exactly what was parsed
        table = format_bundles_for_humans(obj.bundles)
        for line, bnd in zip(table[1:], obj.bundles):
            inc, exp = bnd.inception.strftime("%Y-%m-%dT%H:%M:%S"), bnd.expiration.strftime("%Y-%m-%dT%H:%M:%S")
            tags = sorted(str(k.key_tag) for k in bnd.keys)
            if inc not in line or exp not in line or not all(t in line for t in tags):
                fail("bundle-table", f"{kind}: table line does not list inception/expiration/key tags of the parsed bundle", {"line": line})
        if len(table) != len(obj.bundles) + 1:
            fail("bundle-table", "bundle table has a different number of rows than parsed bundles")

# a file beyond the size cap: either refused, or what is logged is the digest of the whole file (never the digest of a part of it presented as the file's)
for kind, loader, pol, doc_ in (("skr", load_skr, ResponsePolicy(), skrA), ("ksr", load_ksr, POL, xmlA)):
    for extra in (0, 1, 4096):
        data_ = doc_ + b"\n" * (1024 * 1024 + extra - len(doc_))
        path = os.path.join(tmpd, f"big-{kind}.xml")
        with open(path, "wb") as f:
            f.write(data_)
        r, lines = with_logs(lambda: vlib.run_impl(loader, path, pol))
        count(f"loader-size-{kind}")
        logged = [HEX.search(l) for l in lines if "Loaded" in l and HEX.search(l)]
        if r[0] == "ok" and (len(logged) != 1 or logged[0].group(1) != hashlib.sha256(data_).hexdigest()):
            fail("loader", f"{kind} file of {len(data_)} octets was loaded and the logged digest is not that of the file (the stand-alone tool prints another value for it)",
                 {"size": len(data_), "logged": logged[0].group(1) if logged else None, "sha256_of_file": hashlib.sha256(data_).hexdigest()})
        if extra > 0 and r[0] == "ok":
            fail("loader", f"{kind} file of {len(data_)} octets (over the 1 MiB cap) was loaded", {"size": len(data_)})

# the table states the parsed instants exactly: fractional seconds and offsets survive, so that two differently parsed KSRs never show the same table
kreqA = skrgen.k_request(reqA)
for trial in range(12 * SCALE):
    bs = []
    for bnd in kreqA.bundles:
        us_i, us_e = R.choice([0, 1, 250000, 999999]), R.choice([0, 500000, 999999])
        bs.append(bnd.replace(inception=bnd.inception.replace(microsecond=us_i), expiration=bnd.expiration.replace(microsecond=us_e)))
    table = format_bundles_for_humans(bs)
    count("bundle-table-exact")
    for line, bnd in zip(table[1:], bs):
        f = line.split()
        try:
            inc, exp = dt.datetime.fromisoformat(f[1]), dt.datetime.fromisoformat(f[2])
            inc = inc if inc.tzinfo else inc.replace(tzinfo=dt.timezone.utc)
            exp = exp if exp.tzinfo else exp.replace(tzinfo=dt.timezone.utc)
        except (ValueError, IndexError):
            fail("bundle-table", "table row does not carry readable inception/expiration", {"line": line})
            break
        if inc != bnd.inception or exp != bnd.expiration:
            fail("bundle-table", f"table shows {f[1]} .. {f[2]} for a bundle parsed as {bnd.inception.isoformat()} .. {bnd.expiration.isoformat()}", {"line": line})
            break

# the table lists every key of a bundle: two ZSKs that share their 16-bit key tag (a roll between them) are two entries
_ta, _tb = ksrxml.POOL.rsa_tag_collision(8, 256, 1024)
_TW = [ksrxml.mk_key(_ta, alg=8, ident="ZSK-twin-a"), ksrxml.mk_key(_tb, alg=8, ident="ZSK-twin-b")]
ksrxml.POOL.save()
_third = skrgen.zsk(2)
for slots_ in ([_TW, [_TW[1]], [_TW[1], _third]], [[_TW[0], _third, _TW[1]], [_third]], [[_third], [_TW[1], _TW[0]]]):
    kreqT = skrgen.k_request(skrgen.honest_request("twins", NOW + D(days=3), len(slots_), slots_, ksrxml.default_zsk_policy(), sign=True))
    table = format_bundles_for_humans(kreqT.bundles)
    count("bundle-table-equal-tags")
    for line, bnd in zip(table[1:], kreqT.bundles):
        f = line.split()
        shown = sorted(f[3].split(",")) if len(f) > 3 else []
        want_tags = sorted(str(k.key_tag) for k in bnd.keys if k.flags == 256)
        if shown != want_tags:
            fail("bundle-table", f"bundle with ZSK key tags {want_tags} (two different keys share a tag) is shown with ZSK tags {shown}", {"line": line})
            break

# a revoked KSK (flags 385) is a KSK: it is listed in the KSK column with its (recomputed) tag, not among the ZSKs
_kn = skrgen.ksk("Knext", 1)
_rq3 = skrgen.honest_request("revoked-row", NOW + D(days=3), 3, [[skrgen.zsk(0)]] * 3, ksrxml.default_zsk_policy(), sign=False)
_sch3 = {1: {"publish": ["ksk_current", "ksk_next"], "sign": ["ksk_current"], "revoke": []}, 2: {"publish": ["ksk_next"], "sign": ["ksk_current", "ksk_next"], "revoke": ["ksk_current"]},
         3: {"publish": ["ksk_next"], "sign": ["ksk_next"], "revoke": []}}
_skr3 = skrgen.simulate_skr(_rq3, _sch3, {"ksk_current": KS["ksk_current"], "ksk_next": _kn}, ksrxml.default_zsk_policy())
_resp3 = skrgen.k_response(_skr3)
table = format_bundles_for_humans(_resp3.bundles)
count("bundle-table-revoked-ksk")
for line, bnd, src in zip(table[1:], _resp3.bundles, _skr3["bundles"]):
    f = line.split()
    zcol = sorted(f[3].split(",")) if len(f) > 3 else []
    want_z = sorted(str(k["tag"]) for k in src["keys"] if k["flags"] == 256)
    rest = " ".join(f[4:])
    ksk_tags = [str(k["tag"]) for k in src["keys"] if k["flags"] != 256]
    if zcol != want_z or not all(t in rest for t in ksk_tags):
        fail("bundle-table", f"bundle with ZSK tags {want_z} and KSK tags {ksk_tags} (flags {[k['flags'] for k in src['keys'] if k['flags'] != 256]}) is shown as ZSK column {zcol}, KSK column {rest!r}", {"line": line})
        break

# ------------------------------------------------------------------ 3. ksrsigner(): what the operator sees before confirming, and the written SKR
from kskm.tools.ksrsigner import ksrsigner

tok = ceremony.token_with([KS["ksk_current"]])
emu.install(tok)
for trial in range(3 * SCALE):
    ksr_path, skr_path = os.path.join(tmpd, "in.xml"), os.path.join(tmpd, f"out-{trial}.xml")
    cfg = ceremony.make_config({"ksk_current": ceremony.ksk_def(KS["ksk_current"])}, {"normal": {i: {"publish": "ksk_current", "sign": "ksk_current"} for i in range(1, 10)}},
                               request_policy={"rsa_approved_key_sizes": [1024]})
    first, later = (xmlA, [xmlB]) if trial % 2 == 0 else (xmlB, [xmlA])
    # what is at the output path before the run is not part of what is written: nothing, a shorter file, a much longer one
    pre_existing = [None, b"<old/>\n", b"<!-- an earlier, longer SKR -->\n" + b"x" * 200000][trial % 3]
    if pre_existing is not None:
        with open(skr_path, "wb") as f:
            f.write(pre_existing)
    FL.arm(ksr_path, first, later)
    out = io.StringIO()
    try:
        with contextlib.redirect_stdout(out):
            (r, lines) = with_logs(lambda: vlib.run_impl(ksrsigner, logging.getLogger("c17"), ceremony.args_ns(ksr=ksr_path, skr=skr_path, force=True), cfg))
    finally:
        FL.disarm()
    count("ksrsigner-run")
    if r != ("ok", True):
        fail("ksrsigner", f"ceremony did not complete: {r}")
        continue
    shown = re.search(r"SHA-256 HEX:\s+([0-9a-f]{64})", out.getvalue())
    shown_words = re.search(r"SHA-256 WORDS:\s+(.*)", out.getvalue())
    written = open(skr_path, "rb").read()
    rid = re.search(rb'<KSR id="([^"]+)"', written).group(1).decode()
    parsed_version = {"version-A": xmlA, "version-B": xmlB}[rid]
    want = hashlib.sha256(parsed_version).hexdigest()
    if not shown or shown.group(1) != want or ref_decode(shown_words.group(1).split()) != bytes.fromhex(want):
        fail("ksrsigner", "digest/words displayed before confirmation are not those of the KSR that was parsed and signed", {"shown": shown and shown.group(1), "want": want})
    wrote = [HEX.search(l) for l in lines if "Wrote SKR" in l and HEX.search(l)]
    if len(wrote) != 1 or wrote[0].group(1) != hashlib.sha256(written).hexdigest() or ref_decode(wrote[0].group(2).split()) != hashlib.sha256(written).digest():
        fail("ksrsigner", "logged digest of the written SKR is not the digest of the bytes on disk")

# ------------------------------------------------------------------ 3b. the configuration file: the logged digest is that of the file's bytes, whatever their line ends
import yaml as _yaml
from kskm.common.config import get_config
CFG_TEXT = _yaml.safe_dump({"ksk_policy": {"ttl": 172800, "publish_safety": "P10D"}, "request_policy": {"num_bundles": 9},
                            "keys": {"ksk_current": {"description": "a KSK", "label": "Kcur", "algorithm": "RSASHA256", "rsa_size": 2048, "rsa_exponent": 65537,
                                                     "valid_from": "2010-07-15T00:00:00+00:00"}}}, default_flow_style=False)
FORMS = {"lf": CFG_TEXT.encode(), "crlf": CFG_TEXT.replace("\n", "\r\n").encode(), "mixed": CFG_TEXT.replace("\n", "\r\n", 3).encode(),
         "utf8-bom": b"\xef\xbb\xbf" + CFG_TEXT.encode(), "comment-non-ascii": ("# ceremony 53 \u2013 K\u00f8benhavn\n" + CFG_TEXT).encode(),
         "trailing-blank-crlf": CFG_TEXT.encode() + b"\r\n\r\n", "cr-only-comment": b"# one\r# two\r\n" + CFG_TEXT.encode(), "no-final-newline": CFG_TEXT.encode().rstrip(b"\n")}
for form, data in FORMS.items():
    path = os.path.join(tmpd, f"cfg-{form}.yaml")
    with open(path, "wb") as f:
        f.write(data)
    r, lines = with_logs(lambda: vlib.run_impl(get_config, path))
    count("config-file")
    if r[0] != "ok":
        continue            # whether such a file is a valid configuration is C16's business; nothing was shown as loaded
    logged = [HEX.search(l) for l in lines if "Loaded configuration" in l and HEX.search(l)]
    want = hashlib.sha256(data)
    if len(logged) != 1 or logged[0].group(1) != want.hexdigest() or ref_decode(logged[0].group(2).split()) != want.digest():
        fail("config", f"configuration file ({form}, {len(data)} octets): the logged SHA-256/words are not those of the file's bytes",
             {"form": form, "logged": logged[0].group(1) if logged else None, "sha256_of_file": want.hexdigest()})
    if r[1].ksk_policy.ttl != 172800 or r[1].request_policy.num_bundles != 9:
        fail("config", f"configuration file ({form}) was not read as written")

# ------------------------------------------------------------------ 3c. the trust-anchor exporter: the logged digest is that of the bytes now in the named file;
#                     when the file could not be written (missing directory, a directory at the path, a write that fails half way) no digest of it is logged
import argparse as _ap
import builtins as _bi
from kskm.tools.trustanchor import trustanchor as _trustanchor
_ta_cfg = ceremony.make_config({"ksk_current": ceremony.ksk_def(KS["ksk_current"])}, {"normal": {i: {"publish": "ksk_current", "sign": "ksk_current"} for i in range(1, 10)}})
TA_WROTE = re.compile(r"Wrote trust anchor to file (\S+) SHA-256 ([0-9a-f]{64}) WORDS (.*)$")


class _FailingWrite:
    """open() for one path: the file is truncated as usual, the first write stores half of the data and fails with ENOSPC"""
    def __init__(self, path):
        self.path, self.real = str(path), _bi.open

    def __call__(self, name, mode="r", *a, **k):
        fh = self.real(name, mode, *a, **k)
        if str(name) != self.path or "w" not in mode:
            return fh
        real_write = fh.write

        class W:
            def __enter__(s_):
                return s_
            def __exit__(s_, *e):
                fh.close()
                return False
            def write(s_, data):
                real_write(data[: len(data) // 2])
                fh.flush()
                raise OSError(28, "No space left on device")
            def __getattr__(s_, n):
                return getattr(fh, n)
        return W()


for trial, (where, pre) in enumerate([("plain", None), ("plain", b"<old/>\n"), ("plain", b"<!-- longer -->" + b"y" * 50000), ("missing-directory", None), ("path-is-a-directory", None),
                                      ("write-fails-half-way", b"<TrustAnchor>the previous anchor file</TrustAnchor>\n"), ("write-fails-half-way", None)]):
    emu.install(ceremony.token_with([KS["ksk_current"]]))
    tpath = os.path.join(tmpd, f"ta-{trial}.xml")
    if where == "missing-directory":
        tpath = os.path.join(tmpd, f"no-such-dir-{trial}", "ta.xml")
    elif where == "path-is-a-directory":
        os.mkdir(tpath)
    if pre is not None:
        with open(tpath, "wb") as f:
            f.write(pre)
    ns_ = _ap.Namespace(config=None, debug=False, trustanchor=tpath, id=f"anchor-{trial}", hsm=None)
    import kskm.tools.trustanchor as _tam
    if where == "write-fails-half-way":
        _tam.open = _FailingWrite(tpath)
    try:
        with contextlib.redirect_stdout(io.StringIO()):
            (r, lines) = with_logs(lambda: vlib.run_impl(_trustanchor, logging.getLogger("c17.ta"), ns_, _ta_cfg))
    finally:
        if where == "write-fails-half-way":
            del _tam.open
    count("trustanchor-" + where)
    on_disk = open(tpath, "rb").read() if os.path.isfile(tpath) else None
    wrote = [TA_WROTE.search(l) for l in lines if TA_WROTE.search(l)]
    for m_ in wrote:
        if on_disk is None or m_.group(2) != hashlib.sha256(on_disk).hexdigest() or ref_decode(m_.group(3).split()) != hashlib.sha256(on_disk).digest():
            fail("trustanchor", f"{where}: the log says 'Wrote trust anchor to file ... SHA-256 {m_.group(2)[:16]}...' but "
                 + ("there is no such file" if on_disk is None else f"the file holds {len(on_disk)} octets with SHA-256 {hashlib.sha256(on_disk).hexdigest()[:16]}..."),
                 {"where": where, "path": tpath, "result": str(r)[:120]})
    if where == "plain":
        if r != ("ok", True) or len(wrote) != 1 or on_disk is None or b"<TrustAnchor" not in on_disk:
            fail("trustanchor", f"plain export did not complete or logged {len(wrote)} digests: {r}")
    elif r == ("ok", True):
        fail("trustanchor", f"{where}: the exporter reports success although the trust-anchor file could not be written", {"where": where, "path": tpath})

# ------------------------------------------------------------------ 4. stand-alone tool and helper functions print the same values
def blob_with_digest(prefix):
    n = 0
    while True:
        b = f"blob {n}".encode()
        if hashlib.sha256(b).hexdigest().startswith(prefix):
            return b
        n += 1


BLOBS = [blob_with_digest("0"), blob_with_digest("00"), blob_with_digest("000"), blob_with_digest("f")]
for i in range(10 * SCALE + len(BLOBS)):
    data = bytes(R.randrange(256) for _ in range(R.choice([0, 1, 100, 5000]))) if i >= len(BLOBS) else BLOBS[i]
    path = os.path.join(tmpd, "blob.bin")
    with open(path, "wb") as f:
        f.write(data)
    out = io.StringIO()
    with contextlib.redirect_stdout(out):
        tool_words.words(path)
    hexd = re.search(r"SHA-256:\s+([0-9a-f]{64})", out.getvalue()).group(1)
    words = re.search(r"PGP Words:\s+(.*)", out.getvalue()).group(1).split()
    h2, w2 = sha2wordlist(data)
    m3 = HEX.search(checksum_bytes2str(data))
    want = hashlib.sha256(data)
    count("tool")
    if not (hexd == h2 == m3.group(1) == want.hexdigest() and words == w2 == m3.group(2).split() == ref_words(want.digest())):
        fail("tool", "sha2wordlist tool / integrity helpers disagree with SHA-256 + standard words of the file", {"len": len(data)})
import shutil

shutil.rmtree(tmpd, ignore_errors=True)

# ------------------------------------------------------------------ model correspondence for the word encoding
vlib.make(["Checks/C17Check.vo"])
runner = vlib.CaseRun("C17", "words", "From KV Require Import Base.Prelude Model.Data Model.Words Spec.PgpWords Checks.C17Check.", "case", "check", shard=40)
results = runner.run(cases)
vlib.classify(rep, props, meta, results, cases, runner, "Checks.C17Check.check (pgp_wordlist)")
runner.cleanup()
rep.coverage.update({
    "evaluations": sum(hist.values()), "distinct_nontrivial": 512 + len(set(cases)) + hist.get("loader-ksr", 0) + hist.get("loader-skr", 0),
    "exhaustive": True,
    "rule": "all 256 x 2 table entries through pgp_wordlist against the pinned standard list (exhaustive), random digests vs the Coq model and a reference decoder; "
            "load_ksr/load_skr on a file whose content is replaced at every re-open (audit hook), comparing the logged digest/words, Request.xml_hash and the bundle "
            "table with the bytes/objects actually parsed; whole ksrsigner() ceremonies on the emulator (displayed digest vs signed KSR; logged digest vs written SKR); "
            "the stand-alone sha2wordlist tool and the integrity helpers on random files",
    "distribution": hist, "samples": [m["desc"] for m in meta[:3]],
})
rep.assumptions += ["the configuration file is hashed from one read and parsed from a second read of the same descriptor: 'exactly the bytes parsed' holds for it only when the file is not modified in place",
                    "the reference copy of the PGP word list (tools/mk_pgpwords.py) is pinned by the verifier"]
sys.exit(rep.finish())
