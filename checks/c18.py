"""C18 - The exported trust anchor states the true DS of each configured KSK on the token."""
import argparse
import base64
import datetime as dt
import hashlib
import logging
import os
import sys
import uuid
import xml.etree.ElementTree as ET
from xml.sax.saxutils import escape, quoteattr

import vlib
from vlib import txt, z, zlist

ap = argparse.ArgumentParser()
ap.add_argument("--tier")
ap.add_argument("--replay")
args = ap.parse_args()
TIER = vlib.tier(args.tier)
THOROUGH = TIER == "thorough"

vlib.setup_impl_path()
rep = vlib.Report("C18", TIER)
vlib.regen("TrustAnchor", "Hsm", "Wire")
props = vlib.build_props("C18")
rep.add_props(props)

import dns.dnssec
import dns.name
import dns.rdataclass
import dns.rdatatype
from dns.rdtypes.ANY.DNSKEY import DNSKEY

import ceremony
import emu
import ksrxml
import signcases as S
from kgen import us
from kskm.ta.data import KeyDigest
from kskm.tools.trustanchor import trustanchor

UTC = dt.timezone.utc
R = vlib.rng("C18")
P = ksrxml.POOL
EXN = vlib.exn_table()
WORK = vlib.VERIF / "work" / "c18"
WORK.mkdir(parents=True, exist_ok=True)
KEYS = [ksrxml.mk_key(P.rsa(1024, 65537, 150), alg=8, flags=257, ident="Kalpha"),
        ksrxml.mk_key(P.rsa(2048, 65537, 150), alg=8, flags=257, ident="Kbeta"),
        ksrxml.mk_key(P.rsa(1024, 3, 150), alg=10, flags=257, ident="Kgamma"),
        ksrxml.mk_key(P.ec(256, 150), alg=13, flags=257, ident="Kdelta"),
        ksrxml.mk_key(P.ec(384, 150), alg=14, flags=257, ident="Kepsilo"),
        ksrxml.mk_key(P.rsa(1024, 65537, 151), alg=8, flags=257, ident="Kextra1"),
        ksrxml.mk_key(P.ec(256, 151), alg=13, flags=257, ident="Kextra2"),
        ksrxml.mk_key(P.ec_tag_carry(13, 257), alg=13, flags=257, ident="Kcarry"),        # (sum & 0xFFFF) + (sum >> 16) overflows 16 bits
        ksrxml.mk_key(P.ec_revoke_carry(13), alg=13, flags=257, ident="Kffxx"),
        ksrxml.mk_key(P.ec_x_first(13, 4), alg=13, flags=257, ident="Kx04a"), ksrxml.mk_key(P.ec_x_first(14, 4), alg=14, flags=257, ident="Kx04b")]
P.save()
cases, meta, hist = [], [], {}
log = logging.getLogger("verif.c18")


def count(k):
    hist[k] = hist.get(k, 0) + 1


def cps(s: str) -> str:
    return "[" + ";".join(str(ord(c)) for c in s) + "]"


def independent_ds(kd, alg):
    """(key tag, upper-case SHA-256 DS digest) of the DNSKEY (257, 3, alg, key) at the root, by dnspython"""
    rd = DNSKEY(dns.rdataclass.IN, dns.rdatatype.DNSKEY, 257, 3, alg, kd["pub"])
    ds = dns.dnssec.make_ds(dns.name.root, rd, "SHA256")
    return dns.dnssec.key_id(rd), ds.digest.hex().upper()


def fits(kd, alg):
    if alg in (13, 14):
        return kd["alg"] in (13, 14) and len(kd["pub"]) == {13: 64, 14: 96}[alg]
    return True


EXPORTS = [0]
PREVIOUS_ANCHOR = ('<?xml version="1.0" encoding="UTF-8"?>\n<TrustAnchor id="previous-export" source="http://data.iana.org/root-anchors/root-anchors.xml">\n<Zone>.</Zone>\n'
                   + "".join(f'<KeyDigest id="Kold{i}" validFrom="2010-07-15T00:00:00+00:00">\n<KeyTag>{1000 + i}</KeyTag>\n<Algorithm>8</Algorithm>\n<DigestType>2</DigestType>\n'
                             f'<Digest>{"%064X" % (i * 7919)}</Digest>\n</KeyDigest>\n' for i in range(12)) + "</TrustAnchor>\n").encode()


def export_case(modules, ksks, keys_by_label, ident, kind, ttl=172800, configured_path=None):
    """modules: signcases layout; ksks: {name: config dict}; keys_by_label: label -> key dict for the reference"""
    tok = S.build_token(modules)
    emu.install(tok)
    hsm = {f"m{mi}": {"module": f"emu:{mi}", "pin": "1234"} for mi in range(len(modules))}
    first = next(iter(ksks), None)
    schemas = {"s": {i: {"publish": first, "sign": first} for i in range(1, 10)}} if first else {}
    try:
        cfg = ceremony.make_config(ksks, schemas, hsm=hsm, ksk_policy={"publish_safety": "P10D", "retire_safety": "P10D", "max_signature_validity": "P21D",
                                                                     "min_signature_validity": "P21D", "max_validity_overlap": "P16D", "min_validity_overlap": "P9D", "ttl": ttl},
                                   filenames=({"output_trustanchor": str(configured_path)} if configured_path else None))
    except Exception as e:  # noqa: BLE001
        count(kind + "-config-rejected:" + type(e).__name__)
        return
    out = WORK / "ta.xml"
    # the anchor file is published at one path, run after run: what an earlier export left there (here: a longer document with more keys) is replaced, not patched
    EXPORTS[0] += 1
    if out.exists():
        out.unlink()
    if EXPORTS[0] % 2 == 0:
        out.write_bytes(PREVIOUS_ANCHOR)
    ns = argparse.Namespace(hsm=None, id=ident, trustanchor=str(out), config=None, debug=False)
    r = vlib.run_impl(trustanchor, log, ns, cfg)
    probs = []
    doc = None
    if r[0] == "ok":
        if not out.exists():
            probs.append("no file written although the exporter reported success")
        else:
            raw = out.read_bytes()
            try:
                doc = raw.decode("utf-8")
            except UnicodeDecodeError:
                probs.append("document is not UTF-8")
    # ---- independent expectation (property text): which KSKs are present, what each entry must state
    expected, lookup_trouble = [], False
    for name, d in ksks.items():
        ref = S.ref_lookup(modules, d["label"], "pub")
        if ref[0] == "dup":
            lookup_trouble = True
            continue
        if ref[0] != "found":
            continue
        rp = S.ref_pubkey(ref[4])
        if rp[0] != "ok":
            lookup_trouble = True
            continue
        if rp[1] is None:
            continue
        kd = ref[4]["key"]
        alg = S.specs.ALGNUM[d["algorithm"]]
        if not fits(kd, alg):
            lookup_trouble = True          # the token key cannot be a DNSKEY of the configured algorithm: no document is the safe outcome
            continue
        tag, dig = independent_ds(kd, alg)
        vf = d["valid_from"].astimezone(UTC).replace(microsecond=0)
        vu = d.get("valid_until")
        vu = vu.astimezone(UTC).replace(microsecond=0) if vu is not None else None
        expected.append((d["label"], vf, vu, tag, alg, 2, dig))
    if doc is not None:
        try:
            root = ET.fromstring(doc.encode("utf-8"))
        except ET.ParseError as e:
            root = None
            probs.append(f"document is not well-formed XML: {e}")
        if root is not None:
            if root.tag != "TrustAnchor":
                probs.append(f"root element {root.tag}")
            if ident and root.attrib.get("id") != ident:
                probs.append(f"TrustAnchor id {root.attrib.get('id')!r}, given {ident!r}")
            if not ident:          # no identifier given (an empty --id counts as none): a UUID is generated
                try:
                    uuid.UUID(root.attrib.get("id", ""))
                except ValueError:
                    probs.append(f"generated TrustAnchor id {root.attrib.get('id')!r} is not a UUID")
            if [c.tag for c in root][:1] != ["Zone"] or root.find("Zone").text != ".":
                probs.append("Zone is not '.'")
            got = []
            for k in root.findall("KeyDigest"):
                try:
                    vf = dt.datetime.fromisoformat(k.attrib["validFrom"])
                    vu = dt.datetime.fromisoformat(k.attrib["validUntil"]) if "validUntil" in k.attrib else None
                    got.append((k.attrib["id"], vf, vu, int(k.find("KeyTag").text), int(k.find("Algorithm").text), int(k.find("DigestType").text), k.find("Digest").text))
                except Exception as e:  # noqa: BLE001
                    probs.append(f"KeyDigest not readable: {type(e).__name__} {e}")
            if [c.tag for c in root] != ["Zone"] + ["KeyDigest"] * len(got):
                probs.append(f"unexpected children {[c.tag for c in root]}")
            key = lambda e: (e[0], e[1], e[2] or dt.datetime.min.replace(tzinfo=UTC), e[3], e[4], e[5], e[6])
            if sorted(set(got), key=key) != sorted(set(expected), key=key) or len(got) != len(set(got)):
                missing = [e[0] for e in set(expected) - set(got)]
                extra = [e[0] for e in set(got) - set(expected)]
                probs.append(f"exported entries differ from the configured KSKs present on the token: missing or wrong {missing}, unexpected {extra}"
                             + (f"; e.g. stated {[g for g in got if g[0] in missing][:1]}, true {[e for e in expected if e[0] in missing][:1]}" if missing else ""))
            if any(a[1] > b[1] for a, b in zip(got, got[1:])):
                probs.append(f"entries not ordered by validFrom: {[g[1].isoformat() for g in got]}")
    elif r[0] != "ok" and not lookup_trouble:
        probs.append(f"exporter raised {r[2]} although every configured key is absent or cleanly present")
    # ---- model case
    pubs = {}
    for slots in modules:
        for s in slots:
            for o in s["objs"]:
                if o["key"] is not None:
                    pubs[o["key"]["pub"]] = o["key"]
    algs = sorted({S.specs.ALGNUM[d["algorithm"]] for d in ksks.values()})
    bl = S.Blobs()
    drows = []
    for pub in pubs:
        for a in algs:
            pre = b"\x00" + ksrxml.rdata(257, 3, a, pub)
            drows.append(f"({bl.add(pre)}, {txt(hashlib.sha256(pre).hexdigest().upper())})")
    oracles = f"(mkOracles {bl.coq()} [] [] [] [{';'.join(drows)}])"
    kks = "[" + ";".join(f"({txt(n)}, {S.coq_ksk(d)})" for n, d in ksks.items()) + "]"
    if r[0] == "ok" and doc is not None:
        mid = ident
        if not mid:
            try:
                mid = ET.fromstring(doc.encode()).attrib.get("id", "")
            except ET.ParseError:
                mid = ""
        impl = f"(OK {cps(doc)})"
    else:
        mid = ident or ""
        impl = f"(Raise {r[1] if r[0] != 'ok' else EXN['OtherError']})"
    cases.append(f"CExport {S.coq_modules(modules)} {z(ttl)} {kks} {oracles} {cps(mid)} {impl}")
    meta.append({"kind": kind, "desc": {"token": [[(s["id"], s.get("login_ok", True), [(o["label"], o["cls"]) for o in s["objs"]]) for s in m] for m in modules],
                                        "ksks": {n: (d["label"], d["algorithm"], d["valid_from"].isoformat(), d["valid_until"].isoformat() if d.get("valid_until") else None)
                                                 for n, d in ksks.items()},
                                        "id": ident, "impl": "document" if doc is not None else r[2] if r[0] != "ok" else "none", "expected_entries": [e[0] for e in expected]},
                 "spec_ok": not probs, "spec_msg": "; ".join(probs[:4]), "key": None})
    count(kind)


TZS = [UTC, dt.timezone(dt.timedelta(hours=-8)), dt.timezone(dt.timedelta(hours=5, minutes=30)), dt.timezone(dt.timedelta(hours=14)), dt.timezone(dt.timedelta(hours=-11))]


def stamp(kind=None):
    kind = kind or R.choice(["midnight", "odd", "tz", "micro", "old", "far"])
    if kind == "midnight":
        return dt.datetime(R.randrange(2010, 2040), R.randrange(1, 13), R.randrange(1, 29), tzinfo=UTC)
    if kind == "odd":
        return dt.datetime(R.randrange(2010, 2040), R.randrange(1, 13), R.randrange(1, 29), R.randrange(24), R.randrange(60), R.randrange(60), tzinfo=UTC)
    if kind == "tz":
        return dt.datetime(R.randrange(2010, 2040), R.randrange(1, 13), R.randrange(1, 29), R.randrange(24), R.randrange(60), R.randrange(60), tzinfo=R.choice(TZS[1:]))
    if kind == "micro":
        return dt.datetime(R.randrange(2010, 2040), R.randrange(1, 13), R.randrange(1, 29), 23, 59, 59, R.randrange(1, 10**6), tzinfo=R.choice(TZS))
    if kind == "old":
        return dt.datetime(R.randrange(1000, 1971), R.choice([1, 2, 3, 12]), R.choice([1, 28, 29 if False else 28, 31 if False else 27]), R.randrange(24), 0, 1, tzinfo=UTC)
    return dt.datetime(R.randrange(2100, 9999), R.choice([2, 3, 12]), R.choice([1, 28]), 12, 0, 0, tzinfo=R.choice(TZS))


IDS = ["root-anchors-2026", str(uuid.UUID(int=R.getrandbits(128))), "a\"b", "it's", "both \" and '", "<KeyDigest id=\"x\">", "a&b;&amp;", "tab\there", "line\nbreak", "cr\rx",
       "åäö ☃", "", " ", "]]>", None]


def token_for(present, extra=(), split=False, second_module=False):
    """present: key dicts whose public/private pair is on the token"""
    objs = []
    for kd in present:
        objs += S.pair(kd["id"], kd, ec_wrapped=R.random() < 0.7)
    for kd in extra:
        objs += S.pair(kd["id"], kd)
    R.shuffle(objs)
    if split and len(objs) > 2:
        h = len(objs) // 2
        mods = [[{"id": 0, "objs": objs[:h]}, {"id": 1, "objs": objs[h:]}]]
    else:
        mods = [[{"id": 0, "objs": objs}]]
    if second_module:
        # several hsm: sections: an empty module after or before the one with the keys, or the configured keys spread over two modules
        # (a KSK held only by a later module is still exported: get_p11_key asks every module in turn)
        mode = R.choice(["empty-last", "empty-first", "spread", "spread"])
        if mode == "empty-last":
            mods.append([{"id": 10, "objs": []}])
        elif mode == "empty-first":
            mods.insert(0, [{"id": 10, "objs": []}])
        else:
            labels = sorted({o["label"] for o in objs})
            R.shuffle(labels)
            later = set(labels[: max(1, len(labels) // 2)]) if labels else set()
            mods = [[{"id": 0, "objs": [o for o in objs if o["label"] not in later]}], [{"id": 10, "objs": [o for o in objs if o["label"] in later]}]]
    return mods


CONF = KEYS[:5]
# systematic: every present/absent pattern of 0..4 configured KSKs (quick: a sample), extra unconfigured keys
import itertools
patterns = []
for n in range(0, 5):
    for chosen in itertools.combinations(range(5), n):
        for pres in itertools.product([True, False], repeat=n):
            patterns.append((chosen, pres))
R.shuffle(patterns)
for chosen, pres in (patterns if THOROUGH else patterns[:40]):
    conf = [CONF[i] for i in chosen]
    R.shuffle(conf)
    ksks = {}
    for j, kd in enumerate(conf):
        vf = stamp()
        vu = None if R.random() < 0.5 else vf + dt.timedelta(days=R.randrange(1, 4000), seconds=R.randrange(0, 86400))
        ksks[f"ksk{j}"] = ceremony.ksk_def(kd, valid_from=vf, valid_until=vu)
    present = [kd for kd, p in zip([CONF[i] for i in chosen], pres) if p]
    extra = [k for k in KEYS[5:7] if R.random() < 0.6]
    export_case(token_for(present, extra, split=R.random() < 0.3, second_module=R.random() < 0.35), ksks, None, R.choice(IDS), "present-absent")
# absent before present (configuration order), all absent, none configured
ks = {"a": ceremony.ksk_def(KEYS[0], valid_from=stamp("odd")), "b": ceremony.ksk_def(KEYS[1], valid_from=stamp("odd")), "c": ceremony.ksk_def(KEYS[3], valid_from=stamp("tz")),
      "d": ceremony.ksk_def(KEYS[4], valid_from=stamp("tz"))}
export_case(token_for([KEYS[1], KEYS[3], KEYS[4]], [KEYS[5]]), ks, None, "order-1", "absent-before-present")
export_case(token_for([KEYS[0], KEYS[4]], [KEYS[6]]), ks, None, "order-2", "absent-before-present")
export_case(token_for([], KEYS[5:7]), ks, None, "none", "all-absent")
# every configured KSK on the token, the token being two modules (three draws of which module holds which key)
for variant in range(3):
    export_case(token_for([KEYS[0], KEYS[1], KEYS[3], KEYS[4]], [KEYS[5]], second_module=True), ks, None, f"modules-{variant}", "keys-spread-over-modules")
# equal validFrom, descending configuration order, validity given with offsets that change the order of the wall-clock digits
t0 = dt.datetime(2024, 10, 10, 17, 0, 0, tzinfo=dt.timezone(dt.timedelta(hours=-8)))
for variant in range(4):
    ks = {"a": ceremony.ksk_def(KEYS[0], valid_from=t0, valid_until=t0 + dt.timedelta(days=365)),
          "b": ceremony.ksk_def(KEYS[1], valid_from=t0.astimezone(UTC) if variant % 2 else t0),
          "c": ceremony.ksk_def(KEYS[3], valid_from=dt.datetime(2024, 10, 10, 20, 0, 0, tzinfo=UTC)),           # earlier instant, later digits
          "d": ceremony.ksk_def(KEYS[4], valid_from=dt.datetime(2024, 10, 11, 3, 0, 0, tzinfo=dt.timezone(dt.timedelta(hours=14))))}
    items = list(ks.items())
    R.shuffle(items)
    export_case(token_for(KEYS[:5]), dict(items), None, f"equal-{variant}", "equal-and-offset-validity")
# identifiers
for ident in IDS:
    ks = {"a": ceremony.ksk_def(KEYS[0], valid_from=stamp("midnight")), "b": ceremony.ksk_def(KEYS[3], valid_from=stamp("tz"), valid_until=stamp("far"))}
    export_case(token_for([KEYS[0], KEYS[3]]), ks, None, ident, "identifier")
# two configured names for one label (identical and differing validity), label found only as private object, duplicate label on the token, algorithm that does not fit
ks = {"a": ceremony.ksk_def(KEYS[0], valid_from=t0), "a2": ceremony.ksk_def(KEYS[0], valid_from=t0)}
export_case(token_for([KEYS[0]]), ks, None, "same", "same-label-twice")
ks = {"a": ceremony.ksk_def(KEYS[0], valid_from=t0), "a2": ceremony.ksk_def(KEYS[0], valid_from=t0 + dt.timedelta(days=1))}
export_case(token_for([KEYS[0]]), ks, None, "same2", "same-label-twice")
ks = {"a": ceremony.ksk_def(KEYS[0], valid_from=t0), "b": ceremony.ksk_def(KEYS[1], valid_from=t0)}
export_case([[{"id": 0, "objs": [S.obj("Kalpha", "priv", KEYS[0])] + S.pair("Kbeta", KEYS[1])}]], ks, None, "privonly", "private-only")
export_case([[{"id": 0, "objs": S.pair("Kalpha", KEYS[0]) + S.pair("Kalpha", KEYS[5]) + S.pair("Kbeta", KEYS[1])}]], ks, None, "dup", "duplicate-label")
export_case([[{"id": 0, "login_ok": False, "objs": S.pair("Kalpha", KEYS[0])}, {"id": 1, "objs": S.pair("Kbeta", KEYS[1])}]], ks, None, "nologin", "slot-without-session")
ks = {"a": ceremony.ksk_def(KEYS[4], valid_from=t0, label="Kdelta")}
export_case(token_for([KEYS[3]]), ks, None, "misfit", "algorithm-misfit")
ks = {"a": ceremony.ksk_def(KEYS[2], valid_from=t0, algorithm="RSASHA256", label="Kgamma")}
export_case(token_for([KEYS[2]]), ks, None, "alg8-for-10", "configured-algorithm-decides")
ks = {"a": ceremony.ksk_def(KEYS[7], valid_from=t0), "b": ceremony.ksk_def(KEYS[8], valid_from=t0 + dt.timedelta(days=1)), "c": ceremony.ksk_def(KEYS[0], valid_from=t0)}
export_case(token_for([KEYS[7], KEYS[8], KEYS[0]]), ks, None, "carry", "key-tag-carry")
ks = {"a": ceremony.ksk_def(KEYS[9], valid_from=t0), "b": ceremony.ksk_def(KEYS[10], valid_from=t0 + dt.timedelta(days=2))}
for wrapped in (True, False):
    export_case([[{"id": 0, "objs": S.pair(KEYS[9]["id"], KEYS[9], ec_wrapped=wrapped) + S.pair(KEYS[10]["id"], KEYS[10], ec_wrapped=wrapped)}]], ks, None, "x04", "ec-x-starts-with-04")
# two configured KSKs of one algorithm that share their 16-bit key tag: each entry still states its own key's digest (in one export and in the next)
_twa, _twb = P.ec_tag_collision(13, 257)
TW = [ksrxml.mk_key(_twa, alg=13, flags=257, ident="Ktwin1"), ksrxml.mk_key(_twb, alg=13, flags=257, ident="Ktwin2")]
P.save()
ks = {"a": ceremony.ksk_def(TW[0], valid_from=t0), "b": ceremony.ksk_def(TW[1], valid_from=t0 + dt.timedelta(days=3))}
export_case(token_for(TW), ks, None, "twins", "equal-key-tags")
export_case(token_for([TW[1]]), {"b": ceremony.ksk_def(TW[1], valid_from=t0)}, None, "twin-b", "equal-key-tags")
export_case(token_for([TW[0]]), {"a": ceremony.ksk_def(TW[0], valid_from=t0)}, None, "twin-a", "equal-key-tags")
# KSKs whose DS digest begins with a zero hexadecimal digit, and with a zero octet: the digest is 32 octets, 64 digits, whatever its value
for nz_ in (1, 2):
    for alg_ in (13, 14):
        kz_ = ksrxml.mk_key(P.ec_ds_prefix(alg_, 257, nz_), alg=alg_, flags=257, ident=f"Kds0{nz_}a{alg_}")
        export_case(token_for([kz_, KEYS[0]]), {"z": ceremony.ksk_def(kz_, valid_from=t0), "a": ceremony.ksk_def(KEYS[0], valid_from=t0 + dt.timedelta(days=1))}, None, f"ds0{nz_}", "digest-with-leading-zeros")
P.save()
# --trustanchor on the command line names the file of this export, whatever the configuration file also names
for j_ in range(2):
    other_ = WORK / f"configured-anchor-{j_}.xml"
    other_.write_bytes(b"<old/>")
    export_case(token_for([KEYS[0], KEYS[1]]), {"a": ceremony.ksk_def(KEYS[0], valid_from=t0), "b": ceremony.ksk_def(KEYS[1], valid_from=t0 + dt.timedelta(days=1))}, None, f"cmdline-{j_}",
                "command-line-path-wins", configured_path=other_)
# RSA public exponents of every length form of RFC 3110 (one length octet up to 255 octets, three beyond): public objects given by their raw attributes
import PyKCS11.LowLevel as _LL
for elen in (1, 3, 4, 254, 255, 256, 257):
    n_ = int.from_bytes(b"\xc1" + bytes(R.randrange(256) for _ in range(126)) + b"\x0b", "big")
    e_ = int.from_bytes(bytes([R.randrange(1, 256)]) + bytes(R.randrange(256) for _ in range(elen - 2)) + b"\x01", "big") if elen > 1 else 3
    eb, nb_ = e_.to_bytes(elen, "big"), n_.to_bytes(128, "big")
    pubf = (bytes([elen]) if elen <= 255 else b"\0" + elen.to_bytes(2, "big")) + eb + nb_
    kd = {"id": f"Kexp{elen}", "alg": 8, "flags": 257, "pub": pubf, "priv": None, "ttl": 172800}
    kd["tag"] = ksrxml.keytag(ksrxml.rdata(257, 3, 8, pubf))
    po = S.obj(kd["id"], "pub", kd, ktype=_LL.CKK_RSA, extra={_LL.CKA_MODULUS: tuple(nb_), _LL.CKA_PUBLIC_EXPONENT: tuple(eb)})
    ks = {"a": {"description": "KSK with a long exponent", "label": kd["id"], "algorithm": "RSASHA256", "valid_from": t0, "rsa_size": 1024, "rsa_exponent": e_}}
    export_case([[{"id": 0, "objs": [po]}]], ks, None, f"exp{elen}", "rsa-exponent-length")
for ttl in (0, 3600, 2**31 - 1):
    export_case(token_for([KEYS[0]]), {"a": ceremony.ksk_def(KEYS[0], valid_from=t0)}, None, "ttl", "ttl", ttl=ttl)

# ------------------------------------------------------------------ free-text writers against the library, timestamps against strftime
ALPHA = ["a", "Z", "0", " ", "&", "<", ">", '"', "'", "\n", "\r", "\t", ";", "#", "é", "☃", "]", "=", "/"]
strings = ["", "&amp;", "&lt;", "\"'", "'\"'", "a\"b'c<d>e&f", "&#10;", "&quot;"] + ["".join(R.choice(ALPHA) for _ in range(R.randrange(0, 12))) for _ in range(80 if not THOROUGH else 600)]
for s_ in strings:
    cases.append(f"CEscape {cps(s_)} {cps(escape(s_))} {cps(quoteattr(s_))}")
    probs = []
    try:
        el = ET.fromstring(f"<a b={quoteattr(s_)}>{escape(s_)}</a>")
        # XML attribute-value normalisation and end-of-line handling are the parser's; \r in content becomes \n (XML 1.0 2.11)
        if el.attrib["b"] != s_ or (el.text or "") != s_.replace("\r\n", "\n").replace("\r", "\n"):
            probs.append(f"a standard parser reads {el.attrib['b']!r} / {el.text!r} back from {s_!r}")
    except ET.ParseError as e:
        probs.append(f"not well-formed for {s_!r}: {e}")
    meta.append({"kind": "escape", "desc": {"s": s_}, "spec_ok": not probs, "spec_msg": "; ".join(probs), "key": None})
    count("escape")
stamps = [dt.datetime(1000, 1, 1, tzinfo=UTC), dt.datetime(9999, 12, 31, 23, 59, 59, 999999, tzinfo=UTC), dt.datetime(1970, 1, 1, tzinfo=UTC),
          dt.datetime(1969, 12, 31, 23, 59, 59, 999999, tzinfo=UTC), dt.datetime(2000, 2, 29, 12, tzinfo=UTC), dt.datetime(2100, 2, 28, 23, 59, 59, tzinfo=UTC),
          dt.datetime(2100, 3, 1, tzinfo=UTC), dt.datetime(2400, 2, 29, tzinfo=UTC), dt.datetime(1900, 3, 1, tzinfo=UTC), dt.datetime(1600, 12, 31, tzinfo=UTC)]
stamps += [stamp() for _ in range(150 if not THOROUGH else 1500)]
for t in stamps:
    out = KeyDigest.format_datetime(t)
    probs = []
    try:
        back = dt.datetime.fromisoformat(out)
        if back != t.astimezone(UTC).replace(microsecond=0):
            probs.append(f"{t.isoformat()} rendered as {out}")
    except ValueError:
        probs.append(f"{t.isoformat()} rendered as unreadable {out!r}")
    cases.append(f"CFormat {z(us(t))} {cps(out)}")
    meta.append({"kind": "timestamp", "desc": {"t": t.isoformat(), "out": out}, "spec_ok": not probs, "spec_msg": "; ".join(probs), "key": None})
    count("timestamp")

ok_build, blog = vlib.make(["Checks/C18Check.vo"])
runner = vlib.CaseRun("C18", "main", "From KV Require Import Base.Prelude Base.Exn Model.Data Model.Token Model.Sign Model.TrustAnchor Checks.SignCheck Checks.C18Check.",
                      "case", "check", shard=40)
results = runner.run(cases) if ok_build else [-1] * len(cases)
vlib.classify(rep, props, meta, results, cases, runner, "Checks.C18Check.check (trustanchor export / escape+quoteattr / format_datetime)")
runner.cleanup()
rep.coverage.update({
    "evaluations": len(cases), "distinct_nontrivial": len(set(cases)),
    "rule": "the real tools.trustanchor.trustanchor() on the token emulator, file output parsed with ElementTree and compared with DS/key tag computed by dnspython: "
            "present/absent patterns of 0..4 configured KSKs (RSA 1024/2048 e=65537 and e=3, P-256, P-384) with unconfigured extra token keys, keys split over slots, "
            "second module, absent-before-present configuration orders, validity with/without validUntil, non-midnight, microseconds, UTC offsets -11h..+14h whose "
            "wall-clock order differs from their instant order, equal validFrom, years 1000..9999; 15 identifiers incl. quotes, markup, control characters, "
            "non-ASCII and none (generated UUID); one label configured twice; private-only label; duplicate label; slot without session; algorithm that does not fit; "
            "whole document compared with the model's rendering (any validFrom-sorted order of equal entries accepted); escape/quoteattr vs xml.sax.saxutils and "
            "format_datetime vs strftime on separate streams",
    "distribution": hist, "samples": [dict(kind=m["kind"], **{k: str(v)[:300] for k, v in m["desc"].items()}) for m in meta[:: max(1, len(meta) // 6)]][:6],
})
rep.assumptions += ["SHA-256 is a parameter (ds_hex); the harness supplies hashlib values for the preimages the model asks for",
                    "public key derivation from token attributes is C15's subject: o_pubkey of each object is supplied by the reference derivation",
                    "a token key that cannot be a DNSKEY of the configured algorithm, a duplicate label in a slot, or an underivable public key end the export with an "
                    "exception and no document; these runs are compared with the model only",
                    "document-level well-formedness is established per run with ElementTree (a test); the theorems cover the free-text fields, the timestamps and the entry list"]
sys.exit(rep.finish())
