"""C19 - Key generation, deletion and inventory never clobber, guess or misreport keys."""
import argparse
import base64
import builtins
import hashlib
import itertools
import logging
import sys

import vlib
from vlib import coq_bool, coq_opt, txt, z, zlist

ap = argparse.ArgumentParser()
ap.add_argument("--tier")
ap.add_argument("--replay")
args = ap.parse_args()
TIER = vlib.tier(args.tier)
THOROUGH = TIER == "thorough"

vlib.setup_impl_path()
rep = vlib.Report("C19", TIER)
vlib.regen("Keymaster", "Hsm")
props = vlib.build_props("C19")
rep.add_props(props)

import PyKCS11.LowLevel as LL

import ceremony
import emu
import ksrxml
import signcases as S
from kgen import handle

import kskm.keymaster.keygen as kg_mod
import kskm.tools.keymaster as tool
from kskm.keymaster.delete import key_delete
from kskm.keymaster.inventory import key_inventory
from kskm.misc.hsm import init_pkcs11_modules

R = vlib.rng("C19")
P = ksrxml.POOL
EXN = vlib.exn_table()
CLSNUM = {LL.CKO_PUBLIC_KEY: 2, LL.CKO_PRIVATE_KEY: 3, LL.CKO_SECRET_KEY: 4}
LABELS = ["KA", "KB", "Kc12345"]
PRE = [ksrxml.mk_key(P.rsa(1024, 65537, 140 + i), alg=8, flags=257, ident=LABELS[i % 3]) for i in range(4)]
NEW = {2048: [P.rsa(2048, 65537, 140 + i) for i in range(5)], 3072: [P.rsa(3072, 65537, 140 + i) for i in range(2)]}
EC = [ksrxml.mk_key(P.ec(256, 141), alg=13, flags=257, ident="KE"), ksrxml.mk_key(P.ec(384, 141), alg=14, flags=257, ident="KF")]
P.save()
cases, meta, hist = [], [], {}


def count(k, n=1):
    hist[k] = hist.get(k, 0) + n


class _NoSleep:
    """generate_key_from_templates sleeps four seconds after refusing an existing label; the harness does not wait"""
    def __getattr__(self, n):
        import time as _t
        if n == "sleep":
            return lambda s: None
        return getattr(_t, n)


kg_mod.time = _NoSleep()
logging.getLogger("kskm").addHandler(logging.NullHandler())
logging.getLogger("kskm").propagate = False


class ListHandler(logging.Handler):
    def __init__(self):
        super().__init__(logging.DEBUG)
        self.lines = []

    def emit(self, record):
        self.lines.append(record.getMessage())


def tags_of(priv, alg=8):
    pub = ksrxml.pub_bytes(priv)
    r1, r2 = ksrxml.rdata(257, 3, alg, pub), ksrxml.rdata(385, 3, alg, pub)
    return ksrxml.keytag(r1), ksrxml.keytag(r2), hashlib.sha256(b"\x00" + r1).hexdigest().upper()


def snap(tok):
    """observable store: per module, per slot, (class, label, key identity, bits) in token order"""
    out = []
    for mname, slots in tok.modules.items():
        out.append([(s.slot_id, s.login_ok, [(o.cls, o.label, id(o.key) if o.key is not None else None, id(o)) for o in s.objects]) for s in slots])
    return out


def coq_snap(sn) -> str:
    return "[" + ";".join("[" + ";".join(f"({sid}, [{';'.join(f'({CLSNUM[c]}, {txt(l)})' for c, l, _, _ in objs)}])" for sid, _, objs in m) + "]" for m in sn) + "]"


def visible(sn):
    return [(mi, sid, o) for mi, m in enumerate(sn) for sid, ok, objs in m if ok for o in objs]


def everything(sn):
    return [(mi, sid, o) for mi, m in enumerate(sn) for sid, ok, objs in m for o in objs]


def res_bool(r):
    if r[0] == "ok":
        return f"(OK {coq_bool(bool(r[1]))})"
    return f"(Raise {r[1]})"


# ------------------------------------------------------------------ inventory: parsing the listing, expectation, model literal
def parse_inventory(lines):
    """-> [[{slot, pairs: [(label, id, status)], PUBLIC: [(label,id)], PRIVATE: [...], SECRET: [...]}]] per module"""
    mods, cur, sect, probs = [], None, None, []
    flat = []
    for el in lines:
        flat.append(el)
    i = 0
    while i < len(flat):
        el = flat[i]
        if el.startswith("HSM "):
            mods.append([])
        elif el.startswith("  Slot ") and el.endswith(":"):
            cur = {"slot": int(el[7:-1]), "pairs": [], "PUBLIC": [], "PRIVATE": [], "SECRET": []}
            mods[-1].append(cur)
        elif el == "    Signing key pairs:":
            sect = "pairs"
        elif el.startswith("    ") and el.endswith(" keys:") and not el.startswith("     "):
            sect = el.strip()[:-6]
            if sect not in ("PUBLIC", "PRIVATE", "SECRET"):
                probs.append(f"unknown section {el!r}")
        elif el.startswith("      ") and not el.startswith("       ") and sect == "pairs" and " -- " in el:
            label = el[6:].split(" -- ")[0].rstrip()
            info = el.split(" -- ", 1)[1]
            status = 0 if info.startswith("Matching KSK not found") else 2 if info.startswith("BAD KSK") else 1 if info.startswith("KSK '") else -1
            nxt = flat[i + 1] if i + 1 < len(flat) else ""
            kid = None
            if nxt.startswith(" " * 17 + "id=0x"):
                kid = bytes.fromhex(nxt[17 + 5:].split(" ")[0].split("\n")[0])
            cur["pairs"].append((label, kid, status))
        elif el.startswith("      ") and not el.startswith("       ") and sect in ("PUBLIC", "PRIVATE", "SECRET"):
            body = el[6:]
            label, _, rest = body.partition(" ")
            rest = rest.strip()
            label = body[:7].rstrip() if len(body) >= 7 else body.rstrip()
            rest = body[7:].strip()
            kid = bytes.fromhex(rest[5:]) if rest.startswith("id=0x") else None
            cur[sect].append((label, kid))
        elif el.startswith(" " * 17):
            pass
        else:
            probs.append(f"unparsed inventory line {el!r}")
        i += 1
    return mods, probs


def ref_pub(o: emu.Obj):
    """reference for _p11_object_to_public_key on a public object of the emulator: ('ok', bytes|None) | ('exc', code)"""
    from cryptography.hazmat.primitives.asymmetric import ec, rsa
    if o.key_type == LL.CKK_RSA and isinstance(o.key, rsa.RSAPrivateKey):
        return ("ok", ksrxml.pub_bytes(o.key))
    if o.key_type == LL.CKK_EC and isinstance(o.key, ec.EllipticCurvePrivateKey):
        if o.extra.get(LL.CKA_EC_POINT, 1) == ():
            return ("ok", None)
        return ("ok", ksrxml.pub_bytes(o.key))
    return ("exc", EXN["NotImplementedError"])


def coq_invstore(tok) -> str:
    ms = []
    for slots in tok.modules.values():
        ss = []
        for s in slots:
            objs = []
            for o in s.objects:
                if o.cls not in CLSNUM:
                    continue
                kid = "None" if not o.cka_id else f"(Some {zlist(o.cka_id)})"
                if o.cls == LL.CKO_PUBLIC_KEY:
                    rp = ref_pub(o)
                    if rp[0] == "ok" and rp[1] is not None:
                        pk, raw = f"(OK (Some {handle(base64.b64encode(rp[1]))}))", zlist(rp[1])
                    elif rp[0] == "ok":
                        pk, raw = "(OK None)", "[]"
                    else:
                        pk, raw = f"(Raise {rp[1]})", "[]"
                else:
                    pk, raw = "(OK None)", "[]"
                objs.append(f"(mkInvObj {CLSNUM[o.cls]} {txt(o.label)} {kid} {pk} {raw})")
            ss.append(f"({s.slot_id}, {coq_bool(s.login_ok)}, [{';'.join(objs)}])")
        ms.append("[" + ";".join(ss) + "]")
    return "[" + ";".join(ms) + "]"


def d_rows(tok, ksks):
    bl = S.Blobs()
    rows = []
    algs = sorted({S.specs.ALGNUM[d["algorithm"]] for d in ksks.values()})
    seen = set()
    for slots in tok.modules.values():
        for s in slots:
            for o in s.objects:
                if o.cls != LL.CKO_PUBLIC_KEY or o.key is None:
                    continue
                pub = ksrxml.pub_bytes(o.key)
                for a in algs:
                    if (pub, a) in seen:
                        continue
                    seen.add((pub, a))
                    pre = b"\x00" + ksrxml.rdata(257, 3, a, pub)
                    rows.append(f"({bl.add(pre)}, {txt(hashlib.sha256(pre).hexdigest().upper())})")
    return f"(mkOracles {bl.coq()} [] [] [] [{';'.join(rows)}])"


def inventory_case(tok, ksks, p11, cfg, kind):
    r = vlib.run_impl(key_inventory, p11, cfg, R.random() < 0.3)
    probs = []
    healthy = all(ref_pub(o)[0] == "ok" and ref_pub(o)[1] is not None for slots in tok.modules.values() for s in slots if s.login_ok
                  for o in s.objects if o.cls == LL.CKO_PUBLIC_KEY)
    if r[0] == "ok":
        parsed, pp = parse_inventory(r[1])
        probs += pp
        impl_ms = []
        mod_slots = list(tok.modules.values())
        if len(parsed) != len(mod_slots):
            probs.append(f"{len(parsed)} modules listed, token has {len(mod_slots)}")
        for mi, slots in enumerate(mod_slots):
            listed = {e["slot"]: e for e in (parsed[mi] if mi < len(parsed) else [])}
            for s in slots:
                objs = [o for o in s.objects if o.cls in CLSNUM]
                ids = {c: [] for c in CLSNUM}
                for o in objs:
                    k = (o.label, bytes(o.cka_id) if o.cka_id else None)
                    if k not in ids[o.cls]:
                        ids[o.cls].append(k)
                e = listed.get(s.slot_id)
                if not s.login_ok:
                    if e is not None:
                        probs.append(f"slot {s.slot_id} without a session is listed")
                    continue
                if e is None:
                    if objs:
                        probs.append(f"slot {s.slot_id} holds {len(objs)} objects but is not listed")
                    continue
                got_pairs = [(l, i) for l, i, _ in e["pairs"]]
                want_pairs = [k for k in ids[LL.CKO_PUBLIC_KEY] if k in ids[LL.CKO_PRIVATE_KEY]]
                want = {"pairs": want_pairs, "PUBLIC": [k for k in ids[LL.CKO_PUBLIC_KEY] if k not in want_pairs],
                        "PRIVATE": [k for k in ids[LL.CKO_PRIVATE_KEY] if k not in want_pairs], "SECRET": ids[LL.CKO_SECRET_KEY]}
                got = {"pairs": got_pairs, "PUBLIC": e["PUBLIC"], "PRIVATE": e["PRIVATE"], "SECRET": e["SECRET"]}
                for sec in want:
                    if sorted(want[sec], key=repr) != sorted(got[sec], key=repr):
                        probs.append(f"slot {s.slot_id} section {sec}: listed {got[sec]}, token holds {want[sec]}")
                # status of pairs against the configuration
                for l, i, st in e["pairs"]:
                    pubo = [o for o in objs if o.cls == LL.CKO_PUBLIC_KEY and (o.label, bytes(o.cka_id) if o.cka_id else None) == (l, i)]
                    if not pubo or pubo[0].key is None:
                        continue
                    pub = ksrxml.pub_bytes(pubo[0].key)
                    matching = [d for d in ksks.values() if d["label"] == l]
                    bad = False
                    for d in matching:
                        a = S.specs.ALGNUM[d["algorithm"]]
                        if a in (13, 14) and len(pub) != {13: 64, 14: 96}[a]:
                            bad = True          # the token key cannot be a DNSKEY of the configured algorithm at all
                            continue
                        rd = ksrxml.rdata(257, 3, a, pub)
                        if (d.get("key_tag") is not None and d["key_tag"] != ksrxml.keytag(rd)) or \
                           (d.get("ds_sha256") is not None and d["ds_sha256"].upper() != hashlib.sha256(b"\x00" + rd).hexdigest().upper()):
                            bad = True
                    want_st = 0 if not matching else 2 if bad else 1
                    if st != want_st:
                        probs.append(f"slot {s.slot_id} pair {l}: status {['not configured', 'matches KSK', 'BAD KSK'][st] if st >= 0 else 'unknown'}, "
                                     f"expected {['not configured', 'matches KSK', 'BAD KSK'][want_st]}")
            impl_slots = []
            for e in (parsed[mi] if mi < len(parsed) else []):
                cid = lambda k: f"({txt(k[0])}, {'None' if k[1] is None else '(Some ' + zlist(k[1]) + ')'})"
                impl_slots.append(f"(mkSlotInv {e['slot']} [{';'.join(f'({cid((l, i))}, {st})' for l, i, st in e['pairs'])}] "
                                  f"[{';'.join(cid(k) for k in e['PUBLIC'])}] [{';'.join(cid(k) for k in e['PRIVATE'])}] [{';'.join(cid(k) for k in e['SECRET'])}])")
            impl_ms.append("[" + ";".join(impl_slots) + "]")
        impl = "(OK [" + ";".join(impl_ms) + "])"
    else:
        impl = f"(Raise {r[1]})"
        if healthy:
            probs.append(f"inventory raised {r[2]} on a token whose public objects all have a derivable key")
    kks = "[" + ";".join(f"({txt(n)}, {S.coq_ksk(d)})" for n, d in ksks.items()) + "]"
    cases.append(f"CInventory {coq_invstore(tok)} {kks} {d_rows(tok, ksks)} {impl}")
    meta.append({"kind": kind, "desc": {"token": [[(s.slot_id, s.login_ok, [(CLSNUM.get(o.cls), o.label, o.cka_id.hex() if o.cka_id else None) for o in s.objects])
                                                   for s in slots] for slots in tok.modules.values()],
                                        "ksks": {n: (d["label"], d.get("key_tag"), (d.get("ds_sha256") or "")[:12]) for n, d in ksks.items()},
                                        "impl": (r[1] if r[0] == "ok" else r[2])},
                 "spec_ok": not probs, "spec_msg": "; ".join(probs[:4]), "key": None})
    count(kind)


# ------------------------------------------------------------------ histories
ANSWERS = ["Yes", "yes", "YES", "Yes ", " Yes", "Y", "", "No", "Yes\r", "Ye", "Yess", "\tYes", "Yes\n", "\nYes", "Yes\n\n", "yes\n"]


def run_history(modules, ops, ksks, kind):
    """modules: signcases layout; ops: list of ('gen', label, bits) | ('del', label, force, answer) | ('inv',)"""
    tok = S.build_token(modules)
    emu.install(tok)
    gen_calls = []
    new_iter = {b: iter(ks) for b, ks in NEW.items()}

    def hook(bits, e):
        gen_calls.append((bits, e))
        return next(new_iter[bits])

    tok.keygen_hook = hook
    hsm = {f"m{mi}": {"module": f"emu:{mi}", "pin": "1234"} for mi in range(len(modules))}
    cfg = ceremony.make_config(ksks, {"s": {1: {"publish": [], "sign": next(iter(ksks))}}} if False else
                               {"s": {i: {"publish": next(iter(ksks)), "sign": next(iter(ksks))} for i in range(1, 10)}}, hsm=hsm)
    ri = vlib.run_impl(init_pkcs11_modules, cfg, rw_session=True)
    if ri[0] != "ok":
        count(kind + "-init-failed")
        return
    p11 = ri[1]
    store0 = S.coq_modules(modules)
    kops, probs, descs = [], [], []
    real_input = builtins.input
    for op in ops:
        before = snap(tok)
        vis_before = visible(before)
        if op[0] == "gen":
            _, label, bits = op
            h = ListHandler()
            lg = logging.getLogger("verif.c19")
            lg.handlers = [h]
            lg.setLevel(logging.DEBUG)
            lg.propagate = False
            n_calls = len(gen_calls)
            ns = argparse.Namespace(key_alg="RSASHA256", key_size=bits, key_label=label, key_crv=None)
            logging.disable(logging.NOTSET)
            try:
                r = vlib.run_impl(tool.keygen, ns, cfg, p11, lg)
            finally:
                logging.disable(logging.CRITICAL)
            after = snap(tok)
            added = [x for x in everything(after) if x[2][3] not in {y[2][3] for y in everything(before)}]
            removed = [x for x in everything(before) if x[2][3] not in {y[2][3] for y in everything(after)}]
            exists = [x for x in vis_before if x[2][1] == label and x[2][0] in (LL.CKO_PUBLIC_KEY, LL.CKO_PRIVATE_KEY)]
            log = "\n".join(h.lines)
            if removed:
                probs.append(f"keygen {label}: removed objects {[(x[2][0], x[2][1]) for x in removed]}")
            if exists:
                if r[0] == "ok" and r[1]:
                    probs.append(f"keygen {label}: reported success although the label already names {len(exists)} object(s)")
                if added or len(gen_calls) != n_calls:
                    probs.append(f"keygen {label}: generated a key although the label already names {len(exists)} object(s) "
                                 f"(classes {[CLSNUM[x[2][0]] for x in exists]}); {len(added)} objects added")
                np_txt, nr, alg, tags = "[]", "[]", 8, "[]"
            elif added or len(gen_calls) != n_calls:
                pubs = [x for x in added if x[2][0] == LL.CKO_PUBLIC_KEY]
                privs = [x for x in added if x[2][0] == LL.CKO_PRIVATE_KEY]
                if len(added) != 2 or len(pubs) != 1 or len(privs) != 1 or len(gen_calls) != n_calls + 1:
                    probs.append(f"keygen {label}: {len(added)} objects added in {len(gen_calls) - n_calls} generateKeyPair calls")
                elif pubs[0][2][1] != label or privs[0][2][1] != label or pubs[0][2][2] != privs[0][2][2] or pubs[0][:2] != privs[0][:2]:
                    probs.append(f"keygen {label}: new objects are not one pair under the requested label")
                if gen_calls[n_calls:] and gen_calls[-1] != (bits, 65537):
                    probs.append(f"keygen {label}: asked the token for {gen_calls[-1][0]} bits, exponent {gen_calls[-1][1]}; requested {bits} bits, exponent 65537")
                newobj = [o for slots in tok.modules.values() for s in slots for o in s.objects if id(o) == (pubs[0][2][3] if pubs else None)]
                if newobj:
                    priv = newobj[0].key
                    t1, t2, ds = tags_of(priv)
                    cfg_tags = [d.get("key_tag") for d in ksks.values()]
                    collide = t1 in cfg_tags or t2 in cfg_tags
                    if collide and r[0] == "ok" and r[1]:
                        probs.append(f"keygen {label}: success although tag {t1}/{t2} equals a configured KSK tag")
                    if not collide and not (r[0] == "ok" and r[1]):
                        probs.append(f"keygen {label}: failed ({r[2] if r[0] != 'ok' else r[1]}) although no configured KSK has tag {t1} or {t2}")
                    if str(t1) not in log or str(t2) not in log:
                        probs.append(f"keygen {label}: key tags {t1} (plain) / {t2} (REVOKE) not both reported")
                    if not collide and ds not in log.upper():
                        probs.append(f"keygen {label}: DS of the new key not reported")
                    pubraw = ksrxml.pub_bytes(priv)
                    np_txt, nr = handle(base64.b64encode(pubraw)), zlist(pubraw)
                else:
                    np_txt, nr = "[]", "[]"
            else:
                if r[0] == "ok" and r[1]:
                    probs.append(f"keygen {label}: reported success but nothing was generated")
                np_txt, nr = "[]", "[]"
            tags = "[" + ";".join("None" if d.get("key_tag") is None else f"(Some {d['key_tag']})" for d in ksks.values()) + "]"
            kops.append(f"KGen {txt(label)} {np_txt} {nr} 8 {tags} {res_bool(r)} {coq_snap(after)}")
            descs.append(("gen", label, bits, r[1] if r[0] == "ok" else r[2]))
            count("op-gen")
            count("op-gen-existing" if exists else "op-gen-fresh")
        elif op[0] == "del":
            _, label, force, answer = op
            asked = []

            def fake_input(prompt=""):
                asked.append(prompt)
                return answer.rstrip("\n") if False else answer

            builtins.input = fake_input
            try:
                r = vlib.run_impl(key_delete, label, p11, force)
            finally:
                builtins.input = real_input
            after = snap(tok)
            added = [x for x in everything(after) if x[2][3] not in {y[2][3] for y in everything(before)}]
            removed = [x for x in everything(before) if x[2][3] not in {y[2][3] for y in everything(after)}]
            labelled = [x for x in vis_before if x[2][1] == label and x[2][0] in (LL.CKO_PUBLIC_KEY, LL.CKO_PRIVATE_KEY)]
            confirmed = force or answer == "Yes"
            ambiguous = not force and answer != "Yes" and answer.strip("\n") == "Yes"
            if added:
                probs.append(f"delete {label}: added objects")
            if force and asked:
                probs.append(f"delete {label}: asked for confirmation although forced")
            if len(asked) > 1:
                probs.append(f"delete {label}: asked {len(asked)} times")
            if not confirmed and not ambiguous and removed:
                probs.append(f"delete {label}: removed {[(CLSNUM[x[2][0]], x[2][1]) for x in removed]} after the answer {answer!r} without force")
            bad = [x for x in removed if x not in labelled]
            if bad:
                probs.append(f"delete {label}: removed objects that are not the labelled pair: {[(CLSNUM[x[2][0]], x[2][1]) for x in bad]}")
            if len([x for x in removed if x[2][0] == LL.CKO_PUBLIC_KEY]) > 1 or len([x for x in removed if x[2][0] == LL.CKO_PRIVATE_KEY]) > 1:
                probs.append(f"delete {label}: removed more than one object of a class")
            lp = [x for x in labelled if x[2][0] == LL.CKO_PUBLIC_KEY]
            lq = [x for x in labelled if x[2][0] == LL.CKO_PRIVATE_KEY]
            if confirmed and len(lp) == 1 and len(lq) == 1 and r[0] == "ok":
                if sorted(removed, key=repr) != sorted(lp + lq, key=repr):
                    probs.append(f"delete {label}: confirmed, one pair present, but removed {[(CLSNUM[x[2][0]], x[2][1]) for x in removed]}")
                elif r[1] is not True:
                    probs.append(f"delete {label}: pair removed but reported {r[1]}")
            kops.append(f"KDel {txt(label)} {coq_bool(force)} {txt(answer)} {res_bool(r)} {coq_snap(after)}")
            descs.append(("del", label, force, answer, r[1] if r[0] == "ok" else r[2]))
            count("op-del")
            count("op-del-confirmed" if confirmed else "op-del-unconfirmed")
        else:
            inventory_case(tok, ksks, p11, cfg, "inventory-in-history")
            descs.append(("inv",))
            count("op-inv")
    cases.append(f"CHistory {store0} [{';'.join(kops)}]")
    meta.append({"kind": kind, "desc": {"layout": [[(s["id"], s.get("login_ok", True), [(o["label"], o["cls"]) for o in s["objs"]]) for s in m] for m in modules],
                                        "ops": descs, "ksk_tags": [d.get("key_tag") for d in ksks.values()]},
                 "spec_ok": not probs, "spec_msg": "; ".join(probs[:4]), "key": None})
    count(kind)


def layout(n_objs, shape):
    """shape: list (per module) of lists of login flags; objects spread over slots"""
    choices = []
    for lab, kd in zip(LABELS, PRE):
        choices += [S.obj(lab, "pub", kd), S.obj(lab, "priv", kd), S.obj(lab, "priv", kd, pub_attrs=False), S.obj(lab, "secret", None)]
    modules = [[{"id": (si if mi == 0 else 10 + si), "login_ok": ok, "objs": []} for si, ok in enumerate(flags)] for mi, flags in enumerate(shape)]
    slots = [s for m in modules for s in m]
    for _ in range(n_objs):
        R.choice(slots)["objs"].append(dict(R.choice(choices)))
    return modules


OTHER = ksrxml.mk_key(P.rsa(1024, 65537, 144), alg=8, flags=257, ident="KSKCUR")


def ksk_cfg(collide_with=None, which=0):
    """configuration with one KSK; its key tag optionally equals the (plain / REVOKE) tag of the key that will be generated"""
    d = ceremony.ksk_def(OTHER, with_ds=False)
    if collide_with is not None:
        d["key_tag"] = tags_of(collide_with)[which]
    return {"ksk_cur": d}


SHAPES = [[[True]], [[True, True]], [[False, True]], [[True], [True]], [[True, False], [True]]]
n_hist = 60 if not THOROUGH else 500
# systematic: every pre-existing placement of one label x generate
for objs in ([], ["pub"], ["priv"], ["pub", "priv"], ["secret"], ["pub", "pub"], ["priv", "priv"], ["pub", "priv", "secret"]):
    for shape in ([[True]], [[True, True]]):
        modules = [[{"id": si, "login_ok": ok, "objs": []} for si, ok in enumerate(flags)] for flags in shape]
        for c in objs:
            modules[0][-1]["objs"].append(S.obj("KA", c, PRE[0] if c != "secret" else None))
        run_history(modules, [("gen", "KA", 2048), ("gen", "KA", 2048), ("inv",)], ksk_cfg(), "existing-label")
        run_history(modules, [("del", "KA", False, "Yes"), ("gen", "KA", 2048), ("del", "KA", True, ""), ("inv",)], ksk_cfg(), "delete-then-generate")
# confirmation strings
for ans in ANSWERS:
    modules = [[{"id": 0, "login_ok": True, "objs": S.pair("KA", PRE[0]) + S.pair("KB", PRE[1])}]]
    run_history(modules, [("del", "KA", False, ans), ("inv",)], ksk_cfg(), "confirmation")
# pair split over two slots, half pairs
for objs0, objs1 in ((["pub"], ["priv"]), (["priv"], ["pub"]), (["pub", "priv"], ["pub", "priv"]), ([], ["priv"]), (["pub"], [])):
    modules = [[{"id": 0, "login_ok": True, "objs": [S.obj("KA", c, PRE[0]) for c in objs0] + S.pair("KB", PRE[1])},
                {"id": 1, "login_ok": True, "objs": [S.obj("KA", c, PRE[0]) for c in objs1]}]]
    run_history(modules, [("del", "KA", True, ""), ("inv",), ("del", "KA", False, "Yes"), ("gen", "KA", 2048)], ksk_cfg(), "split-pair")
# tag collisions: configured KSK tag equals the plain / REVOKE tag of the key about to be generated, or neither
for which in (0, 1, None):
    for bits in (2048, 3072):
        modules = [[{"id": 0, "login_ok": True, "objs": S.pair("KB", PRE[1])}]]
        ks = ksk_cfg(NEW[bits][0], which) if which is not None else ksk_cfg()
        run_history(modules, [("gen", "KA", bits), ("inv",), ("gen", "KA", bits)], ks, "tag-collision" if which is not None else "no-collision")
# random histories
for i in range(n_hist):
    shape = R.choice(SHAPES)
    modules = layout(R.randrange(0, 5), shape)
    ops = []
    budget = {2048: 5, 3072: 2}
    for _ in range(R.randrange(1, 6)):
        k = R.random()
        if k < 0.45:
            bits = 2048 if R.random() < 0.85 or budget[3072] == 0 else 3072
            if budget[bits] == 0:
                continue
            budget[bits] -= 1
            ops.append(("gen", R.choice(LABELS), bits))
        elif k < 0.85:
            force = R.random() < 0.3
            ops.append(("del", R.choice(LABELS), force, R.choice(["Yes"] * 4 + ANSWERS)))
        else:
            ops.append(("inv",))
    which = R.choice([None, None, 0, 1])
    ks = ksk_cfg(NEW[2048][R.randrange(0, 2)], which) if which is not None else ksk_cfg()
    run_history(modules, ops, ks, "random-history")

# ------------------------------------------------------------------ inventory on tokens with ids, duplicates, EC keys, bad configuration
def inv_token(spec):
    """spec: list of slots (id, login_ok, [(cls, label, key, cka_id, kwargs)])"""
    slots = []
    for sid, ok, objs in spec:
        slots.append(emu.Slot(sid, ok, [emu.Obj(c, l, k["priv"] if k else None, cka_id=i, **kw) for c, l, k, i, kw in objs]))
    return emu.Token({"emu:0": slots})


def inv_run(spec, ksks, kind):
    tok = inv_token(spec)
    emu.install(tok)
    rc = vlib.run_impl(ceremony.make_config, ksks, {"s": {i: {"publish": next(iter(ksks)), "sign": next(iter(ksks))} for i in range(1, 10)}},
                       hsm={"m0": {"module": "emu:0", "pin": "1234"}})
    if rc[0] != "ok":
        tags = [k.get("key_tag") for k in ksks.values()]
        if all(t is None or 1 <= t <= 65535 for t in tags):
            rep.violation("impl-vs-spec", f"{kind}: a configuration whose KSK key tags {tags} are all possible key tags is refused ({rc[2]}): "
                          "a collision with that KSK cannot be detected and the inventory cannot confirm it", {"kind": kind, "ksks": {n: {a: str(b) for a, b in k.items()} for n, k in ksks.items()}})
        count(kind + "-config-refused")
        return
    cfg = rc[1]
    ri = vlib.run_impl(init_pkcs11_modules, cfg, rw_session=True)
    if ri[0] != "ok":
        count(kind + "-init-failed")
        return
    inventory_case(tok, ksks, ri[1], cfg, kind)


PUB, PRIV, SEC = LL.CKO_PUBLIC_KEY, LL.CKO_PRIVATE_KEY, LL.CKO_SECRET_KEY
K0, K1, K2 = PRE[0], PRE[1], PRE[2]
good = {"a": ceremony.ksk_def(K0), "b": ceremony.ksk_def(K1)}
badtag = {"a": ceremony.ksk_def(K0, key_tag=(ceremony.ksk_def(K0)["key_tag"] + 1) % 65536)}
badds = {"a": ceremony.ksk_def(K0, ds_sha256="00" * 32)}
tagonly_wrongkey = {"a": ceremony.ksk_def(K1, with_ds=False, label=K0["id"])}
dsonly_wrongkey = {"a": ceremony.ksk_def(K1, with_tag=False, label=K0["id"])}
two_same_label = {"a": ceremony.ksk_def(K0), "z": ceremony.ksk_def(K1, label=K0["id"])}
two_same_label_rev = {"a": ceremony.ksk_def(K1, label=K0["id"]), "z": ceremony.ksk_def(K0)}
unrelated = {"a": ceremony.ksk_def(OTHER)}
CONFIGS = [("good", good), ("bad-tag", badtag), ("bad-ds", badds), ("tag-only-wrong-key", tagonly_wrongkey), ("ds-only-wrong-key", dsonly_wrongkey),
           ("two-ksks-one-label", two_same_label), ("two-ksks-one-label-rev", two_same_label_rev), ("unrelated", unrelated)]
full = [(0, True, [(PUB, K0["id"], K0, None, {}), (PRIV, K0["id"], K0, None, {}), (PUB, K1["id"], K1, b"\x01", {}), (PRIV, K1["id"], K1, b"\x01", {}),
                   (SEC, "WRAP", None, None, {}), (PUB, "LONE", K2, b"\xab\xcd", {}), (PRIV, "HALF", K2, None, {})])]
for name, ks in CONFIGS:
    inv_run(full, ks, "inventory-config-" + name)
# same label, different ids: two pairs; id on one side only: no pair
inv_run([(0, True, [(PUB, "KA", K0, b"\x01", {}), (PRIV, "KA", K0, b"\x01", {}), (PUB, "KA", K1, b"\x02", {}), (PRIV, "KA", K1, b"\x02", {})])], good, "inventory-ids")
inv_run([(0, True, [(PUB, "KA", K0, b"\x01", {}), (PRIV, "KA", K0, None, {})])], good, "inventory-ids")
inv_run([(0, True, [(PUB, "KA", K0, None, {}), (PRIV, "KA", K0, b"\x01", {}), (PRIV, "KA", K0, None, {})])], good, "inventory-ids")
# labels that differ by a trailing blank are different labels: two pairs are two pairs, and only the one labelled exactly like the configured KSK is that KSK
def label_blank_case(objs, ksks, want_pairs, want_ksk_lines, kind="inventory-label-blanks"):
    tok = inv_token([(0, True, objs)])
    emu.install(tok)
    rc = vlib.run_impl(ceremony.make_config, ksks, {"s": {i: {"publish": next(iter(ksks)), "sign": next(iter(ksks))} for i in range(1, 10)}}, hsm={"m0": {"module": "emu:0", "pin": "1234"}})
    ri = vlib.run_impl(init_pkcs11_modules, rc[1], rw_session=True) if rc[0] == "ok" else rc
    r = vlib.run_impl(key_inventory, ri[1], rc[1], False) if ri[0] == "ok" else ri
    count(kind)
    if r[0] != "ok":
        rep.violation("impl-vs-spec", f"{kind}: inventory failed ({r[2]}) on a token whose labels differ by a blank", {"kind": kind})
        return
    lines = [str(l) for l in r[1]]
    pair_lines = [l for l in lines if "-- KSK" in l or "Matching KSK not found" in l or "BAD KSK" in l]
    ksk_lines = [l for l in lines if "-- KSK" in l and "BAD" not in l]
    if len(pair_lines) != want_pairs or len(ksk_lines) != want_ksk_lines:
        rep.violation("impl-vs-spec", f"{kind}: the token holds {want_pairs} key pair(s) whose labels differ only by a blank ({[o[1] for o in objs if o[0] == PUB]}), "
                      f"{want_ksk_lines} of them labelled exactly like the configured KSK; the inventory lists {len(pair_lines)} pair(s), {len(ksk_lines)} as the configured KSK",
                      {"kind": kind, "inventory": lines[:40]})


label_blank_case([(PUB, "KA", K0, None, {}), (PRIV, "KA", K0, None, {}), (PUB, "KA ", K1, None, {}), (PRIV, "KA ", K1, None, {})], {"a": ceremony.ksk_def(K0, label="KA")}, 2, 1)
label_blank_case([(PUB, "KA ", K0, None, {}), (PRIV, "KA ", K0, None, {})], {"a": ceremony.ksk_def(K0, label="KA")}, 1, 0)
label_blank_case([(PUB, "KA", K0, None, {}), (PRIV, "KA", K0, None, {})], {"a": ceremony.ksk_def(K0, label="KA")}, 1, 1)
# duplicates of one identity, only one class present, empty slots, slots without session
inv_run([(0, True, [(PUB, "KA", K0, None, {}), (PUB, "KA", K1, None, {}), (PRIV, "KA", K0, None, {})])], good, "inventory-duplicate")
inv_run([(0, True, [(PUB, "KA", K0, None, {}), (PUB, "KB", K1, None, {})]), (1, True, []), (2, False, [(PUB, "KC", K2, None, {})]),
         (3, True, [(PRIV, "KB", K1, None, {}), (SEC, "S", None, None, {})])], good, "inventory-slots")
inv_run([(5, True, [(SEC, "S1", None, None, {}), (SEC, "S2", None, b"\x09", {})]), (2, True, [(PUB, "KA", K0, None, {}), (PRIV, "KA", K0, None, {})])], good, "inventory-slots")
# EC keys, a public EC object without a point next to a private object, an unknown key type
inv_run([(0, True, [(PUB, "KE", EC[0], None, {}), (PRIV, "KE", EC[0], None, {}), (PUB, "KF", EC[1], None, {"ec_wrapped": False}), (PRIV, "KF", EC[1], None, {})])],
        {"e": ceremony.ksk_def(EC[0]), "f": ceremony.ksk_def(EC[1])}, "inventory-ec")
inv_run([(0, True, [(PUB, "KE", EC[0], None, {}), (PRIV, "KE", EC[0], None, {})])], {"e": ceremony.ksk_def(EC[1], label="KE")}, "inventory-ec")
# an EC KSK whose X coordinate begins with 0x04 (the octet a SEC1 prefix would be), right tag and DS configured: it is that KSK
for alg_, first_ in ((13, 4), (14, 4), (13, 0)):
    KX4 = ksrxml.mk_key(P.ec_x_first(alg_, first_), alg=alg_, flags=257, ident=f"KX{first_}A{alg_}")
    for wrapped_ in (True, False):
        inv_run([(0, True, [(PUB, KX4["id"], KX4, None, {"ec_wrapped": wrapped_}), (PRIV, KX4["id"], KX4, None, {})])], {"x": ceremony.ksk_def(KX4)}, "inventory-ec-x-first-octet")
P.save()
# key tags at the ends of their range: a token key whose tag is 65535, configured with that tag (and the key's DS), and with another tag
K65535 = ksrxml.mk_key(P.ec_with_tag(13, 257, 65535), alg=13, flags=257, ident="KMAXTAG")
P.save()
inv_run([(0, True, [(PUB, "KMAXTAG", K65535, None, {}), (PRIV, "KMAXTAG", K65535, None, {})])], {"m": ceremony.ksk_def(K65535)}, "inventory-keytag-65535")
inv_run([(0, True, [(PUB, "KMAXTAG", K65535, None, {}), (PRIV, "KMAXTAG", K65535, None, {})])], {"m": ceremony.ksk_def(K65535, key_tag=65534)}, "inventory-keytag-65535")
inv_run([(0, True, [(PUB, "KMAXTAG", K65535, None, {}), (PRIV, "KMAXTAG", K65535, None, {})])], good, "inventory-keytag-65535")
# a KSK whose key tag sum carries out of 16 bits after the fold (RFC 4034 App. B discards that carry), configured with its true tag and DS - and with the tag one higher
KCARRY = ksrxml.mk_key(P.ec_tag_carry(13, 257), alg=13, flags=257, ident="KCARRY")
P.save()
inv_run([(0, True, [(PUB, "KCARRY", KCARRY, None, {}), (PRIV, "KCARRY", KCARRY, None, {})])], {"c": ceremony.ksk_def(KCARRY)}, "inventory-keytag-carry")
inv_run([(0, True, [(PUB, "KCARRY", KCARRY, None, {}), (PRIV, "KCARRY", KCARRY, None, {})])], {"c": ceremony.ksk_def(KCARRY, key_tag=(KCARRY["tag"] + 1) % 65536)}, "inventory-keytag-carry")
inv_run([(0, True, [(PUB, "KE", EC[0], None, {"extra": {LL.CKA_EC_POINT: ()}}), (PRIV, "KE", EC[0], None, {})])], good, "inventory-no-pubkey")
inv_run([(0, True, [(PUB, "KE", EC[0], None, {"extra": {LL.CKA_EC_POINT: ()}})])], good, "inventory-no-pubkey")
inv_run([(0, True, [(PUB, "KX", K0, None, {"key_type": LL.CKK_AES}), (PRIV, "KX", K0, None, {})])], good, "inventory-unknown-type")
inv_run([(0, True, [(PUB, K0["id"], K0, None, {}), (PRIV, K0["id"], K0, None, {})])], {"e": ceremony.ksk_def(EC[0], label=K0["id"])}, "inventory-alg-mismatch")
# random tokens
for i in range(40 if not THOROUGH else 400):
    spec = []
    for sid in R.sample(range(6), R.randrange(1, 4)):
        objs = []
        for _ in range(R.randrange(0, 6)):
            k = R.choice(PRE[:3])
            lab = R.choice([k["id"], "KA", "KB"])
            objs.append((R.choice([PUB, PRIV, PRIV, SEC]), lab, k, R.choice([None, None, b"\x01", b"\x02\x03"]), {}))
        spec.append((sid, R.random() < 0.85, objs))
    name, ks = R.choice(CONFIGS)
    inv_run(spec, ks, "inventory-random")

# ------------------------------------------------------------------ the tool as an operator starts it: kskm-keymaster's main() with its own logging set-up, standard error
# not a terminal (redirected, a wrapper script, cron). What the tool "reports" is what reaches standard error or the log file it opens.
import glob
import io
import shutil
import tempfile


def tool_run(argv, tok, cfg, answer="Yes"):
    d = tempfile.mkdtemp(prefix="c19-tool-", dir=str(vlib.WORK))
    emu.install(tok)
    root = logging.getLogger()
    saved = (root.handlers[:], root.level, logging.root.manager.disable, sys.argv, sys.stderr, os.getcwd(), tool.get_config, builtins.input)
    root.handlers = []
    logging.disable(logging.NOTSET)
    klog = logging.getLogger("kskm")
    kprop, klog.propagate = klog.propagate, True          # the harness keeps kskm's records off the root logger; the tool's own set-up starts from the defaults
    err = io.StringIO()
    status = None
    try:
        os.chdir(d)
        sys.argv, sys.stderr = ["kskm-keymaster", "--config", "ksrsigner.yaml"] + argv, err
        tool.get_config = lambda fn: cfg
        builtins.input = lambda prompt="": answer
        try:
            with contextlib.redirect_stdout(io.StringIO()):
                r = tool.main()
            status = 1 if r is False else 0
        except SystemExit as e:
            status = e.code if isinstance(e.code, int) else 1
        except BaseException as e:  # noqa: BLE001
            status = f"uncaught {type(e).__name__}"
        for h_ in root.handlers:
            try:
                h_.flush(); h_.close()
            except Exception:  # noqa: BLE001
                pass
        files = "".join(open(f_, errors="replace").read() for f_ in glob.glob(os.path.join(d, "*.log")))
    finally:
        root.handlers, root.level = saved[0], saved[1]
        klog.propagate = kprop
        logging.disable(saved[2])
        sys.argv, sys.stderr = saved[3], saved[4]
        os.chdir(saved[5])
        tool.get_config, builtins.input = saved[6], saved[7]
        shutil.rmtree(d, ignore_errors=True)
    return status, err.getvalue() + "\n" + files


import contextlib
import os
vlib.WORK.mkdir(exist_ok=True)
for rnd_ in range(2):
    pre = PRE[rnd_]
    tok = S.build_token([[{"id": 0, "objs": S.pair("Kpre", pre)}]])
    newkey = NEW[2048][rnd_]
    tok.keygen_hook = lambda bits, e, _k=newkey: _k
    cfg_ = ceremony.make_config({"k": ceremony.ksk_def(pre, label="Kpre")}, {"s": {i: {"publish": "k", "sign": "k"} for i in range(1, 10)}}, hsm={"m0": {"module": "emu:0", "pin": "1234"}})
    t1, t2, ds = tags_of(newkey)
    st, report = tool_run(["keygen", "--label", f"Knew{rnd_}", "--algorithm", "RSASHA256", "--size", "2048"], tok, cfg_)
    count("tool-main-keygen")
    made = [o for sl in tok.modules.values() for s_ in sl for o in s_.objects if o.label == f"Knew{rnd_}"]
    if st != 0 or len(made) != 2:
        rep.violation("impl-vs-spec", f"kskm-keymaster keygen (main(), no terminal): status {st}, {len(made)} objects under the new label; a fresh label on a healthy token must give one pair and status 0",
                      {"kind": "tool-main-keygen", "report": report[-1500:]})
    elif str(t1) not in report or str(t2) not in report or ds not in report.upper():
        rep.violation("impl-vs-spec", f"kskm-keymaster keygen (main(), standard error not a terminal): the key was generated but its key tag {t1}, REVOKE key tag {t2} and DS {ds[:16]}... "
                      f"are reported neither on standard error nor in the log file the tool opened",
                      {"kind": "tool-main-keygen", "report": report[-1500:], "key_tag": t1, "revoked_key_tag": t2, "ds": ds})
    st, report = tool_run(["inventory"], tok, cfg_)
    count("tool-main-inventory")
    want_tag = pre["tag"]
    if st != 0 or "Kpre" not in report or f"Knew{rnd_}" not in report or str(want_tag) not in report:
        rep.violation("impl-vs-spec", f"kskm-keymaster inventory (main(), standard error not a terminal): status {st}; the token's key pairs (Kpre, Knew{rnd_}) and the configured KSK's "
                      f"key tag {want_tag} are not all listed on standard error or in the log file the tool opened", {"kind": "tool-main-inventory", "report": report[-1500:]})
    st, report = tool_run(["keydelete", "--label", f"Knew{rnd_}"], tok, cfg_, answer="yes")
    left = [o for sl in tok.modules.values() for s_ in sl for o in s_.objects if o.label == f"Knew{rnd_}"]
    count("tool-main-keydelete")
    if len(left) != 2:
        rep.violation("impl-vs-spec", f"kskm-keymaster keydelete (main()) removed objects after the answer 'yes' (not exactly 'Yes')", {"kind": "tool-main-keydelete", "report": report[-800:]})
    st, report = tool_run(["keydelete", "--label", f"Knew{rnd_}"], tok, cfg_, answer="Yes")
    left = [o for sl in tok.modules.values() for s_ in sl for o in s_.objects if o.label == f"Knew{rnd_}"]
    rest = [o for sl in tok.modules.values() for s_ in sl for o in s_.objects if o.label == "Kpre"]
    if left or len(rest) != 2 or st != 0:
        rep.violation("impl-vs-spec", f"kskm-keymaster keydelete (main()) after 'Yes': status {st}, {len(left)} objects left under the label, {len(rest)} of the other pair", {"kind": "tool-main-keydelete", "report": report[-800:]})

# two HSMs configured, the operator names one (--hsm before the command, as the usage text shows; or after it where the parser accepts that): only that one is touched
for hsm_name, other in (("m1", "m0"), ("m0", "m1")):
    for where in ("before",):
        tok = S.build_token([[{"id": 0, "objs": S.pair("Kboth", PRE[0])}], [{"id": 0, "objs": S.pair("Kboth", PRE[1])}]])
        cfg_ = ceremony.make_config({"k": ceremony.ksk_def(PRE[2], label="Kelse")}, {"s": {i: {"publish": "k", "sign": "k"} for i in range(1, 10)}},
                                    hsm={"m0": {"module": "emu:0", "pin": "1234"}, "m1": {"module": "emu:1", "pin": "1234"}})
        modname = {"m0": "emu:0", "m1": "emu:1"}
        newkey = NEW[2048][2]
        tok.keygen_hook = lambda bits, e, _k=newkey: _k
        st, report = tool_run(["--hsm", hsm_name, "keygen", "--label", "Kmade", "--algorithm", "RSASHA256", "--size", "2048"], tok, cfg_)
        count("tool-main-named-hsm")
        placed = {m: sum(1 for s_ in sl for o in s_.objects if o.label == "Kmade") for m, sl in tok.modules.items()}
        if placed.get(modname[hsm_name]) != 2 or placed.get(modname[other]) != 0:
            rep.violation("impl-vs-spec", f"kskm-keymaster --hsm {hsm_name} keygen: the new pair was placed {placed} (status {st}); the operator named HSM {hsm_name} ({modname[hsm_name]})",
                          {"kind": "tool-main-named-hsm", "report": report[-1000:]})
        st, report = tool_run(["--hsm", hsm_name, "keydelete", "--label", "Kboth"], tok, cfg_, answer="Yes")
        left = {m: sum(1 for s_ in sl for o in s_.objects if o.label == "Kboth") for m, sl in tok.modules.items()}
        if left.get(modname[hsm_name]) != 0 or left.get(modname[other]) != 2:
            rep.violation("impl-vs-spec", f"kskm-keymaster --hsm {hsm_name} keydelete --label Kboth (answer 'Yes'): objects left per HSM {left} (status {st}); "
                          f"exactly the pair on {hsm_name} ({modname[hsm_name]}) was to be removed", {"kind": "tool-main-named-hsm", "report": report[-1000:]})

ok_build, log = vlib.make(["Checks/C19Check.vo"])
runner = vlib.CaseRun("C19", "main", "From KV Require Import Base.Prelude Base.Exn Model.Data Model.Token Model.Sign Model.Keymaster Checks.SignCheck Checks.C19Check.",
                      "case", "check", shard=40)
results = runner.run(cases) if ok_build else [-1] * len(cases)
vlib.classify(rep, props, meta, results, cases, runner, "Checks.C19Check.check (keygen / key_delete histories, key_inventory)")
runner.cleanup()
rep.coverage.update({
    "evaluations": len(cases), "distinct_nontrivial": len(set(cases)),
    "rule": "histories of up to 5 keygen/delete/inventory operations over labels KA/KB/Kc12345 on emulated tokens with 0..4 pre-existing objects "
            "(public, private with/without public attributes, secret) in 1..2 modules x 1..2 slots (some without session), run through the real "
            "tools.keymaster.keygen / keymaster.delete.key_delete / keymaster.inventory.key_inventory; all 8 placements of one label x generate twice; "
            "delete-then-generate; 16 confirmation strings; pairs split over slots and half pairs; configured KSK tag equal to the plain / REVOKE tag of the "
            "key about to be generated (2048 and 3072 bits); inventory over tokens with CKA_IDs, duplicate identities, EC keys, objects without "
            "derivable key, and 8 configurations (matching, wrong tag, wrong DS, tag-only, DS-only, two KSKs under one label, unrelated); "
            "after every operation the token object table is compared with the model's store",
    "distribution": hist, "samples": [dict(kind=m["kind"], **{k: str(v)[:300] for k, v in m["desc"].items()}) for m in meta[:: max(1, len(meta) // 6)]][:6],
})
rep.assumptions += ["the token emulator stands for the HSM: handles are never reused, C_GenerateKeyPair appends one public and one private object to the session's slot",
                    "time.sleep in generate_key_from_templates is replaced by a no-op in the harness",
                    "interpretation: 'existing label' means a public or private key object visible through a logged-in slot; a secret key under the same label does not block generation",
                    "interpretation: an object is identified by (class, label, CKA_ID); further objects with an identity already seen in the slot are reported by an error log line, not listed again",
                    "answers that differ from 'Yes' only by leading/trailing newlines are not judged (input() never returns a trailing newline)"]
sys.exit(rep.finish())
