"""C20 - KSR receiver confines uploads, admits listed clients, judges like the signer."""
import argparse
import asyncio
import copy
import datetime as dt
import hashlib
import os
import re
import shutil
import sys
import types

import vlib
from vlib import coq_bool, txt, z, zlist

ap = argparse.ArgumentParser()
ap.add_argument("--tier")
ap.add_argument("--replay")
args = ap.parse_args()
TIER = vlib.tier(args.tier)
THOROUGH = TIER == "thorough"

vlib.setup_impl_path()
rep = vlib.Report("C20", TIER)
vlib.regen("Wksr", "Skeleton", "Policy")
props = vlib.build_props("C20")
rep.add_props(props)

import webstubs

webstubs.install()
import yaml

import ksrxml
import skrgen
import specs
from kgen import coq_reqpolicy, coq_request, coq_response, handle, us
from kskm.common.config import get_config
from kskm.common.config_wksr import WKSR_KSR
from kskm.ksr.load import load_ksr, request_from_xml_file
from kskm.signer.policy import check_skr_and_ksr
from kskm.skr.load import load_skr
from kskm.wksr import server

D = dt.timedelta
UTC = dt.timezone.utc
R = vlib.rng("C20")
EXN = vlib.exn_table()
WORK = vlib.VERIF / "work" / "c20"
shutil.rmtree(WORK, ignore_errors=True)
WORK.mkdir(parents=True)
cases, meta, hist = [], [], {}


def count(k):
    hist[k] = hist.get(k, 0) + 1


def cps(s: str) -> str:
    return "[" + ";".join(str(ord(c)) for c in s) + "]"


class PinnedDT(dt.datetime):
    pinned = dt.datetime(2026, 3, 1, 12, 0, 0, 123456, tzinfo=UTC)

    @classmethod
    def now(cls, tz=None):
        return cls.pinned


server.datetime = PinnedDT

# ------------------------------------------------------------------ 1. save_ksr: gates, name, confinement
ROOT = WORK / "root"
UP = ROOT / "srv" / "upload"
UP.mkdir(parents=True)
(ROOT / "outside").mkdir()
(ROOT / "srv" / "sibling").mkdir()


def tree(root):
    out = set()
    for d, dn, fn in os.walk(root):
        for f in fn:
            out.add(os.path.join(d, f))
    return out


class Upload:
    def __init__(self, content_type, size, filename, body):
        self.content_type, self.size, self.filename, self.body = content_type, size, filename, body
        self.reads = 0

    async def read(self):
        self.reads += 1
        return self.body


def save_case(cfg_ctype, max_size, ctype, size, filename, body, now, kind):
    PinnedDT.pinned = now
    app = types.SimpleNamespace(config=types.SimpleNamespace(ksr=WKSR_KSR(max_size=max_size, content_type=cfg_ctype, upload_path=UP)))
    up = Upload(ctype, size, filename, body)
    opened = []
    real_open = open

    def spy_open(path, mode="r", *a, **kw):
        opened.append((str(path), mode))
        return real_open(path, mode, *a, **kw)

    server.open = spy_open
    before = tree(ROOT)
    try:
        r = vlib.run_impl(lambda: asyncio.run(server.save_ksr(app, up)))
    finally:
        del server.open
    after = tree(ROOT)
    new = sorted(after - before)
    probs = []
    should_pass = ctype == cfg_ctype and size is not None and size <= max_size
    status = None
    if r[0] != "ok" and r[2] == "HTTPException":
        try:
            asyncio.run(server.save_ksr(app, Upload(ctype, size, filename, body)))
        except webstubs.HTTPException as e:
            status = e.status_code
    if not should_pass:
        want = 400 if ctype != cfg_ctype or size is None else 413
        if status != want:
            probs.append(f"content type {ctype!r} / size {size}: expected rejection {want}, got {status if status else r[:3]}")
        if up.reads or opened or new:
            probs.append(f"rejected upload but body read {up.reads}x, files opened {opened}, files created {new}")
        impl = f"(Rejected {status if status else 0})"
    else:
        if r[0] == "ok":
            path, fhash = r[1]
            path = str(path)
            if len(new) != 1 or new[0] != path:
                probs.append(f"files created {new}, returned {path}")
            if os.path.dirname(os.path.realpath(path)) != os.path.realpath(UP):
                probs.append(f"stored outside the upload directory: {path!r}")
            if not re.fullmatch(r"[A-Za-z0-9_\-]*_\d{8}_\d{6}_\d{6}\.xml", os.path.basename(path)):
                probs.append(f"stored name {os.path.basename(path)!r} is not safe characters plus timestamp")
            elif now.strftime("_%Y%m%d_%H%M%S_%f") + ".xml" != os.path.basename(path)[-len("_20260301_120000_123456.xml"):]:
                probs.append(f"timestamp suffix of {os.path.basename(path)!r} is not the time of the upload")
            if os.path.exists(path) and open(path, "rb").read() != body:
                probs.append("stored contents differ from the uploaded body")
            if fhash != hashlib.sha256(body).hexdigest():
                probs.append("reported hash is not the SHA-256 of the body")
            impl = f"(Written {cps(path)} {zlist(body)})"
            for p in new:
                os.unlink(p)
        else:
            # the write failed (name longer than the file system allows): nothing may exist anywhere, and the attempted path is the confined one
            if new:
                probs.append(f"failed with {r[2]} but created {new}")
            att = [p for p, m in opened if "w" in m]
            if r[2] != "OSError" and r[2] != "ValueError":
                probs.append(f"accepted upload failed with {r[2]}")
            if att and os.path.dirname(os.path.realpath(att[0])) != os.path.realpath(UP):
                probs.append(f"attempted to write outside the upload directory: {att[0]!r}")
            impl = f"(Written {cps(att[0])} {zlist(body)})" if att else f"(Rejected {-1})"
            count("save-os-refused:" + r[2])
    name_for_model = str(filename)
    cases.append(f"CSave {cps(cfg_ctype)} {z(max_size)} {cps(str(UP))} {'None' if ctype is None else '(Some ' + cps(ctype) + ')'} "
                 f"{'None' if size is None else '(Some ' + z(size) + ')'} {cps(name_for_model)} {zlist(body)} {z(us(now))} {impl}")
    meta.append({"kind": kind, "desc": {"content_type": ctype, "size": size, "max_size": max_size, "filename": repr(filename)[:120], "impl": impl[:100]},
                 "spec_ok": not probs, "spec_msg": "; ".join(probs[:4]), "key": None})
    count(kind)


NAMES = ["ksr.xml", "KSR-2026-Q2.xml", "../../etc/passwd", "/etc/passwd", "..", ".", "", "a/b/c.xml", "a\\b\\c.xml", "..\\..\\x", "x\x00y.xml", "\x00", "....//....//x",
         "con:aux", "name with spaces.xml", "tab\there", "new\nline", "ksr;rm -rf .xml", "$(id).xml", "`id`", "%2e%2e%2fx", "ｆｕｌｌｗｉｄｔｈ.xml", "кириллица.xml", "漢字.xml",
         "٣٤٥.xml", "KK.xml", "é́.xml", "퟿", "\U0001f600.xml", "a" * 200, "a" * 300, "é" * 200, "/" * 50, "-", "_", "--__--", "~root/.ssh/authorized_keys",
         "file.xml/", "./x", "x/.", None, 12345]
TS = [dt.datetime(2026, 3, 1, 12, 0, 0, 123456, tzinfo=UTC), dt.datetime(1999, 12, 31, 23, 59, 59, 999999, tzinfo=UTC), dt.datetime(2024, 2, 29, 0, 0, 0, 0, tzinfo=UTC),
         dt.datetime(2038, 1, 19, 3, 14, 8, 1, tzinfo=UTC)]
for nm in NAMES:
    save_case("application/xml", 1000, "application/xml", 3, nm, b"<x>", R.choice(TS), "file-name")
for _ in range(60 if not THOROUGH else 600):
    alphabet = ["a", "Z", "9", "_", "-", ".", "/", "\\", "\x00", " ", "é", "漢", "K", "٣", "~", "%", ":", "\n"]
    nm = "".join(R.choice(alphabet) for _ in range(R.randrange(0, 40)))
    save_case("application/xml", 1000, "application/xml", 3, nm, b"<x>", R.choice(TS), "file-name-random")
for ct in ["application/xml", "Application/XML", "application/xml; charset=utf-8", "text/xml", "", None, "application/xml ", "application/octet-stream"]:
    for cfg in ("application/xml", "text/xml"):
        save_case(cfg, 1000, ct, 3, "k.xml", b"<x>", TS[0], "content-type")
for mx in (1, 10, 1000):
    for size in (None, 0, mx - 1, mx, mx + 1, mx * 1000, 2**40):
        save_case("application/xml", mx, "application/xml", size, "k.xml", b"y" * min(size or 0, 50), TS[0], "size")
        save_case("application/xml", mx, "text/plain", size, "../k.xml", b"y", TS[0], "size-and-type")
for body in (b"", b"\x00\xff", bytes(range(256))):
    save_case("application/xml", 1000, "application/xml", len(body), "bin", body, TS[0], "body")

# ------------------------------------------------------------------ 2. client certificate whitelist
from cryptography import x509
from cryptography.hazmat.primitives import hashes, serialization
from cryptography.hazmat.primitives.asymmetric import ec
from cryptography.x509.oid import NameOID


def make_cert(cn, seed):
    key = ec.derive_private_key(int.from_bytes(hashlib.sha256(f"c20-{seed}".encode()).digest(), "big") % (2**255) + 1, ec.SECP256R1())
    name = x509.Name([x509.NameAttribute(NameOID.COMMON_NAME, cn)])
    cert = (x509.CertificateBuilder().subject_name(name).issuer_name(name).public_key(key.public_key()).serial_number(1000 + seed)
            .not_valid_before(dt.datetime(2025, 1, 1)).not_valid_after(dt.datetime(2035, 1, 1)).sign(key, hashes.SHA256()))
    return cert.public_bytes(serialization.Encoding.DER)


CERTS = [make_cert(f"client-{i}", i) for i in range(4)]
FP = [hashlib.sha256(c).hexdigest() for c in CERTS]
PASS = object()


def dispatch_case(whitelist, cert, transport_kind, kind):
    class SSLObj:
        def getpeercert(self, binary_form=False):
            return cert

    class Transport:
        def get_extra_info(self, name):
            if transport_kind == "no-tls":
                return None
            return SSLObj()

    req = types.SimpleNamespace(scope={"transport": Transport()}, client=types.SimpleNamespace(host="192.0.2.1"),
                                app=types.SimpleNamespace(config=types.SimpleNamespace(tls=types.SimpleNamespace(client_whitelist=whitelist))))
    called = []

    async def call_next(request):
        called.append(request)
        return PASS

    mw = server.ClientCertificateWhitelist()
    r = vlib.run_impl(lambda: asyncio.run(mw.dispatch(req, call_next)))
    passed = r[0] == "ok" and r[1] is PASS and len(called) == 1
    probs = []
    listed = cert is not None and transport_kind != "no-tls" and hashlib.sha256(cert).hexdigest() in [w.lower() for w in whitelist]
    try:
        ok_der = cert is not None and x509.load_der_x509_certificate(cert) is not None
    except Exception:  # noqa: BLE001
        ok_der = False
    if passed and not (listed and ok_der):
        probs.append(f"request passed on although the client certificate ({'absent' if cert is None else hashlib.sha256(cert).hexdigest()[:16]}) is not on the whitelist")
    if not passed and called:
        probs.append("refused but the request was handed on")
    if not passed and ok_der and transport_kind != "no-tls" and hashlib.sha256(cert).hexdigest() in whitelist:
        probs.append(f"listed client refused ({r[2] if r[0] != 'ok' else r[1]})")
    if r[0] == "ok":
        impl = f"(OK {coq_bool(passed)})"
    elif r[2] == "HTTPException":
        impl = "(Raise 403)"
    else:
        impl = f"(Raise {r[1]})"
    rows = "[" + ";".join(f"({zlist(c)}, {txt(hashlib.sha256(c).hexdigest())}, true)" for c in CERTS) + \
           ("" if cert is None or cert in CERTS else f";({zlist(cert)}, {txt(hashlib.sha256(cert).hexdigest())}, {coq_bool(ok_der)})") + "]"
    if transport_kind == "no-tls":
        count(kind)
        meta_only = {"kind": kind, "desc": {"transport": transport_kind, "impl": impl}, "spec_ok": not probs, "spec_msg": "; ".join(probs), "key": None}
        # no ssl object at all: outside the model's certificate option; judged by the property reading only
        if probs:
            rep.violation("impl-vs-spec", f"{kind}: {'; '.join(probs)}", meta_only["desc"])
        return
    cases.append(f"CDispatch {rows} [{';'.join(txt(w) for w in whitelist)}] {'None' if cert is None else '(Some ' + zlist(cert) + ')'} {impl}")
    meta.append({"kind": kind, "desc": {"whitelist": [w[:16] for w in whitelist], "cert": None if cert is None else hashlib.sha256(cert).hexdigest()[:16], "impl": impl},
                 "spec_ok": not probs, "spec_msg": "; ".join(probs), "key": None})
    count(kind)


for wl in ([], [FP[0]], [FP[0], FP[1]], [FP[2].upper()], [FP[1][:-1] + ("0" if FP[1][-1] != "0" else "1")], [FP[3][:32]], ["00" * 32]):
    for cert in CERTS + [None, b"", b"\x30\x03\x02\x01\x01", CERTS[0][:-1], CERTS[0] + b"\x00"]:
        dispatch_case(wl, cert, "tls", "whitelist")
dispatch_case([FP[0]], CERTS[0], "no-tls", "whitelist-no-tls")
dispatch_case([], None, "no-tls", "whitelist-no-tls")

# ------------------------------------------------------------------ 3. the verdict on a stored KSR
import kskm.ksr.verify_policy as vp

NOW = dt.datetime(2026, 3, 1, 12, 0, 0, tzinfo=UTC)


class PinnedNow(dt.datetime):
    @classmethod
    def now(cls, tz=None):
        return NOW


vp.datetime = PinnedNow
KSKS = {"ksk_current": skrgen.ksk("Kcur", 0)}
ZSKS = [skrgen.zsk(i) for i in range(4)]
ksrxml.POOL.save()
SCHEMA = {i: {"publish": ["ksk_current"], "sign": ["ksk_current"], "revoke": []} for i in range(1, 10)}
VD = WORK / "verdict"
VD.mkdir()


def write_config(n_ksr, n_prev, with_prev, extra_policy=None, shape=None):
    pol = {"num_bundles": n_ksr, "validate_signatures": True, "signature_horizon_days": 400, "approved_algorithms": ["RSASHA256"],
           "rsa_approved_exponents": [65537], "rsa_approved_key_sizes": [1024], "num_keys_per_bundle": shape[0], "num_different_keys_in_all_bundles": shape[1],
           "acceptable_domains": ["."], "check_cycle_length": False, "dns_ttl": 0, "signature_check_expire_horizon": False}
    pol.update(extra_policy or {})
    cfg = {"request_policy": pol, "response_policy": {"num_bundles": n_prev, "validate_signatures": True}}
    if with_prev:
        cfg["filenames"] = {"previous_skr": str(VD / "prev.xml")}
    path = VD / "ksrsigner.yaml"
    path.write_text(yaml.safe_dump(cfg))
    return path


def shape_of(q):
    return ([len(b["keys"]) for b in q["bundles"]], len({k["pub"] for b in q["bundles"] for k in b["keys"]}))


def verdict_case(kind, ksr_xml, prev_doc, n_ksr, n_prev, with_prev=True, extra_policy=None, strict=True, shape=None, expect=None, zone=None):
    tz, suffix = zone or (None, ksrxml.TS_SUFFIX)       # the receiver host's time zone and the notation of the KSR's timestamps (every notation means UTC)
    if isinstance(ksr_xml, dict):
        shape = shape or shape_of(ksr_xml)
        with ksrxml.process_zone(None, suffix):
            ksr_xml = ksrxml.render_ksr(ksr_xml).encode()
    cfgpath = write_config(n_ksr, n_prev, with_prev, extra_policy, shape)
    if prev_doc is not None:
        (VD / "prev.xml").write_text(prev_doc)
    elif (VD / "prev.xml").exists():
        (VD / "prev.xml").unlink()
    kpath = VD / "upload_20260301.xml"
    kpath.write_bytes(ksr_xml)
    app = types.SimpleNamespace(config=types.SimpleNamespace(ksr=types.SimpleNamespace(ksrsigner_configfile=cfgpath)))
    with ksrxml.process_zone(tz, ksrxml.TS_SUFFIX):
        r = vlib.run_impl(server.validate_ksr, app, kpath)
    # ---- the signer's own judgement, called directly
    cfg_r = vlib.run_impl(get_config, cfgpath)
    if cfg_r[0] != "ok":
        # the ksrsigner configuration itself does not load (e.g. the named previous SKR does not exist): the signer would not start either
        count(kind)
        if r[0] == "ok" and r[1].get("status") == "OK":
            rep.violation("impl-vs-spec", f"{kind}: receiver reports OK although the ksrsigner configuration does not load ({cfg_r[2]})", {"kind": kind})
        return
    config = cfg_r[1]
    pol = config.request_policy
    prev_r = vlib.run_impl(load_skr, config.filenames.previous_skr, config.response_policy) if config.filenames.previous_skr is not None else None
    ksr_r = vlib.run_impl(load_ksr, kpath, pol, raise_original=True)
    signer_accepts, signer_pv = False, False
    if prev_r is not None and prev_r[0] != "ok":
        signer_pv = 100 <= prev_r[1] <= 141
    elif ksr_r[0] != "ok":
        signer_pv = 100 <= ksr_r[1] <= 141
    elif prev_r is not None:
        ch = vlib.run_impl(check_skr_and_ksr, ksr_r[1], prev_r[1], pol, None)
        signer_accepts = ch[0] == "ok"
        signer_pv = ch[0] != "ok" and 100 <= ch[1] <= 141
    else:
        signer_accepts = True
    probs = []
    status = r[1].get("status") if r[0] == "ok" else None
    if signer_accepts and status != "OK":
        probs.append(f"the signer's validation accepts this KSR but the receiver reports {status or r[2]}")
    if not signer_accepts and status == "OK":
        probs.append("the receiver reports OK for a KSR the signer's validation refuses")
    if signer_pv and status != "ERROR":
        probs.append(f"a policy violation is reported as {status or r[2]} instead of ERROR")
    # what the documents were built to be (independent of any loader): an honest successor of the SKR now at the configured path is acceptable,
    # a successor of some other SKR is not
    if expect == "OK" and status != "OK":
        probs.append(f"an honest successor of the previous SKR that is at the configured path is reported as {status or r[2]}"
                     + (f" ({r[1].get('message', '')[:160]})" if r[0] == "ok" else ""))
    if expect == "not-OK" and status == "OK":
        probs.append("a KSR that does not chain to the previous SKR at the configured path is reported OK")
    if status == "OK" and ksr_r[0] == "ok" and ksr_r[1].id not in r[1].get("message", ""):
        probs.append("OK message does not name the KSR id")
    # ---- model case
    parsed_r = vlib.run_impl(lambda: request_from_xml_file(kpath, kpath.read_bytes()))
    if os.path.getsize(kpath) > 1024 * 1024:
        parsed = f"(Raise {EXN['RuntimeError']})"
    elif parsed_r[0] == "ok":
        parsed = f"(OK {coq_request(parsed_r[1], with_txt='handle', with_data='handle', with_pub=True, keep_order=True)})"
    else:
        parsed = f"(Raise {parsed_r[1]})"
    rows = []
    if parsed_r[0] == "ok" and pol.validate_signatures:
        for b in parsed_r[1].bundles:
            keys = [specs.keyd(k) for k in b.keys]
            for s in b.signatures:
                tbs, verdict = specs.sig_verdict(specs.sigd(s), keys)
                rows.append(f"({handle(b'sig:' + bytes(s.signature_data))}, {zlist(tbs)}, {coq_bool(verdict)})")
    if prev_r is None:
        prev = "None"
    elif prev_r[0] == "ok":
        prev = f"(Some (OK {coq_response(prev_r[1], with_txt='handle', with_data='handle', with_pub=True, keep_order=True)}))"
    else:
        prev = f"(Some (Raise {prev_r[1]}))"
    if r[0] == "ok":
        impl = f"(OK {coq_bool(status == 'OK')})"
    else:
        impl = f"(Raise {r[1]})"
    cases.append(f"CVerdict {z(us(NOW))} {coq_reqpolicy(pol)} {prev} {parsed} [{';'.join(rows)}] {coq_bool(strict)} {impl}")
    meta.append({"kind": kind, "desc": {"receiver": status or r[2], "signer": "accept" if signer_accepts else ("policy violation" if signer_pv else "error"),
                                        "previous_skr": None if prev_r is None else ("loaded" if prev_r[0] == "ok" else prev_r[2]),
                                        "ksr": "loaded" if ksr_r[0] == "ok" else ksr_r[2], "message": (r[1].get("message", "")[:100] if r[0] == "ok" else "")},
                 "spec_ok": not probs, "spec_msg": "; ".join(probs), "key": None})
    count(kind)


T0 = dt.datetime(2026, 1, 1, tzinfo=UTC)


def prev_skr(n, zskpol):
    zs = [[ZSKS[0], ZSKS[1]]] + [[ZSKS[1]]] * (n - 2) + [[ZSKS[1], ZSKS[2]]] if n >= 2 else [[ZSKS[1], ZSKS[2]]]
    req = skrgen.honest_request("prev-req", T0, n, zs, zskpol, sign=False)
    return skrgen.simulate_skr(req, SCHEMA, KSKS, ksrxml.default_zsk_policy())


def successor(skr, zskpol, n=3, overlap=D(days=11), first_keys=None, rid="next-req"):
    lastb = skr["bundles"][-1]
    start = lastb["exp"] - overlap
    pub = [k for k in lastb["keys"] if k["flags"] == 256]
    fk = first_keys if first_keys is not None else pub
    zs = [fk] + [[fk[-1]]] * (n - 1)
    return skrgen.honest_request(rid, start, n, zs, zskpol, sign=True)


# the previous SKR is whatever is at the configured path when the upload arrives: the file is replaced between uploads, configuration unchanged
def prev_skr_at(t0, rid, n, zskpol):
    zs = [[ZSKS[0], ZSKS[1]]] + [[ZSKS[1]]] * (n - 2) + [[ZSKS[1], ZSKS[2]]]
    return skrgen.simulate_skr(skrgen.honest_request(rid, t0, n, zs, zskpol, sign=False), SCHEMA, KSKS, ksrxml.default_zsk_policy())


zskpol = ksrxml.default_zsk_policy()
SK_A, SK_B = prev_skr_at(T0, "prev-req-a", 2, zskpol), prev_skr_at(T0 + D(days=40), "prev-req-b", 2, zskpol)
for rnd in range(2):
    for cur, other, tag in ((SK_A, SK_B, "a"), (SK_B, SK_A, "b")):
        verdict_case("previous-skr-replaced", successor(cur, zskpol, n=2, rid=f"next-{tag}{rnd}"), ksrxml.render_skr(cur), 2, 2, expect="OK")
        verdict_case("previous-skr-replaced-stale-successor", successor(other, zskpol, n=2, rid=f"stale-{tag}{rnd}"), ksrxml.render_skr(cur), 2, 2, expect="not-OK")

# the clock is read when the upload arrives, not when the receiver was started: KSRs for a later year, judged at that time
HZ = {"signature_check_expire_horizon": True, "signature_horizon_days": 180}
_now0 = NOW
for year in (2027, 2030):
    t0 = dt.datetime(year, 1, 1, tzinfo=UTC)
    skf = prev_skr_at(t0, f"prev-{year}", 2, zskpol)
    okf = successor(skf, zskpol, n=2, rid=f"next-{year}")
    last_exp = okf["bundles"][-1]["exp"]
    for now_, exp_ in ((t0 + D(days=15), "OK"), (last_exp - D(seconds=1), None), (last_exp + D(days=1), "not-OK"), (last_exp - D(days=181), "not-OK")):
        NOW = now_
        verdict_case("clock-at-upload", okf, ksrxml.render_skr(skf), 2, 2, extra_policy=HZ, expect=exp_)
NOW = _now0

for rnd in range(3 if not THOROUGH else 12):
    zskpol = ksrxml.default_zsk_policy()
    n_prev, n = R.choice([2, 3, 9]), R.choice([2, 3])
    skr = prev_skr(n_prev, zskpol)
    sdoc = ksrxml.render_skr(skr)
    lastb = skr["bundles"][-1]
    pub = [k for k in lastb["keys"] if k["flags"] == 256]
    ok = successor(skr, zskpol, n=n)
    enc = lambda q: q
    raw = lambda q: ksrxml.render_ksr(q).encode()
    verdict_case("honest", enc(ok), sdoc, n, n_prev, expect="OK")
    verdict_case("honest-no-previous-configured", enc(ok), None, n, n_prev, with_prev=False)
    verdict_case("replayed-request-id", enc(successor(skr, zskpol, n=n, rid=skr["id"])), sdoc, n, n_prev)
    rep_ = successor(skr, zskpol, n=n, rid=skr["id"])
    rep_ = dict(rep_, bundles=[dict(b, id=f"fresh-{rnd}-{j}") for j, b in enumerate(rep_["bundles"])])
    verdict_case("replayed-request-id-fresh-bundle-ids", enc(rep_), sdoc, n, n_prev)
    verdict_case("replayed-request-id-other-serial", enc(dict(rep_, serial=7)), sdoc, n, n_prev)
    k = successor(skr, zskpol, n=n)
    k["bundles"][R.randrange(n)]["id"] = skr["bundles"][R.randrange(n_prev)]["id"]
    verdict_case("replayed-bundle-id", enc(k), sdoc, n, n_prev)
    verdict_case("replayed-request-id-no-previous", enc(successor(skr, zskpol, n=n, rid=skr["id"])), None, n, n_prev, with_prev=False)
    for ov in (D(days=8, hours=23), D(days=9), D(days=12), D(days=12, seconds=1)):
        verdict_case("chain-overlap", enc(successor(skr, zskpol, n=n, overlap=ov)), sdoc, n, n_prev)
    # the receiver may run on a host in any time zone; the KSR's timestamps are UTC however they are written
    for tz_, sfx in (("JST-9", ""), ("PST8", ""), ("PST8", "Z"), ("IST-5:30", "+00:00"), ("UTC", "")):
        for ov in (D(days=8, hours=16), D(days=9), D(days=9, hours=6), D(days=11, hours=18), D(days=12), D(days=12, hours=8)):
            verdict_case("chain-overlap-zone-" + tz_, enc(successor(skr, zskpol, n=n, overlap=ov, rid=f"z-{rnd}-{tz_}-{ov.total_seconds():.0f}")), sdoc, n, n_prev,
                         expect="OK" if zskpol["min_overlap"] <= ov <= zskpol["max_overlap"] else "not-OK", zone=(tz_, sfx))
    # a ZSK policy declaring the same RSA algorithm and size with several exponents (all approved): the keys fit one of the entries, whichever is listed or iterated first
    if rnd == 0:
        for other_e in (3, 17, 5, 257, 2**32 + 1, 65539):
            for order in (0, 1):
                algs_ = [("RSA", 8, 1024, 65537), ("RSA", 8, 1024, other_e)][::1 if order == 0 else -1]
                zp2 = ksrxml.default_zsk_policy(algs=algs_)
                skr2 = prev_skr(n_prev, zp2)
                verdict_case("two-declared-exponents", enc(successor(skr2, zp2, n=n, rid=f"exp-{other_e}-{order}")), ksrxml.render_skr(skr2), n, n_prev,
                             extra_policy={"rsa_approved_exponents": [65537, other_e]}, expect="OK")
    verdict_case("chain-keys-disjoint", enc(successor(skr, zskpol, n=n, first_keys=[ZSKS[3]])), sdoc, n, n_prev)
    verdict_case("chain-keys-subset", enc(successor(skr, zskpol, n=n, first_keys=pub[:1])), sdoc, n, n_prev)
    # other key material under the identifiers the previous SKR published (tag, proof of possession and all in order): not the published keys
    fk_ = [dict(ZSKS[3], id=pub[0]["id"])] + pub[1:]
    verdict_case("chain-keys-same-identifier-other-key", enc(successor(skr, zskpol, n=n, first_keys=fk_)), sdoc, n, n_prev, expect="not-OK",
                 shape=([len(fk_)] + [1] * (n - 1), len({k["pub"] for k in fk_})))
    verdict_case("chain-keys-disjoint", enc(successor(skr, zskpol, n=n, first_keys=[ZSKS[3]], rid=f"dj-{rnd}")), sdoc, n, n_prev, expect="not-OK")
    verdict_case("bundle-count", enc(ok), sdoc, n + 1, n_prev, shape=(shape_of(ok)[0] + [1], 2))
    bad = copy.deepcopy(ok)
    sd = bytearray(bad["bundles"][0]["sigs"][0]["data"])
    sd[5] ^= 4
    bad["bundles"][0]["sigs"][0]["data"] = bytes(sd)
    verdict_case("proof-of-possession-broken", enc(bad), sdoc, n, n_prev)
    verdict_case("proof-of-possession-broken-not-checked", enc(bad), sdoc, n, n_prev, extra_policy={"validate_signatures": False})
    verdict_case("wrong-domain", enc(dict(ok, domain="example")), sdoc, n, n_prev)
    longv = skrgen.honest_request("next-req", lastb["exp"] - D(days=11), n, [pub] + [[pub[-1]]] * (n - 1), zskpol, validity=D(days=25))
    verdict_case("signature-validity", enc(longv), sdoc, n, n_prev)
    verdict_case("horizon", enc(ok), sdoc, n, n_prev, extra_policy={"signature_horizon_days": 30, "signature_check_expire_horizon": True})
    if rnd == 0:
        for size_, tail_ in ((1024 * 1024 + 1, b""), (1024 * 1024 + 4096, b""), (1024 * 1024, b"\n<junk>" + b"x" * 65000 + b"</junk>")):
            body_ = raw(ok)
            big_ = body_ + b"\n" * (size_ - len(body_)) + tail_
            verdict_case("beyond-loader-size-cap", big_, sdoc, n, n_prev, shape=shape_of(ok), expect="not-OK")
    verdict_case("truncated-xml", raw(ok)[: len(raw(ok)) // 2], sdoc, n, n_prev, shape=shape_of(ok))
    verdict_case("not-xml", b"hello", sdoc, n, n_prev, shape=shape_of(ok))
    verdict_case("previous-skr-wrong-count", enc(ok), sdoc, n, n_prev + 1)
    verdict_case("previous-skr-missing-file", enc(ok), None, n, n_prev)
    tam = copy.deepcopy({**skr, "bundles": [dict(b, sigs=[dict(s) for s in b["sigs"]]) for b in skr["bundles"]]})
    sd = bytearray(tam["bundles"][-1]["sigs"][0]["data"])
    sd[7] ^= 1
    tam["bundles"][-1]["sigs"][0]["data"] = bytes(sd)
    verdict_case("previous-skr-bad-signature", enc(ok), ksrxml.render_skr(tam), n, n_prev)
    verdict_case("chain-checks-disabled", enc(successor(skr, zskpol, n=n, overlap=D(days=20), first_keys=[ZSKS[3]])), sdoc, n, n_prev,
                 extra_policy={"check_chain_keys": False, "check_chain_overlap": False})

vp.datetime = dt.datetime
ok_build, blog = vlib.make(["Checks/C20Check.vo"])
runner = vlib.CaseRun("C20", "main", "From KV Require Import Base.Prelude Base.Exn Model.Data Model.KsrPolicy Model.Chain Model.Wksr Checks.C06Check Checks.C20Check.",
                      "case", "check", shard=40)
results = runner.run(cases) if ok_build else [-1] * len(cases)
vlib.classify(rep, props, meta, results, cases, runner, "Checks.C20Check.check (save_ksr / dispatch / validate_ksr)")
runner.cleanup()
shutil.rmtree(WORK, ignore_errors=True)
rep.coverage.update({
    "evaluations": len(cases), "distinct_nontrivial": len(set(cases)),
    "rule": "save_ksr called directly (stub web framework) with 42 hand-picked client file names (separators, dot-dot, absolute, NUL, backslash, shell and URL "
            "metacharacters, full-width / Cyrillic / CJK / Arabic-Indic / Kelvin-sign / surrogate-adjacent code points, 200-300 character names, None, non-string) "
            "and random names over an 18-symbol alphabet, 8 content types x 2 configured types, sizes None/0/max-1/max/max+1/huge for three limits, binary bodies; "
            "every run watches a directory tree around the upload directory for any file created elsewhere and records open() calls; "
            "ClientCertificateWhitelist.dispatch with four real X.509 certificates, absent / empty / truncated / padded DER, whitelists empty / listing / upper-case / "
            "one-digit-off / prefix, and a transport without TLS; validate_ksr on stored KSR files from the C05/C06/C08 generators (honest, replayed ids, chain "
            "overlap on both bounds, chain key sets, bundle count, broken proof of possession, domain, validity, horizon, truncated and non-XML bodies, previous SKR "
            "missing / wrong count / bad signature / not configured) compared with load_ksr + check_skr_and_ksr(p11modules=None) called directly",
    "distribution": hist, "samples": [dict(kind=m["kind"], **{k: str(v)[:300] for k, v in m["desc"].items()}) for m in meta[:: max(1, len(meta) // 6)]][:6],
})
rep.assumptions += ["fastapi/starlette are absent: lib/webstubs.py provides inert stand-ins for the imported names; HTTP routing, TLS and how an exception in the middleware becomes "
                    "a response are not modelled",
                    "the previous SKR's load result and the parse of the stored file are inputs of the verdict model (their correctness is C09/C11/C12/C13's subject); "
                    "validate_request and check_skr_and_ksr are the models of C05/C06/C08",
                    "a stored name longer than the file system allows makes open() fail: the attempted path is compared with the model's path and no file may appear anywhere",
                    "SHA-256 fingerprints and DER parsing are parameters of the whitelist model (values supplied from hashlib / cryptography)"]
sys.exit(rep.finish())
