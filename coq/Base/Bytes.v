(* Octet strings as list Z; big-endian packing; lexicographic order; canonical sort. *)
From KV Require Import Base.Prelude.
From Coq Require Import Sorting.Sorted Sorting.Permutation.

Definition byte (b : Z) : Prop := 0 <= b < 256.
Definition bytes (l : list Z) : Prop := Forall byte l.
Definition byteb (b : Z) : bool := (0 <=? b) && (b <? 256).
Definition bytesb (l : list Z) : bool := forallb byteb l.

Lemma bytesb_spec l : bytesb l = true <-> bytes l.
Proof.
  unfold bytesb, bytes. rewrite forallb_forall, Forall_forall.
  split; intros H x Hx; specialize (H x Hx); unfold byteb, byte in *; lia.
Qed.

Definition len (l : list Z) : Z := Z.of_nat (length l).

(* struct.pack("!B"/"!H"/"!I"): value out of range raises struct.error (modelled by callers) *)
Definition pack1 (v : Z) : list Z := [v mod 256].
Definition pack2 (v : Z) : list Z := [(v / 256) mod 256; v mod 256].
Definition pack4 (v : Z) : list Z :=
  [(v / 16777216) mod 256; (v / 65536) mod 256; (v / 256) mod 256; v mod 256].
Definition in_u8 (v : Z) : bool := (0 <=? v) && (v <? 256).
Definition in_u16 (v : Z) : bool := (0 <=? v) && (v <? 65536).
Definition in_u32 (v : Z) : bool := (0 <=? v) && (v <? 4294967296).

(* int.from_bytes(b, "big") *)
Definition be_acc (acc : Z) (b : Z) : Z := acc * 256 + b.
Definition from_be (l : list Z) : Z := fold_left be_acc l 0.

(* minimal big-endian encoding of n > 0 in exactly k octets: int.to_bytes(n, k, "big") *)
Fixpoint to_be (k : nat) (n : Z) : list Z :=
  match k with
  | O => []
  | S k' => to_be k' (n / 256) ++ [n mod 256]
  end.

(* number of octets needed: ceil(bit_length(n)/8) *)
Fixpoint byte_len_fuel (fuel : nat) (n : Z) : nat :=
  match fuel with
  | O => O
  | S f => if n <=? 0 then O else S (byte_len_fuel f (n / 256))
  end.
Definition byte_len (n : Z) : nat := byte_len_fuel (Z.to_nat (Z.log2 n + 2)) n.

(* Lexicographic comparison of octet strings = Python's bytes ordering *)
Fixpoint lex_le (a b : list Z) : bool :=
  match a, b with
  | [], _ => true
  | _ :: _, [] => false
  | x :: a', y :: b' => if x <? y then true else if y <? x then false else lex_le a' b'
  end.

Lemma lex_le_total a b : lex_le a b = true \/ lex_le b a = true.
Proof.
  revert b; induction a as [|x a IH]; intros [|y b]; cbn; auto.
  destruct (x <? y) eqn:E1, (y <? x) eqn:E2; auto; try lia.
Qed.

Lemma lex_le_antisym a b : lex_le a b = true -> lex_le b a = true -> a = b.
Proof.
  revert b; induction a as [|x a IH]; intros [|y b]; cbn; auto; try discriminate.
  destruct (x <? y) eqn:E1, (y <? x) eqn:E2; try lia; try discriminate.
  intros H1 H2. assert (x = y) by lia. subst. f_equal. auto.
Qed.

Lemma lex_le_trans a b c : lex_le a b = true -> lex_le b c = true -> lex_le a c = true.
Proof.
  revert b c; induction a as [|x a IH]; intros [|y b] [|z c]; cbn; auto; try discriminate.
  destruct (x <? y) eqn:E1, (y <? x) eqn:E2, (y <? z) eqn:E3, (z <? y) eqn:E4,
           (x <? z) eqn:E5, (z <? x) eqn:E6; try lia; try discriminate; auto.
  apply IH.
Qed.

Lemma lex_le_refl a : lex_le a a = true.
Proof. destruct (lex_le_total a a); auto. Qed.

(* insertion sort = sorted(list_of_bytes) as far as the result is concerned *)
Fixpoint insert (x : list Z) (l : list (list Z)) : list (list Z) :=
  match l with
  | [] => [x]
  | y :: t => if lex_le x y then x :: l else y :: insert x t
  end.
Definition sort_bytes (l : list (list Z)) : list (list Z) := fold_right insert [] l.

Definition lexR (a b : list Z) : Prop := lex_le a b = true.

Lemma insert_perm x l : Permutation (x :: l) (insert x l).
Proof.
  induction l as [|y t IH]; cbn; auto.
  destruct (lex_le x y); auto.
  eapply perm_trans; [apply perm_swap|]. apply perm_skip; exact IH.
Qed.

Lemma sort_perm l : Permutation l (sort_bytes l).
Proof.
  induction l as [|x l IH]; cbn; auto.
  eapply perm_trans; [apply perm_skip; exact IH|]. apply insert_perm.
Qed.

Lemma insert_sorted x l : StronglySorted lexR l -> StronglySorted lexR (insert x l).
Proof.
  induction l as [|y t IH]; cbn; intros H.
  - constructor; [constructor|constructor].
  - inversion H as [|? ? Hs Hf]; subst.
    destruct (lex_le x y) eqn:E.
    + constructor; [exact H|]. constructor; [exact E|].
      eapply Forall_impl; [|exact Hf]. intros z Hz. eapply lex_le_trans; eauto.
    + constructor; [apply IH; exact Hs|].
      assert (Hyx : lexR y x) by (destruct (lex_le_total x y); [congruence|assumption]).
      eapply Permutation_Forall; [apply insert_perm|]. constructor; assumption.
Qed.

Lemma sort_sorted l : StronglySorted lexR (sort_bytes l).
Proof. induction l; cbn; [constructor|apply insert_sorted; assumption]. Qed.

(* Two strongly sorted permutations of each other are equal (antisymmetric order). *)
Lemma sorted_perm_eq l1 : forall l2,
  StronglySorted lexR l1 -> StronglySorted lexR l2 -> Permutation l1 l2 -> l1 = l2.
Proof.
  induction l1 as [|x l1 IH]; intros l2 H1 H2 P.
  - apply Permutation_nil in P; auto.
  - destruct l2 as [|y l2]; [apply Permutation_sym, Permutation_nil in P; discriminate|].
    inversion H1 as [|? ? S1 F1]; inversion H2 as [|? ? S2 F2]; subst.
    assert (x = y).
    { assert (Ix : In x (y :: l2)) by (eapply Permutation_in; [exact P|left; reflexivity]).
      assert (Iy : In y (x :: l1)) by (eapply Permutation_in; [apply Permutation_sym; exact P|left; reflexivity]).
      destruct Ix as [->|Ix]; auto. destruct Iy as [->|Iy]; auto.
      rewrite Forall_forall in F1, F2. apply lex_le_antisym; [apply F1; exact Iy|apply F2; exact Ix]. }
    subst. f_equal. apply IH; auto. eapply Permutation_cons_inv; exact P.
Qed.

Theorem sort_bytes_perm_invariant l1 l2 : Permutation l1 l2 -> sort_bytes l1 = sort_bytes l2.
Proof.
  intros P. apply sorted_perm_eq; try apply sort_sorted.
  eapply perm_trans; [apply Permutation_sym, sort_perm|].
  eapply perm_trans; [exact P|apply sort_perm].
Qed.

(* Characterisation: sort_bytes l is THE canonical ordering of l. *)
Theorem sort_bytes_unique l s :
  Permutation l s -> StronglySorted lexR s -> s = sort_bytes l.
Proof.
  intros P S. apply sorted_perm_eq; auto using sort_sorted.
  eapply perm_trans; [apply Permutation_sym; exact P|apply sort_perm].
Qed.
