(* Exception classes of the implementation, numbered. The harness reads this file
   to map Python exception class names to these numbers (lib/vlib.py: exn_table). *)
From Coq Require Import ZArith.
Open Scope Z_scope.
(* generic *)
Definition ValueError : Z := 1.
Definition RuntimeError : Z := 2.
Definition TypeError : Z := 3.
Definition KeyError : Z := 4.
Definition IndexError : Z := 5.
Definition NotImplementedError : Z := 6.
Definition StructError : Z := 7.          (* struct.error *)
Definition ValidationError : Z := 8.      (* pydantic *)
Definition ConfigurationError : Z := 9.
Definition InvalidSignature : Z := 10.
Definition AssertionError : Z := 11.
Definition OverflowError : Z := 12.
Definition UnicodeDecodeError : Z := 13.
Definition AttributeError : Z := 14.
Definition BinasciiError : Z := 15.       (* binascii.Error *)
Definition RecursionError : Z := 16.
Definition FileNotFoundError : Z := 17.
Definition PyKCS11Error : Z := 18.
Definition OtherError : Z := 19.
(* policy violations *)
Definition PolicyViolation : Z := 100.
Definition KSR_PolicyViolation : Z := 101.
Definition KSR_POLICY_KEYS_Violation : Z := 102.
Definition KSR_POLICY_ALG_Violation : Z := 103.
Definition KSR_POLICY_SIG_OVERLAP_Violation : Z := 104.
Definition KSR_POLICY_SIG_VALIDITY_Violation : Z := 105.
Definition KSR_POLICY_SIG_HORIZON_Violation : Z := 106.
Definition KSR_POLICY_BUNDLE_INTERVAL_Violation : Z := 107.
Definition KSR_POLICY_SAFETY_Violation : Z := 108.
Definition KSR_BundleViolation : Z := 110.
Definition KSR_BUNDLE_KEYS_Violation : Z := 111.
Definition KSR_BUNDLE_POP_Violation : Z := 112.
Definition KSR_BUNDLE_UNIQUE_Violation : Z := 113.
Definition KSR_BUNDLE_COUNT_Violation : Z := 114.
Definition KSR_BUNDLE_CYCLE_DURATION_Violation : Z := 115.
Definition KSR_HeaderPolicyViolation : Z := 120.
Definition KSR_ID_Violation : Z := 121.
Definition KSR_DOMAIN_Violation : Z := 122.
Definition KSR_CHAIN_Violation : Z := 130.
Definition KSR_CHAIN_KEYS_Violation : Z := 131.
Definition KSR_CHAIN_OVERLAP_Violation : Z := 132.
Definition InvalidSignatureViolation : Z := 140.
Definition KeyUsagePolicy_Violation : Z := 141.
Definition CreateSignatureError : Z := 150.
Definition SKR_VERIFY_Failure : Z := 151.
