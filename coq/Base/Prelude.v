(* Common header: Z arithmetic, lists, booleans, lia able to decide boolean models. *)
From Coq Require Export ZArith List Bool Lia ZifyBool.
Export ListNotations.
Global Open Scope Z_scope.
Ltac Zify.zify_post_hook ::= Z.to_euclidean_division_equations.

(* Result type of every model function: Python exceptions are values. *)
Inductive res (A : Type) : Type :=
| OK (a : A)
| Raise (cls : Z).   (* exception class, numbered by Base/Exn.v *)
Arguments OK {A} a.
Arguments Raise {A} cls.

Definition bind {A B} (r : res A) (f : A -> res B) : res B :=
  match r with OK a => f a | Raise c => Raise c end.
Definition seq {A} (r : res unit) (k : res A) : res A := bind r (fun _ => k).
Notation "r >>> k" := (seq r k) (at level 62, right associativity).

Definition guard (cls : Z) (violated : bool) : res unit :=
  if violated then Raise cls else OK tt.

Definition is_ok {A} (r : res A) : bool := match r with OK _ => true | _ => false end.

Fixpoint for_each {A} (f : A -> res unit) (l : list A) : res unit :=
  match l with
  | [] => OK tt
  | x :: t => f x >>> for_each f t
  end.

Lemma for_each_ok_iff {A} (f : A -> res unit) l :
  for_each f l = OK tt <-> forall x, In x l -> f x = OK tt.
Proof.
  induction l as [|a l IH]; cbn [for_each].
  - split; [intros _ x []| reflexivity].
  - unfold seq, bind. destruct (f a) as [[]|c] eqn:E.
    + rewrite IH. split.
      * intros H x [<-|Hx]; auto.
      * intros H x Hx; apply H; right; exact Hx.
    + split; [discriminate|]. intros H. specialize (H a (or_introl eq_refl)). congruence.
Qed.

Lemma guard_ok_iff cls b : guard cls b = OK tt <-> b = false.
Proof. unfold guard; destruct b; split; congruence. Qed.

Lemma bind_ok_iff {A} (r : res unit) (k : res A) v :
  (r >>> k) = OK v <-> r = OK tt /\ k = OK v.
Proof. unfold seq, bind; destruct r as [[]|c]; split; [auto| tauto | discriminate | intros [H _]; discriminate]. Qed.

(* Adjacent pairs of a list: [(x0,x1); (x1,x2); ...] *)
Fixpoint adjacent {A} (l : list A) : list (A * A) :=
  match l with
  | x :: ((y :: _) as t) => (x, y) :: adjacent t
  | _ => []
  end.

Definition unit_res_eqb (a b : res unit) : bool :=
  match a, b with
  | OK _, OK _ => true
  | Raise x, Raise y => Z.eqb x y
  | _, _ => false
  end.

(* a match on the literal 4 is an equality test *)
Lemma match4 {A} (a : Z) (x y : A) :
  (match a with 4 => x | _ => y end) = if a =? 4 then x else y.
Proof.
  destruct a as [|p|p]; try reflexivity.
  destruct p as [p|p|]; try reflexivity. destruct p as [p|p|]; try reflexivity.
  destruct p; reflexivity.
Qed.

