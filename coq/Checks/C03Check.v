From KV Require Import Base.Prelude Base.Exn Base.Bytes Model.Data Model.Keymaster Model.Pipeline.

Definition stage_num (s : stage) : Z :=
  match s with SConfig => 0 | SSchema => 1 | SLoadPrev => 2 | SKsrName => 3 | SLoadKsr => 4 | SInit => 5 | SChain => 6 | SPrompt => 7 | SSign => 8 | SSafety => 9 | SWrite => 10 end.
Fixpoint zs_eqb (a b : list Z) : bool :=
  match a, b with [], [] => true | x :: a', y :: b' => (x =? y) && zs_eqb a' b' | _, _ => false end.
Definition result_eqb (a b : result) : bool :=
  match a, b with RTrue, RTrue => true | RFalse, RFalse => true | RRaise x, RRaise y => x =? y | _, _ => false end.

(* observed: the sequence of stage functions called (numbers) and the result; env: the outcome each called stage had *)
Definition case : Type := (Env * list Z * result * Z)%type.
Definition check (c : case) : Z :=
  let '(e, trace, r, status) := c in
  let '(mt, mr) := run e in
  if zs_eqb (map stage_num mt) trace && result_eqb mr r && ((status <? 0) || (exit_status mr =? status)) then 0 else 1.
