From KV Require Import Base.Prelude Base.Exn Base.Bytes Model.Data Model.KsrPolicy.

(* case: pinned clock, policy, request with bundles in DOCUMENT order, implementation verdict *)
Definition case : Type := (Z * ReqPolicy * Request * res unit)%type.

Definition sorted_request (r : Request) : Request :=
  mkRequest (rq_id r) (rq_serial r) (rq_domain r) (rq_zsk r) (sort_bundles (rq_bundles r)).

Definition check (c : case) : Z :=
  let '(now, p, r, impl) := c in
  if unit_res_eqb (timing_checks now p (sorted_request r)) impl then 0 else 1.
