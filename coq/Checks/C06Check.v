From KV Require Import Base.Prelude Base.Exn Base.Bytes Model.Data Model.Wire Model.KsrPolicy Checks.C14Check.

(* oracle rows: (signature handle = s_datatxt, reference signature data, verdict of the crypto library
   for the bundle's key named by the signature over that data) *)
Definition row : Type := (text * list Z * bool)%type.
Definition oracle (rows : list row) (key : Key) (s : Sig) (tbs : list Z) : bool :=
  match find (fun r => text_eqb (fst (fst r)) (s_datatxt s)) rows with
  | Some (_, ref, verdict) => lz_eqb tbs ref && verdict
  | None => false
  end.

Definition case : Type := (Z * ReqPolicy * Request * list row * bool * res unit)%type.

Definition check (c : case) : Z :=
  let '(now, p, r, rows, strict, impl) := c in
  let m := validate_request (oracle rows) now p r in
  if strict then (if unit_res_eqb m impl then 0 else 1)
  else (if Bool.eqb (is_ok m) (is_ok impl) then 0 else 1).
