From KV Require Import Base.Prelude Base.Exn Base.Bytes Model.Data Model.KsrPolicy Model.Chain.

Definition assoc_lookup (tbl : list (text * res (option (option text)))) : Lookup :=
  fun label => match find (fun e => text_eqb (fst e) label) tbl with
               | Some (_, r) => r
               | None => OK None
               end.

(* strict = compare the exception class too (false when set iteration order may pick another first failure) *)
Definition case : Type :=
  (ReqPolicy * Request * Response * option (list (text * res (option (option text)))) * bool * res unit)%type.

Definition check (c : case) : Z :=
  let '(p, ksr, skr, tok, strict, impl) := c in
  let m := check_skr_and_ksr p ksr skr (option_map assoc_lookup tok) in
  if strict then (if unit_res_eqb m impl then 0 else 1)
  else (if Bool.eqb (is_ok m) (is_ok impl) then 0 else 1).

Definition case9 : Type := (ReqPolicy * Response * Response * res unit)%type.
Definition check9 (c : case9) : Z :=
  let '(p, last_skr, new_skr, impl) := c in
  if unit_res_eqb (check_last_skr_and_new_skr p last_skr new_skr) impl then 0 else 1.
