From Coq Require Import String.
From KV Require Import Base.Prelude Base.Exn Base.Bytes Model.Data Model.Wire Model.KsrPolicy Model.Chain Model.Token Model.Sign Model.History Model.SchemaTable
  Checks.C14Check Checks.SignCheck.
From KV Require Gen.Schemas.

(* one ceremony on the real tools: configuration, the previous SKR as the loader read it from the file the previous ceremony wrote,
   the clock, schema, KSR, token and oracle tables; impl = bundles of the SKR written, or the exception class *)
Definition ceremony_case : Type :=
  (ReqPolicy * Z * bool * Z * KskKeys * SigPolicy * option Response * Z * Schema * Request * list Module * oracles * bool * res (list Bundle))%type.

Definition check_ceremony (c : ceremony_case) : Z :=
  let '(p, resp_num, validate, ttl, kks, ksk, prev, now, schema, ksr, ms, o, strict, impl) := c in
  let bs := or_blobs o in
  let cfg := mkConfig p resp_num validate ttl dot kks ksk in
  let st := mkStepIn now schema ksr ms (Some (token_view ms)) in
  match ceremony (H_of bs (or_H o)) (token_of bs (or_T o)) (verify_of bs (or_V o)) (ds_of bs (or_D o)) cfg prev st, impl with
  | OK a, OK b => if bundles_same (rs_bundles a) b then 0 else 1
  | Raise x, Raise y => if strict then (if x =? y then 0 else 1) else 0
  | _, _ => 1
  end.

(* which example schema was accepted after which (honest KSR, chain in order): the identifier rules of SchemaTable decide *)
Definition schema_named (n : string) : Schema :=
  match find (fun e => String.eqb (fst e) n) Gen.Schemas.example_schemas with Some (_, s) => s | None => [] end.

Inductive case :=
| CCeremony (c : ceremony_case)
| CFollows (prev next : string) (accepted : bool).

Definition check (c : case) : Z :=
  match c with
  | CCeremony cc => check_ceremony cc
  | CFollows a b acc => if Bool.eqb (follows 2 (schema_named a) (schema_named b)) acc then 0 else 1
  end.
