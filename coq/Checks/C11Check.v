From KV Require Import Base.Prelude Base.Exn Base.Bytes Model.Data Model.Duration.

Inductive case :=
| CPrint (n : Z) (impl : text)                 (* timedelta_to_duration(timedelta(seconds=n)) *)
| CParse (s : text) (impl : res Z).            (* duration_to_timedelta(s) in whole seconds *)

Definition check (c : case) : Z :=
  match c with
  | CPrint n impl => if text_eqb (timedelta_to_duration n) impl then 0 else 1
  | CParse s impl =>
      match duration_to_timedelta s, impl with
      | OK a, OK b => if a =? b then 0 else 1
      | Raise x, Raise y => if x =? y then 0 else 1
      | _, _ => 1
      end
  end.
