From KV Require Import Base.Prelude Base.Exn Base.Bytes Model.Data Model.Duration.

Inductive case :=
| CPrint (n : Z) (impl : text)                 (* timedelta_to_duration(timedelta(seconds=n)) *)
| CParse (s : text) (impl : res Z).            (* duration_to_timedelta(s) in whole seconds *)

Definition check (c : case) : Z :=
  match c with
  | CPrint n impl => if text_eqb (timedelta_to_duration n) impl then 0 else 1
  | CParse s impl =>
      match duration_to_timedelta s, impl with
      | OK a, OK b => if a =? b then 0 else 1
      | Raise x, Raise y => if x =? y then 0 else 1
      | _, _ => 1
      end
  end.

(* ---- document level: the writer's element structure and the loader, on real SKRs ---- *)
From KV Require Import Model.Xml Model.SkrDoc Checks.SignCheck.

Fixpoint val_eqb (a b : val) {struct a} : bool :=
  match a, b with
  | VStr x, VStr y => text_eqb x y
  | VNode d1, VNode d2 =>
      (fix go (l1 l2 : list (text * val)) : bool :=
         match l1, l2 with
         | [], [] => true
         | (k1, v1) :: t1, (k2, v2) :: t2 => text_eqb k1 k2 && val_eqb v1 v2 && go t1 t2
         | _, _ => false
         end) d1 d2
  | VAttrs a1 v1, VAttrs a2 v2 =>
      (fix goa (l1 l2 : list (text * text)) : bool :=
         match l1, l2 with
         | [], [] => true
         | (k1, x1) :: t1, (k2, x2) :: t2 => text_eqb k1 k2 && text_eqb x1 x2 && goa t1 t2
         | _, _ => false
         end) a1 a2 && val_eqb v1 v2
  | VList l1, VList l2 =>
      (fix gol (x y : list val) : bool :=
         match x, y with
         | [], [] => true
         | v1 :: t1, v2 :: t2 => val_eqb v1 v2 && gol t1 t2
         | _, _ => false
         end) l1 l2
  | _, _ => false
  end.
Fixpoint dict_eqb (a b : list (text * val)) : bool :=
  match a, b with
  | [], [] => true
  | (k1, v1) :: t1, (k2, v2) :: t2 => text_eqb k1 k2 && val_eqb v1 v2 && dict_eqb t1 t2
  | _, _ => false
  end.

Definition policy_eqb (a b : SigPolicy) : bool :=
  (sp_publish_safety a =? sp_publish_safety b) && (sp_retire_safety a =? sp_retire_safety b) && (sp_max_validity a =? sp_max_validity b) &&
  (sp_min_validity a =? sp_min_validity b) && (sp_max_overlap a =? sp_max_overlap b) && (sp_min_overlap a =? sp_min_overlap b) &&
  (Nat.eqb (length (sp_algs a)) (length (sp_algs b))) &&
  forallb (fun x => existsb (fun y => match x, y with APRsa a1 b1 e1, APRsa a2 b2 e2 => (a1 =? a2) && (b1 =? b2) && (e1 =? e2) | _, _ => false end) (sp_algs b)) (sp_algs a).
Definition response_same (a b : Response) : bool :=
  text_eqb (rs_id a) (rs_id b) && (rs_serial a =? rs_serial b) && text_eqb (rs_domain a) (rs_domain b) &&
  policy_eqb (rs_ksk a) (rs_ksk b) && policy_eqb (rs_zsk a) (rs_zsk b) && bundles_same (rs_bundles a) (rs_bundles b).

(* r: the response handed to skr_to_xml (keys of each bundle in the order the writer iterates them);
   doc: what the real reader makes of the real writer's text; loaded: what the real loader returns for that text *)
Definition doc_case : Type := (Response * res (list (text * val)) * res Response)%type.
Definition check_doc (c : doc_case) : Z :=
  let '(r, doc, loaded) := c in
  match skr_val r, doc with
  | OK d, OK d' =>
      if negb (dict_eqb d d') then 1 else
      match response_of_val (fun _ => []) d', loaded with
      | OK a, OK b => if response_same a b then 0 else 2
      | Raise _, Raise _ => 0
      | _, _ => 3
      end
  | Raise x, Raise y => if x =? y then 0 else 4
  | _, _ => 5
  end.

(* ---- text level: the writer model's text is the real writer's text, and the response meets the premises of skr_file_roundtrip ---- *)
From KV Require Import Model.XmlTree Model.Shape Model.SkrText Proofs.SkrOk.
Definition text_case : Type := (Response * text)%type.
Definition nonneg_key (k : Key) : bool := (0 <=? k_tag k) && (0 <=? k_ttl k) && (0 <=? k_flags k) && (0 <=? k_proto k) && (0 <=? k_alg k).
Definition nonneg_sig (s : Sig) : bool := (0 <=? s_ttl s) && (0 <=? s_alg s) && (0 <=? s_labels s) && (0 <=? s_ottl s) && (0 <=? s_tag s).
Definition check_text (c : text_case) : Z :=
  let '(r, doc) := c in
  if negb (texts_ok r) then 2
  else if negb (rsa_only r) then 3
  else if negb ((0 <=? rs_serial r) && forallb (fun b => forallb nonneg_key (b_keys b) && forallb nonneg_sig (b_sigs b)) (rs_bundles r)) then 4
  else if text_eqb (skr_text r) doc then 0 else 1.
