(* Correspondence checker for C14: cases carry the implementation's observed outputs. *)
From KV Require Import Base.Prelude Base.Exn Base.Bytes Model.Data Model.Wire.

Fixpoint lz_eqb (a b : list Z) : bool :=
  match a, b with
  | [], [] => true
  | x :: a', y :: b' => (x =? y) && lz_eqb a' b'
  | _, _ => false
  end.
Definition res_lz_eqb (a b : res (list Z)) : bool :=
  match a, b with
  | OK x, OK y => lz_eqb x y
  | Raise x, Raise y => x =? y
  | _, _ => false
  end.
Definition res_z_eqb (a b : res Z) : bool :=
  match a, b with
  | OK x, OK y => x =? y
  | Raise x, Raise y => x =? y
  | _, _ => false
  end.
Definition code (b : bool) : Z := if b then 0 else 1.

Inductive case :=
| CKeyTag (flags proto alg : Z) (pub : list Z) (impl_rdata : res (list Z)) (impl_tag : res Z)
| CRsaEnc (e : Z) (n : list Z) (impl : res (list Z))
| CRsaDec (b : list Z) (impl : res (Z * Z * list Z))
| CTbs (s : Sig) (keys : list Key) (impl : res (list Z))
| CDs (k : Key) (impl_preimage : res (list Z))
| CRevoke (k : Key) (impl : res (Z * Z))                 (* (flags, tag) of the revoked key *)
| CEcPoint (point : list Z) (curve : Z) (impl : res (option (list Z)))
| CEcStrip (pub : list Z) (alg : Z) (impl : res (list Z))
| CEcValid (pub : list Z) (alg : Z) (impl_ok : bool)
| CEcSec1 (q : list Z) (alg : Z) (impl : list Z).

Definition check (c : case) : Z :=
  match c with
  | CKeyTag f p a pub ir it =>
      code (res_lz_eqb (key_to_rdata_raw f p a pub) ir &&
            res_z_eqb (bind (key_to_rdata_raw f p a pub) (fun r => OK (key_tag_of_rdata r))) it)
  | CRsaEnc e n impl => code (res_lz_eqb (rsa_encode e n) impl)
  | CRsaDec b impl =>
      code (match rsa_decode b, impl with
            | OK r, OK (bits, e, n) => (rsa_bits r =? bits) && (rsa_e r =? e) && lz_eqb (rsa_n r) n
            | Raise x, Raise y => x =? y
            | _, _ => false
            end)
  | CTbs s keys impl => code (res_lz_eqb (make_raw_rrsig s keys) impl)
  | CDs k impl => code (res_lz_eqb (ds_preimage dot k) impl)
  | CRevoke k impl =>
      code (match as_revoked k, impl with
            | OK k', OK (f, t) => (k_flags k' =? f) && (k_tag k' =? t)
            | Raise x, Raise y => x =? y
            | _, _ => false
            end)
  | CEcPoint point curve impl =>
      code (match p11_ec_point_to_pub point curve, impl with
            | OK None, OK None => true
            | OK (Some a), OK (Some b) => lz_eqb a b
            | Raise x, Raise y => x =? y
            | _, _ => false
            end)
  | CEcStrip pub alg impl => code (res_lz_eqb (ecdsa_without_prefix pub alg) impl)
  | CEcValid pub alg ok => code (Bool.eqb (is_ok (key_ecdsa_size_ok pub alg)) ok)
  | CEcSec1 q alg impl => code (lz_eqb (ecdsa_to_sec1 q alg) impl)
  end.
