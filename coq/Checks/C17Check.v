From KV Require Import Base.Prelude Base.Bytes Model.Data Model.Words Spec.PgpWords.
Definition case : Type := (list Z * list text)%type.
Fixpoint texts_eqb (a b : list text) : bool :=
  match a, b with
  | [], [] => true
  | x :: a', y :: b' => text_eqb x y && texts_eqb a' b'
  | _, _ => false
  end.
Definition check (c : case) : Z :=
  let '(data, impl) := c in
  if texts_eqb (pgp_wordlist standard_words data) impl &&
     match pgp_decode standard_words false impl with Some d => text_eqb d data | None => false end then 0 else 1.
