From KV Require Import Base.Prelude Base.Exn Base.Bytes Model.Data Model.Wire Model.Token Model.Sign Model.Duration Model.Datetime Model.TrustAnchor
  Checks.C14Check Checks.SignCheck.

(* all orders of a (short) list *)
Fixpoint inserts {A} (x : A) (l : list A) : list (list A) :=
  match l with
  | [] => [[x]]
  | y :: t => (x :: l) :: map (cons y) (inserts x t)
  end.
Fixpoint perms {A} (l : list A) : list (list A) :=
  match l with
  | [] => [[]]
  | x :: t => flat_map (inserts x) (perms t)
  end.
Fixpoint sorted_from (l : list KeyDigest) : bool :=
  match l with
  | a :: ((b :: _) as t) => (kd_from a <=? kd_from b) && sorted_from t
  | _ => true
  end.

Inductive case :=
| CExport (ms : list Module) (ttl : Z) (kks : KskKeys) (o : oracles) (id : text) (impl : res text)
| CEscape (s : text) (impl_escape impl_quoteattr : text)
| CFormat (us : Z) (impl : text).

Definition check (c : case) : Z :=
  match c with
  | CExport ms ttl kks o id impl =>
      match ta_entries (ds_of (or_blobs o) (or_D o)) ms ttl kks, impl with
      | OK es, OK doc =>
          (* entries with equal validFrom come out of a Python set in no particular order: any order that is sorted by validFrom is accepted *)
          if text_eqb (render_ta id ta_source dot es) doc then 0
          else if (Nat.leb (length es) 5) && existsb (fun p => sorted_from p && text_eqb (render_ta id ta_source dot p) doc) (perms es) then 0 else 1
      | Raise a, Raise b => if a =? b then 0 else 1
      | _, _ => 1
      end
  | CEscape s e q => if text_eqb (escape s) e && text_eqb (quoteattr s) q then 0 else 1
  | CFormat us t => if text_eqb (format_datetime us) t then 0 else 1
  end.
