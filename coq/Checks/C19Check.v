From KV Require Import Base.Prelude Base.Exn Base.Bytes Model.Data Model.Wire Model.Token Model.Sign Model.Keymaster Checks.C14Check Checks.SignCheck.

(* observable store: per module, per slot, the (class, label) of each object in order *)
Definition snapshot := list (list (Z * list (Z * text))).
Definition snap (st : Store) : snapshot :=
  map (fun m => map (fun s => (sl_id s, map (fun o => (o_cls o, o_label o)) (sl_objs s))) m) st.
Fixpoint objs_eqb (a b : list (Z * text)) : bool :=
  match a, b with
  | [], [] => true
  | (c1, l1) :: a', (c2, l2) :: b' => (c1 =? c2) && text_eqb l1 l2 && objs_eqb a' b'
  | _, _ => false
  end.
Fixpoint slots_eqb (a b : list (Z * list (Z * text))) : bool :=
  match a, b with
  | [], [] => true
  | (i1, o1) :: a', (i2, o2) :: b' => (i1 =? i2) && objs_eqb o1 o2 && slots_eqb a' b'
  | _, _ => false
  end.
Fixpoint snap_eqb (a b : snapshot) : bool :=
  match a, b with
  | [], [] => true
  | x :: a', y :: b' => slots_eqb x y && snap_eqb a' b'
  | _, _ => false
  end.

Inductive kop :=
| KGen (label : text) (np : text) (nr : list Z) (alg : Z) (tags : list (option Z)) (impl : res bool) (after : snapshot)
| KDel (label : text) (force : bool) (answer : text) (impl : res bool) (after : snapshot).

Definition res_bool_eqb (a b : res bool) : bool :=
  match a, b with OK x, OK y => Bool.eqb x y | Raise x, Raise y => x =? y | _, _ => false end.

Fixpoint run (st : Store) (ops : list kop) : bool :=
  match ops with
  | [] => true
  | KGen label np nr alg tags impl after :: rest =>
      match keygen_tool st label np nr alg tags with
      | OK (st', r) => res_bool_eqb r impl && snap_eqb (snap st') after && run st' rest
      | Raise c => res_bool_eqb (Raise c) impl && snap_eqb (snap st) after && run st rest
      end
  | KDel label force answer impl after :: rest =>
      let '(st', r) := key_delete st label force answer in
      res_bool_eqb r impl && snap_eqb (snap st') after && run st' rest
  end.

Definition ident_list_eqb (a b : list ident) : bool :=
  (fix go (x y : list ident) := match x, y with [], [] => true | i :: x', j :: y' => ident_eqb i j && go x' y' | _, _ => false end) a b.
Definition pairs_eqb (a b : list (ident * Z)) : bool :=
  (fix go (x y : list (ident * Z)) := match x, y with [], [] => true | (i, s) :: x', (j, t) :: y' => ident_eqb i j && (s =? t) && go x' y' | _, _ => false end) a b.
Definition inv_eqb (a b : SlotInventory) : bool :=
  (si_slot a =? si_slot b) && pairs_eqb (si_pairs a) (si_pairs b) && ident_list_eqb (si_left_pub a) (si_left_pub b) &&
  ident_list_eqb (si_left_priv a) (si_left_priv b) && ident_list_eqb (si_left_secret a) (si_left_secret b).
Fixpoint invs_eqb (a b : list SlotInventory) : bool :=
  match a, b with [], [] => true | x :: a', y :: b' => inv_eqb x y && invs_eqb a' b' | _, _ => false end.
Fixpoint invss_eqb (a b : list (list SlotInventory)) : bool :=
  match a, b with [], [] => true | x :: a', y :: b' => invs_eqb x y && invss_eqb a' b' | _, _ => false end.
Definition si_empty (si : SlotInventory) : bool :=
  match si_pairs si, si_left_pub si, si_left_priv si, si_left_secret si with [], [], [], [] => true | _, _, _, _ => false end.

Inductive case :=
| CHistory (st : Store) (ops : list kop)
  (* slots with their login flag: only logged-in slots have a session *)
| CInventory (st : list (list (Z * bool * list InvObj))) (kks : KskKeys) (o : oracles) (impl : res (list (list SlotInventory))).

Definition check (c : case) : Z :=
  match c with
  | CHistory st ops => if run st ops then 0 else 1
  | CInventory st kks o impl =>
      let vis := map (fun m => map (fun s => (fst (fst s), snd s)) (filter (fun s => snd (fst s)) m)) st in
      match inventory (ds_of (or_blobs o) (or_D o)) kks vis, impl with
      | OK m, OK i =>
          (* slots without any listed object are omitted by the implementation *)
          if invss_eqb (map (filter (fun si => negb (si_empty si))) m) i then 0 else 1
      | Raise a, Raise b => if a =? b then 0 else 1
      | _, _ => 1
      end
  end.
