From KV Require Import Base.Prelude Base.Exn Base.Bytes Model.Data Model.Wire Model.KsrPolicy Model.Chain Model.Wksr Checks.C14Check Checks.C06Check.

Definition outcome_eqb (a b : save_outcome) : bool :=
  match a, b with
  | Rejected x, Rejected y => x =? y
  | Written p c, Written q d => text_eqb p q && lz_eqb c d
  | _, _ => false
  end.
Definition res_bool_eqb (a b : res bool) : bool :=
  match a, b with OK x, OK y => Bool.eqb x y | Raise x, Raise y => x =? y | _, _ => false end.

Inductive case :=
| CSave (cfg_ctype : text) (max_size : Z) (dir : text) (ctype : option text) (size : option Z) (name : text) (contents : list Z) (now : Z) (impl : save_outcome)
  (* fingerprint / parse oracle rows: (DER octets, hex fingerprint, parses) *)
| CDispatch (rows : list (list Z * text * bool)) (whitelist : list text) (cert : option (list Z)) (impl : res bool)
| CVerdict (now : Z) (p : ReqPolicy) (prev : option (res Response)) (parsed : res Request) (rows : list row) (strict : bool) (impl : res bool).

Definition fp_of (rows : list (list Z * text * bool)) (der : list Z) : text :=
  match find (fun r => lz_eqb (fst (fst r)) der) rows with Some (_, h, _) => h | None => [] end.
Definition parses_of (rows : list (list Z * text * bool)) (der : list Z) : bool :=
  match find (fun r => lz_eqb (fst (fst r)) der) rows with Some (_, _, b) => b | None => false end.

Definition check (c : case) : Z :=
  match c with
  | CSave cc mx dir ct sz name contents now impl => if outcome_eqb (save_ksr cc mx dir ct sz name contents now) impl then 0 else 1
  | CDispatch rows wl cert impl => if res_bool_eqb (dispatch (fp_of rows) (parses_of rows) wl cert) impl then 0 else 1
  | CVerdict now p prev parsed rows strict impl =>
      let m := validate_ksr (oracle rows) now p prev parsed in
      if strict then (if res_bool_eqb m impl then 0 else 1)
      else match m, impl with OK a, OK b => if Bool.eqb a b then 0 else 1 | Raise _, Raise _ => 0 | _, _ => 1 end
  end.
