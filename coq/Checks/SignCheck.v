(* Correspondence for the signing pipeline (C01, C02, C04, C15): the model runs against the same token layout,
   configuration, schema and request; oracles are tables observed / computed by the harness. *)
From KV Require Import Base.Prelude Base.Exn Base.Bytes Model.Data Model.Wire Model.KsrPolicy Model.Token Model.Sign Checks.C14Check.

Definition blobs := list (list Z).
Definition blob (bs : blobs) (i : Z) : list Z := nth (Z.to_nat i) bs [].

(* hash rows: (hash id, blob index of data, digest) *)
Definition Hrow := (Z * Z * list Z)%type.
Definition H_of (bs : blobs) (rows : list Hrow) (h : Z) (data : list Z) : list Z :=
  match find (fun r => (fst (fst r) =? h) && lz_eqb (blob bs (snd (fst r))) data) rows with
  | Some (_, _, d) => d | None => [] end.

(* token rows: (module, slot, handle, mechanism, blob index of octets handed over, result) *)
Definition Trow := (Z * Z * Z * Z * Z * res text)%type.
Definition token_of (bs : blobs) (rows : list Trow) (k : P11Key) (mech : Z) (data : list Z) : res text :=
  match find (fun r => let '(m, s, h, me, bi, _) := r in
                       (m =? pk_module k) && (s =? pk_slot k) && (h =? pk_handle k) && (me =? mech) && lz_eqb (blob bs bi) data) rows with
  | Some (_, _, _, _, _, r) => r
  | None => Raise 0          (* the model asked the token something the implementation never did *)
  end.

(* verify rows: (public key text, algorithm, blob index of message, signature text, verdict) *)
Definition Vrow := (text * Z * Z * text * bool)%type.
Definition verify_of (bs : blobs) (rows : list Vrow) (pub : text) (alg : Z) (msg : list Z) (sig : text) : bool :=
  match find (fun r => let '(p, a, bi, s, _) := r in text_eqb p pub && (a =? alg) && lz_eqb (blob bs bi) msg && text_eqb s sig) rows with
  | Some (_, _, _, _, v) => v | None => false end.

(* DS rows: (blob index of preimage, upper-case hex digest) *)
Definition Drow := (Z * text)%type.
Definition ds_of (bs : blobs) (rows : list Drow) (pre : list Z) : text :=
  match find (fun r => lz_eqb (blob bs (fst r)) pre) rows with Some (_, h) => h | None => [] end.

Record oracles := mkOracles { or_blobs : blobs; or_H : list Hrow; or_T : list Trow; or_V : list Vrow; or_D : list Drow }.

(* canonical comparison of bundles: keys / signatures as sets (sorted by the harness; compared as multisets here) *)
Definition key_in_list (k : Key) (l : list Key) : bool := existsb (key_eqb k) l.
Definition keys_same (a b : list Key) : bool :=
  (Nat.eqb (length a) (length b)) && forallb (fun k => key_in_list k b) a && forallb (fun k => key_in_list k a) b.
Definition sig_full_eqb (a b : Sig) : bool :=
  text_eqb (s_id a) (s_id b) && (s_ttl a =? s_ttl b) && (s_type a =? s_type b) && (s_alg a =? s_alg b) && (s_labels a =? s_labels b) &&
  (s_ottl a =? s_ottl b) && (s_exp a =? s_exp b) && (s_inc a =? s_inc b) && (s_tag a =? s_tag b) && text_eqb (s_name a) (s_name b) &&
  text_eqb (s_datatxt a) (s_datatxt b).
Definition sigs_same (a b : list Sig) : bool :=
  (Nat.eqb (length a) (length b)) && forallb (fun s => existsb (sig_full_eqb s) b) a && forallb (fun s => existsb (sig_full_eqb s) a) b.
Definition bundle_same (a b : Bundle) : bool :=
  text_eqb (b_id a) (b_id b) && (b_inc a =? b_inc b) && (b_exp a =? b_exp b) && keys_same (b_keys a) (b_keys b) && sigs_same (b_sigs a) (b_sigs b).
Fixpoint bundles_same (a b : list Bundle) : bool :=
  match a, b with
  | [], [] => true
  | x :: a', y :: b' => bundle_same x y && bundles_same a' b'
  | _, _ => false
  end.

Inductive case :=
| CSign (r : Request) (schema : Schema) (ms : list Module) (ttl : Z) (sn : text) (kks : KskKeys) (validate : bool)
        (o : oracles) (strict : bool) (impl : res (list Bundle))
| CFind (ms : list Module) (label : text) (public : bool) (impl : res (option (Z * Z * Z * option text)))   (* module, slot, handle, pubkey text *)
| CFormat (hh : option bool) (pub : option text) (pubraw : list Z) (ktype : Z) (data : list Z) (alg : Z) (o : oracles) (impl : res (Z * list Z))
| CEnv (e upd : env) (impl : env).

Definition check (c : case) : Z :=
  match c with
  | CSign r schema ms ttl sn kks validate o strict impl =>
      let bs := or_blobs o in
      let m := sign_bundles (H_of bs (or_H o)) (token_of bs (or_T o)) (verify_of bs (or_V o)) (ds_of bs (or_D o)) r schema ms ttl sn kks validate in
      match m, impl with
      | OK a, OK b => if bundles_same a b then 0 else 1
      | Raise x, Raise y => if strict then (if x =? y then 0 else 1) else 0
      | _, _ => 1
      end
  | CFind ms label public impl =>
      match get_p11_key ms label public None, impl with
      | OK None, OK None => 0
      | OK (Some k), OK (Some (m, s, h, pub)) =>
          if (pk_module k =? m) && (pk_slot k =? s) && (pk_handle k =? h) &&
             match pk_pub k, pub with Some a, Some b => text_eqb a b | None, None => true | _, _ => false end then 0 else 1
      | Raise x, Raise y => if x =? y then 0 else 1
      | _, _ => 1
      end
  | CFormat hh pub pubraw ktype data alg o impl =>
      let key := mkP11Key [] ktype CKO_PRIVATE hh pub pubraw 0 0 1 in
      match format_data_for_signing (H_of (or_blobs o) (or_H o)) key data alg, impl with
      | OK (m, d), OK (m', d') => if (m =? m') && lz_eqb d d' then 0 else 1
      | Raise x, Raise y => if x =? y then 0 else 1
      | _, _ => 1
      end
  | CEnv e upd impl =>
      (* env after set + restore must be the original; and the model's own set/restore agrees *)
      let after := env_restore (env_update e upd) (env_save e upd) in
      if (Nat.eqb (length after) (length impl)) &&
         forallb (fun kv => match env_get impl (fst kv) with Some v => text_eqb v (snd kv) | None => false end) after then 0 else 1
  end.
