From KV Require Import Base.Prelude Base.Exn Base.Bytes Model.Data Model.Duration Model.Datetime Model.Xml Model.XmlTree.

(* Python-shaped view of a model value: {"attrs": {...}, "value": v} is an ordinary dict *)
Definition ATTRS : text := [97;116;116;114;115].
Definition VALUE : text := [118;97;108;117;101].
Fixpoint to_py (v : val) : val :=
  match v with
  | VStr s => VStr s
  | VNode d => VNode (map (fun kv => (fst kv, to_py (snd kv))) d)
  | VAttrs a v' => VNode [(ATTRS, VNode (map (fun kv => (fst kv, VStr (snd kv))) a)); (VALUE, to_py v')]
  | VList l => VList (map to_py l)
  end.

Fixpoint val_eqb (a b : val) : bool :=
  match a, b with
  | VStr x, VStr y => text_eqb x y
  | VNode d1, VNode d2 =>
      (fix go (l1 l2 : list (text * val)) : bool :=
         match l1, l2 with
         | [], [] => true
         | (k1, v1) :: t1, (k2, v2) :: t2 => text_eqb k1 k2 && val_eqb v1 v2 && go t1 t2
         | _, _ => false
         end) d1 d2
  | VList l1, VList l2 =>
      (fix go (l1 l2 : list val) : bool :=
         match l1, l2 with
         | [], [] => true
         | v1 :: t1, v2 :: t2 => val_eqb v1 v2 && go t1 t2
         | _, _ => false
         end) l1 l2
  | _, _ => false
  end.

Definition uni (tbl : list Z) (c : Z) : bool := existsb (Z.eqb c) tbl.

(* expected: OK (python-shaped value) | Raise class ; a time-out of the implementation is Raise 0 *)
Inductive case :=
| CParse (uniw : list Z) (xml : text) (ksr : bool) (impl : res val)
| CTag (uniw : list Z) (x : text) (impl : res (text * option (list (text * text)) * Z))
| CAttrs (uniw : list Z) (s : text) (impl : res (list (text * text)))
| CEnd (x : text) (start : Z) (name : text) (impl : res (Z * Z))
| CStrip (s : text) (impl : text)
(* a real document as a plain-form tree: the premises of reader_extracts_tree hold for it, it is the tree's serialisation, and the
   real reader returned the tree's data *)
| CTree (prolog : text) (t : tree) (doc : text) (impl : val)
(* a timestamp as KSR/SKR files write it (offset-less, Z, +00:00) and the instant (seconds since the epoch) the tool's reader made of it, in whatever
   time zone the process ran *)
| CStamp (t : text) (impl : option Z).

Definition attrs_eqb (a b : list (text * text)) : bool :=
  val_eqb (VNode (map (fun kv => (fst kv, VStr (snd kv))) a)) (VNode (map (fun kv => (fst kv, VStr (snd kv))) b)).

Definition check (c : case) : Z :=
  match c with
  | CParse uw xml ksr impl =>
      match (if ksr then parse_ksr (uni uw) xml else parse (uni uw) xml), impl with
      | Done d, OK v => if val_eqb (to_py (VNode d)) v then 0 else 1
      | Fail c1, Raise c2 => if c1 =? c2 then 0 else 1
      | OutOfFuel, Raise 0 => 0           (* implementation timed out, model ran out of fuel *)
      | _, _ => 1
      end
  | CTag uw x impl =>
      match parse_tag (uni uw) x, impl with
      | OK (n, None, e), OK (n', None, e') => if text_eqb n n' && (Z.of_nat e =? e') then 0 else 1
      | OK (n, Some raw, e), impl' =>
          match parse_attrs (uni uw) (S (length raw)) raw [], impl' with
          | Done a, OK (n', Some a', e') => if text_eqb n n' && attrs_eqb a a' && (Z.of_nat e =? e') then 0 else 1
          | Fail c1, Raise c2 => if c1 =? c2 then 0 else 1
          | OutOfFuel, Raise 0 => 0
          | _, _ => 1
          end
      | Raise c1, Raise c2 => if c1 =? c2 then 0 else 1
      | _, _ => 1
      end
  | CAttrs uw s impl =>
      match parse_attrs (uni uw) (S (length s)) s [], impl with
      | Done a, OK a' => if attrs_eqb a a' then 0 else 1
      | Fail c1, Raise c2 => if c1 =? c2 then 0 else 1
      | OutOfFuel, Raise 0 => 0
      | _, _ => 1
      end
  | CEnd x start name impl =>
      match find_end_of_element x (Z.to_nat start) name, impl with
      | OK (a, b), OK (a', b') => if (Z.of_nat a =? a') && (Z.of_nat b =? b') then 0 else 1
      | Raise c1, Raise c2 => if c1 =? c2 then 0 else 1
      | _, _ => 1
      end
  | CStrip s impl => if text_eqb (strip s) impl then 0 else 1
  | CTree prolog t doc impl =>
      if negb (wf t) then 2 else if negb (Nat.leb (height t) 5) then 3 else if negb (text_eqb (prolog ++ ser t) doc) then 4
      else if val_eqb (to_py (VNode [(tname t, val_of t)])) impl then 0 else 1
  | CStamp t impl =>
      match read_utc t, impl with
      | Some a, Some b => if a =? b then 0 else 1
      | None, None => 0
      | _, _ => 1
      end
  end.
