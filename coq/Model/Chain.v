(* Model of kskm.signer.policy (check_skr_and_ksr, check_last_skr_and_new_skr) and
   kskm.signer.verify_chain. The token is abstract: [lookup label] is what
   get_p11_key(label, public=True) returns - Raise on duplicates etc., OK None when not found,
   OK (Some None) for a key object without readable public key, OK (Some (Some pubtxt)). *)
From KV Require Import Base.Prelude Base.Exn Base.Bytes Model.Data Model.KsrPolicy.

Definition Lookup := text -> res (option (option text)).

Definition last_opt {A} (l : list A) : option A :=
  match l with [] => None | x :: _ => Some (last l x) end.

(* policy.check_unique_request / check_unique_bundle_ids *)
Definition check_unique_request (ksr : Request) (skr : Response) : res unit :=
  guard KSR_ID_Violation (text_eqb (rq_id ksr) (rs_id skr)).
Definition check_unique_bundle_ids (ksr : Request) (skr : Response) : res unit :=
  for_each (fun kb => for_each (fun sb => guard KSR_BUNDLE_UNIQUE_Violation (text_eqb (b_id kb) (b_id sb)))
                               (rs_bundles skr)) (rq_bundles ksr).

(* verify_chain.check_chain_keys: `this not in last_key_set` is whole-record equality *)
Definition key_in (k : Key) (ks : list Key) : bool := existsb (key_eqb k) ks.
Definition check_chain_keys (p : ReqPolicy) (ksr : Request) (skr : Response) : res unit :=
  if negb (p_check_chain_keys p) then OK tt else
  match last_opt (rs_bundles skr), rq_bundles ksr with
  | Some lastb, first :: _ =>
      for_each (fun k => guard KSR_CHAIN_KEYS_Violation (negb (key_in k (b_keys lastb)))) (b_keys first)
  | _, _ => Raise IndexError
  end.

(* verify_chain.check_chain_overlap *)
Definition check_chain_overlap (p : ReqPolicy) (ksr : Request) (skr : Response) : res unit :=
  if negb (p_check_chain_overlap p) then OK tt else
  match last_opt (rs_bundles skr), rq_bundles ksr with
  | Some previous, first :: _ =>
      let overlap := b_exp previous - b_inc first in
      guard KSR_CHAIN_OVERLAP_Violation (overlap <? sp_min_overlap (rq_zsk ksr)) >>>
      guard KSR_CHAIN_OVERLAP_Violation (sp_max_overlap (rq_zsk ksr) <? overlap)
  | _, _ => Raise IndexError
  end.

(* verify_chain.check_last_skr_key_present *)
Definition present_step (lookup : Lookup) (lastb : Bundle) (s : Sig) : res unit :=
  bind (lookup (s_id s)) (fun found =>
  match found with
  | Some (Some pubtxt) =>
      match find_key_by_id (s_id s) (b_keys lastb) with
      | Some key => guard KSR_CHAIN_KEYS_Violation (negb (text_eqb (k_pubtxt key) pubtxt))
      | None => Raise IndexError
      end
  | _ => Raise KSR_CHAIN_KEYS_Violation
  end).
Definition check_last_skr_key_present (p : ReqPolicy) (skr : Response) (token : option Lookup) : res unit :=
  match token with
  | None => OK tt
  | Some lookup =>
      if negb (p_check_chain_keys_in_hsm p) then OK tt else
      match last_opt (rs_bundles skr) with
      | None => Raise IndexError
      | Some lastb =>
          for_each (present_step lookup lastb) (b_sigs lastb) >>>
          guard KSR_CHAIN_KEYS_Violation (match b_sigs lastb with [] => true | _ => false end)
      end
  end.

Definition check_skr_and_ksr (p : ReqPolicy) (ksr : Request) (skr : Response) (token : option Lookup) : res unit :=
  check_unique_request ksr skr >>> check_unique_bundle_ids ksr skr >>>
  check_chain_keys p ksr skr >>> check_chain_overlap p ksr skr >>>
  check_last_skr_key_present p skr token.

(* ---------------- publish / retire safety (C09) ---------------- *)
Definition has_key_id (id : text) (ks : list Key) : bool := existsb (fun k => text_eqb (k_id k) id) ks.
Definition is_revoked (k : Key) : bool := negb (Z.land (k_flags k) FLAG_REVOKE =? 0).

Definition check_publish_safety (p : ReqPolicy) (last_skr new_skr : Response) : res unit :=
  if negb (p_check_publish_safety p) then OK tt else
  match last_opt (rs_bundles last_skr), rs_bundles new_skr with
  | Some lastb, first :: _ =>
      for_each (fun s => guard KSR_POLICY_SAFETY_Violation (negb (has_key_id (s_id s) (b_keys lastb)))) (b_sigs first) >>>
      let publish_dt := b_inc first - sp_publish_safety (rs_ksk new_skr) in
      guard KSR_POLICY_SAFETY_Violation (publish_dt <? b_inc lastb) >>>
      guard KSR_POLICY_SAFETY_Violation (b_exp lastb <? publish_dt)
  | _, _ => Raise IndexError
  end.

Fixpoint retire_later (bs : list Bundle) : res unit :=
  match bs with
  | [] => OK tt
  | cur :: rest =>
      let revoked := map k_id (filter is_revoked (b_keys cur)) in
      for_each (fun b =>
        for_each (fun s =>
          if existsb (text_eqb (s_id s)) revoked then OK tt
          else guard KSR_POLICY_SAFETY_Violation (negb (has_key_id (s_id s) (b_keys b)))) (b_sigs cur)) rest >>>
      retire_later rest
  end.

Definition check_retire_safety (p : ReqPolicy) (last_skr new_skr : Response) : res unit :=
  if negb (p_check_retire_safety p) then OK tt else
  match last_opt (rs_bundles last_skr), rs_bundles new_skr with
  | Some lastb, first :: _ =>
      let retire_at := b_inc first + sp_retire_safety (rs_ksk new_skr) in
      for_each (fun b =>
        if b_inc b <=? retire_at
        then for_each (fun s => guard KSR_POLICY_SAFETY_Violation (negb (has_key_id (s_id s) (b_keys b)))) (b_sigs lastb)
        else OK tt) (rs_bundles new_skr) >>>
      retire_later (rs_bundles new_skr)
  | _, _ => Raise IndexError
  end.

Definition check_last_skr_and_new_skr (p : ReqPolicy) (last_skr new_skr : Response) : res unit :=
  check_publish_safety p last_skr new_skr >>> check_retire_safety p last_skr new_skr.
