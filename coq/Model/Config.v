(* Model of the load-time checks of KSKMConfig.from_dict that are not pydantic's, and of the
   exit-status mapping of tools/ksrsigner.main. *)
From KV Require Import Base.Prelude Base.Exn Base.Bytes Model.Data Model.KsrPolicy.

(* KSKMConfig.from_dict, after schema validation *)
Definition config_positivity (horizon_days num_bundles num_different_keys : Z) : res unit :=
  guard ConfigurationError (horizon_days <? 1) >>>
  guard ConfigurationError (num_bundles <? 1) >>>
  guard ConfigurationError (num_different_keys <? 1).

(* how a run of main() ends *)
Inductive run_end :=
| Returned (ok : bool)            (* ksrsigner() returned True / False *)
| RaisedConfiguration             (* ConfigurationError, incl. schema-validation errors of the configuration *)
| RaisedKeyboardInterrupt
| RaisedOther.                    (* any other exception: uncaught, the interpreter exits with status 1 *)

Definition exit_status (e : run_end) : Z :=
  match e with
  | Returned true => 0
  | Returned false => 3
  | RaisedConfiguration => 2
  | RaisedKeyboardInterrupt => 1
  | RaisedOther => 1
  end.
