(* Data model shared by all models (mirrors kskm.common.data / ksr.data / skr.data). *)
From KV Require Import Base.Prelude Base.Bytes.

Definition text := list Z.   (* str as code points / ASCII *)

(* Times and durations are integer microseconds (datetime/timedelta resolution). *)
Definition usec := 1000000.
Definition day_us := 86400 * usec.

Record Key := mkKey {
  k_id : text; k_tag : Z; k_ttl : Z; k_flags : Z; k_proto : Z; k_alg : Z;
  k_pubtxt : text;          (* base64 text as it appears in the file: what == compares *)
  k_pub : list Z            (* base64.b64decode(k_pubtxt): oracle supplied by the harness *)
}.

Record Sig := mkSig {
  s_id : text; s_ttl : Z; s_type : Z; s_alg : Z; s_labels : Z; s_ottl : Z;
  s_exp : Z; s_inc : Z; s_tag : Z; s_name : text;
  s_datatxt : text; s_data : list Z
}.

Inductive AlgPolicy :=
| APRsa (alg bits exponent : Z)
| APEcdsa (alg bits : Z)
| APEddsa (alg bits : Z).

Definition ap_alg (a : AlgPolicy) : Z :=
  match a with APRsa a _ _ => a | APEcdsa a _ => a | APEddsa a _ => a end.

Record SigPolicy := mkSigPolicy {
  sp_publish_safety : Z; sp_retire_safety : Z;
  sp_max_validity : Z; sp_min_validity : Z;
  sp_max_overlap : Z; sp_min_overlap : Z;
  sp_algs : list AlgPolicy
}.

Record Bundle := mkBundle {
  b_id : text; b_inc : Z; b_exp : Z;
  b_keys : list Key; b_sigs : list Sig;
  b_signers : option (list text)
}.

Record Request := mkRequest {
  rq_id : text; rq_serial : Z; rq_domain : text;
  rq_zsk : SigPolicy; rq_bundles : list Bundle
}.

Record Response := mkResponse {
  rs_id : text; rs_serial : Z; rs_domain : text;
  rs_ksk : SigPolicy; rs_zsk : SigPolicy; rs_bundles : list Bundle
}.

(* DNSSEC algorithm numbers (cross-checked against Gen/Constants.v) *)
Definition RSAMD5 := 1. Definition DSA := 3. Definition RSASHA1 := 5.
Definition DSA_NSEC3_SHA1 := 6. Definition RSASHA1_NSEC3_SHA1 := 7.
Definition RSASHA256 := 8. Definition RSASHA512 := 10. Definition ECC_GOST := 12.
Definition ECDSAP256SHA256 := 13. Definition ECDSAP384SHA384 := 14.
Definition ED25519 := 15. Definition ED448 := 16.
Definition all_algorithms : list Z := [1;3;5;6;7;8;10;12;13;14;15;16].
Definition deprecated_algorithms : list Z := [1;3;6;12].
Definition supported_algorithms : list Z := [8;10;13;14;15;16].
Definition mem (x : Z) (l : list Z) : bool := existsb (Z.eqb x) l.
Definition is_rsa (a : Z) : bool := mem a [5;8;10].
Definition is_ecdsa (a : Z) : bool := mem a [13;14].
Definition is_eddsa (a : Z) : bool := mem a [15;16].

Definition FLAG_SEP := 1. Definition FLAG_REVOKE := 128. Definition FLAG_ZONE := 256.
Definition TYPE_DNSKEY := 48.
Definition CLASS_IN := 1.

Fixpoint text_eqb (a b : text) : bool :=
  match a, b with
  | [], [] => true
  | x :: a', y :: b' => (x =? y) && text_eqb a' b'
  | _, _ => false
  end.
Lemma text_eqb_spec a b : text_eqb a b = true <-> a = b.
Proof.
  revert b; induction a as [|x a IH]; intros [|y b]; cbn; split; try congruence; try discriminate.
  - intros H. apply andb_true_iff in H as [H1 H2]. apply Z.eqb_eq in H1. apply IH in H2. congruence.
  - intros H. injection H as -> ->. rewrite Z.eqb_refl. apply IH. reflexivity.
Qed.
Lemma text_eqb_refl a : text_eqb a a = true.
Proof. apply text_eqb_spec; reflexivity. Qed.

Definition key_eqb (a b : Key) : bool :=
  text_eqb (k_id a) (k_id b) && (k_tag a =? k_tag b) && (k_ttl a =? k_ttl b) &&
  (k_flags a =? k_flags b) && (k_proto a =? k_proto b) && (k_alg a =? k_alg b) &&
  text_eqb (k_pubtxt a) (k_pubtxt b).

Definition find_key_by_id (id : text) (ks : list Key) : option Key :=
  find (fun k => text_eqb (k_id k) id) ks.
