(* datetime.astimezone(utc).strftime("%Y-%m-%dT%H:%M:%S+00:00") on instants given as microseconds since the epoch (UTC),
   and the reader a relying party applies to the result. Proleptic Gregorian calendar as Python's datetime uses it. *)
From KV Require Import Base.Prelude Base.Bytes Model.Data Model.Duration.

(* days since 1970-01-01 -> (year, month, day) *)
Definition civil_from_days (z0 : Z) : Z * Z * Z :=
  let z := z0 + 719468 in
  let era := z / 146097 in
  let doe := z - era * 146097 in
  let yoe := (doe - doe / 1460 + doe / 36524 - doe / 146096) / 365 in
  let doy := doe - (365 * yoe + yoe / 4 - yoe / 100) in
  let mp := (5 * doy + 2) / 153 in
  let d := doy - (153 * mp + 2) / 5 + 1 in
  let m := if mp <? 10 then mp + 3 else mp - 9 in
  let y := yoe + era * 400 in
  (if m <=? 2 then y + 1 else y, m, d).

Definition days_from_civil (y m d : Z) : Z :=
  let y' := if m <=? 2 then y - 1 else y in
  let era := y' / 400 in
  let yoe := y' - era * 400 in
  let doy := (153 * (if m >? 2 then m - 3 else m + 9) + 2) / 5 + d - 1 in
  let doe := yoe * 365 + yoe / 4 - yoe / 100 + doy in
  era * 146097 + doe - 719468.

Definition pad2 (n : Z) : text := if n <? 10 then 48 :: dec n else dec n.
Definition pad4 (n : Z) : text :=
  if n <? 10 then 48 :: 48 :: 48 :: dec n else if n <? 100 then 48 :: 48 :: dec n else if n <? 1000 then 48 :: dec n else dec n.

Definition utc_suffix : text := [43; 48; 48; 58; 48; 48].          (* +00:00 *)

(* seconds since the epoch -> text *)
Definition format_seconds (s : Z) : text :=
  let days := s / 86400 in
  let r := s mod 86400 in
  let '(y, m, d) := civil_from_days days in
  pad4 y ++ [45] ++ pad2 m ++ [45] ++ pad2 d ++ [84] ++ pad2 (r / 3600) ++ [58] ++ pad2 (r mod 3600 / 60) ++ [58] ++ pad2 (r mod 60) ++ utc_suffix.

(* microseconds are dropped by %S *)
Definition format_datetime (us : Z) : text := format_seconds (us / 1000000).

(* the reader: fixed positions YYYY-MM-DDTHH:MM:SS+00:00 *)
Definition dig (c : Z) : option Z := if is_digit c then Some (c - 48) else None.
Definition num2 (a b : Z) : option Z := match dig a, dig b with Some x, Some y => Some (10 * x + y) | _, _ => None end.
Definition parse_datetime (s : text) : option Z :=
  match s with
  | [y1; y2; y3; y4; 45; m1; m2; 45; d1; d2; 84; h1; h2; 58; i1; i2; 58; s1; s2; 43; 48; 48; 58; 48; 48] =>
      match num2 y1 y2, num2 y3 y4, num2 m1 m2, num2 d1 d2, num2 h1 h2, num2 i1 i2, num2 s1 s2 with
      | Some ya, Some yb, Some m, Some d, Some h, Some i, Some sec =>
          Some (days_from_civil (100 * ya + yb) m d * 86400 + h * 3600 + i * 60 + sec)
      | _, _, _, _, _, _, _ => None
      end
  | _ => None
  end.

(* 1000-01-01T00:00:00 .. 9999-12-31T23:59:59, in seconds since the epoch: the years strftime("%Y") renders with four digits *)
Definition min_seconds : Z := days_from_civil 1000 1 1 * 86400.
Definition max_seconds : Z := days_from_civil 9999 12 31 * 86400 + 86399.

(* ---- kskm.common.parse_utils.parse_datetime on the three notations of a UTC instant that KSR and SKR files use:
   offset-less (the archived KSRs write it so), "Z", and "+00:00" (what the tools write). A zone-less value is UTC whatever zone the
   host is in; everything else datetime.fromisoformat accepts is outside this model (None). ---- *)
Definition format_body (s : Z) : text :=
  let days := s / 86400 in
  let r := s mod 86400 in
  let '(y, m, d) := civil_from_days days in
  pad4 y ++ [45] ++ pad2 m ++ [45] ++ pad2 d ++ [84] ++ pad2 (r / 3600) ++ [58] ++ pad2 (r mod 3600 / 60) ++ [58] ++ pad2 (r mod 60).

Definition read_utc (s : text) : option Z :=
  if Nat.eqb (length s) 19 then parse_datetime (s ++ utc_suffix)
  else if Nat.eqb (length s) 20 then
    match rev s with
    | 90 :: r => parse_datetime (rev r ++ utc_suffix)
    | _ => None
    end
  else parse_datetime s.
