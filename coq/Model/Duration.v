(* Model of skr/output.timedelta_to_duration and common/parse_utils.duration_to_timedelta
   (whole seconds; durations are Z seconds). *)
From KV Require Import Base.Prelude Base.Exn Base.Bytes Model.Data.
From Coq Require Import DecimalN.

(* ---- decimal printing / parsing of non-negative integers (str(n), int(digits)) ---- *)
Fixpoint chars_of_uint (u : Decimal.uint) : text :=
  match u with
  | Decimal.Nil => []
  | Decimal.D0 r => 48 :: chars_of_uint r | Decimal.D1 r => 49 :: chars_of_uint r
  | Decimal.D2 r => 50 :: chars_of_uint r | Decimal.D3 r => 51 :: chars_of_uint r
  | Decimal.D4 r => 52 :: chars_of_uint r | Decimal.D5 r => 53 :: chars_of_uint r
  | Decimal.D6 r => 54 :: chars_of_uint r | Decimal.D7 r => 55 :: chars_of_uint r
  | Decimal.D8 r => 56 :: chars_of_uint r | Decimal.D9 r => 57 :: chars_of_uint r
  end.
Definition dec (n : Z) : text := chars_of_uint (N.to_uint (Z.to_N n)).

Definition is_digit (c : Z) : bool := (48 <=? c) && (c <=? 57).
Fixpoint uint_of_chars (s : text) : Decimal.uint :=
  match s with
  | [] => Decimal.Nil
  | c :: t => let r := uint_of_chars t in
      if c =? 48 then Decimal.D0 r else if c =? 49 then Decimal.D1 r else if c =? 50 then Decimal.D2 r
      else if c =? 51 then Decimal.D3 r else if c =? 52 then Decimal.D4 r else if c =? 53 then Decimal.D5 r
      else if c =? 54 then Decimal.D6 r else if c =? 55 then Decimal.D7 r else if c =? 56 then Decimal.D8 r
      else Decimal.D9 r
  end.
Definition int_of_digits (s : text) : Z := Z.of_N (N.of_uint (uint_of_chars s)).

Fixpoint span_digits (s : text) : text * text :=
  match s with
  | c :: t => if is_digit c then let (a, b) := span_digits t in (c :: a, b) else ([], s)
  | [] => ([], [])
  end.

(* ---- skr/output.timedelta_to_duration for td = n seconds, n >= 0 ---- *)
Definition cP := 80. Definition cT := 84. Definition cW := 87. Definition cD := 68.
Definition cH := 72. Definition cM := 77. Definition cS := 83.
Definition timedelta_to_duration (n : Z) : text :=
  if n =? 0 then [cP; cT; 48; cS] else
  let days := n / 86400 in
  let secs := n mod 86400 in
  (if days =? 0 then [cP] else [cP] ++ dec days ++ [cD]) ++
  (if secs =? 0 then [] else
     let h := 3600 <? secs in
     let r1 := if h then secs mod 3600 else secs in
     let m := 60 <? r1 in
     let r2 := if m then r1 mod 60 else r1 in
     [cT] ++ (if h then dec (secs / 3600) ++ [cH] else [])
          ++ (if m then dec (r1 / 60) ++ [cM] else [])
          ++ (if r2 =? 0 then [] else dec r2 ++ [cS])).

(* ---- common/parse_utils.duration_to_timedelta ---- *)
(* the element regexp is compiled with re.DOTALL: its trailing group is the whole remainder, newlines included *)

(* int(rest) of the "trailing bare integer is seconds" step: None when int() raises ValueError.
   Exact for strings of digits; any character outside digits / '_' / sign / blanks makes int() fail. *)
Definition int_char_ok (c : Z) : bool :=
  is_digit c || (c =? 95) || (c =? 43) || (c =? 45) || (c =? 32) || ((9 <=? c) && (c <=? 13)) || ((28 <=? c) && (c <=? 31)).
Definition int_ws (c : Z) : bool := (c =? 32) || ((9 <=? c) && (c <=? 13)) || ((28 <=? c) && (c <=? 31)).
Fixpoint drop_ws (s : text) : text := match s with c :: t => if int_ws c then drop_ws t else s | [] => [] end.
(* digit (_? digit)* : Some digits-without-underscores *)
Fixpoint int_body (s : text) (prev_us : bool) (acc : text) : option text :=
  match s with
  | [] => if prev_us then None else Some (rev acc)
  | c :: t => if is_digit c then int_body t false (c :: acc)
              else if c =? 95 then (if prev_us then None else match acc with [] => None | _ => int_body t true acc end)
              else None
  end.
Definition py_int (s : text) : option Z :=
  if forallb int_char_ok s then
    let t := rev (drop_ws (rev (drop_ws s))) in
    let (neg, body) := match t with
                       | 43 :: b => (false, b)
                       | 45 :: b => (true, b)
                       | _ => (false, t)
                       end in
    match body with
    | [] => None
    | _ => match int_body body false [] with
           | Some ds => match ds with [] => None | _ => Some (if neg then - int_of_digits ds else int_of_digits ds) end
           | None => None
           end
    end
  else None.

Fixpoint dur_loop (fuel : nat) (s : text) (time_section : bool) (acc : Z) : res Z :=
  match fuel with
  | O => Raise OtherError
  | S f =>
      match s with
      | [] => OK acc
      | c0 :: t0 =>
          let ts := if c0 =? cT then true else time_section in
          let s1 := if c0 =? cT then t0 else s in
          let (digits, r) := span_digits s1 in
          match digits, r with
          | _ :: _, what :: rest0 =>
              let rest := rest0 in
              let num := int_of_digits digits in
              let step (add : Z) :=
                let acc' := acc + add in
                match py_int rest with
                | Some extra => dur_loop f [] ts (acc' + extra)
                | None => dur_loop f rest ts acc'
                end in
              if what =? cW then step (7 * 86400 * num)
              else if what =? cD then step (86400 * num)
              else if what =? cH then step (3600 * num)
              else if what =? cM then (if ts then step (60 * num) else Raise NotImplementedError)
              else if what =? cS then step num
              else Raise ValueError
          | _, _ => Raise ValueError
          end
      end
  end.

Definition duration_to_timedelta (s : text) : res Z :=
  match s with
  | [] => OK 0
  | c :: t => if c =? cP then dur_loop (S (length t)) t false 0 else Raise ValueError
  end.
