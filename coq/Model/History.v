(* Successive ceremonies: the composition of the KSR checks (C05..C07), the chain checks (C08), signing (C01/C02/C04) and the safety checks (C09),
   with the SKR a ceremony emits handed to the next one as its previous SKR. *)
From KV Require Import Base.Prelude Base.Exn Base.Bytes Model.Data Model.Wire Model.KsrPolicy Model.Chain Model.Token Model.Sign.

Section History.
  Variable Hh : Z -> list Z -> list Z.
  Variable token_sign : P11Key -> Z -> list Z -> res text.
  Variable verify : text -> Z -> list Z -> text -> bool.
  Variable ds_hex : list Z -> text.

  Record Config := mkConfig {
    c_req : ReqPolicy; c_resp_num : Z; c_validate : bool;     (* request policy; response_policy.num_bundles / validate_signatures *)
    c_ttl : Z; c_sn : text; c_kks : KskKeys; c_ksk : SigPolicy
  }.
  (* one ceremony's inputs: the clock, the schema, the KSR, what the token holds, and the token view used by the chain check *)
  Record Step := mkStepIn { s_now : Z; s_schema : Schema; s_ksr : Request; s_ms : list Module; s_lookup : option Lookup }.

  (* what the chain check sees of the token: get_p11_key(label, public=True) over the same modules *)
  Definition token_view (ms : list Module) : Lookup :=
    fun label => bind (get_p11_key ms label true None) (fun r => OK (match r with Some k => Some (pk_pub k) | None => None end)).

  (* signer.create_skr *)
  Definition create_skr (c : Config) (st : Step) : res Response :=
    bind (sign_bundles Hh token_sign verify ds_hex (s_ksr st) (s_schema st) (s_ms st) (c_ttl c) (c_sn c) (c_kks c) (c_validate c)) (fun bs =>
    OK (mkResponse (rq_id (s_ksr st)) (rq_serial (s_ksr st)) (rq_domain (s_ksr st)) (c_ksk c) (rq_zsk (s_ksr st)) bs)).

  (* load_skr on the previous file: bundle count and (when enabled) every signature *)
  Definition reload (c : Config) (r : Response) : res unit :=
    validate_response (response_verify verify) (c_resp_num c) (c_validate c) r.

  Definition ceremony (c : Config) (prev : option Response) (st : Step) : res Response :=
    (match prev with Some skr => reload c skr | None => OK tt end) >>>
    validate_request (response_verify verify) (s_now st) (c_req c) (s_ksr st) >>>
    (match prev with Some skr => check_skr_and_ksr (c_req c) (s_ksr st) skr (s_lookup st) | None => OK tt end) >>>
    bind (create_skr c st) (fun ns =>
    (match prev with Some skr => check_last_skr_and_new_skr (c_req c) skr ns | None => OK tt end) >>> OK ns).

  (* a refused ceremony leaves the previous SKR in place; an accepted one replaces it with what was just emitted *)
  Fixpoint accepted_from (c : Config) (prev : option Response) (steps : list Step) : list Response :=
    match steps with
    | [] => []
    | st :: rest =>
        match ceremony c prev st with
        | OK ns => ns :: accepted_from c (Some ns) rest
        | Raise _ => accepted_from c prev rest
        end
    end.
End History.
