(* Model of kskm.keymaster (keygen / delete / inventory) as a state machine over the token store. *)
From KV Require Import Base.Prelude Base.Exn Base.Bytes Model.Data Model.Wire Model.Token.

Definition Store := list Module.

(* keymaster.common.get_session: first logged-in slot (lowest slot id) of the first module *)
Definition min_slot (ss : list Slot) : option Slot :=
  match ss with
  | [] => None
  | s :: t => Some (fold_left (fun best x => if sl_id x <? sl_id best then x else best) t s)
  end.
Definition get_session (st : Store) : res (Z * Slot) :=
  match st with
  | [] => Raise IndexError
  | m :: _ => match min_slot (sessions m) with Some s => OK (0, s) | None => Raise RuntimeError end
  end.

Definition next_handle (s : Slot) : Z := 1 + fold_left (fun a o => Z.max a (o_handle o)) (sl_objs s) 0.

Fixpoint update_from (i : Z) (ms : list Module) (mi sid : Z) (f : Slot -> Slot) : list Module :=
  match ms with
  | [] => []
  | m :: t => (if i =? mi then map (fun s => if sl_id s =? sid then f s else s) m else m) :: update_from (i + 1) t mi sid f
  end.
Definition update_slot (st : Store) (mi : Z) (sid : Z) (f : Slot -> Slot) : Store := update_from 0 st mi sid f.

(* keygen.generate_key_from_templates: refuse an existing label (public or private object), else one new pair in the session's slot.
   [newpub]: what _p11_object_to_public_key yields for the generated key (oracle) *)
Definition label_exists (st : Store) (label : text) : res bool :=
  bind (get_p11_key st label true None) (fun a =>
  match a with
  | Some _ => OK true
  | None => bind (get_p11_key st label false None) (fun b => OK (match b with Some _ => true | None => false end))
  end).

Definition keygen (st : Store) (label : text) (newpub : text) (newraw : list Z) : res (Store * bool) :=
  bind (label_exists st label) (fun ex =>
  if ex then OK (st, false) else
  bind (get_session st) (fun ms =>
  let '(mi, s) := ms in
  let h := next_handle s in
  let pub := mkObj h CKO_PUBLIC label CKK_RSA (OK (Some newpub)) newraw in
  let prv := mkObj (h + 1) CKO_PRIVATE label CKK_RSA (OK (Some newpub)) newraw in
  OK (update_slot st mi (sl_id s) (fun s' => mkSlot (sl_id s') (sl_login_ok s') (sl_objs s' ++ [pub; prv])), true))).

(* tools.keymaster.keygen: tag collision check after generation; tags of the new key with and without REVOKE *)
Definition keygen_tool (st : Store) (label : text) (newpub : text) (newraw : list Z) (alg : Z) (ksk_tags : list (option Z)) : res (Store * res bool) :=
  bind (keygen st label newpub newraw) (fun r =>
  let '(st', created) := r in
  if negb created then OK (st', Raise RuntimeError)       (* "No public key returned by key generation" *)
  else
    match key_to_rdata_raw 257 3 alg newraw, key_to_rdata_raw 385 3 alg newraw with
    | OK r1, OK r2 =>
        let t1 := key_tag_of_rdata r1 in let t2 := key_tag_of_rdata r2 in
        if existsb (fun o => match o with Some t => (t =? t1) || (t =? t2) | None => false end) ksk_tags
        then OK (st', Raise RuntimeError)                   (* "Key tag collision detected" *)
        else OK (st', OK true)
    | _, _ => OK (st', Raise StructError)
    end).

Definition remove_handle (st : Store) (mi sid h : Z) : Store :=
  update_slot st mi sid (fun s => mkSlot (sl_id s) (sl_login_ok s) (filter (fun o => negb (o_handle o =? h)) (sl_objs s))).

(* delete.key_delete (with the session of the slot the key was found in) *)
Definition YES : text := [89; 101; 115].
Fixpoint strip_nl (s : text) : text := match s with 10 :: t => strip_nl t | _ => s end.
Definition strip_newlines (s : text) : text := rev (strip_nl (rev (strip_nl s))).
(* the store is returned in every case: an exception of the second look-up happens after the public object is already destroyed *)
Definition key_delete (st : Store) (label : text) (force : bool) (answer : text) : Store * res bool :=
  match get_p11_key st label true None with
  | Raise c => (st, Raise c)
  | OK None => (st, OK false)
  | OK (Some k) =>
      if negb force && negb (text_eqb (strip_newlines answer) YES) then (st, OK true) else
      let st1 := match pk_pub k with
                 | Some _ => remove_handle st (pk_module k) (pk_slot k) (pk_handle k)
                 | None => st
                 end in
      match get_p11_key st1 label false None with
      | Raise c => (st1, Raise c)
      | OK (Some pk) => (remove_handle st1 (pk_module pk) (pk_slot pk) (pk_handle pk), OK true)
      | OK None => (st1, OK false)
      end
  end.

(* all objects of the store, with their position (module index, slot id) *)
Definition slot_objs (i : Z) (s : Slot) : list (Z * Z * Obj) := map (fun o => (i, sl_id s, o)) (sl_objs s).
Definition module_objs (i : Z) (m : Module) : list (Z * Z * Obj) := flat_map (slot_objs i) m.
Fixpoint all_objs_from (i : Z) (ms : list Module) : list (Z * Z * Obj) :=
  match ms with
  | [] => []
  | m :: t => module_objs i m ++ all_objs_from (i + 1) t
  end.
Definition all_objs (st : Store) : list (Z * Z * Obj) := all_objs_from 0 st.

(* ---------------- inventory ---------------- *)
From KV Require Import Model.Sign.

(* What hsm.get_key_inventory sees of an object: class, label, CKA_ID (None when empty), and for a public object the result of
   _p11_object_to_public_key (base64 text / None / exception) with the raw key octets. *)
Record InvObj := mkInvObj { io_cls : Z; io_label : text; io_id : option (list Z); io_pub : res (option text); io_raw : list Z }.
Definition InvSlot : Type := Z * list InvObj.
Definition InvStore := list (list InvSlot).

Definition ident : Type := text * option (list Z).
Definition io_key (o : InvObj) : ident := (io_label o, io_id o).
Definition ident_eqb (a b : ident) : bool :=
  text_eqb (fst a) (fst b) &&
  match snd a, snd b with Some x, Some y => text_eqb x y | None, None => true | _, _ => false end.

(* inventory.key_inventory/_format_keys, structurally: per slot the paired identities with their status and the leftovers per class.
   status: 0 = no matching KSK in the configuration, 1 = configured KSK and the token key matches, 2 = BAD KSK *)
Record SlotInventory := mkSlotInv { si_slot : Z; si_pairs : list (ident * Z); si_left_pub : list ident; si_left_priv : list ident; si_left_secret : list ident }.

(* keys[cls][label+id]: the first object of each identity, in token order *)
Fixpoint first_by_key (objs : list InvObj) (seen : list ident) : list InvObj :=
  match objs with
  | [] => []
  | o :: t => if existsb (ident_eqb (io_key o)) seen then first_by_key t seen else o :: first_by_key t (io_key o :: seen)
  end.

Section Inventory.
  Variable ds_hex : list Z -> text.

  (* one configured KSK against the token key, as _format_keys judges it: does the key match (true) or is the KSK marked BAD (false)?
     A ValueError (pydantic's ValidationError is one) while building the DNSKEY - the token key does not fit the configured algorithm -
     and a RuntimeError of validate_dnskey_matches_ksk both mean BAD; any other exception propagates. *)
  Definition is_value_error (c : Z) : bool := (c =? ValueError) || (c =? ValidationError).
  Definition ksk_verdict (ksk : KskKey) (o : InvObj) (pubtxt : text) : res bool :=
    match public_key_to_dnssec_key pubtxt (io_raw o) (io_label o) (kk_alg ksk) 0 257 with
    | Raise c => if is_value_error c then OK false else Raise c
    | OK dns =>
        match validate_dnskey_matches_ksk ds_hex ksk dns with
        | OK _ => OK true
        | Raise c => if c =? RuntimeError then OK false else Raise c
        end
    end.

  (* the loop over config.ksk_keys in _format_keys: BAD stops the loop, a later matching KSK overwrites an earlier "found" *)
  Fixpoint ksk_status (kks : KskKeys) (o : InvObj) (pubtxt : text) (acc : Z) : res Z :=
    match kks with
    | [] => OK acc
    | nk :: rest =>
        let ksk := snd nk in
        if text_eqb (kk_label ksk) (io_label o) then
          bind (ksk_verdict ksk o pubtxt) (fun good => if good then ksk_status rest o pubtxt 1 else OK 2)
        else ksk_status rest o pubtxt acc
    end.

  Definition is_cls (c : Z) (o : InvObj) : bool := io_cls o =? c.
  Definition has_key (l : list InvObj) (k : ident) : bool := existsb (fun p => ident_eqb (io_key p) k) l.

  (* get_key_inventory derives the public key of every public object and lets its exception escape *)
  Fixpoint scan_pubkeys (objs : list InvObj) : res unit :=
    match objs with
    | [] => OK tt
    | o :: t => if is_cls CKO_PUBLIC o then match io_pub o with Raise c => Raise c | OK _ => scan_pubkeys t end else scan_pubkeys t
    end.

  Fixpoint pair_up (kks : KskKeys) (pubs privs : list InvObj) : res (list (ident * Z)) :=
    match pubs with
    | [] => OK []
    | o :: t =>
        match io_pub o with
        | OK (Some pubtxt) =>
            bind (ksk_status kks o pubtxt 0) (fun st =>
            bind (pair_up kks t privs) (fun more =>
            OK (if has_key privs (io_key o) then (io_key o, st) :: more else more)))
        | OK None => Raise RuntimeError        (* "Invalid public key" *)
        | Raise c => Raise c
        end
    end.

  Definition slot_inventory (kks : KskKeys) (s : InvSlot) : res SlotInventory :=
    let objs := snd s in
    bind (scan_pubkeys objs) (fun _ =>
    let pubs := first_by_key (filter (is_cls CKO_PUBLIC) objs) [] in
    let privs := first_by_key (filter (is_cls CKO_PRIVATE) objs) [] in
    let secrets := first_by_key (filter (is_cls CKO_SECRET) objs) [] in
    bind (match pubs, privs with
          | _ :: _, _ :: _ => pair_up kks pubs privs
          | _, _ => OK []
          end) (fun pairs =>
    let paired (o : InvObj) := existsb (fun p => ident_eqb (fst p) (io_key o)) pairs in
    OK (mkSlotInv (fst s) pairs
          (map io_key (filter (fun o => negb (paired o)) pubs))
          (map io_key (filter (fun o => negb (paired o)) privs))
          (map io_key secrets)))).

  Definition sort_invslots (ss : list InvSlot) : list InvSlot :=
    fold_right (fun s acc => (fix ins (l : list InvSlot) := match l with [] => [s] | y :: t => if fst s <=? fst y then s :: l else y :: ins t end) acc) [] ss.

  Fixpoint inventory_slots (kks : KskKeys) (ss : list InvSlot) : res (list SlotInventory) :=
    match ss with
    | [] => OK []
    | s :: t => bind (slot_inventory kks s) (fun i => bind (inventory_slots kks t) (fun more => OK (i :: more)))
    end.
  Fixpoint inventory (kks : KskKeys) (st : InvStore) : res (list (list SlotInventory)) :=
    match st with
    | [] => OK []
    | m :: t => bind (inventory_slots kks (sort_invslots m)) (fun i => bind (inventory kks t) (fun more => OK (i :: more)))
    end.
End Inventory.
