(* Model of kskm.ksr.validate / verify_header / verify_bundles / verify_policy:
   the KSR acceptance rules, in the code's order, with the code's comparisons. *)
From KV Require Import Base.Prelude Base.Exn Base.Bytes Model.Data Model.Wire.

Record ReqPolicy := mkReqPolicy {
  p_acceptable_domains : list text;
  p_num_bundles : Z;
  p_validate_signatures : bool;
  p_keys_match_zsk_policy : bool;
  p_rsa_exponent_match_zsk_policy : bool;
  p_enable_ecdsa : bool;
  p_enable_eddsa : bool;
  p_check_cycle_length : bool;
  p_min_cycle : Z; p_max_cycle : Z;
  p_min_interval : Z; p_max_interval : Z;
  p_check_bundle_overlap : bool;
  p_sig_algs_match : bool;
  p_approved_algorithms : list Z;     (* names resolved to numbers by the harness *)
  p_rsa_exponents : list Z;
  p_rsa_sizes : list Z;
  p_sig_validity_match : bool;
  p_check_keys_match_ksk : bool;
  p_num_keys_per_bundle : list Z;
  p_num_different_keys : Z;
  p_check_horizon : bool;
  p_horizon_days : Z;
  p_check_bundle_intervals : bool;
  p_check_chain_keys : bool;
  p_check_chain_keys_in_hsm : bool;
  p_check_chain_overlap : bool;
  p_check_publish_safety : bool;
  p_check_retire_safety : bool
}.

(* ---------------- timing rules (C05) ---------------- *)

(* verify_bundles.check_bundle_count *)
Definition nbundles (r : Request) : Z := Z.of_nat (length (rq_bundles r)).
Definition check_bundle_count (p : ReqPolicy) (r : Request) : res unit :=
  guard KSR_BUNDLE_COUNT_Violation (negb (nbundles r =? p_num_bundles p)).

(* verify_bundles.check_cycle_durations *)
Definition check_cycle_durations (p : ReqPolicy) (r : Request) : res unit :=
  if negb (p_check_cycle_length p) then OK tt else
  match rq_bundles r with
  | [] => OK tt
  | first :: _ =>
      let lst := last (rq_bundles r) first in
      let d := b_inc lst - b_inc first in
      guard KSR_BUNDLE_CYCLE_DURATION_Violation (d <? p_min_cycle p) >>>
      guard KSR_BUNDLE_CYCLE_DURATION_Violation (p_max_cycle p <? d)
  end.

(* verify_policy.check_bundle_overlaps *)
Definition overlap_step (zsk : SigPolicy) (pr : Bundle * Bundle) : res unit :=
  let (previous, this) := pr in
  guard KSR_POLICY_SIG_OVERLAP_Violation (b_exp previous <? b_inc this) >>>
  let overlap := b_exp previous - b_inc this in
  guard KSR_POLICY_SIG_OVERLAP_Violation (overlap <? sp_min_overlap zsk) >>>
  guard KSR_POLICY_SIG_OVERLAP_Violation (sp_max_overlap zsk <? overlap).
Definition check_bundle_overlaps (p : ReqPolicy) (r : Request) : res unit :=
  if negb (p_check_bundle_overlap p) then OK tt else
  for_each (overlap_step (rq_zsk r)) (adjacent (rq_bundles r)).

(* verify_policy.check_signature_validity *)
Definition validity_step (zsk : SigPolicy) (b : Bundle) : res unit :=
  let validity := b_exp b - b_inc b in
  guard KSR_POLICY_SIG_VALIDITY_Violation (validity <? sp_min_validity zsk) >>>
  guard KSR_POLICY_SIG_VALIDITY_Violation (sp_max_validity zsk <? validity).
Definition check_signature_validity (p : ReqPolicy) (r : Request) : res unit :=
  if negb (p_sig_validity_match p) then OK tt else
  for_each (validity_step (rq_zsk r)) (rq_bundles r).

(* verify_policy.check_signature_horizon; timedelta.days is a floor division *)
Definition horizon_step (now : Z) (p : ReqPolicy) (b : Bundle) : res unit :=
  let expire_days := (b_exp b - now) / day_us in
  guard KSR_POLICY_SIG_HORIZON_Violation (negb (p_horizon_days p =? 0) && (p_horizon_days p <? expire_days)) >>>
  guard KSR_PolicyViolation ((0 <? p_horizon_days p) && (expire_days <? 0)).
Definition check_signature_horizon (now : Z) (p : ReqPolicy) (r : Request) : res unit :=
  if negb (p_check_horizon p) then OK tt else
  for_each (horizon_step now p) (rq_bundles r).

(* verify_policy.check_bundle_intervals *)
Definition interval_step (p : ReqPolicy) (pr : Bundle * Bundle) : res unit :=
  let (previous, this) := pr in
  let interval := b_inc this - b_inc previous in
  guard KSR_POLICY_BUNDLE_INTERVAL_Violation (interval <? p_min_interval p) >>>
  guard KSR_POLICY_BUNDLE_INTERVAL_Violation (p_max_interval p <? interval).
Definition check_bundle_intervals (p : ReqPolicy) (r : Request) : res unit :=
  if negb (p_check_bundle_intervals p) then OK tt else
  for_each (interval_step p) (adjacent (rq_bundles r)).

(* the six timing rules in the order validate_request reaches them *)
Definition timing_checks (now : Z) (p : ReqPolicy) (r : Request) : res unit :=
  check_bundle_count p r >>> check_cycle_durations p r >>>
  check_bundle_overlaps p r >>> check_signature_validity p r >>>
  check_signature_horizon now p r >>> check_bundle_intervals p r.

(* ksr/parse_utils.request_bundles_from_list_of_dicts: sorted(res, key=(expiration, inception, id)) *)
Fixpoint text_lt (a b : text) : bool :=
  match a, b with
  | [], [] => false
  | [], _ :: _ => true
  | _ :: _, [] => false
  | x :: a', y :: b' => if x <? y then true else if y <? x then false else text_lt a' b'
  end.
Definition bundle_key_lt (a b : Bundle) : bool :=
  if b_exp a <? b_exp b then true else if b_exp b <? b_exp a then false else
  if b_inc a <? b_inc b then true else if b_inc b <? b_inc a then false else
  text_lt (b_id a) (b_id b).
(* stable insertion: x (earlier in the document) goes before the first element not smaller than it *)
Fixpoint insert_bundle (x : Bundle) (l : list Bundle) : list Bundle :=
  match l with
  | [] => [x]
  | y :: t => if negb (bundle_key_lt y x) then x :: l else y :: insert_bundle x t
  end.
(* stable sort of the document-order list: insert from the right *)
Definition sort_bundles (l : list Bundle) : list Bundle := fold_right insert_bundle [] l.
