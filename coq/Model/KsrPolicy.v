(* Model of kskm.ksr.validate / verify_header / verify_bundles / verify_policy:
   the KSR acceptance rules, in the code's order, with the code's comparisons. *)
From KV Require Import Base.Prelude Base.Exn Base.Bytes Model.Data Model.Wire.

Record ReqPolicy := mkReqPolicy {
  p_acceptable_domains : list text;
  p_num_bundles : Z;
  p_validate_signatures : bool;
  p_keys_match_zsk_policy : bool;
  p_rsa_exponent_match_zsk_policy : bool;
  p_enable_ecdsa : bool;
  p_enable_eddsa : bool;
  p_check_cycle_length : bool;
  p_min_cycle : Z; p_max_cycle : Z;
  p_min_interval : Z; p_max_interval : Z;
  p_check_bundle_overlap : bool;
  p_sig_algs_match : bool;
  p_approved_algorithms : list Z;     (* names resolved to numbers by the harness *)
  p_rsa_exponents : list Z;
  p_rsa_sizes : list Z;
  p_sig_validity_match : bool;
  p_check_keys_match_ksk : bool;
  p_num_keys_per_bundle : list Z;
  p_num_different_keys : Z;
  p_check_horizon : bool;
  p_horizon_days : Z;
  p_check_bundle_intervals : bool;
  p_check_chain_keys : bool;
  p_check_chain_keys_in_hsm : bool;
  p_check_chain_overlap : bool;
  p_check_publish_safety : bool;
  p_check_retire_safety : bool
}.

(* ---------------- timing rules (C05) ---------------- *)

(* verify_bundles.check_bundle_count *)
Definition nbundles (r : Request) : Z := Z.of_nat (length (rq_bundles r)).
Definition check_bundle_count (p : ReqPolicy) (r : Request) : res unit :=
  guard KSR_BUNDLE_COUNT_Violation (negb (nbundles r =? p_num_bundles p)).

(* verify_bundles.check_cycle_durations *)
Definition check_cycle_durations (p : ReqPolicy) (r : Request) : res unit :=
  if negb (p_check_cycle_length p) then OK tt else
  match rq_bundles r with
  | [] => OK tt
  | first :: _ =>
      let lst := last (rq_bundles r) first in
      let d := b_inc lst - b_inc first in
      guard KSR_BUNDLE_CYCLE_DURATION_Violation (d <? p_min_cycle p) >>>
      guard KSR_BUNDLE_CYCLE_DURATION_Violation (p_max_cycle p <? d)
  end.

(* verify_policy.check_bundle_overlaps *)
Definition overlap_step (zsk : SigPolicy) (pr : Bundle * Bundle) : res unit :=
  let (previous, this) := pr in
  guard KSR_POLICY_SIG_OVERLAP_Violation (b_exp previous <? b_inc this) >>>
  let overlap := b_exp previous - b_inc this in
  guard KSR_POLICY_SIG_OVERLAP_Violation (overlap <? sp_min_overlap zsk) >>>
  guard KSR_POLICY_SIG_OVERLAP_Violation (sp_max_overlap zsk <? overlap).
Definition check_bundle_overlaps (p : ReqPolicy) (r : Request) : res unit :=
  if negb (p_check_bundle_overlap p) then OK tt else
  for_each (overlap_step (rq_zsk r)) (adjacent (rq_bundles r)).

(* verify_policy.check_signature_validity *)
Definition validity_step (zsk : SigPolicy) (b : Bundle) : res unit :=
  let validity := b_exp b - b_inc b in
  guard KSR_POLICY_SIG_VALIDITY_Violation (validity <? sp_min_validity zsk) >>>
  guard KSR_POLICY_SIG_VALIDITY_Violation (sp_max_validity zsk <? validity).
Definition check_signature_validity (p : ReqPolicy) (r : Request) : res unit :=
  if negb (p_sig_validity_match p) then OK tt else
  for_each (validity_step (rq_zsk r)) (rq_bundles r).

(* verify_policy.check_signature_horizon; timedelta.days is a floor division *)
Definition horizon_step (now : Z) (p : ReqPolicy) (b : Bundle) : res unit :=
  let expire_days := (b_exp b - now) / day_us in
  guard KSR_POLICY_SIG_HORIZON_Violation (negb (p_horizon_days p =? 0) && (p_horizon_days p <? expire_days)) >>>
  guard KSR_PolicyViolation ((0 <? p_horizon_days p) && (expire_days <? 0)).
Definition check_signature_horizon (now : Z) (p : ReqPolicy) (r : Request) : res unit :=
  if negb (p_check_horizon p) then OK tt else
  for_each (horizon_step now p) (rq_bundles r).

(* verify_policy.check_bundle_intervals *)
Definition interval_step (p : ReqPolicy) (pr : Bundle * Bundle) : res unit :=
  let (previous, this) := pr in
  let interval := b_inc this - b_inc previous in
  guard KSR_POLICY_BUNDLE_INTERVAL_Violation (interval <? p_min_interval p) >>>
  guard KSR_POLICY_BUNDLE_INTERVAL_Violation (p_max_interval p <? interval).
Definition check_bundle_intervals (p : ReqPolicy) (r : Request) : res unit :=
  if negb (p_check_bundle_intervals p) then OK tt else
  for_each (interval_step p) (adjacent (rq_bundles r)).

(* the six timing rules in the order validate_request reaches them *)
Definition timing_checks (now : Z) (p : ReqPolicy) (r : Request) : res unit :=
  check_bundle_count p r >>> check_cycle_durations p r >>>
  check_bundle_overlaps p r >>> check_signature_validity p r >>>
  check_signature_horizon now p r >>> check_bundle_intervals p r.

(* ksr/parse_utils.request_bundles_from_list_of_dicts: sorted(res, key=(expiration, inception, id)) *)
Fixpoint text_lt (a b : text) : bool :=
  match a, b with
  | [], [] => false
  | [], _ :: _ => true
  | _ :: _, [] => false
  | x :: a', y :: b' => if x <? y then true else if y <? x then false else text_lt a' b'
  end.
Definition bundle_key_lt (a b : Bundle) : bool :=
  if b_exp a <? b_exp b then true else if b_exp b <? b_exp a then false else
  if b_inc a <? b_inc b then true else if b_inc b <? b_inc a then false else
  text_lt (b_id a) (b_id b).
(* stable insertion: x (earlier in the document) goes before the first element not smaller than it *)
Fixpoint insert_bundle (x : Bundle) (l : list Bundle) : list Bundle :=
  match l with
  | [] => [x]
  | y :: t => if negb (bundle_key_lt y x) then x :: l else y :: insert_bundle x t
  end.
(* stable sort of the document-order list: insert from the right *)
Definition sort_bundles (l : list Bundle) : list Bundle := fold_right insert_bundle [] l.

(* ---------------- header / key / algorithm rules (C06) ---------------- *)

(* verify_header.check_domain *)
Definition check_domain (p : ReqPolicy) (r : Request) : res unit :=
  guard KSR_DOMAIN_Violation (negb (existsb (text_eqb (rq_domain r)) (p_acceptable_domains p))).

(* verify_bundles.check_unique_ids: the `seen` dict *)
Fixpoint unique_ids_loop (seen : list text) (bs : list Bundle) : res unit :=
  match bs with
  | [] => OK tt
  | b :: t => if existsb (text_eqb (b_id b)) seen then Raise KSR_BUNDLE_UNIQUE_Violation
              else unique_ids_loop (b_id b :: seen) t
  end.
Definition check_unique_ids (r : Request) : res unit := unique_ids_loop [] (rq_bundles r).

(* verify_bundles._find_matching_zsk_policy_*_alg *)
Definition rsa_match (algs : list AlgPolicy) (k : Key) (r : RsaPub) (ignore_e : bool) : bool :=
  existsb (fun a => match a with
                    | APRsa al bits e => (k_alg k =? al) && (rsa_bits r =? bits) && ((rsa_e r =? e) || ignore_e)
                    | _ => false
                    end) algs.

Fixpoint ecdsa_match (algs : list AlgPolicy) (k : Key) : res bool :=
  match algs with
  | [] => OK false
  | APEcdsa al bits :: t =>
      bind (ecdsa_without_prefix (k_pub k) al) (fun pk =>
      if (k_alg k =? al) && (ecdsa_pubkey_size pk =? bits) then OK true else ecdsa_match t k)
  | _ :: t => ecdsa_match t k
  end.

Definition eddsa_expected_size (alg : Z) : res Z :=
  if alg =? ED25519 then OK 256 else if alg =? ED448 then OK 456 else Raise ValueError.
Definition eddsa_without_prefix (pub : list Z) (alg : Z) : res (list Z) :=
  bind (eddsa_expected_size alg) (fun ex =>
  if len pub * 8 =? ex then OK pub
  else match pub with 4 :: rest => OK rest | [] => Raise IndexError | _ => OK pub end).
Fixpoint eddsa_match (algs : list AlgPolicy) (k : Key) : res bool :=
  match algs with
  | [] => OK false
  | APEddsa al bits :: t =>
      bind (eddsa_without_prefix (k_pub k) al) (fun pk =>
      if (k_alg k =? al) && (len pk * 8 =? bits) then OK true else eddsa_match t k)
  | _ :: t => eddsa_match t k
  end.

(* the checks applied to a key identifier seen for the first time *)
Definition check_new_key (p : ReqPolicy) (algs : list AlgPolicy) (k : Key) : res unit :=
  (if is_rsa (k_alg k) then
     bind (rsa_decode (k_pub k)) (fun r =>
       let m := rsa_match algs k r false in
       let m' := if negb m && negb (p_rsa_exponent_match_zsk_policy p) then rsa_match algs k r true else m in
       guard KSR_BUNDLE_KEYS_Violation (negb m'))
   else if is_ecdsa (k_alg k) then bind (ecdsa_match algs k) (fun m => guard KSR_BUNDLE_KEYS_Violation (negb m))
   else if is_eddsa (k_alg k) then bind (eddsa_match algs k) (fun m => guard KSR_BUNDLE_KEYS_Violation (negb m))
   else Raise ValueError) >>>
  guard KSR_BUNDLE_KEYS_Violation (negb (k_flags k =? FLAG_ZONE)) >>>
  bind (calculate_key_tag k) (fun t => guard KSR_BUNDLE_KEYS_Violation (negb (t =? k_tag k))).

(* verify_bundles.check_keys_match_zsk_policy: `seen` maps identifier -> first key with it *)
Fixpoint keys_loop (p : ReqPolicy) (algs : list AlgPolicy) (seen : list Key) (ks : list Key) : res unit :=
  match ks with
  | [] => OK tt
  | k :: t =>
      match find_key_by_id (k_id k) seen with
      | Some s => if key_eqb k s then keys_loop p algs seen t else Raise KSR_BUNDLE_KEYS_Violation
      | None => check_new_key p algs k >>> keys_loop p algs (k :: seen) t
      end
  end.
Definition all_keys (r : Request) : list Key := flat_map b_keys (rq_bundles r).
Definition check_keys_match_zsk_policy (p : ReqPolicy) (r : Request) : res unit :=
  if negb (p_keys_match_zsk_policy p) then OK tt else keys_loop p (sp_algs (rq_zsk r)) [] (all_keys r).

(* verify_policy.check_keys_in_bundles *)
Fixpoint count_keys_loop (bs : list Bundle) (ns : list Z) : res unit :=
  match bs, ns with
  | b :: bt, n :: nt => guard KSR_POLICY_KEYS_Violation (negb (Z.of_nat (length (b_keys b)) =? n)) >>> count_keys_loop bt nt
  | _, _ => OK tt
  end.
Fixpoint distinct_ids (seen : list text) (ks : list Key) : list text :=
  match ks with
  | [] => seen
  | k :: t => if existsb (text_eqb (k_id k)) seen then distinct_ids seen t else distinct_ids (k_id k :: seen) t
  end.
Definition check_keys_in_bundles (p : ReqPolicy) (r : Request) : res unit :=
  if negb (p_check_keys_match_ksk p) then OK tt else
  guard KSR_POLICY_KEYS_Violation (negb (Z.of_nat (length (rq_bundles r)) =? Z.of_nat (length (p_num_keys_per_bundle p)))) >>>
  count_keys_loop (rq_bundles r) (p_num_keys_per_bundle p) >>>
  guard KSR_POLICY_KEYS_Violation (negb (Z.of_nat (length (distinct_ids [] (all_keys r))) =? p_num_different_keys p)).

(* verify_policy.check_zsk_policy_algorithm *)
Definition alg_base_step (p : ReqPolicy) (a : AlgPolicy) : res unit :=
  guard KSR_POLICY_ALG_Violation (mem (ap_alg a) deprecated_algorithms) >>>
  guard KSR_POLICY_ALG_Violation (negb (mem (ap_alg a) supported_algorithms)) >>>
  guard KSR_POLICY_ALG_Violation (is_ecdsa (ap_alg a) && negb (p_enable_ecdsa p)) >>>
  guard KSR_POLICY_ALG_Violation (is_eddsa (ap_alg a) && negb (p_enable_eddsa p)).
Definition alg_rsa_step (p : ReqPolicy) (a : AlgPolicy) : res unit :=
  if is_rsa (ap_alg a) then
    match a with
    | APRsa _ bits e =>
        guard KSR_POLICY_ALG_Violation (negb (mem bits (p_rsa_sizes p))) >>>
        guard KSR_POLICY_ALG_Violation (negb (mem e (p_rsa_exponents p)))
    | _ => Raise AssertionError
    end
  else OK tt.
Definition check_zsk_policy_algorithm (p : ReqPolicy) (r : Request) : res unit :=
  let algs := sp_algs (rq_zsk r) in
  for_each (alg_base_step p) algs >>>
  if negb (p_sig_algs_match p) then OK tt else
  for_each (fun a => guard KSR_POLICY_ALG_Violation (negb (mem (ap_alg a) (p_approved_algorithms p)))) algs >>>
  for_each (alg_rsa_step p) algs.

Definition keys_header_checks (p : ReqPolicy) (r : Request) : res unit :=
  check_domain p r >>> check_unique_ids r >>> check_keys_match_zsk_policy p r >>>
  check_keys_in_bundles p r >>> check_zsk_policy_algorithm p r.

(* ---------------- proof of possession (C07) ---------------- *)
Section PoP.
  (* verdict of the crypto library on (key, signature value) for the message the model built *)
  Variable verify : Key -> Sig -> list Z -> bool.

  Fixpoint dup_key_ids (seen : list text) (ks : list Key) : bool :=
    match ks with
    | [] => false
    | k :: t => existsb (text_eqb (k_id k)) seen || dup_key_ids (k_id k :: seen) t
    end.

  (* KSKM_PublicKey.from_key: only decodability matters here *)
  Definition pubkey_decodable (k : Key) : res unit :=
    if is_rsa (k_alg k) then bind (rsa_decode (k_pub k)) (fun _ => OK tt)
    else if is_ecdsa (k_alg k) then OK tt
    else if is_eddsa (k_alg k) then OK tt
    else Raise RuntimeError.

  Definition verify_step (keys : list Key) (s : Sig) : res unit :=
    match find_key_by_id (s_id s) keys with
    | None => Raise ValueError
    | Some key =>
        pubkey_decodable key >>>
        bind (make_raw_rrsig s keys) (fun tbs =>
        if verify key s tbs then OK tt else Raise InvalidSignature)
    end.

  (* common.signature.validate_signatures *)
  Definition validate_signatures (b : Bundle) : res unit :=
    match b_keys b, b_sigs b with
    | [], _ => Raise ValueError
    | _, [] => Raise ValueError
    | _, _ =>
        if dup_key_ids [] (b_keys b) then Raise ValueError
        else for_each (verify_step (b_keys b)) (b_sigs b)
    end.

  Definition pop_bundle (b : Bundle) : res unit :=
    match validate_signatures b with
    | Raise c => if c =? InvalidSignature then Raise KSR_BUNDLE_POP_Violation else Raise c
    | OK _ =>
        for_each (fun k => guard KSR_BUNDLE_POP_Violation
                             (negb (existsb (fun s => text_eqb (s_id s) (k_id k)) (b_sigs b)))) (b_keys b)
    end.

  (* verify_bundles.check_proof_of_possession *)
  Definition check_proof_of_possession (p : ReqPolicy) (r : Request) : res unit :=
    if negb (p_validate_signatures p) then OK tt else for_each pop_bundle (rq_bundles r).

  (* ksr.validate.validate_request: all checks in the code's order *)
  Definition validate_request (now : Z) (p : ReqPolicy) (r : Request) : res unit :=
    check_domain p r >>> check_unique_ids r >>> check_keys_match_zsk_policy p r >>>
    check_proof_of_possession p r >>> check_bundle_count p r >>> check_cycle_durations p r >>>
    check_keys_in_bundles p r >>> check_zsk_policy_algorithm p r >>>
    check_bundle_overlaps p r >>> check_signature_validity p r >>>
    check_signature_horizon now p r >>> check_bundle_intervals p r.

  (* skr.validate.check_valid_signatures / validate_response *)
  Definition check_valid_signatures (validate : bool) (b : Bundle) : res unit :=
    if negb validate then OK tt else
    match validate_signatures b with
    | Raise c => if c =? InvalidSignature then Raise InvalidSignatureViolation else Raise c
    | OK _ => OK tt
    end.
  Definition validate_response (num_bundles : Z) (validate : bool) (r : Response) : res unit :=
    guard PolicyViolation (negb (Z.of_nat (length (rs_bundles r)) =? num_bundles)) >>>
    for_each (check_valid_signatures validate) (rs_bundles r).
End PoP.
