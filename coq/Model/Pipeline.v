(* Model of kskm.tools.ksrsigner.ksrsigner / main: the fixed order of stages, the early exits, and what leaves the function.
   The outcome of each stage is an input (what the stages compute is the subject of C01..C09); the model is the glue. *)
From KV Require Import Base.Prelude Base.Exn Base.Bytes Model.Data Model.Keymaster.

Inductive stage := SConfig | SSchema | SLoadPrev | SKsrName | SLoadKsr | SInit | SChain | SPrompt | SSign | SSafety | SWrite.
Inductive result := RTrue | RFalse | RRaise (c : Z).

Record Env := mkEnv {
  e_config : option (res unit);   (* None: a configuration object was handed in; Some r: outcome of get_config *)
  e_schema : res unit;            (* config.get_schema(args.schema) *)
  e_prev_named : bool;            (* a previous SKR file name is given (CLI or configuration) *)
  e_prev : res unit;              (* load_skr *)
  e_ksr_named : bool;
  e_ksr : res unit;               (* load_ksr *)
  e_init : res unit;              (* init_pkcs11_modules *)
  e_chain : res unit;             (* check_skr_and_ksr *)
  e_force : bool;
  e_answer : text;                (* what input() returns *)
  e_sign : res unit;              (* create_skr *)
  e_safety : res unit;            (* check_last_skr_and_new_skr *)
  e_write : res unit              (* output_skr_xml *)
}.

(* one step of the pipeline: is it executed at all, does it call its stage function (traced), and does it end the run *)
Record step := mkStep { st_stage : stage; st_enabled : bool; st_traced : bool; st_out : option result }.

Fixpoint exec (l : list step) : list stage * result :=
  match l with
  | [] => ([], RTrue)
  | s :: t =>
      if st_enabled s then
        match st_out s with
        | Some r => ((if st_traced s then [st_stage s] else []), r)
        | None => let '(tr, r) := exec t in ((if st_traced s then st_stage s :: tr else tr), r)
        end
      else exec t
  end.

Definition propagate (r : res unit) : option result := match r with OK _ => None | Raise c => Some (RRaise c) end.

Definition steps (e : Env) : list step :=
  [ mkStep SConfig (match e_config e with Some _ => true | None => false end) true
      (match e_config e with
       | Some (Raise c) => Some (if c =? FileNotFoundError then RFalse else if c =? ValidationError then RRaise ConfigurationError else RRaise c)
       | _ => None
       end);
    mkStep SSchema true true
      (match e_schema e with Raise c => Some (if c =? KeyError then RFalse else RRaise c) | OK _ => None end);
    mkStep SLoadPrev (e_prev_named e) true (propagate (e_prev e));
    mkStep SKsrName true false (if e_ksr_named e then None else Some RFalse);
    mkStep SLoadKsr true true (propagate (e_ksr e));
    mkStep SInit true true (match e_init e with Raise _ => Some RFalse | OK _ => None end);      (* except Exception: return False *)
    mkStep SChain (e_prev_named e) true (propagate (e_chain e));
    mkStep SPrompt (negb (e_force e)) true (if text_eqb (strip_newlines (e_answer e)) YES then None else Some RFalse);
    mkStep SSign true true (propagate (e_sign e));
    mkStep SSafety (e_prev_named e) true (propagate (e_safety e));
    mkStep SWrite true true (propagate (e_write e)) ].

Definition run (e : Env) : list stage * result := exec (steps e).

(* main(): exit status *)
Definition KeyboardInterrupt : Z := 200.
Definition EXIT_SUCCESS : Z := 0. Definition EXIT_INTERRUPT : Z := 1. Definition EXIT_CONFIG : Z := 2. Definition EXIT_FATAL : Z := 3.
Definition exit_status (r : result) : Z :=
  match r with
  | RTrue => EXIT_SUCCESS
  | RFalse => EXIT_FATAL
  | RRaise c => if c =? KeyboardInterrupt then EXIT_INTERRUPT else if c =? ConfigurationError then EXIT_CONFIG
                else 1   (* an uncaught exception ends the interpreter with status 1 *)
  end.
