(* The identifier half of the publish / retire safety rules, evaluated on signing schemas: which schema can follow which.
   A bundle made for slot i holds the keys its action publishes, signs with and revokes (a revoked key keeps its identifier). *)
From Coq Require Import String.
From KV Require Import Base.Prelude Base.Bytes Model.Data Model.Token Model.Sign.

Definition names_mem (n : text) (l : list text) : bool := existsb (text_eqb n) l.
Definition slot_keys (a : Action) : list text := a_publish a ++ a_sign a ++ a_revoke a.
Definition slot_of (s : Schema) (i : Z) : Action := match find (fun e => fst e =? i) s with Some (_, a) => a | None => mkAction [] [] [] end.
Definition last_slot (s : Schema) : Action := match rev s with (_, a) :: _ => a | [] => mkAction [] [] [] end.
Definition first_slot (s : Schema) : Action := match s with (_, a) :: _ => a | [] => mkAction [] [] [] end.

(* publish safety, identifiers: whoever signs the first bundle of the new SKR is listed in the last bundle of the previous one *)
Definition publish_ids_ok (prev next : Schema) : bool :=
  forallb (fun n => names_mem n (slot_keys (last_slot prev))) (a_sign (first_slot next)).

(* retire safety, identifiers: the signers of the previous SKR's last bundle stay listed in the first [window] bundles of the new SKR
   (those whose inception is within RetireSafety of the first), and inside the new SKR a signer of bundle i that is not revoked there
   stays listed in every later bundle *)
Fixpoint stays_listed (l : list (Z * Action)) : bool :=
  match l with
  | [] => true
  | (_, cur) :: rest =>
      forallb (fun b => forallb (fun n => names_mem n (a_revoke cur) || names_mem n (slot_keys (snd b))) (a_sign cur)) rest && stays_listed rest
  end.
Definition retire_ids_ok (window : nat) (prev next : Schema) : bool :=
  forallb (fun b => forallb (fun n => names_mem n (slot_keys (snd b))) (a_sign (last_slot prev))) (firstn window next) && stays_listed next.

Definition follows (window : nat) (prev next : Schema) : bool := publish_ids_ok prev next && retire_ids_ok window prev next.

Definition table (window : nat) (l : list (string * Schema)) : list (string * list (string * bool)) :=
  map (fun p => (fst p, map (fun n => (fst n, follows window (snd p) (snd n))) l)) l.
