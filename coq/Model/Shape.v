(* Documents as the SKR writer lays them out: every element on its own line, indented by four blanks per level.
   A [shape] is a tree without whitespace; [build] adds the writer's whitespace. *)
From KV Require Import Base.Prelude Base.Exn Base.Bytes Model.Data Model.Xml.
From KV Require Import Model.XmlTree.

Inductive shape :=
| SLeaf (name : text) (attrs : list (text * text)) (content : text)
| SEmpty (name : text) (attrs : list (text * text))
| SNode (name : text) (attrs : list (text * text)) (children : list shape).

Definition sname (s : shape) : text := match s with SLeaf n _ _ | SEmpty n _ | SNode n _ _ => n end.
Definition one_blank (a : list (text * text)) : list (text * text * text) := map (fun kv => ([32], fst kv, snd kv)) a.

Fixpoint ind (d : nat) : text := match d with O => [] | S d' => 32 :: 32 :: 32 :: 32 :: ind d' end.
Definition nl (d : nat) : text := 10 :: ind d.

Fixpoint build (d : nat) (s : shape) (after : text) : tree :=
  match s with
  | SLeaf n a c => Leaf n (one_blank a) [] [] c [] after
  | SEmpty n a => Empty n (one_blank a) [] after
  | SNode n a cs =>
      Node n (one_blank a) [] (nl (S d))
        ((fix go (l : list shape) : list tree :=
            match l with
            | [] => []
            | x :: t => match t with [] => [build (S d) x (nl d)] | _ => build (S d) x (nl (S d)) :: go t end
            end) cs) after
  end.

Fixpoint build_list (d : nat) (l : list shape) : list tree :=
  match l with
  | [] => []
  | x :: t => match t with [] => [build (S d) x (nl d)] | _ => build (S d) x (nl (S d)) :: build_list d t end
  end.
Lemma build_node d n a cs after : build d (SNode n a cs) after = Node n (one_blank a) [] (nl (S d)) (build_list d cs) after.
Proof. cbn [build]. f_equal. induction cs as [|x t IH]; [reflexivity|]. cbn [build_list]. destruct t; [reflexivity|]. rewrite <- IH. reflexivity. Qed.

(* what a reader extracts from a shape *)
Definition wrapd (a : list (text * text)) (v : val) : val := match a with [] => v | _ => VAttrs a v end.
Fixpoint sval (s : shape) : val :=
  match s with
  | SLeaf _ a c => wrapd a (VStr c)
  | SEmpty _ a => wrapd a (VStr [])
  | SNode _ a cs => wrapd a (VNode (collect (map (fun c => (sname c, sval c)) cs)))
  end.
Fixpoint sheight (s : shape) : nat :=
  match s with SNode _ _ cs => S (fold_right (fun c m => Nat.max (sheight c) m) O cs) | _ => O end.
Fixpoint snames (s : shape) : list text :=
  match s with SNode n _ cs => n :: flat_map snames cs | SLeaf n _ _ | SEmpty n _ => [n] end.

Definition dattr_ok (kv : text * text) : bool := name_ok (fst kv) && negb (is_nil (snd kv)) && forallb value_char (snd kv).
Definition dattrs_ok (a : list (text * text)) : bool := forallb dattr_ok a && distinct (map fst a).
Fixpoint shape_ok (s : shape) : bool :=
  match s with
  | SLeaf n a c => name_ok n && dattrs_ok a && content_ok c
  | SEmpty n a => name_ok n && dattrs_ok a && negb (is_nil a)
  | SNode n a cs => name_ok n && dattrs_ok a && negb (is_nil cs) && forallb shape_ok cs && negb (existsb (text_eqb n) (flat_map snames cs))
  end.
