(* Model of kskm.signer.key.load_pkcs11_key, common.config_ksk.validate_dnskey_matches_ksk,
   signer.sign (sign_bundles, KeysToSign, _fetch_keys, _sign_keys, _verify_using_crypto) and
   signer.create_skr. Crypto is abstract: H (hashes), token_sign, verify, ds_hex are oracles. *)
From KV Require Import Base.Prelude Base.Exn Base.Bytes Model.Data Model.Wire Model.KsrPolicy Model.Token.

Record KskKey := mkKskKey {
  kk_label : text; kk_alg : Z;
  kk_rsa_size : option Z; kk_rsa_exp : option Z;
  kk_valid_from : Z; kk_valid_until : option Z;
  kk_tag : option Z; kk_ds : option text;        (* configured DS SHA-256, upper-case hex *)
  kk_hash_hsm : option bool
}.
Record Action := mkAction { a_publish : list text; a_sign : list text; a_revoke : list text }.
Definition Schema := list (Z * Action).             (* slot number -> action *)
Definition KskKeys := list (text * KskKey).         (* configured name -> key *)

Record CompositeKey := mkComposite { ck_p11 : P11Key; ck_dns : Key }.

Section Sign.
  Variable H : Z -> list Z -> list Z.
  Variable token_sign : P11Key -> Z -> list Z -> res text.
  (* software verification of (public key text, algorithm, message, signature text) *)
  Variable verify : text -> Z -> list Z -> text -> bool.
  (* upper-case hex SHA-256 of the DS preimage *)
  Variable ds_hex : list Z -> text.
  (* base64 decoding of a signature text (for the response validation) is folded into verify *)

  Fixpoint lookup_name {A} (n : text) (l : list (text * A)) : option A :=
    match l with [] => None | (k, v) :: t => if text_eqb k n then Some v else lookup_name n t end.
  Fixpoint lookup_slot (i : Z) (s : Schema) : option Action :=
    match s with [] => None | (k, v) :: t => if k =? i then Some v else lookup_slot i t end.

  (* dnssec.public_key_to_dnssec_key *)
  Definition public_key_to_dnssec_key (pubtxt : text) (pubraw : list Z) (id : text) (alg ttl flags : Z) : res Key :=
    let k0 := mkKey id 0 ttl flags 3 alg pubtxt pubraw in
    bind (key_ecdsa_size_ok pubraw alg) (fun _ =>
    bind (calculate_key_tag k0) (fun t => OK (mkKey id t ttl flags 3 alg pubtxt pubraw))).

  (* signer.key.load_pkcs11_key *)
  Definition load_pkcs11_key (ksk : KskKey) (ms : list Module) (ttl : Z) (b : Bundle) (public : bool) : res (option CompositeKey) :=
    if b_inc b <? kk_valid_from ksk then Raise KeyUsagePolicy_Violation else
    if match kk_valid_until ksk with Some u => u <? b_exp b | None => false end then Raise KeyUsagePolicy_Violation else
    bind (get_p11_key ms (kk_label ksk) public (kk_hash_hsm ksk)) (fun found0 =>
    match found0 with
    | None => OK None
    | Some f0 =>
        bind (match pk_pub f0, public with
              | None, false =>
                  bind (get_p11_key ms (kk_label ksk) true (kk_hash_hsm ksk)) (fun fp =>
                  match fp with
                  | Some p => OK (mkP11Key (pk_label f0) (pk_ktype f0) (pk_cls f0) (pk_hash_hsm f0) (pk_pub p) (pk_pubraw p)
                                           (pk_module f0) (pk_slot f0) (pk_handle f0))
                  | None => OK f0
                  end)
              | _, _ => OK f0
              end) (fun found =>
        match pk_pub found with
        | None => OK None
        | Some pubtxt =>
            bind (if pk_ktype found =? CKK_RSA then
                    if negb (is_rsa (kk_alg ksk)) then Raise ValueError else
                    bind (rsa_decode (pk_pubraw found)) (fun r =>
                    if negb (match kk_rsa_size ksk with Some s => rsa_bits r =? s | None => false end) then Raise ValueError
                    else if negb (match kk_rsa_exp ksk with Some e => rsa_e r =? e | None => false end) then Raise ValueError
                    else OK true)
                  else if pk_ktype found =? CKK_EC then
                    if negb (is_ecdsa (kk_alg ksk)) && negb (is_eddsa (kk_alg ksk)) then Raise ValueError else OK true
                  else OK false) (fun recognised =>
            if negb recognised then OK None else
            bind (public_key_to_dnssec_key pubtxt (pk_pubraw found) (kk_label ksk) (kk_alg ksk) ttl (Z.lor FLAG_SEP FLAG_ZONE)) (fun dns =>
            OK (Some (mkComposite found dns))))
        end)
    end).

  (* config_ksk.validate_dnskey_matches_ksk *)
  Definition validate_dnskey_matches_ksk (ksk : KskKey) (dns : Key) : res unit :=
    bind (match kk_ds ksk with
          | None => OK tt
          | Some ds => bind (ds_preimage dot dns) (fun pre =>
                       if text_eqb ds (ds_hex pre) then OK tt else Raise RuntimeError)
          end) (fun _ =>
    match kk_tag ksk with
    | None => OK tt
    | Some t => if k_tag dns =? t then OK tt else Raise RuntimeError
    end).

  (* sign._fetch_keys *)
  Fixpoint fetch_keys (names : list text) (b : Bundle) (ms : list Module) (ttl : Z) (kks : KskKeys) (public : bool) : res (list CompositeKey) :=
    match names with
    | [] => OK []
    | n :: rest =>
        match lookup_name n kks with
        | None => Raise KeyError
        | Some ksk =>
            bind (load_pkcs11_key ksk ms ttl b public) (fun o =>
            match o with
            | None => Raise ConfigurationError
            | Some ck =>
                bind (validate_dnskey_matches_ksk ksk (ck_dns ck)) (fun _ =>
                bind (fetch_keys rest b ms ttl kks public) (fun more => OK (ck :: more)))
            end)
        end
    end.

  (* KeysToSign: a list, unique by public key text, TTL overridden *)
  Definition kts_add (ttl : Z) (keys : list Key) (k : Key) : list Key :=
    if existsb (fun x => text_eqb (k_pubtxt x) (k_pubtxt k)) keys then keys
    else keys ++ [mkKey (k_id k) (k_tag k) ttl (k_flags k) (k_proto k) (k_alg k) (k_pubtxt k) (k_pub k)].
  Fixpoint remove_first_pub (pt : text) (keys : list Key) : list Key :=
    match keys with [] => [] | x :: t => if text_eqb (k_pubtxt x) pt then t else x :: remove_first_pub pt t end.
  Definition kts_update (ttl : Z) (keys : list Key) (k : Key) : list Key :=
    kts_add ttl (remove_first_pub (k_pubtxt k) keys) k.
  Definition kts_get (id : text) (keys : list Key) : option Key := find (fun k => text_eqb (k_id k) id) keys.

  (* sign._sign_keys; signature value = opaque text returned by the token *)
  Definition sign_keys (b : Bundle) (keys : list Key) (sk : CompositeKey) (ttl : Z) (signers_name : text) : res Sig :=
    if negb (forallb (fun k => k_ttl k =? ttl) keys) then Raise CreateSignatureError else
    match kts_get (k_id (ck_dns sk)) keys with
    | None => Raise CreateSignatureError
    | Some dk =>
        if negb (text_eqb signers_name dot) then Raise NotImplementedError else
        let s0 := mkSig (k_id (ck_dns sk)) ttl TYPE_DNSKEY (k_alg (ck_dns sk)) 0 ttl (b_exp b) (b_inc b) (k_tag dk) signers_name [] [] in
        bind (make_raw_rrsig s0 keys) (fun raw =>
        bind (sign_using_p11 H token_sign (ck_p11 sk) raw (k_alg (ck_dns sk))) (fun sigtxt =>
        match pk_pub (ck_p11 sk) with
        | None => Raise RuntimeError
        | Some pubtxt =>
            if verify pubtxt (k_alg (ck_dns sk)) raw sigtxt
            then OK (mkSig (s_id s0) (s_ttl s0) (s_type s0) (s_alg s0) (s_labels s0) (s_ottl s0) (s_exp s0) (s_inc s0) (s_tag s0) (s_name s0) sigtxt [])
            else Raise SKR_VERIFY_Failure
        end))
    end.

  Fixpoint sign_all (b : Bundle) (keys : list Key) (sks : list CompositeKey) (ttl : Z) (sn : text) : res (list Sig) :=
    match sks with
    | [] => OK []
    | sk :: rest => bind (sign_keys b keys sk ttl sn) (fun s => bind (sign_all b keys rest ttl sn) (fun more => OK (s :: more)))
    end.

  Definition sig_eqb (a b : Sig) : bool :=
    text_eqb (s_id a) (s_id b) && (s_tag a =? s_tag b) && (s_alg a =? s_alg b) && text_eqb (s_datatxt a) (s_datatxt b).
  Fixpoint dedup_sigs (l : list Sig) : list Sig :=
    match l with [] => [] | s :: t => if existsb (sig_eqb s) t then dedup_sigs t else s :: dedup_sigs t end.
  Definition alg_set (l : list Z) : list Z := filter (fun a => mem a l) all_algorithms.   (* canonical set *)
  Definition lz_eqb' (a b : list Z) : bool := text_eqb a b.

  (* response-side verification (check_valid_signatures): each signature over ALL published keys, by the key it names *)
  Definition response_verify (k : Key) (s : Sig) (tbs : list Z) : bool := verify (k_pubtxt k) (k_alg k) tbs (s_datatxt s).

  (* sign.sign_bundles, one slot *)
  Definition sign_bundle (i : Z) (b : Bundle) (schema : Schema) (ms : list Module) (ttl : Z) (sn : text) (kks : KskKeys)
                         (validate : bool) : res Bundle :=
    match lookup_slot i schema with
    | None => Raise KeyError
    | Some act =>
        bind (fetch_keys (a_publish act) b ms ttl kks true) (fun pubs =>
        let k1 := fold_left (fun acc ck => kts_add ttl acc (ck_dns ck)) pubs [] in
        bind (fetch_keys (a_revoke act) b ms ttl kks true) (fun revs =>
        bind ((fix go (l : list CompositeKey) (acc : list Key) : res (list Key) :=
                 match l with
                 | [] => OK acc
                 | ck :: t => bind (as_revoked (ck_dns ck)) (fun rk => go t (kts_update ttl acc rk))
                 end) revs k1) (fun k2 =>
        bind (fetch_keys (a_sign act) b ms ttl kks false) (fun sks =>
        let k3 := fold_left (fun acc ck => kts_add ttl acc (ck_dns ck)) sks k2 in
        let k4 := fold_left (kts_add ttl) (b_keys b) k3 in
        bind (sign_all b k4 sks ttl sn) (fun sigs0 =>
        let sigs := dedup_sigs sigs0 in
        if negb (lz_eqb' (alg_set (map k_alg (b_keys b))) (alg_set (map s_alg sigs))) then Raise CreateSignatureError else
        let rb := mkBundle (b_id b) (b_inc b) (b_exp b) k4 sigs None in
        bind (check_valid_signatures response_verify validate rb) (fun _ => OK rb))))))
    end.

  Fixpoint sign_bundles_from (i : Z) (bs : list Bundle) (schema : Schema) (ms : list Module) (ttl : Z) (sn : text) (kks : KskKeys)
                             (validate : bool) : res (list Bundle) :=
    match bs with
    | [] => OK []
    | b :: rest =>
        bind (sign_bundle i b schema ms ttl sn kks validate) (fun rb =>
        bind (sign_bundles_from (i + 1) rest schema ms ttl sn kks validate) (fun more => OK (rb :: more)))
    end.
  Definition sign_bundles (r : Request) (schema : Schema) (ms : list Module) (ttl : Z) (sn : text) (kks : KskKeys) (validate : bool) :=
    sign_bundles_from 1 (rq_bundles r) schema ms ttl sn kks validate.
End Sign.
