(* The SKR writer (kskm.skr.output.skr_to_xml) and the SKR loader (kskm.skr.load.response_from_xml + common.parse_utils)
   at the level of the value the XML reader hands over (Model.Xml.val): [skr_val] is the element structure the writer's
   f-strings spell out, built with the reader's own _store_element ([store]); [response_of_val] is the loader. The text level
   (printing that structure, reading it back) is Model.Xml's and the correspondence's business. *)
From KV Require Import Base.Prelude Base.Exn Base.Bytes Model.Data Model.Xml Model.Duration Model.Datetime.

Definition t_ (s : list Z) : text := s.
(* element and attribute names *)
Definition nKSR := [75;83;82]. Definition nResponse := [82;101;115;112;111;110;115;101].
Definition nResponsePolicy := [82;101;115;112;111;110;115;101;80;111;108;105;99;121].
Definition nKSK := [75;83;75]. Definition nZSK := [90;83;75].
Definition nPublishSafety := [80;117;98;108;105;115;104;83;97;102;101;116;121].
Definition nRetireSafety := [82;101;116;105;114;101;83;97;102;101;116;121].
Definition nMaxSignatureValidity := [77;97;120;83;105;103;110;97;116;117;114;101;86;97;108;105;100;105;116;121].
Definition nMinSignatureValidity := [77;105;110;83;105;103;110;97;116;117;114;101;86;97;108;105;100;105;116;121].
Definition nMaxValidityOverlap := [77;97;120;86;97;108;105;100;105;116;121;79;118;101;114;108;97;112].
Definition nMinValidityOverlap := [77;105;110;86;97;108;105;100;105;116;121;79;118;101;114;108;97;112].
Definition nSignatureAlgorithm := [83;105;103;110;97;116;117;114;101;65;108;103;111;114;105;116;104;109].
Definition nRSA := [82;83;65]. Definition a_algorithm := [97;108;103;111;114;105;116;104;109].
Definition a_size := [115;105;122;101]. Definition a_exponent := [101;120;112;111;110;101;110;116].
Definition nResponseBundle := [82;101;115;112;111;110;115;101;66;117;110;100;108;101].
Definition nInception := [73;110;99;101;112;116;105;111;110]. Definition nExpiration := [69;120;112;105;114;97;116;105;111;110].
Definition nKey := [75;101;121]. Definition nSignature := [83;105;103;110;97;116;117;114;101].
Definition a_id := [105;100]. Definition a_domain := [100;111;109;97;105;110]. Definition a_serial := [115;101;114;105;97;108].
Definition a_timestamp := [116;105;109;101;115;116;97;109;112].
Definition a_keyIdentifier := [107;101;121;73;100;101;110;116;105;102;105;101;114]. Definition a_keyTag := [107;101;121;84;97;103].
Definition nTTL := [84;84;76]. Definition nFlags := [70;108;97;103;115]. Definition nProtocol := [80;114;111;116;111;99;111;108].
Definition nAlgorithm := [65;108;103;111;114;105;116;104;109]. Definition nPublicKey := [80;117;98;108;105;99;75;101;121].
Definition nTypeCovered := [84;121;112;101;67;111;118;101;114;101;100]. Definition nLabels := [76;97;98;101;108;115].
Definition nOriginalTTL := [79;114;105;103;105;110;97;108;84;84;76].
Definition nSignatureExpiration := [83;105;103;110;97;116;117;114;101;69;120;112;105;114;97;116;105;111;110].
Definition nSignatureInception := [83;105;103;110;97;116;117;114;101;73;110;99;101;112;116;105;111;110].
Definition nKeyTag := [75;101;121;84;97;103]. Definition nSignersName := [83;105;103;110;101;114;115;78;97;109;101].
Definition nSignatureData := [83;105;103;110;97;116;117;114;101;68;97;116;97].
Definition DNSKEY_name : text := [68;78;83;75;69;89].

(* the dict the reader builds from a sequence of child elements *)
Definition node (children : list (text * val)) : val :=
  VNode (fold_left (fun d kv => store (fst kv) (snd kv) d) children []).

(* ---------------- writer ---------------- *)
Definition alg_val (a : AlgPolicy) : res val :=
  match a with
  | APRsa alg bits e => OK (VAttrs [(a_algorithm, dec alg)] (node [(nRSA, VAttrs [(a_size, dec bits); (a_exponent, dec e)] (VStr []))]))
  | _ => Raise NotImplementedError              (* "Can only output RSA at the moment" *)
  end.
Fixpoint algs_val (l : list AlgPolicy) : res (list (text * val)) :=
  match l with
  | [] => OK []
  | a :: t => bind (alg_val a) (fun v => bind (algs_val t) (fun more => OK ((nSignatureAlgorithm, v) :: more)))
  end.
Definition dur_val (us : Z) : val := VStr (timedelta_to_duration (us / 1000000)).
Definition policy_val (p : SigPolicy) : res val :=
  bind (algs_val (sp_algs p)) (fun algs =>
  OK (node ([(nPublishSafety, dur_val (sp_publish_safety p)); (nRetireSafety, dur_val (sp_retire_safety p));
             (nMaxSignatureValidity, dur_val (sp_max_validity p)); (nMinSignatureValidity, dur_val (sp_min_validity p));
             (nMaxValidityOverlap, dur_val (sp_max_overlap p)); (nMinValidityOverlap, dur_val (sp_min_overlap p))] ++ algs))).

Definition key_val (k : Key) : val :=
  VAttrs [(a_keyIdentifier, k_id k); (a_keyTag, dec (k_tag k))]
         (node [(nTTL, VStr (dec (k_ttl k))); (nFlags, VStr (dec (k_flags k))); (nProtocol, VStr (dec (k_proto k)));
                (nAlgorithm, VStr (dec (k_alg k))); (nPublicKey, VStr (k_pubtxt k))]).
Definition sig_val (s : Sig) : val :=
  VAttrs [(a_keyIdentifier, s_id s)]
         (node [(nTTL, VStr (dec (s_ttl s))); (nTypeCovered, VStr DNSKEY_name); (nAlgorithm, VStr (dec (s_alg s)));
                (nLabels, VStr (dec (s_labels s))); (nOriginalTTL, VStr (dec (s_ottl s)));
                (nSignatureExpiration, VStr (format_datetime (s_exp s))); (nSignatureInception, VStr (format_datetime (s_inc s)));
                (nKeyTag, VStr (dec (s_tag s))); (nSignersName, VStr (s_name s)); (nSignatureData, VStr (s_datatxt s))]).

(* sorted(bundle.keys, key=lambda x: x.key_tag): stable *)
Fixpoint insert_key (k : Key) (l : list Key) : list Key :=
  match l with [] => [k] | y :: t => if k_tag k <=? k_tag y then k :: l else y :: insert_key k t end.
Definition sort_keys (l : list Key) : list Key := fold_right insert_key [] l.
(* fold_right inserts the last element first: equal tags keep their original order *)

Definition bundle_val (b : Bundle) : val :=
  VAttrs [(a_id, b_id b)]
         (node ([(nInception, VStr (format_datetime (b_inc b))); (nExpiration, VStr (format_datetime (b_exp b)))] ++
                map (fun k => (nKey, key_val k)) (sort_keys (b_keys b)) ++ map (fun s => (nSignature, sig_val s)) (b_sigs b))).

Definition skr_val (r : Response) : res (list (text * val)) :=
  bind (policy_val (rs_ksk r)) (fun ksk => bind (policy_val (rs_zsk r)) (fun zsk =>
  OK [(nKSR, VAttrs [(a_id, rs_id r); (a_domain, rs_domain r); (a_serial, dec (rs_serial r))]
               (node [(nResponse, node ((nResponsePolicy, node [(nKSK, ksk); (nZSK, zsk)]) ::
                                         map (fun b => (nResponseBundle, bundle_val b)) (rs_bundles r)))]))])).

(* ---------------- loader ---------------- *)
Fixpoint lookup (name : text) (d : list (text * val)) : option val :=
  match d with [] => None | (k, v) :: t => if text_eqb k name then Some v else lookup name t end.
Fixpoint alookup (name : text) (d : list (text * text)) : option text :=
  match d with [] => None | (k, v) :: t => if text_eqb k name then Some v else alookup name t end.
Definition as_list (v : val) : list val := match v with VList l => l | x => [x] end.

(* d[name] on a dict / KeyError; TypeError when d is not a dict *)
Definition child (v : val) (name : text) : res val :=
  match v with
  | VNode d => match lookup name d with Some x => OK x | None => Raise KeyError end
  | _ => Raise TypeError
  end.
Definition attrs_of (v : val) : res (list (text * text)) := match v with VAttrs a _ => OK a | _ => Raise TypeError end.
Definition value_of (v : val) : res val := match v with VAttrs _ x => OK x | _ => Raise TypeError end.
Definition attr (v : val) (name : text) : res text :=
  bind (attrs_of v) (fun a => match alookup name a with Some x => OK x | None => Raise KeyError end).
Definition str_of (v : val) : res text := match v with VStr s => OK s | _ => Raise TypeError end.
Definition int_of (s : text) : res Z := match py_int s with Some n => OK n | None => Raise ValueError end.
Definition child_str (v : val) (name : text) : res text := bind (child v name) str_of.
Definition child_int (v : val) (name : text) : res Z := bind (child_str v name) int_of.
(* parse_utils.parse_datetime on the forms the writers produce; other spellings are outside this model *)
Definition datetime_of (s : text) : res Z := match parse_datetime s with Some secs => OK (secs * 1000000) | None => Raise ValueError end.
Definition dur_of (v : val) (name : text) : res Z :=
  bind (child_str v name) (fun s => bind (duration_to_timedelta s) (fun secs => OK (secs * 1000000))).

Definition alg_of_val (v : val) : res AlgPolicy :=
  bind (attr v a_algorithm) (fun a => bind (int_of a) (fun alg =>
  if (alg =? RSASHA1) || (alg =? RSASHA256) || (alg =? RSASHA512) || (alg =? RSAMD5) || (alg =? RSASHA1_NSEC3_SHA1) then
    bind (value_of v) (fun inner => bind (child inner nRSA) (fun rsa =>
    bind (attr rsa a_size) (fun sz => bind (int_of sz) (fun bits =>
    bind (attr rsa a_exponent) (fun ex => bind (int_of ex) (fun e => OK (APRsa alg bits e)))))))
  else Raise NotImplementedError)).        (* ECDSA / EdDSA policies: outside what the writer can emit *)
Fixpoint map_res {A B} (f : A -> res B) (l : list A) : res (list B) :=
  match l with [] => OK [] | x :: t => bind (f x) (fun y => bind (map_res f t) (fun ys => OK (y :: ys))) end.

Definition policy_of_val (v : val) : res SigPolicy :=
  bind (dur_of v nPublishSafety) (fun a => bind (dur_of v nRetireSafety) (fun b =>
  bind (dur_of v nMaxSignatureValidity) (fun c => bind (dur_of v nMinSignatureValidity) (fun d =>
  bind (dur_of v nMaxValidityOverlap) (fun e => bind (dur_of v nMinValidityOverlap) (fun f =>
  bind (child v nSignatureAlgorithm) (fun al => bind (map_res alg_of_val (as_list al)) (fun algs =>
  OK (mkSigPolicy a b c d e f algs))))))))).

Section Loader.
  Variable b64 : text -> list Z.        (* base64 decoding of key / signature text (oracle, as in Model.Data) *)

  Definition key_of_val (v : val) : res Key :=
    bind (attr v a_keyIdentifier) (fun id => bind (attr v a_keyTag) (fun tg => bind (int_of tg) (fun tag =>
    bind (value_of v) (fun inner =>
    bind (child_int inner nTTL) (fun ttl => bind (child_int inner nFlags) (fun fl => bind (child_int inner nProtocol) (fun pr =>
    bind (child_int inner nAlgorithm) (fun alg => bind (child_str inner nPublicKey) (fun pk =>
    OK (mkKey id tag ttl fl pr alg pk (b64 pk))))))))))).

  Definition sig_of_val (v : val) : res Sig :=
    bind (attrs_of v) (fun at_ => let id := match alookup a_keyIdentifier at_ with Some x => x | None => [] end in
    bind (value_of v) (fun inner =>
    bind (child_int inner nTTL) (fun ttl =>
    bind (child_str inner nTypeCovered) (fun tc => if negb (text_eqb tc DNSKEY_name) then Raise KeyError else
    bind (child_int inner nAlgorithm) (fun alg => bind (child_int inner nLabels) (fun lab => bind (child_int inner nOriginalTTL) (fun ottl =>
    bind (bind (child_str inner nSignatureExpiration) datetime_of) (fun ex => bind (bind (child_str inner nSignatureInception) datetime_of) (fun inc =>
    bind (child_int inner nKeyTag) (fun tag => bind (child_str inner nSignersName) (fun sn => bind (child_str inner nSignatureData) (fun sd =>
    OK (mkSig id ttl TYPE_DNSKEY alg lab ottl ex inc tag sn sd (b64 sd)))))))))))))).

  Definition bundle_of_val (v : val) : res Bundle :=
    bind (attr v a_id) (fun id => bind (value_of v) (fun inner =>
    bind (bind (child_str inner nInception) datetime_of) (fun inc => bind (bind (child_str inner nExpiration) datetime_of) (fun ex =>
    bind (child inner nKey) (fun ks => bind (map_res key_of_val (as_list ks)) (fun keys =>
    bind (child inner nSignature) (fun ss => bind (map_res sig_of_val (as_list ss)) (fun sigs =>
    OK (mkBundle id inc ex keys sigs None))))))))).

  (* skr.load.response_from_xml, after parse_ksr *)
  Definition response_of_val (d : list (text * val)) : res Response :=
    match lookup nKSR d with
    | None => Raise KeyError
    | Some ksr =>
        bind (value_of ksr) (fun inner => bind (child inner nResponse) (fun resp =>
        bind (child resp nResponseBundle) (fun bl => bind (map_res bundle_of_val (as_list bl)) (fun bundles =>
        bind (child resp nResponsePolicy) (fun pol =>
        bind (bind (child pol nKSK) policy_of_val) (fun ksk => bind (bind (child pol nZSK) policy_of_val) (fun zsk =>
        bind (attrs_of ksr) (fun at_ =>
        if match alookup a_timestamp at_ with Some _ => true | None => false end then Raise NotImplementedError else   (* timestamp: not produced by the writer *)
        bind (attr ksr a_id) (fun id => bind (bind (attr ksr a_serial) int_of) (fun serial => bind (attr ksr a_domain) (fun dom =>
        OK (mkResponse id serial dom ksk zsk bundles))))))))))))
    end.
End Loader.
