(* The text of an SKR: the writer's element structure (Model.SkrDoc.skr_val) laid out as the writer lays it out. *)
From KV Require Import Base.Prelude Base.Exn Base.Bytes Model.Data Model.Xml Model.XmlTree Model.Duration Model.Datetime Model.SkrDoc Model.Shape.

Definition leaf (n c : text) : shape := SLeaf n [] c.
Definition dur_text (us : Z) : text := timedelta_to_duration (us / 1000000).

Definition alg_shape (a : AlgPolicy) : shape :=
  match a with
  | APRsa alg bits e => SNode nSignatureAlgorithm [(a_algorithm, dec alg)] [SEmpty nRSA [(a_size, dec bits); (a_exponent, dec e)]]
  | _ => SEmpty nSignatureAlgorithm []          (* not emitted: the writer raises *)
  end.
Definition is_rsa (a : AlgPolicy) : bool := match a with APRsa _ _ _ => true | _ => false end.
Definition policy_shape (name : text) (p : SigPolicy) : shape :=
  SNode name [] ([leaf nPublishSafety (dur_text (sp_publish_safety p)); leaf nRetireSafety (dur_text (sp_retire_safety p));
                  leaf nMaxSignatureValidity (dur_text (sp_max_validity p)); leaf nMinSignatureValidity (dur_text (sp_min_validity p));
                  leaf nMaxValidityOverlap (dur_text (sp_max_overlap p)); leaf nMinValidityOverlap (dur_text (sp_min_overlap p))] ++
                 map alg_shape (sp_algs p)).
Definition key_shape (k : Key) : shape :=
  SNode nKey [(a_keyIdentifier, k_id k); (a_keyTag, dec (k_tag k))]
    [leaf nTTL (dec (k_ttl k)); leaf nFlags (dec (k_flags k)); leaf nProtocol (dec (k_proto k)); leaf nAlgorithm (dec (k_alg k)); leaf nPublicKey (k_pubtxt k)].
Definition sig_shape (s : Sig) : shape :=
  SNode nSignature [(a_keyIdentifier, s_id s)]
    [leaf nTTL (dec (s_ttl s)); leaf nTypeCovered DNSKEY_name; leaf nAlgorithm (dec (s_alg s)); leaf nLabels (dec (s_labels s));
     leaf nOriginalTTL (dec (s_ottl s)); leaf nSignatureExpiration (format_datetime (s_exp s)); leaf nSignatureInception (format_datetime (s_inc s));
     leaf nKeyTag (dec (s_tag s)); leaf nSignersName (s_name s); leaf nSignatureData (s_datatxt s)].
Definition bundle_shape (b : Bundle) : shape :=
  SNode nResponseBundle [(a_id, b_id b)]
    ([leaf nInception (format_datetime (b_inc b)); leaf nExpiration (format_datetime (b_exp b))] ++
     map key_shape (sort_keys (b_keys b)) ++ map sig_shape (b_sigs b)).
Definition skr_shape (r : Response) : shape :=
  SNode nKSR [(a_id, rs_id r); (a_domain, rs_domain r); (a_serial, dec (rs_serial r))]
    [SNode nResponse [] (SNode nResponsePolicy [] [policy_shape nKSK (rs_ksk r); policy_shape nZSK (rs_zsk r)] :: map bundle_shape (rs_bundles r))].

(* <?xml version="1.0" encoding="UTF-8"?>\n *)
Definition xml_prolog : text :=
  [60;63;120;109;108;32;118;101;114;115;105;111;110;61;34;49;46;48;34;32;101;110;99;111;100;105;110;103;61;34;85;84;70;45;56;34;63;62;10].
Definition skr_text (r : Response) : text := xml_prolog ++ ser (build 0 (skr_shape r) [10]).
Definition rsa_only (r : Response) : bool := forallb is_rsa (sp_algs (rs_ksk r)) && forallb is_rsa (sp_algs (rs_zsk r)).

