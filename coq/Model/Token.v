(* Model of the PKCS#11 layer of kskm.misc.hsm: sessions, find_key_by_label, get_p11_key,
   _format_data_for_signing, sign_using_p11.  The cryptographic token is abstract:
   hashes and the token's signing function are Section variables (oracles). *)
From KV Require Import Base.Prelude Base.Exn Base.Bytes Model.Data Model.Wire.

(* PKCS#11 constants (cross-checked against Gen/Hsm.v) *)
Definition CKO_PUBLIC := 2. Definition CKO_PRIVATE := 3. Definition CKO_SECRET := 4.
Definition CKK_RSA := 0. Definition CKK_EC := 3. Definition CKK_AES := 31. Definition CKK_DES3 := 21.
Definition CKM_RSA_X_509 := 3. Definition CKM_SHA1_RSA_PKCS := 6. Definition CKM_SHA256_RSA_PKCS := 64.
Definition CKM_SHA512_RSA_PKCS := 66. Definition CKM_ECDSA := 4161. Definition CKM_ECDSA_SHA256 := 4164.
Definition CKM_ECDSA_SHA384 := 4165. Definition CKM_EDDSA := 4183.

Record Obj := mkObj {
  o_handle : Z;
  o_cls : Z;
  o_label : text;
  o_ktype : Z;
  (* result of _p11_object_to_public_key on this object: base64 text, None, or an exception
     (the attribute conversion itself is modelled in Wire.v / proved in C14) *)
  o_pubkey : res (option text);
  o_pubraw : list Z                 (* decoded octets of that text (oracle) *)
}.
Record Slot := mkSlot { sl_id : Z; sl_login_ok : bool; sl_objs : list Obj }.
Definition Module := list Slot.

(* KSKM_P11Module.sessions: slots whose login fails are dropped *)
Definition sessions (m : Module) : list Slot := filter sl_login_ok m.

Record P11Key := mkP11Key {
  pk_label : text; pk_ktype : Z; pk_cls : Z; pk_hash_hsm : option bool;
  pk_pub : option text; pk_pubraw : list Z;
  pk_module : Z; pk_slot : Z; pk_handle : Z
}.

Definition known_ktype (t : Z) : bool := (t =? CKK_RSA) || (t =? CKK_EC) || (t =? CKK_AES) || (t =? CKK_DES3).

(* KSKM_P11Module.find_key_by_label *)
Fixpoint find_in_slots (mi : Z) (ss : list Slot) (label : text) (cls : Z) (hh : option bool) : res (option P11Key) :=
  match ss with
  | [] => OK None
  | s :: rest =>
      match filter (fun o => text_eqb (o_label o) label && (o_cls o =? cls)) (sl_objs s) with
      | [] => find_in_slots mi rest label cls hh
      | [o] =>
          bind (if cls =? CKO_SECRET then OK None else o_pubkey o) (fun pub =>
          if known_ktype (o_ktype o)
          then OK (Some (mkP11Key label (o_ktype o) cls hh pub (match pub with Some _ => o_pubraw o | None => [] end)
                                  mi (sl_id s) (o_handle o)))
          else Raise ValueError)
      | _ => Raise RuntimeError        (* more than one key with that label in the slot *)
      end
  end.
Definition find_key_by_label (mi : Z) (m : Module) (label : text) (cls : Z) (hh : option bool) : res (option P11Key) :=
  find_in_slots mi (sessions m) label cls hh.

(* hsm.get_p11_key: first module that has it *)
Fixpoint get_p11_key_from (mi : Z) (ms : list Module) (label : text) (public : bool) (hh : option bool) : res (option P11Key) :=
  match ms with
  | [] => OK None
  | m :: rest =>
      bind (find_key_by_label mi m label (if public then CKO_PUBLIC else CKO_PRIVATE) hh) (fun r =>
      match r with
      | Some k => OK (Some k)
      | None => get_p11_key_from (mi + 1) rest label public hh
      end)
  end.
Definition get_p11_key (ms : list Module) (label : text) (public : bool) (hh : option bool) : res (option P11Key) :=
  get_p11_key_from 0 ms label public hh.

Section Signing.
  (* hash oracle: digest of [data] under SHA-1 / 256 / 384 / 512 (id = 1, 256, 384, 512) *)
  Variable H : Z -> list Z -> list Z.

  Definition mech_hash_on_hsm (alg : Z) : option Z :=
    if alg =? RSASHA1 then Some CKM_SHA1_RSA_PKCS else if alg =? RSASHA256 then Some CKM_SHA256_RSA_PKCS
    else if alg =? RSASHA512 then Some CKM_SHA512_RSA_PKCS else if alg =? ECDSAP256SHA256 then Some CKM_ECDSA_SHA256
    else if alg =? ECDSAP384SHA384 then Some CKM_ECDSA_SHA384 else if (alg =? ED25519) || (alg =? ED448) then Some CKM_EDDSA else None.
  Definition mech_raw (alg : Z) : option Z :=
    if (alg =? RSASHA1) || (alg =? RSASHA256) || (alg =? RSASHA512) then Some CKM_RSA_X_509
    else if (alg =? ECDSAP256SHA256) || (alg =? ECDSAP384SHA384) then Some CKM_ECDSA
    else if (alg =? ED25519) || (alg =? ED448) then Some CKM_EDDSA else None.

  Definition digestinfo (alg : Z) : option (Z * list Z) :=
    if alg =? RSASHA1 then Some (1, [48;33;48;9;6;5;43;14;3;2;26;5;0;4;20])
    else if alg =? RSASHA256 then Some (256, [48;49;48;13;6;9;96;134;72;1;101;3;4;2;1;5;0;4;32])
    else if alg =? RSASHA512 then Some (512, [48;81;48;13;6;9;96;134;72;1;101;3;4;2;3;5;0;4;64])
    else None.

  Definition truthy (o : option bool) : bool := match o with Some true => true | _ => false end.

  (* _format_data_for_signing: (mechanism, octets handed to the token) *)
  Definition format_data_for_signing (key : P11Key) (data : list Z) (alg : Z) : res (Z * list Z) :=
    let mech := if truthy (pk_hash_hsm key) then mech_hash_on_hsm alg else mech_raw alg in
    match mech with
    | None => Raise RuntimeError
    | Some m =>
        if (m =? CKM_ECDSA_SHA256) || (m =? CKM_ECDSA_SHA384) || (m =? CKM_SHA1_RSA_PKCS) || (m =? CKM_SHA256_RSA_PKCS) || (m =? CKM_SHA512_RSA_PKCS)
        then OK (m, data)
        else if m =? CKM_RSA_X_509 then
          match digestinfo alg with
          | None => Raise RuntimeError
          | Some (h, oid) =>
              let oid_digest := oid ++ H h data in
              match pk_pub key with
              | None => Raise RuntimeError
              | Some _ =>
                  bind (rsa_decode (pk_pubraw key)) (fun r =>
                  let sig_len := rsa_bits r / 8 in
                  let pad_len := sig_len - len oid_digest - 3 in
                  OK (m, [0; 1] ++ repeat 255 (Z.to_nat pad_len) ++ [0] ++ oid_digest))
              end
          end
        else if m =? CKM_ECDSA then
          OK (m, if alg =? ECDSAP256SHA256 then H 256 data else if alg =? ECDSAP384SHA384 then H 384 data else data)
        else if m =? CKM_EDDSA then
          (if truthy (pk_hash_hsm key) then Raise NotImplementedError
           else OK (m, if alg =? ED25519 then H 512 data else if alg =? ED448 then H 448 data (* shake_256, 114 octets *) else data))
        else Raise RuntimeError
    end.

  (* the token: what session.sign(handle, octets, mechanism) returns (signature as opaque text handle + octets) *)
  Variable token_sign : P11Key -> Z -> list Z -> res text.

  (* hsm.sign_using_p11 *)
  Definition sign_using_p11 (key : P11Key) (data : list Z) (alg : Z) : res text :=
    if (pk_ktype key =? CKK_AES) || (pk_ktype key =? CKK_DES3) then Raise ValueError else
    bind (format_data_for_signing key data alg) (fun md =>
    if pk_cls key =? CKO_PUBLIC then Raise RuntimeError      (* no private key handle *)
    else token_sign key (fst md) (snd md)).
End Signing.

(* environment handling around the module load (hsm.env): set, then restore *)
Definition env := list (text * text).
Fixpoint env_get (e : env) (k : text) : option text :=
  match e with [] => None | (k', v) :: t => if text_eqb k k' then Some v else env_get t k end.
Fixpoint env_set (e : env) (k v : text) : env :=
  match e with
  | [] => [(k, v)]
  | (k', v') :: t => if text_eqb k k' then (k, v) :: t else (k', v') :: env_set t k v
  end.
Fixpoint env_del (e : env) (k : text) : env :=
  match e with [] => [] | (k', v') :: t => if text_eqb k k' then env_del t k else (k', v') :: env_del t k end.
Definition env_update (e : env) (upd : env) : env := fold_left (fun acc kv => env_set acc (fst kv) (snd kv)) upd e.
Definition env_save (e : env) (upd : env) : list (text * option text) := map (fun kv => (fst kv, env_get e (fst kv))) upd.
Definition env_restore (e : env) (saved : list (text * option text)) : env :=
  fold_left (fun acc kv => match snd kv with None => env_del acc (fst kv) | Some v => env_set acc (fst kv) v end) saved e.
