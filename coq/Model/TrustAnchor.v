(* Model of kskm.tools.trustanchor.trustanchor / kskm.ta.data: which KeyDigests are exported, with what content, in what order,
   and how they are rendered (xml.sax.saxutils.escape / quoteattr for the free-text fields). *)
From KV Require Import Base.Prelude Base.Exn Base.Bytes Model.Data Model.Wire Model.Token Model.Sign Model.Duration Model.Datetime.

Record KeyDigest := mkKD { kd_id : text; kd_tag : Z; kd_alg : Z; kd_dtype : Z; kd_digest : text; kd_from : Z; kd_until : option Z }.

Definition opt_eqb (a b : option Z) : bool := match a, b with Some x, Some y => x =? y | None, None => true | _, _ => false end.
Definition kd_eqb (a b : KeyDigest) : bool :=
  text_eqb (kd_id a) (kd_id b) && (kd_tag a =? kd_tag b) && (kd_alg a =? kd_alg b) && (kd_dtype a =? kd_dtype b) &&
  text_eqb (kd_digest a) (kd_digest b) && (kd_from a =? kd_from b) && opt_eqb (kd_until a) (kd_until b).

Section TA.
  (* upper-case hex SHA-256 *)
  Variable ds_hex : list Z -> text.

  (* one configured KSK: look the public object up by label, form the DNSKEY with flags 257 and the configured algorithm, digest it.
     validity: microseconds since the epoch *)
  Definition ta_entry (ms : list Module) (ttl : Z) (ksk : KskKey) : res (option KeyDigest) :=
    bind (get_p11_key ms (kk_label ksk) true None) (fun f =>
    match f with
    | None => OK None
    | Some k =>
        match pk_pub k with
        | None => OK None
        | Some ptxt =>
            bind (public_key_to_dnssec_key ptxt (pk_pubraw k) (kk_label ksk) (kk_alg ksk) ttl 257) (fun key =>
            bind (ds_preimage dot key) (fun pre =>
            OK (Some (mkKD (k_id key) (k_tag key) (k_alg key) 2 (ds_hex pre) (kk_valid_from ksk) (kk_valid_until ksk)))))
        end
    end).

  Fixpoint ta_collect (ms : list Module) (ttl : Z) (kks : KskKeys) : res (list KeyDigest) :=
    match kks with
    | [] => OK []
    | nk :: rest =>
        bind (ta_entry ms ttl (snd nk)) (fun e =>
        bind (ta_collect ms ttl rest) (fun more => OK (match e with Some x => x :: more | None => more end)))
    end.

  (* key_digests is a set: equal entries collapse *)
  Fixpoint dedupe (l : list KeyDigest) : list KeyDigest :=
    match l with
    | [] => []
    | x :: t => if existsb (kd_eqb x) t then dedupe t else x :: dedupe t
    end.

  (* sorted(..., key=valid_from) *)
  Fixpoint insert_kd (x : KeyDigest) (l : list KeyDigest) : list KeyDigest :=
    match l with
    | [] => [x]
    | y :: t => if kd_from x <=? kd_from y then x :: l else y :: insert_kd x t
    end.
  Definition sort_kd (l : list KeyDigest) : list KeyDigest := fold_right insert_kd [] l.

  Definition ta_entries (ms : list Module) (ttl : Z) (kks : KskKeys) : res (list KeyDigest) :=
    bind (ta_collect ms ttl kks) (fun l => OK (sort_kd (dedupe l))).
End TA.

(* ---------------- rendering ---------------- *)
(* xml.sax.saxutils.escape: & > < (in that order; the replacements introduce none of the later characters) *)
Definition amp : text := [38; 97; 109; 112; 59].       (* &amp; *)
Definition gt : text := [38; 103; 116; 59].            (* &gt; *)
Definition lt : text := [38; 108; 116; 59].            (* &lt; *)
Definition esc_char (c : Z) : text :=
  if c =? 38 then amp else if c =? 62 then gt else if c =? 60 then lt else [c].
Definition escape (s : text) : text := flat_map esc_char s.

(* quoteattr: escape plus \n \r \t as character references, then quoting *)
Definition attr_char (c : Z) : text :=
  if c =? 10 then [38; 35; 49; 48; 59] else if c =? 13 then [38; 35; 49; 51; 59] else if c =? 9 then [38; 35; 57; 59] else esc_char c.
Definition attr_escape (s : text) : text := flat_map attr_char s.
Definition quot : text := [38; 113; 117; 111; 116; 59].   (* &quot; *)
Definition has (c : Z) (s : text) : bool := existsb (Z.eqb c) s.
Definition quoteattr (s : text) : text :=
  let d := attr_escape s in
  if has 34 d then
    if has 39 d then [34] ++ flat_map (fun c => if c =? 34 then quot else [c]) d ++ [34]
    else [39] ++ d ++ [39]
  else [34] ++ d ++ [34].

(* the reader's side: resolve the predefined entities and the decimal character references used above *)
Fixpoint strip_prefix (p s : text) : option text :=
  match p, s with
  | [], _ => Some s
  | a :: p', b :: s' => if a =? b then strip_prefix p' s' else None
  | _ :: _, [] => None
  end.
Definition entities : list (text * Z) :=
  [(amp, 38); (gt, 62); (lt, 60); (quot, 34); ([38; 35; 49; 48; 59], 10); ([38; 35; 49; 51; 59], 13); ([38; 35; 57; 59], 9)].
Fixpoint decode_entity (es : list (text * Z)) (s : text) : option (Z * text) :=
  match es with
  | [] => None
  | (p, c) :: r => match strip_prefix p s with Some t => Some (c, t) | None => decode_entity r s end
  end.
Fixpoint unescape (fuel : nat) (s : text) : text :=
  match fuel with
  | O => s
  | S f =>
      match s with
      | [] => []
      | c :: t => match decode_entity entities s with Some (x, t') => x :: unescape f t' | None => c :: unescape f t end
      end
  end.
Definition unquote (s : text) : option text :=
  match s with
  | q :: t => if (q =? 34) || (q =? 39) then
                match rev t with
                | q' :: body => if q' =? q then Some (unescape (length t) (rev body)) else None
                | [] => None
                end
              else None
  | [] => None
  end.

Definition str (s : list Z) : text := s.
Definition nl : text := [10].
(* "<KeyDigest id=" ... *)
Definition s_kd_open : text := [60;75;101;121;68;105;103;101;115;116;32;105;100;61].
Definition s_valid_from : text := [32;118;97;108;105;100;70;114;111;109;61;34].
Definition s_valid_until : text := [32;118;97;108;105;100;85;110;116;105;108;61;34].
Definition tag_open (n : text) : text := [60] ++ n ++ [62].
Definition tag_close (n : text) : text := [60; 47] ++ n ++ [62].
Definition n_KeyTag : text := [75;101;121;84;97;103].
Definition n_Algorithm : text := [65;108;103;111;114;105;116;104;109].
Definition n_DigestType : text := [68;105;103;101;115;116;84;121;112;101].
Definition n_Digest : text := [68;105;103;101;115;116].
Definition n_KeyDigest : text := [75;101;121;68;105;103;101;115;116].
Definition n_Zone : text := [90;111;110;101].
Definition n_TrustAnchor : text := [84;114;117;115;116;65;110;99;104;111;114].

Definition render_kd (k : KeyDigest) : text :=
  s_kd_open ++ quoteattr (kd_id k) ++ s_valid_from ++ format_datetime (kd_from k) ++ [34] ++
  (match kd_until k with Some u => s_valid_until ++ format_datetime u ++ [34] | None => [] end) ++ [62] ++ nl ++
  tag_open n_KeyTag ++ dec (kd_tag k) ++ tag_close n_KeyTag ++ nl ++
  tag_open n_Algorithm ++ dec (kd_alg k) ++ tag_close n_Algorithm ++ nl ++
  tag_open n_DigestType ++ dec (kd_dtype k) ++ tag_close n_DigestType ++ nl ++
  tag_open n_Digest ++ kd_digest k ++ tag_close n_Digest ++ nl ++
  tag_close n_KeyDigest ++ nl.

(* <?xml version="1.0" encoding="UTF-8"?>\n *)
Definition xml_decl : text :=
  [60;63;120;109;108;32;118;101;114;115;105;111;110;61;34;49;46;48;34;32;101;110;99;111;100;105;110;103;61;34;85;84;70;45;56;34;63;62;10].
Definition s_ta_open : text := [60;84;114;117;115;116;65;110;99;104;111;114;32;105;100;61].
Definition s_source : text := [32;115;111;117;114;99;101;61].

Definition render_ta (id source zone : text) (kds : list KeyDigest) : text :=
  xml_decl ++ s_ta_open ++ quoteattr id ++ s_source ++ quoteattr source ++ [62] ++ nl ++
  tag_open n_Zone ++ escape zone ++ tag_close n_Zone ++ nl ++
  flat_map render_kd kds ++ tag_close n_TrustAnchor.

(* the fixed source URL and zone tools/trustanchor.py passes *)
Definition ta_source : text :=
  [104;116;116;112;58;47;47;100;97;116;97;46;105;97;110;97;46;111;114;103;47;114;111;111;116;45;97;110;99;104;111;114;115;47;114;111;111;116;45;97;110;99;104;111;114;115;46;120;109;108].
Definition ta_document (ds_hex : list Z -> text) (ms : list Module) (ttl : Z) (kks : KskKeys) (id : text) : res text :=
  bind (ta_entries ds_hex ms ttl kks) (fun es => OK (render_ta id ta_source dot es)).
