(* Model of kskm.common.dnssec, common.signature.make_raw_rrsig, common.rsa_utils
   (RFC 3110 codec), common.ecdsa_utils (RFC 6605 forms), ta.keydigest DS preimage,
   Key.as_revoked, and the EC part of misc.hsm._p11_object_to_public_key. *)
From KV Require Import Base.Prelude Base.Exn Base.Bytes Model.Data.

(* ---- dnssec.key_to_rdata: struct.pack("!HBB", flags, protocol, algorithm) + pubkey *)
Definition key_to_rdata_raw (flags proto alg : Z) (pub : list Z) : res (list Z) :=
  if in_u16 flags && in_u8 proto && in_u8 alg
  then OK (pack2 flags ++ pack1 proto ++ pack1 alg ++ pub)
  else Raise StructError.
Definition key_to_rdata (k : Key) : res (list Z) :=
  key_to_rdata_raw (k_flags k) (k_proto k) (k_alg k) (k_pub k).

(* ---- dnssec.calculate_key_tag: the loop over rdata with the _odd toggle *)
Fixpoint tag_sum (odd : bool) (acc : Z) (l : list Z) : Z :=
  match l with
  | [] => acc
  | b :: t => tag_sum (negb odd) (if odd then acc + b else acc + Z.shiftl b 8) t
  end.
Definition key_tag_of_rdata (rdata : list Z) : Z :=
  let s := tag_sum false 0 rdata in
  Z.land (Z.land s 65535 + Z.shiftr s 16) 65535.
Definition calculate_key_tag (k : Key) : res Z :=
  bind (key_to_rdata k) (fun r => OK (key_tag_of_rdata r)).

(* ---- Key.as_revoked *)
Definition as_revoked (k : Key) : res Key :=
  let k' := mkKey (k_id k) (k_tag k) (k_ttl k) (Z.lor (k_flags k) FLAG_REVOKE)
                  (k_proto k) (k_alg k) (k_pubtxt k) (k_pub k) in
  bind (calculate_key_tag k') (fun t =>
  OK (mkKey (k_id k) t (k_ttl k) (k_flags k') (k_proto k) (k_alg k) (k_pubtxt k) (k_pub k))).

(* ---- signature.dn2wire *)
Definition dot : text := [46].
Definition dn2wire (dn : text) : res (list Z) :=
  if text_eqb dn dot then OK [0] else Raise NotImplementedError.

(* ---- signature.make_raw_rrsig *)
Definition rr_prefix (name : list Z) (typ ottl : Z) : list Z :=
  name ++ pack2 typ ++ pack2 CLASS_IN ++ pack4 ottl.

Fixpoint rdatas (keys : list Key) : res (list (list Z)) :=
  match keys with
  | [] => OK []
  | k :: t => bind (key_to_rdata k) (fun r => bind (rdatas t) (fun rs => OK (r :: rs)))
  end.

Fixpoint emit_rrs (prefix : list Z) (rs : list (list Z)) : res (list Z) :=
  match rs with
  | [] => OK []
  | r :: t => if in_u16 (len r)
              then bind (emit_rrs prefix t) (fun rest => OK (prefix ++ pack2 (len r) ++ r ++ rest))
              else Raise StructError
  end.

Definition make_raw_rrsig (s : Sig) (keys : list Key) : res (list Z) :=
  let e := s_exp s / usec in let i := s_inc s / usec in
  if in_u16 (s_type s) && in_u8 (s_alg s) && in_u8 (s_labels s) && in_u32 (s_ottl s)
     && in_u32 e && in_u32 i && in_u16 (s_tag s)
  then
    bind (dn2wire (s_name s)) (fun name =>
    let hdr := pack2 (s_type s) ++ pack1 (s_alg s) ++ pack1 (s_labels s) ++ pack4 (s_ottl s)
               ++ pack4 e ++ pack4 i ++ pack2 (s_tag s) ++ name in
    bind (rdatas keys) (fun rs =>
    bind (emit_rrs (rr_prefix name (s_type s) (s_ottl s)) (sort_bytes rs)) (fun body =>
    OK (hdr ++ body))))
  else Raise StructError.

(* ---- ta.keydigest: DS digest preimage = dn2wire(domain) + key_to_rdata(key) *)
Definition ds_preimage (domain : text) (k : Key) : res (list Z) :=
  bind (dn2wire domain) (fun n => bind (key_to_rdata k) (fun r => OK (n ++ r))).

(* ---- rsa_utils.decode_public_key (RFC 3110), on the decoded octets *)
Record RsaPub := mkRsaPub { rsa_bits : Z; rsa_e : Z; rsa_n : list Z }.

Definition rsa_decode (b : list Z) : res RsaPub :=
  match b with
  | [] => Raise IndexError
  | 0 :: rest =>
      match rest with
      | h :: l :: rest' =>
          let explen := Z.to_nat (h * 256 + l) in
          OK (mkRsaPub (len (skipn explen rest') * 8) (from_be (firstn explen rest')) (skipn explen rest'))
      | _ => Raise StructError     (* struct.unpack("!H", short) *)
      end
  | explen :: rest =>
      let n := Z.to_nat explen in
      OK (mkRsaPub (len (skipn n rest) * 8) (from_be (firstn n rest)) (skipn n rest))
  end.

(* ---- rsa_utils.encode_public_key, before base64 *)
Definition rsa_encode (e : Z) (n : list Z) : res (list Z) :=
  if e <? 0 then Raise OverflowError (* int.to_bytes of a negative number *) else
  let el := byte_len e in
  let elz := Z.of_nat el in
  if 255 <? elz
  then (if in_u16 elz then OK ([0] ++ pack2 elz ++ to_be el e ++ n) else Raise StructError)
  else OK (pack1 elz ++ to_be el e ++ n).

(* ---- ecdsa_utils *)
Definition ecdsa_expected_size (alg : Z) : res Z :=
  if alg =? ECDSAP256SHA256 then OK 256 else if alg =? ECDSAP384SHA384 then OK 384
  else Raise ValueError.
Definition ecdsa_pubkey_size (pub : list Z) : Z := len pub * 8 / 2.
Definition ecdsa_without_prefix (pub : list Z) (alg : Z) : res (list Z) :=
  bind (ecdsa_expected_size alg) (fun ex =>
  if ecdsa_pubkey_size pub =? ex then OK pub
  else match pub with
       | 4 :: rest => OK rest
       | [] => Raise IndexError
       | _ => OK pub
       end).
(* Key.ecdsa_public_key_size validator: accepted iff size after prefix removal matches *)
Definition key_ecdsa_size_ok (pub : list Z) (alg : Z) : res unit :=
  if is_ecdsa alg then
    bind (ecdsa_without_prefix pub alg) (fun p =>
    bind (ecdsa_expected_size alg) (fun ex =>
    if ecdsa_pubkey_size p =? ex then OK tt else Raise ValidationError))
  else OK tt.

(* KSKM_PublicKey_ECDSA.to_cryptography_pubkey: the SEC1 point handed to the crypto library *)
Definition ecdsa_to_sec1 (q : list Z) (alg : Z) : list Z :=
  let n := if alg =? ECDSAP256SHA256 then 64 else 96 in
  if len q =? n then 4 :: q else q.

(* ---- misc.hsm._p11_object_to_public_key, EC branch.
   curve: 256 or 384 as decided by the CKA_EC_PARAMS OID table (Gen/Constants.v). *)
Definition der_wrapped (point : list Z) : bool :=
  match point with 4 :: l :: 4 :: _ => l =? len point - 2 | _ => false end.
Definition p11_ec_point_to_pub (point : list Z) (curve : Z) : res (option (list Z)) :=
  match point with
  | [] => OK None
  | _ =>
    if (len point - 2 <? 0) || (255 <? len point - 2) then Raise ValueError (* bytes([4, n, 4]) *) else
    let p := if der_wrapped point then skipn 2 point else point in
    let ec_len := (len p - 1) * 8 / 2 in
    if negb (ec_len =? curve) then Raise RuntimeError
    else match p with
         | 4 :: q => OK (Some q)
         | _ => Raise RuntimeError
         end
  end.
