(* Model of the KSR receiver (kskm.wksr.server): file-name wash and storage path, the content-type / size gate,
   the client-certificate whitelist, and the verdict on a stored KSR. *)
From KV Require Import Base.Prelude Base.Exn Base.Bytes Model.Data Model.Wire Model.KsrPolicy Model.Chain Model.Duration Model.Datetime.

(* ---------------- save_ksr ---------------- *)
(* re.sub(r"[^a-zA-Z0-9_\-]+", "_", name): every maximal run of other characters becomes one underscore; characters are code points *)
Definition safe_char (c : Z) : bool :=
  ((97 <=? c) && (c <=? 122)) || ((65 <=? c) && (c <=? 90)) || ((48 <=? c) && (c <=? 57)) || (c =? 95) || (c =? 45).
Fixpoint wash_from (in_run : bool) (s : text) : text :=
  match s with
  | [] => []
  | c :: t => if safe_char c then c :: wash_from false t else if in_run then wash_from true t else 95 :: wash_from true t
  end.
Definition wash (s : text) : text := wash_from false s.

(* datetime.now(UTC).strftime("_%Y%m%d_%H%M%S_%f") *)
Definition pad6 (n : Z) : text :=
  pad2 (n / 10000) ++ pad2 (n / 100 mod 100) ++ pad2 (n mod 100).
Definition suffix (us : Z) : text :=
  let s := us / 1000000 in
  let r := s mod 86400 in
  let '(y, m, d) := civil_from_days (s / 86400) in
  [95] ++ pad4 y ++ pad2 m ++ pad2 d ++ [95] ++ pad2 (r / 3600) ++ pad2 (r mod 3600 / 60) ++ pad2 (r mod 60) ++ [95] ++ pad6 (us mod 1000000).
Definition dot_xml : text := [46; 120; 109; 108].
Definition stored_name (client_name : text) (now_us : Z) : text := wash client_name ++ suffix now_us ++ dot_xml.

(* pathlib: upload_path / Path(name). A name without separator is appended as one component *)
Definition has_sep (s : text) : bool := existsb (fun c => c =? 47) s.
Definition join_path (dir name : text) : text :=
  if match name with 47 :: _ => true | _ => false end then name else dir ++ [47] ++ name.

Inductive save_outcome :=
| Rejected (status : Z)                     (* HTTPException before anything is read or written *)
| Written (path : text) (contents : list Z).

Definition save_ksr (cfg_ctype : text) (max_size : Z) (upload_dir : text)
                    (ctype : option text) (size : option Z) (client_name : text) (contents : list Z) (now_us : Z) : save_outcome :=
  if negb (match ctype with Some c => text_eqb c cfg_ctype | None => false end) then Rejected 400 else
  match size with
  | None => Rejected 400
  | Some n => if n >? max_size then Rejected 413 else Written (join_path upload_dir (stored_name client_name now_us)) contents
  end.

(* ---------------- client certificate whitelist ---------------- *)
Section Whitelist.
  (* hex SHA-256 of the DER certificate; parse: does load_der_x509_certificate accept the octets? *)
  Variable fingerprint : list Z -> text.
  Variable parses : list Z -> bool.

  (* peercert.request_peercert_digest: no certificate -> load_der_x509_certificate(None) raises TypeError *)
  Definition request_digest (cert : option (list Z)) : res (option text) :=
    match cert with
    | None => Raise TypeError
    | Some der => if parses der then OK (Some (fingerprint der)) else Raise ValueError
    end.

  Definition HTTP403 : Z := 403.
  (* ClientCertificateWhitelist.dispatch: true = the request is passed on *)
  Definition dispatch (whitelist : list text) (cert : option (list Z)) : res bool :=
    bind (request_digest cert) (fun d =>
    match d with
    | None => OK true
    | Some x => if existsb (text_eqb x) whitelist then OK true else Raise HTTP403
    end).
End Whitelist.

(* ---------------- validate_ksr ---------------- *)
Section Verdict.
  Variable verify : Key -> Sig -> list Z -> bool.

  (* subclasses of kskm.common.validate.PolicyViolation *)
  Definition is_policy_violation (c : Z) : bool := (100 <=? c) && (c <=? 141).

  (* prev: None when no previous SKR is configured, otherwise the outcome of load_skr;
     parsed: outcome of reading and parsing the stored file (size cap, XML, schema) *)
  Definition judge (now : Z) (p : ReqPolicy) (prev : option (res Response)) (parsed : res Request) : res unit :=
    bind (match prev with None => OK None | Some r => bind r (fun x => OK (Some x)) end) (fun prev' =>
    bind parsed (fun ksr =>
    validate_request verify now p ksr >>>
    match prev' with Some skr => check_skr_and_ksr p ksr skr None | None => OK tt end)).

  (* true = status OK, false = status ERROR; other exceptions escape (HTTP 500) *)
  Definition validate_ksr (now : Z) (p : ReqPolicy) (prev : option (res Response)) (parsed : res Request) : res bool :=
    match judge now p prev parsed with
    | OK _ => OK true
    | Raise c => if is_policy_violation c then OK false else Raise c
    end.
End Verdict.
