(* Model of kskm.common.wordlist.pgp_wordlist and its inverse. *)
From KV Require Import Base.Prelude Base.Bytes Model.Data.

Definition wtable := list (text * text).

Fixpoint pgp_words (tbl : wtable) (odd : bool) (data : list Z) : list text :=
  match data with
  | [] => []
  | b :: t => (let row := nth (Z.to_nat b) tbl ([], []) in if odd then snd row else fst row) :: pgp_words tbl (negb odd) t
  end.
Definition pgp_wordlist (tbl : wtable) (data : list Z) : list text := pgp_words tbl false data.

(* inverse: position of a word in the even / odd column *)
Fixpoint index_of (w : text) (col : list text) (i : Z) : option Z :=
  match col with
  | [] => None
  | x :: t => if text_eqb x w then Some i else index_of w t (i + 1)
  end.
Fixpoint pgp_decode (tbl : wtable) (odd : bool) (ws : list text) : option (list Z) :=
  match ws with
  | [] => Some []
  | w :: t =>
      match index_of w (map (if odd then snd else fst) tbl) 0, pgp_decode tbl (negb odd) t with
      | Some b, Some rest => Some (b :: rest)
      | _, _ => None
      end
  end.

(* loaders: a file is read ONCE; digest and parse are taken from that buffer.
   [read k] = content returned by the k-th read of the file during the run (it may change between reads). *)
Definition load_and_show {A B} (digest : list Z -> A) (parse : list Z -> B) (read : nat -> list Z) : A * B :=
  let buf := read 0%nat in (digest buf, parse buf).
