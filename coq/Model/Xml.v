(* Model of kskm.common.xml_parser: the minimal KSR/SKR reader.
   Strings are lists of code points. The three regular expressions are modelled by the
   deterministic scans their backtracking semantics reduce to (validated by function-level
   correspondence against re.match):
     R1  start tag with attributes: < word+? space+? any+? slash-star >   (lazy groups)
     R2  bare start tag: < word+ >
     R3  attribute: ^ word+ = " any+? " space-star any-star
   \w and \s are exact on ASCII; above ASCII the word class is the parameter [uni_word]. *)
From KV Require Import Base.Prelude Base.Exn Base.Bytes Model.Data.

Section Xml.
  Variable uni_word : Z -> bool.      (* Python's \w on code points >= 128 (oracle) *)

  (* the 29 code points that str.strip(), str.isspace() and re \s agree on *)
  Definition is_space (c : Z) : bool :=
    ((9 <=? c) && (c <=? 13)) || ((28 <=? c) && (c <=? 32)) || (c =? 133) || (c =? 160) || (c =? 5760) ||
    ((8192 <=? c) && (c <=? 8202)) || (c =? 8232) || (c =? 8233) || (c =? 8239) || (c =? 8287) || (c =? 12288).
  Definition is_word (c : Z) : bool :=
    if c <? 128 then ((48 <=? c) && (c <=? 57)) || ((65 <=? c) && (c <=? 90)) || ((97 <=? c) && (c <=? 122)) || (c =? 95)
    else uni_word c.
  Definition NL := 10. Definition LT := 60. Definition GT := 62. Definition SLASH := 47.
  Definition QUOTE := 34. Definition EQ := 61.

  (* str.strip() *)
  Fixpoint lstrip (s : text) : text :=
    match s with c :: t => if is_space c then lstrip t else s | [] => [] end.
  Definition rstrip (s : text) : text := rev (lstrip (rev s)).
  Definition strip (s : text) : text := rstrip (lstrip s).

  (* maximal run of characters satisfying p: (run, rest) *)
  Fixpoint span (p : Z -> bool) (s : text) : text * text :=
    match s with
    | c :: t => if p c then let (a, b) := span p t in (c :: a, b) else ([], s)
    | [] => ([], [])
    end.

  Fixpoint starts_with (needle s : text) : bool :=
    match needle, s with
    | [], _ => true
    | n :: nt, c :: t => (n =? c) && starts_with nt t
    | _ :: _, [] => false
    end.
  (* str.index(needle, start): position of the first occurrence at or after start *)
  Fixpoint index_aux (needle s : text) (pos : nat) : option nat :=
    if starts_with needle s then Some pos
    else match s with [] => None | _ :: t => index_aux needle t (S pos) end.
  Definition index_from (needle s : text) (start : nat) : option nat :=
    if Nat.ltb (length s) start then None else index_aux needle (skipn start s) start.

  (* position of the first c at index >= from, provided no newline is met before it *)
  Fixpoint find_gt_noline (s : text) (pos : nat) : option nat :=
    match s with
    | [] => None
    | c :: t => if c =? GT then Some pos else if c =? NL then None else find_gt_noline t (S pos)
    end.
  Fixpoint count_trailing_slash (rs : text) : nat :=   (* rs = reversed prefix *)
    match rs with c :: t => if c =? SLASH then S (count_trailing_slash t) else O | [] => O end.

  (* R3 on the stripped attribute string: Some (name, value, rest) *)
  Fixpoint find_quote_noline (s : text) (pos : nat) : option nat :=
    match s with
    | [] => None
    | c :: t => if c =? QUOTE then Some pos else if c =? NL then None else find_quote_noline t (S pos)
    end.
  Fixpoint take_line (s : text) : text :=
    match s with c :: t => if c =? NL then [] else c :: take_line t | [] => [] end.
  Definition match_attr (y : text) : option (text * text * text) :=
    let (name, r1) := span is_word y in
    match name, r1 with
    | _ :: _, e :: q :: v0 :: r2 =>
        if (e =? EQ) && (q =? QUOTE) && negb (v0 =? NL) then
          match find_quote_noline r2 0 with
          | Some n => let value := v0 :: firstn n r2 in
                      let after := skipn (S n) r2 in
                      Some (name, value, take_line (lstrip after))
          | None => None
          end
        else None
    | _, _ => None
    end.

  (* dict update res[name] = value (insertion order kept, later value wins) *)
  Fixpoint attr_set (k v : text) (d : list (text * text)) : list (text * text) :=
    match d with
    | [] => [(k, v)]
    | (k', v') :: t => if text_eqb k k' then (k, v) :: t else (k', v') :: attr_set k v t
    end.

  Inductive outcome (A : Type) := Done (a : A) | Fail (cls : Z) | OutOfFuel.
  Arguments Done {A} a. Arguments Fail {A} cls. Arguments OutOfFuel {A}.

  (* _parse_attrs (with the repaired no-match branch) *)
  Fixpoint parse_attrs (fuel : nat) (attrs : text) (acc : list (text * text)) : outcome (list (text * text)) :=
    match fuel with
    | O => OutOfFuel
    | S f =>
        match attrs with
        | [] => Done acc
        | _ =>
            let y := strip attrs in
            match match_attr y with
            | Some (name, value, rest) => parse_attrs f rest (attr_set name value acc)
            | None => match y with [] => Done acc | _ => Fail ValueError end
            end
        end
    end.

  (* _parse_tag: Done (name, attrs option as raw text, end_idx) *)
  Fixpoint try_ws (x : text) (a : nat) (k : nat) (s : nat) : option (nat * nat) :=
    (* tries ws lengths k, k+1, ... while k <= s; returns (q0, g) *)
    match s with
    | O => None
    | S s' =>
        let q0 := (1 + a + k)%nat in
        match skipn q0 x with
        | [] => None
        | c0 :: after =>
            match (if c0 =? NL then None else find_gt_noline after (S q0)) with
            | Some g => Some (q0, g)
            | None => try_ws x a (S k) s'
            end
        end
    end.

  Definition parse_tag (x : text) : res (text * option text * nat) :=
    match x with
    | c :: t =>
        if negb (c =? LT) then Raise ValueError else
        let (name, r1) := span is_word t in
        let a := length name in
        match name with
        | [] => Raise ValueError
        | _ =>
            let (ws, _) := span is_space r1 in
            let r1match :=
              match ws with
              | [] => None
              | _ => match try_ws x a 1 (length ws) with
                     | Some (q0, g) =>
                         let between := firstn (g - q0) (skipn q0 x) in
                         let tcount := count_trailing_slash (rev between) in
                         let p := Nat.max (q0 + 1) (g - tcount) in
                         Some (firstn (p - q0) (skipn q0 x), (g + 1)%nat)
                     | None => None
                     end
              end in
            match r1match with
            | Some (attrs, e) => OK (name, Some attrs, e)
            | None => match r1 with
                      | g :: _ => if g =? GT then OK (name, None, (a + 2)%nat) else Raise ValueError
                      | [] => Raise ValueError
                      end
            end
        end
    | [] => Raise ValueError
    end.

  (* _find_end_of_element *)
  Definition find_end_of_element (x : text) (start : nat) (name : text) : res (nat * nat) :=
    let end_tag := [LT; SLASH] ++ name ++ [GT] in
    let tl := length end_tag in
    match index_from end_tag x start with
    | None => Raise ValueError
    | Some e0 =>
        let bump (e : nat) (nested : text) : nat :=
          match index_from nested x 0 with
          | Some i => if negb (Nat.eqb i 0) && Nat.ltb i e
                      then match index_from end_tag x (e + tl) with Some e' => e' | None => e end
                      else e
          | None => e
          end in
        let e1 := bump e0 ([LT] ++ name ++ [GT]) in
        let e2 := bump e1 ([LT] ++ name ++ [32]) in
        OK (e2, (e2 + tl)%nat)
    end.

  (* parsed values: str | dict | {"attrs":..,"value":..} | list *)
  Inductive val :=
  | VStr (s : text)
  | VNode (d : list (text * val))
  | VAttrs (attrs : list (text * text)) (v : val)
  | VList (l : list val).

  Definition is_list (v : val) : bool := match v with VList _ => true | _ => false end.

  (* _store_element *)
  Fixpoint store (name : text) (v : val) (d : list (text * val)) : list (text * val) :=
    match d with
    | [] => [(name, v)]
    | (k, old) :: t =>
        if text_eqb k name
        then (k, match old with VList l => VList (l ++ [v]) | _ => VList [old; v] end) :: t
        else (k, old) :: store name v t
    end.

  Definition slice (x : text) (a b : nat) : text := firstn (b - a) (skipn a x).

  (* parse_first_element: Done (name, attrs, value text, end index) *)
  Definition first_element (fuel : nat) (x : text) : outcome (text * option (list (text * text)) * text * nat) :=
    match parse_tag x with
    | Raise c => Fail c
    | OK (name, rawattrs, tag_end) =>
        let attrs_o :=
          match rawattrs with
          | None => Done None
          | Some raw => match parse_attrs fuel raw [] with
                        | Done d => Done (Some d) | Fail c => Fail c | OutOfFuel => OutOfFuel
                        end
          end in
        match attrs_o with
        | Fail c => Fail c
        | OutOfFuel => OutOfFuel
        | Done attrs =>
            if text_eqb (slice x (tag_end - 2) tag_end) [SLASH; GT] then Done (name, attrs, [], tag_end)
            else match find_end_of_element x tag_end name with
                 | Raise c => Fail c
                 | OK (value_end, element_end) => Done (name, attrs, strip (slice x tag_end value_end), element_end)
                 end
        end
    end.

  (* _parse_recursively: [depth] = remaining recursion budget + 1 (structural), [fuel] bounds the while loop *)
  Fixpoint parse_rec (depth : nat) : nat -> text -> list (text * val) -> outcome (list (text * val)) :=
    fix loop (fuel : nat) (xml : text) (acc : list (text * val)) : outcome (list (text * val)) :=
      match fuel with
      | O => OutOfFuel
      | S f =>
          match xml with
          | [] => Done acc
          | _ =>
              let x := strip xml in
              match x with
              | [] => Fail IndexError
              | c :: _ =>
                  if negb (c =? LT) then Fail ValueError else
                  match first_element (S (length x)) x with
                  | Fail cls => Fail cls
                  | OutOfFuel => OutOfFuel
                  | Done (name, attrs, value, end_idx) =>
                      let sub : outcome val :=
                        match value with
                        | v0 :: _ =>
                            if v0 =? LT then
                              match depth with
                              | O => Fail ValueError      (* "XML maximum recursion depth exhausted" *)
                              | S d => match parse_rec d (S (length value)) value [] with
                                       | Done sub => Done (VNode sub) | Fail cls => Fail cls | OutOfFuel => OutOfFuel
                                       end
                              end
                            else Done (VStr value)
                        | [] => Done (VStr [])
                        end in
                      match sub with
                      | Fail cls => Fail cls
                      | OutOfFuel => OutOfFuel
                      | Done v =>
                          let v' := match attrs with Some a => VAttrs a v | None => v end in
                          loop f (skipn end_idx x) (store name v' acc)
                      end
                  end
              end
          end
      end.

  (* parse(xml, recurse=5) and parse_ksr *)
  Definition parse (xml : text) : outcome (list (text * val)) := parse_rec 5 (S (length xml)) xml [].
  Definition KSR_OPEN : text := [60; 75; 83; 82].
  Definition parse_ksr (xml : text) : outcome (list (text * val)) :=
    match index_from KSR_OPEN xml 0 with
    | None => Fail ValueError
    | Some i => parse (skipn i xml)
    end.
End Xml.
Arguments Done {A} a. Arguments Fail {A} cls. Arguments OutOfFuel {A}.
