(* Documents in the plain form the reference clients produce, as trees with their whitespace, and what a
   standards-conforming parser extracts from them (the shape kskm.common.xml_parser documents for its own output). *)
From KV Require Import Base.Prelude Base.Exn Base.Bytes Model.Data Model.Xml.

(* an attribute with the blanks that precede it: (sep, name, value) *)
Notation attr := (text * text * text)%type (only parsing).

Inductive tree :=
| Leaf (name : text) (attrs : list attr) (tail : text) (lpad content rpad : text) (after : text)   (* <n a="v" tail> lpad content rpad </n> after *)
| Empty (name : text) (attrs : list attr) (tail : text) (after : text)          (* <n a="v" tail/> after  (needs an attribute) *)
| Node (name : text) (attrs : list attr) (tail : text) (pre : text) (children : list tree) (after : text).   (* <n a="v" tail> pre c1 c2 .. </n> after *)

Definition tname (t : tree) : text := match t with Leaf n _ _ _ _ _ _ | Empty n _ _ _ | Node n _ _ _ _ _ => n end.
Definition tafter (t : tree) : text := match t with Leaf _ _ _ _ _ _ a | Empty _ _ _ a | Node _ _ _ _ _ a => a end.
Definition tattrs (t : tree) : list attr := match t with Leaf _ a _ _ _ _ _ | Empty _ a _ _ | Node _ a _ _ _ _ => a end.

Definition ser_attr (a : attr) : text := let '(sep, k, v) := a in sep ++ k ++ [EQ; QUOTE] ++ v ++ [QUOTE].
Definition ser_attrs (l : list attr) : text := flat_map ser_attr l.
(* tl: blanks between the last attribute and the closing bracket *)
Definition open_tag (n : text) (a : list attr) (tl : text) : text := [LT] ++ n ++ (ser_attrs a ++ tl) ++ [GT].
Definition empty_tag (n : text) (a : list attr) (tl : text) : text := [LT] ++ n ++ (ser_attrs a ++ tl) ++ [SLASH; GT].
Definition close_tag (n : text) : text := [LT; SLASH] ++ n ++ [GT].

(* the element itself, without the blanks that follow it *)
Fixpoint elem (t : tree) : text :=
  match t with
  | Leaf n a tl lp c rp _ => open_tag n a tl ++ (lp ++ c ++ rp) ++ close_tag n
  | Empty n a tl _ => empty_tag n a tl
  | Node n a tl pre cs _ => open_tag n a tl ++ pre ++ flat_map (fun c => elem c ++ tafter c) cs ++ close_tag n
  end.
Definition ser (t : tree) : text := elem t ++ tafter t.
Definition sers (cs : list tree) : text := flat_map ser cs.

(* what a standard parser extracts, in the reader's documented shape *)
Definition attr_dict (l : list attr) : list (text * text) := map (fun a => let '(_, k, v) := a in (k, v)) l.
Definition wrap (a : list attr) (v : val) : val := match a with [] => v | _ => VAttrs (attr_dict a) v end.
Definition collect (kvs : list (text * val)) : list (text * val) := fold_left (fun d kv => store (fst kv) (snd kv) d) kvs [].
Fixpoint val_of (t : tree) : val :=
  match t with
  | Leaf _ a _ _ c _ _ => wrap a (VStr c)
  | Empty _ a _ _ => wrap a (VStr [])
  | Node _ a _ _ cs _ => wrap a (VNode (collect (map (fun c => (tname c, val_of c)) cs)))
  end.
Definition doc_of (cs : list tree) : list (text * val) := collect (map (fun c => (tname c, val_of c)) cs).

Fixpoint height (t : tree) : nat :=
  match t with
  | Node _ _ _ _ cs _ => S (fold_right (fun c m => Nat.max (height c) m) O cs)
  | _ => O
  end.

(* ---- the plain form ---- *)
Definition ascii_word (c : Z) : bool :=
  ((48 <=? c) && (c <=? 57)) || ((65 <=? c) && (c <=? 90)) || ((97 <=? c) && (c <=? 122)) || (c =? 95).
Definition name_ok (n : text) : bool := negb (match n with [] => true | _ => false end) && forallb ascii_word n.
Definition blank (c : Z) : bool := (c =? 32) || (c =? 9).                 (* inside a start tag *)
Definition blanks_ok (s : text) : bool := negb (match s with [] => true | _ => false end) && forallb blank s.
Definition value_char (c : Z) : bool := negb (c =? QUOTE) && negb (c =? NL) && negb (c =? GT) && negb (c =? LT).
Definition attr_ok (a : attr) : bool :=
  let '(sep, k, v) := a in blanks_ok sep && name_ok k && negb (match v with [] => true | _ => false end) && forallb value_char v.
Fixpoint distinct (l : list text) : bool :=
  match l with [] => true | x :: t => negb (existsb (text_eqb x) t) && distinct t end.
Definition attrs_ok (l : list attr) : bool := forallb attr_ok l && distinct (map (fun a => snd (fst a)) l).

Definition no_lt (s : text) : bool := forallb (fun c => negb (c =? LT)) s.
Definition all_space (s : text) : bool := forallb is_space s.
Definition edge_ok (s : text) : bool := match s with [] => true | c :: _ => negb (is_space c) end.
Definition content_ok (c : text) : bool := no_lt c && edge_ok c && edge_ok (rev c).

Fixpoint names (t : tree) : list text :=
  match t with
  | Node n _ _ _ cs _ => n :: flat_map names cs
  | Leaf n _ _ _ _ _ _ | Empty n _ _ _ => [n]
  end.
Definition is_nil {A} (l : list A) : bool := match l with [] => true | _ => false end.

Definition tail_ok (a : list attr) (tl : text) : bool := forallb blank tl && (negb (is_nil a) || is_nil tl).

Fixpoint wf (t : tree) : bool :=
  match t with
  | Leaf n a tl lp c rp aft => name_ok n && attrs_ok a && tail_ok a tl && content_ok c && all_space lp && all_space rp && all_space aft
  | Empty n a tl aft => name_ok n && attrs_ok a && tail_ok a tl && negb (is_nil a) && all_space aft
  | Node n a tl pre cs aft =>
      name_ok n && attrs_ok a && tail_ok a tl && all_space pre && all_space aft && negb (is_nil cs) && forallb wf cs &&
      negb (existsb (text_eqb n) (flat_map names cs))
  end.
