(* Bridge for C03: the stage order, guards, early returns and exception handling of ksrsigner()/main() as read from /repo,
   against the step list the model executes. *)
From Coq Require Import String.
From KV Require Import Base.Prelude Base.Exn Base.Bytes Model.Data Model.Keymaster Model.Pipeline.
From KV Require Gen.Pipeline Gen.Policy.
Open Scope string_scope.

(* each model step: the stage function it calls (if any) followed by its early "return False" (if it has one) *)
Definition marker (s : stage) : list string :=
  match s with
  | SConfig => ["get_config"; "return False"]
  | SSchema => ["config.get_schema"; "return False"]
  | SLoadPrev => ["kskm.skr.load_skr"]
  | SKsrName => ["return False"]
  | SLoadKsr => ["kskm.ksr.load_ksr"]
  | SInit => ["kskm.misc.hsm.init_pkcs11_modules"; "return False"]
  | SChain => ["check_skr_and_ksr"]
  | SPrompt => ["input"; "return False"]
  | SSign => ["create_skr"]
  | SSafety => ["check_last_skr_and_new_skr"]
  | SWrite => ["output_skr_xml"]
  end.

Definition some_env : Env := mkEnv None (OK tt) true (OK tt) true (OK tt) (OK tt) (OK tt) false [] (OK tt) (OK tt) (OK tt).

Lemma gen_stage_order :
  Gen.Pipeline.ksrsigner_stages = (flat_map marker (map st_stage (steps some_env)) ++ ["return True"])%list.
Proof. reflexivity. Qed.

(* under which conditions each stage function is called: the model's st_enabled flags *)
Lemma gen_guards :
  Gen.Pipeline.ksrsigner_guards =
    [("get_config", "config is None && try[FileNotFoundError,ValidationError]");      (* SConfig enabled iff no configuration object was passed *)
     ("config.get_schema", "try[KeyError]");
     ("kskm.skr.load_skr", "_previous_skr");                                          (* e_prev_named *)
     ("kskm.ksr.load_ksr", "");
     ("kskm.misc.hsm.init_pkcs11_modules", "try[Exception]");
     ("check_skr_and_ksr", "skr is not None");                                        (* e_prev_named *)
     ("input", "not args.force");                                                     (* negb e_force *)
     ("create_skr", "");
     ("check_last_skr_and_new_skr", "skr");                                           (* e_prev_named *)
     ("output_skr_xml", "")].
Proof. reflexivity. Qed.

Definition string_of_text (t : text) : string := string_of_list_ascii (map (fun c => Ascii.ascii_of_N (Z.to_N c)) t).

Lemma gen_confirmation_and_handlers :
  Gen.Pipeline.confirmation_test = "ack.strip('\n') != '" ++ string_of_text YES ++ "'" /\
  Gen.Pipeline.force_test = "not args.force" /\
  Gen.Pipeline.ksrsigner_except_map =
    [("FileNotFoundError", "return False"); ("ValidationError", "raise ConfigurationError(str(exc)) from exc"); ("KeyError", "return False"); ("Exception", "return False")] /\
  Gen.Pipeline.main_except_map = [("KeyboardInterrupt", "EXIT_CODES['interrupt']"); ("ConfigurationError", "EXIT_CODES['config']")] /\
  Gen.Pipeline.main_try_exits = ["EXIT_CODES['success']"; "EXIT_CODES['fatal']"].
Proof. repeat split; reflexivity. Qed.

Lemma gen_exit_codes :
  (Gen.Policy.exit_success, Gen.Policy.exit_interrupt, Gen.Policy.exit_config, Gen.Policy.exit_fatal) = (EXIT_SUCCESS, EXIT_INTERRUPT, EXIT_CONFIG, EXIT_FATAL).
Proof. reflexivity. Qed.
