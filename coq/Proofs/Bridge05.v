(* Bridge for C05 only: order of the timing checks and the flag guarding each, as read from /repo. *)
From Coq Require Import String.
From KV Require Import Base.Prelude.
From KV Require Gen.Skeleton.
Open Scope string_scope.

Definition guard_row (name : string) : option (string * Z * Z) :=
  match find (fun r => String.eqb (fst (fst (fst r))) name) Gen.Skeleton.check_guards with
  | Some (_, g, pos, cnt) => Some (g, pos, cnt)
  | None => None
  end.

(* the six timing checks appear in this relative order inside validate_request *)
Definition timing_names := ["check_bundle_count"; "check_cycle_durations"; "check_bundle_overlaps";
                            "check_signature_validity"; "check_signature_horizon"; "check_bundle_intervals"].
Definition validate_order : list string :=
  Gen.Skeleton.order_verify_header ++ Gen.Skeleton.order_verify_bundles ++ Gen.Skeleton.order_verify_policy.

Lemma gen_timing_order :
  Gen.Skeleton.order_validate_request_raw = ["verify_header"; "verify_bundles"; "verify_policy"] /\
  filter (fun n => existsb (String.eqb n) timing_names) validate_order = timing_names.
Proof. split; reflexivity. Qed.

Lemma gen_timing_guards :
  guard_row "check_bundle_count" = Some ("", -1, 0)%Z /\
  guard_row "check_cycle_durations" = Some ("check_cycle_length", 0, 1)%Z /\
  guard_row "check_bundle_overlaps" = Some ("check_bundle_overlap", 0, 1)%Z /\
  guard_row "check_signature_validity" = Some ("signature_validity_match_zsk_policy", 0, 1)%Z /\
  guard_row "check_signature_horizon" = Some ("signature_check_expire_horizon", 0, 1)%Z /\
  guard_row "check_bundle_intervals" = Some ("check_bundle_intervals", 0, 1)%Z.
Proof. repeat split; reflexivity. Qed.
