(* Bridge for C05 only: order of the timing checks and the flag guarding each, as read from /repo. *)
From Coq Require Import String.
From KV Require Import Base.Prelude.
From KV Require Gen.Skeleton.
Open Scope string_scope.

Definition guard_row (name : string) : option (string * Z * Z) :=
  match find (fun r => String.eqb (fst (fst (fst r))) name) Gen.Skeleton.check_guards with
  | Some (_, g, pos, cnt) => Some (g, pos, cnt)
  | None => None
  end.

(* the six timing checks appear in this relative order inside validate_request *)
Definition timing_names := ["check_bundle_count"; "check_cycle_durations"; "check_bundle_overlaps";
                            "check_signature_validity"; "check_signature_horizon"; "check_bundle_intervals"].
Definition validate_order : list string :=
  Gen.Skeleton.order_verify_header ++ Gen.Skeleton.order_verify_bundles ++ Gen.Skeleton.order_verify_policy.

Lemma gen_timing_order :
  Gen.Skeleton.order_validate_request_raw = ["verify_header"; "verify_bundles"; "verify_policy"] /\
  filter (fun n => existsb (String.eqb n) timing_names) validate_order = timing_names.
Proof. split; reflexivity. Qed.

Lemma gen_timing_guards :
  guard_row "check_bundle_count" = Some ("", -1, 0)%Z /\
  guard_row "check_cycle_durations" = Some ("check_cycle_length", 0, 1)%Z /\
  guard_row "check_bundle_overlaps" = Some ("check_bundle_overlap", 0, 1)%Z /\
  guard_row "check_signature_validity" = Some ("signature_validity_match_zsk_policy", 0, 1)%Z /\
  guard_row "check_signature_horizon" = Some ("signature_check_expire_horizon", 0, 1)%Z /\
  guard_row "check_bundle_intervals" = Some ("check_bundle_intervals", 0, 1)%Z.
Proof. repeat split; reflexivity. Qed.

(* the timing checks statement by statement as read from /repo (texts for messages and loops that only feed the debug listing left out): every bundle is visited, differences are signed, bounds are compared with < and > (inclusive bounds), the cycle is last inception minus first - what Model.KsrPolicy transcribes *)
Lemma gen_timing_shapes :
  Gen.Skeleton.check_signature_validity_shape =
    ["if not policy.signature_validity_match_zsk_policy: return"%string;"for bundle in request.bundles: validity = bundle.expiration - bundle.inception ; if validity < request.zsk_policy.min_signature_validity: raise KSR_POLICY_SIG_VALIDITY_Violation ; if validity > request.zsk_policy.max_signature_validity: raise KSR_POLICY_SIG_VALIDITY_Violation"%string;"_num_bundles = len(request.bundles)"%string] /\
  Gen.Skeleton.check_bundle_overlaps_shape =
    ["if not policy.check_bundle_overlap: return"%string;"for i in range(1, len(request.bundles)): previous = request.bundles[i - 1] ; this = request.bundles[i] ; if this.inception > previous.expiration: raise KSR_POLICY_SIG_OVERLAP_Violation ; overlap = previous.expiration - this.inception ; if overlap < request.zsk_policy.min_validity_overlap: raise KSR_POLICY_SIG_OVERLAP_Violation ; if overlap > request.zsk_policy.max_validity_overlap: raise KSR_POLICY_SIG_OVERLAP_Violation"%string] /\
  Gen.Skeleton.check_bundle_intervals_shape =
    ["if not policy.check_bundle_intervals: return"%string;"for num in range(1, len(request.bundles)): interval = request.bundles[num].inception - request.bundles[num - 1].inception ; if interval < policy.min_bundle_interval: bundle = request.bundles[num] ; raise KSR_POLICY_BUNDLE_INTERVAL_Violation ; if interval > policy.max_bundle_interval: bundle = request.bundles[num] ; raise KSR_POLICY_BUNDLE_INTERVAL_Violation"%string] /\
  Gen.Skeleton.check_cycle_durations_shape =
    ["if not policy.check_cycle_length: return"%string;"if not request.bundles: return"%string;"cycle_inception_length = request.bundles[-1].inception - request.bundles[0].inception"%string;"if cycle_inception_length < policy.min_cycle_inception_length: raise KSR_BUNDLE_CYCLE_DURATION_Violation"%string;"if cycle_inception_length > policy.max_cycle_inception_length: raise KSR_BUNDLE_CYCLE_DURATION_Violation"%string] /\
  Gen.Skeleton.check_bundle_count_shape =
    ["_num_bundles = len(request.bundles)"%string;"if _num_bundles != policy.num_bundles: raise KSR_BUNDLE_COUNT_Violation"%string].
Proof. repeat split; reflexivity. Qed.
