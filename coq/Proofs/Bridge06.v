(* Bridge for C06/C07: tables and guards read from /repo. *)
From Coq Require Import String.
From KV Require Import Base.Prelude Model.Data Proofs.Bridge05.
From KV Require Gen.Wire Gen.Skeleton.
Open Scope string_scope.

Definition c06_names := ["check_domain"; "check_unique_ids"; "check_keys_match_zsk_policy";
                         "check_keys_in_bundles"; "check_zsk_policy_algorithm"].

Lemma gen_c06_tables :
  Gen.Wire.deprecated_algorithms = deprecated_algorithms /\ Gen.Wire.supported_algorithms = supported_algorithms /\
  Gen.Wire.flag_ZONE = FLAG_ZONE /\
  (forall a, In a all_algorithms ->
     is_rsa a = mem a Gen.Wire.rsa_algorithms /\ is_ecdsa a = mem a Gen.Wire.ecdsa_algorithms /\
     is_eddsa a = mem a Gen.Wire.eddsa_algorithms).
Proof.
  repeat split; try reflexivity;
  repeat (destruct H as [<-|H]; [reflexivity|]); destruct H.
Qed.

Lemma gen_c06_guards :
  guard_row "check_domain" = Some ("", -1, 0)%Z /\
  guard_row "check_unique_ids" = Some ("", -1, 0)%Z /\
  guard_row "check_keys_match_zsk_policy" = Some ("keys_match_zsk_policy", 0, 1)%Z /\
  guard_row "check_keys_in_bundles" = Some ("check_keys_match_ksk_operator_policy", 0, 1)%Z /\
  guard_row "check_zsk_policy_algorithm" = Some ("signature_algorithms_match_zsk_policy", 1, 1)%Z /\
  filter (fun n => existsb (String.eqb n) c06_names) validate_order = c06_names.
Proof. repeat split; reflexivity. Qed.

Lemma gen_c07_guard :
  guard_row "check_proof_of_possession" = Some ("validate_signatures", 0, 1)%Z.
Proof. reflexivity. Qed.

(* bundle ids are collected over ALL bundles (a dictionary of the ids seen so far), not compared between neighbours *)
Lemma gen_unique_ids_shape :
  Gen.Skeleton.check_unique_ids_shape =
    ["seen = {}"%string;"for bundle in request.bundles: if bundle.id in seen: raise KSR_BUNDLE_UNIQUE_Violation ; seen[bundle.id] = 1"%string;"_num_bundles = len(request.bundles)"%string;"return"%string].
Proof. repeat split; reflexivity. Qed.
