(* Bridge for C08/C09: order of the chain / safety checks and their guards, as read from /repo. *)
From Coq Require Import String.
From KV Require Import Base.Prelude.
From KV Require Gen.Skeleton.
From KV Require Import Proofs.Bridge05.
Open Scope string_scope.

Lemma gen_chain_order :
  Gen.Skeleton.order_check_skr_and_ksr = ["check_unique_ids"; "check_chain"; "check_last_skr_key_present"] /\
  Gen.Skeleton.order_check_unique_ids = ["check_unique_request"; "check_unique_bundle_ids"] /\
  Gen.Skeleton.order_check_chain = ["check_chain_keys"; "check_chain_overlap"].
Proof. repeat split; reflexivity. Qed.

Lemma gen_chain_guards :
  guard_row "check_unique_request" = Some ("", -1, 0)%Z /\
  guard_row "check_unique_bundle_ids" = Some ("", -1, 0)%Z /\
  guard_row "check_chain_keys" = Some ("check_chain_keys", 0, 1)%Z /\
  guard_row "check_chain_overlap" = Some ("check_chain_overlap", 0, 1)%Z /\
  guard_row "check_last_skr_key_present" = Some ("check_chain_keys_in_hsm", 1, 1)%Z.
Proof. repeat split; reflexivity. Qed.

Lemma gen_safety_order_guards :
  Gen.Skeleton.order_check_last_skr_and_new_skr = ["check_publish_safety"; "check_retire_safety"] /\
  guard_row "check_publish_safety" = Some ("check_keys_publish_safety", 0, 1)%Z /\
  guard_row "check_retire_safety" = Some ("check_keys_retire_safety", 0, 1)%Z.
Proof. repeat split; reflexivity. Qed.
