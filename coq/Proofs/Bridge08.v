(* Bridge for C08/C09: order of the chain / safety checks and their guards, as read from /repo. *)
From Coq Require Import String.
From KV Require Import Base.Prelude.
From KV Require Gen.Skeleton.
From KV Require Import Proofs.Bridge05.
Open Scope string_scope.

Lemma gen_chain_order :
  Gen.Skeleton.order_check_skr_and_ksr = ["check_unique_ids"; "check_chain"; "check_last_skr_key_present"] /\
  Gen.Skeleton.order_check_unique_ids = ["check_unique_request"; "check_unique_bundle_ids"] /\
  Gen.Skeleton.order_check_chain = ["check_chain_keys"; "check_chain_overlap"].
Proof. repeat split; reflexivity. Qed.

Lemma gen_chain_guards :
  guard_row "check_unique_request" = Some ("", -1, 0)%Z /\
  guard_row "check_unique_bundle_ids" = Some ("", -1, 0)%Z /\
  guard_row "check_chain_keys" = Some ("check_chain_keys", 0, 1)%Z /\
  guard_row "check_chain_overlap" = Some ("check_chain_overlap", 0, 1)%Z /\
  guard_row "check_last_skr_key_present" = Some ("check_chain_keys_in_hsm", 1, 1)%Z.
Proof. repeat split; reflexivity. Qed.

Lemma gen_safety_order_guards :
  Gen.Skeleton.order_check_last_skr_and_new_skr = ["check_publish_safety"; "check_retire_safety"] /\
  guard_row "check_publish_safety" = Some ("check_keys_publish_safety", 0, 1)%Z /\
  guard_row "check_retire_safety" = Some ("check_keys_retire_safety", 0, 1)%Z.
Proof. repeat split; reflexivity. Qed.

(* response validation as read from skr/validate.py: the bundle count, then EVERY bundle through check_valid_signatures (a for loop over
   response.bundles, no early exit), which raises unless the flag is off or validate_signatures succeeds - the statements Model.KsrPolicy.validate_response
   and check_valid_signatures transcribe *)
Lemma gen_response_validation :
  Gen.Skeleton.validate_response_shape =
    ["if len(response.bundles) != policy.num_bundles: raise PolicyViolation"; "for bundle in response.bundles: check_valid_signatures(bundle, policy)"; "return True"] /\
  Gen.Skeleton.check_valid_signatures_shape =
    ["if not policy.validate_signatures: return";
     "try: if not validate_signatures(bundle): raise InvalidSignatureViolation except InvalidSignature: raise InvalidSignatureViolation"].
Proof. split; reflexivity. Qed.

(* the overlap test, statement by statement: last bundle of SKR(n-1), first bundle of the KSR, expiration minus inception (signed: a gap is negative), the
   two comparisons against the KSR's own bounds - what Model.Chain.check_chain_overlap transcribes *)
Lemma gen_chain_overlap :
  Gen.Skeleton.check_chain_overlap_shape =
    ["if not policy.check_chain_overlap: return"; "previous = last_skr.bundles[-1]"; "ksr_first = ksr.bundles[0]";
     "overlap = previous.expiration - ksr_first.inception";
     "if overlap < ksr.zsk_policy.min_validity_overlap: raise KSR_CHAIN_OVERLAP_Violation";
     "if overlap > ksr.zsk_policy.max_validity_overlap: raise KSR_CHAIN_OVERLAP_Violation"].
Proof. reflexivity. Qed.

(* which key is a KSK, a ZSK, revoked: single bits of the flags (a revoked KSK, flags 385, is a KSK) *)
Lemma gen_key_kind_shapes :
  Gen.Skeleton.is_zsk_key_shape =
    ["return not is_sep_key(key)"%string] /\
  Gen.Skeleton.is_sep_key_shape =
    ["return bool(key.flags & FlagsDNSKEY.SEP.value)"%string] /\
  Gen.Skeleton.is_revoked_key_shape =
    ["return bool(key.flags & FlagsDNSKEY.REVOKE.value)"%string].
Proof. repeat split; reflexivity. Qed.
