(* Bridge for C11: the duration writer/reader and the timestamp format, as read from /repo. *)
From Coq Require Import String.
From KV Require Import Base.Prelude.
From KV Require Gen.Output.
Open Scope string_scope.

Lemma gen_output_shapes :
  Gen.Output.strftime_format = "%Y-%m-%dT%H:%M:%S+00:00" /\
  Gen.Output.format_datetime_expr = "dt.astimezone(timezone.utc).strftime('%Y-%m-%dT%H:%M:%S+00:00')" /\
  Gen.Output.timedelta_to_duration_shape =
    ["td.total_seconds() == 0 => return 'PT0S'"; "return 'PT0S'"; "ifexp f'P{td.days}D' if td.days else 'P'";
     "td.seconds => time = 'T' ; _remainder = td.seconds";
     "_remainder > 3600 => time += f'{_remainder // 3600}H' ; _remainder = _remainder % 3600";
     "_remainder > 60 => time += f'{_remainder // 60}M' ; _remainder = _remainder % 60";
     "_remainder => time += f'{_remainder}S'"; "return days + time"] /\
  Gen.Output.duration_regex = "^(\d+?)([WDHMS])(.*)" /\
  Gen.Output.duration_regex_flags = ["re.DOTALL"] /\ Gen.Output.duration_regex_uses = ["_re.match"] /\
  Gen.Output.duration_units =
    ["what == 'W' => res += timedelta(days=7 * num)"; "what == 'D' => res += timedelta(days=num)";
     "what == 'H' => res += timedelta(hours=num)"; "what == 'M' => if time_section:";
     "what == 'S' or what == '' => res += timedelta(seconds=num)"] /\
  Gen.Output.duration_head_tests = ["not duration"; "not duration.startswith('P')"].
Proof. repeat split; reflexivity. Qed.
