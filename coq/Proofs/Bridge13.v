(* Bridge for C13: loader shape (size check before the read, validation before the return), size caps,
   recursion budget - as read from /repo. *)
From Coq Require Import String.
From KV Require Import Base.Prelude.
From KV Require Gen.IO.
Open Scope string_scope.

Lemma gen_loader_shapes :
  Gen.IO.load_ksr_shape = ["open(filename, 'rb')"; "os.fstat"; "if ksr_file_size > MAX_KSR_SIZE: Raise"; "fd.read(MAX_KSR_SIZE)";
                           "request_from_xml_file"; "validate_request"; "return request"] /\
  Gen.IO.load_skr_shape = ["open(filename, 'rb')"; "os.fstat"; "if skr_file_size > MAX_SKR_SIZE: Raise"; "fd.read(MAX_SKR_SIZE)";
                           "response_from_xml"; "validate_response"; "return response"] /\
  Gen.IO.max_ksr_size = 1048576%Z /\ Gen.IO.max_skr_size = 1048576%Z /\
  Gen.IO.parse_recurse_default = "5".
Proof. repeat split; reflexivity. Qed.
