(* Bridge for C15 / C01: mechanism tables, DigestInfo prefixes, EMSA arithmetic, EC OID table - as read from /repo. *)
From Coq Require Import String.
From KV Require Import Base.Prelude Base.Bytes Model.Data Model.Token.
From KV Require Gen.Hsm.

Definition table_of (f : Z -> option Z) : list (Z * Z) :=
  flat_map (fun a => match f a with Some m => [(a, m)] | None => [] end) all_algorithms.

Lemma gen_mechanism_tables :
  Gen.Hsm.mech_hash_on_hsm = table_of mech_hash_on_hsm /\ Gen.Hsm.mech_raw = table_of mech_raw /\
  Gen.Hsm.mech_table_guard = "key.hash_using_hsm"%string.
Proof. repeat split; reflexivity. Qed.

Lemma gen_constants :
  (Gen.Hsm.CKM_RSA_X_509, Gen.Hsm.CKM_SHA1_RSA_PKCS, Gen.Hsm.CKM_SHA256_RSA_PKCS, Gen.Hsm.CKM_SHA512_RSA_PKCS,
   Gen.Hsm.CKM_ECDSA, Gen.Hsm.CKM_ECDSA_SHA256, Gen.Hsm.CKM_ECDSA_SHA384, Gen.Hsm.CKM_EDDSA)
  = (CKM_RSA_X_509, CKM_SHA1_RSA_PKCS, CKM_SHA256_RSA_PKCS, CKM_SHA512_RSA_PKCS, CKM_ECDSA, CKM_ECDSA_SHA256, CKM_ECDSA_SHA384, CKM_EDDSA) /\
  (Gen.Hsm.CKO_PUBLIC_KEY, Gen.Hsm.CKO_PRIVATE_KEY, Gen.Hsm.CKO_SECRET_KEY) = (CKO_PUBLIC, CKO_PRIVATE, CKO_SECRET) /\
  (Gen.Hsm.CKK_RSA, Gen.Hsm.CKK_EC, Gen.Hsm.CKK_AES, Gen.Hsm.CKK_DES3) = (CKK_RSA, CKK_EC, CKK_AES, CKK_DES3).
Proof. repeat split; reflexivity. Qed.

Lemma gen_digestinfo :
  Gen.Hsm.digestinfo = flat_map (fun a => match digestinfo a with Some (h, oid) => [(a, h, oid)] | None => [] end) [RSASHA1; RSASHA256; RSASHA512] /\
  Gen.Hsm.emsa_sig_len = "pubkey.bits // 8"%string /\ Gen.Hsm.emsa_pad_len = "sig_len - len(oid_digest) - 3"%string /\
  Gen.Hsm.emsa_pad = "b'\xff' * pad_len"%string /\ Gen.Hsm.emsa_oid_digest = "oid + digest"%string /\
  Gen.Hsm.emsa_assembly = "bytes([0, 1]) + pad + b'\x00' + oid_digest"%string /\
  Gen.Hsm.ecdsa_prehash = [(ECDSAP256SHA256, 256); (ECDSAP384SHA384, 384)] /\
  Gen.Hsm.ec_oid_table = [([6;8;42;134;72;206;61;3;1;7], 256); ([6;5;43;129;4;0;34], 384)].
Proof. repeat split; reflexivity. Qed.

(* the key types the PKCS#11 layer knows are the four the model distinguishes, and sign_using_p11's `match key.key_type` has exactly the two arms
   the model's case analysis has (RSA/EC go on, AES/DES3 raise), followed by formatting and the token call: a fifth key type, or another arm,
   leaves the model's never_sign_symmetric without its tie *)
Lemma gen_key_types :
  Gen.Hsm.keytype_members = [("RSA"%string, "_p11.CKK_RSA"%string); ("EC"%string, "_p11.CKK_EC"%string); ("AES"%string, "_p11.CKK_AES"%string); ("DES3"%string, "_p11.CKK_DES3"%string)] /\
  Gen.Hsm.sign_keytype_arms = [("KeyType.RSA | KeyType.EC"%string, "pass"%string); ("KeyType.AES | KeyType.DES3"%string, "raise"%string)] /\
  Gen.Hsm.sign_using_p11_steps = ["_sign_data = _format_data_for_signing"%string; "return key.sign"%string].
Proof. repeat split; reflexivity. Qed.
