(* Bridge: guards, orders and defaults read from /repo = what the model and the property text say. *)
From Coq Require Import String.
From KV Require Import Base.Prelude Base.Bytes Model.Data.
From KV Require Gen.Policy Gen.Skeleton.
Open Scope string_scope.

(* order of the checks inside validate_request *)
Lemma gen_order_validate :
  Gen.Skeleton.order_validate_request_raw = ["verify_header"; "verify_bundles"; "verify_policy"] /\
  Gen.Skeleton.order_verify_header = ["check_domain"; "check_id"] /\
  Gen.Skeleton.order_verify_bundles = ["check_unique_ids"; "check_keys_match_zsk_policy"; "check_proof_of_possession";
                                       "check_bundle_count"; "check_cycle_durations"] /\
  Gen.Skeleton.order_verify_policy = ["check_keys_in_bundles"; "check_zsk_policy_algorithm"; "check_bundle_overlaps";
                                      "check_signature_validity"; "check_signature_horizon"; "check_bundle_intervals"].
Proof. repeat split; reflexivity. Qed.

Lemma gen_order_chain :
  Gen.Skeleton.order_check_skr_and_ksr = ["check_unique_ids"; "check_chain"; "check_last_skr_key_present"] /\
  Gen.Skeleton.order_check_unique_ids = ["check_unique_request"; "check_unique_bundle_ids"] /\
  Gen.Skeleton.order_check_chain = ["check_chain_keys"; "check_chain_overlap"] /\
  Gen.Skeleton.order_check_last_skr_and_new_skr = ["check_publish_safety"; "check_retire_safety"].
Proof. repeat split; reflexivity. Qed.

(* every check is guarded by its own flag (first statement), or is unconditional *)
Lemma gen_guards :
  Gen.Skeleton.check_guards = [
    ("check_keys_in_bundles", "check_keys_match_ksk_operator_policy", 0, 1);
    ("check_signature_validity", "signature_validity_match_zsk_policy", 0, 1);
    ("check_signature_horizon", "signature_check_expire_horizon", 0, 1);
    ("check_zsk_policy_algorithm", "signature_algorithms_match_zsk_policy", 1, 1);
    ("check_bundle_overlaps", "check_bundle_overlap", 0, 1);
    ("check_bundle_intervals", "check_bundle_intervals", 0, 1);
    ("check_unique_ids", "", -1, 0);
    ("check_keys_match_zsk_policy", "keys_match_zsk_policy", 0, 1);
    ("check_proof_of_possession", "validate_signatures", 0, 1);
    ("check_bundle_count", "", -1, 0);
    ("check_cycle_durations", "check_cycle_length", 0, 1);
    ("check_domain", "", -1, 0);
    ("check_unique_request", "", -1, 0);
    ("check_unique_bundle_ids", "", -1, 0);
    ("check_publish_safety", "check_keys_publish_safety", 0, 1);
    ("check_retire_safety", "check_keys_retire_safety", 0, 1);
    ("check_chain_keys", "check_chain_keys", 0, 1);
    ("check_chain_overlap", "check_chain_overlap", 0, 1);
    ("check_last_skr_key_present", "check_chain_keys_in_hsm", 1, 1)]%Z.
Proof. reflexivity. Qed.

(* documented defaults (property C16): every check on; 9 bundles with 2,1,1,1,1,1,1,1,2 keys;
   3 distinct keys; RSASHA256 / 2048 / 65537; 79-81-day cycle; 9-11-day interval; 180-day horizon;
   domain '.'; TTL 172800; unsupported algorithms off *)
Definition D := 86400000000%Z.
Lemma gen_defaults :
  (Gen.Policy.rp_validate_signatures, Gen.Policy.rp_keys_match_zsk_policy, Gen.Policy.rp_rsa_exponent_match_zsk_policy,
   Gen.Policy.rp_check_cycle_length, Gen.Policy.rp_check_bundle_overlap, Gen.Policy.rp_signature_algorithms_match_zsk_policy,
   Gen.Policy.rp_signature_validity_match_zsk_policy, Gen.Policy.rp_check_keys_match_ksk_operator_policy,
   Gen.Policy.rp_signature_check_expire_horizon, Gen.Policy.rp_check_bundle_intervals, Gen.Policy.rp_check_chain_keys,
   Gen.Policy.rp_check_chain_keys_in_hsm, Gen.Policy.rp_check_chain_overlap, Gen.Policy.rp_check_keys_publish_safety,
   Gen.Policy.rp_check_keys_retire_safety)
  = (true, true, true, true, true, true, true, true, true, true, true, true, true, true, true) /\
  (Gen.Policy.rp_enable_unsupported_ecdsa, Gen.Policy.rp_enable_unsupported_edwards_dsa) = (false, false) /\
  Gen.Policy.rp_num_bundles = 9%Z /\ Gen.Policy.rp_num_keys_per_bundle = [2;1;1;1;1;1;1;1;2]%Z /\
  Gen.Policy.rp_num_different_keys_in_all_bundles = 3%Z /\
  Gen.Policy.rp_approved_algorithms = [[82;83;65;83;72;65;50;53;54]%Z] (* "RSASHA256" *) /\
  Gen.Policy.rp_rsa_approved_key_sizes = [2048]%Z /\ Gen.Policy.rp_rsa_approved_exponents = [65537]%Z /\
  Gen.Policy.rp_min_cycle_inception_length = (79 * D)%Z /\ Gen.Policy.rp_max_cycle_inception_length = (81 * D)%Z /\
  Gen.Policy.rp_min_bundle_interval = (9 * D)%Z /\ Gen.Policy.rp_max_bundle_interval = (11 * D)%Z /\
  Gen.Policy.rp_signature_horizon_days = 180%Z /\ Gen.Policy.rp_acceptable_domains = [[46]%Z] /\
  Gen.Policy.rp_dns_ttl = 0%Z /\ Gen.Policy.ksk_ttl = 172800%Z /\ Gen.Policy.ksk_signers_name = [46]%Z /\
  Gen.Policy.resp_num_bundles = 9%Z /\ Gen.Policy.resp_validate_signatures = true /\
  List.length Gen.Policy.rp_field_names = 30%nat.
Proof. repeat split; reflexivity. Qed.

Lemma gen_exit_codes :
  (Gen.Policy.exit_success, Gen.Policy.exit_interrupt, Gen.Policy.exit_config, Gen.Policy.exit_fatal) = (0, 1, 2, 3)%Z /\
  Gen.Policy.max_ksr_size = 1048576%Z /\ Gen.Policy.max_skr_size = 1048576%Z.
Proof. repeat split; reflexivity. Qed.

From KV Require Gen.Pipeline.
Lemma gen_exit_map :
  Gen.Pipeline.main_except_map = [("KeyboardInterrupt", "EXIT_CODES['interrupt']"); ("ConfigurationError", "EXIT_CODES['config']")] /\
  Gen.Pipeline.main_try_exits = ["EXIT_CODES['success']"; "EXIT_CODES['fatal']"] /\
  In ("ValidationError", "raise ConfigurationError(str(exc)) from exc") Gen.Pipeline.ksrsigner_except_map /\
  nth_error Gen.Pipeline.ksrsigner_stages 0 = Some "get_config".
Proof. repeat split; try reflexivity. cbn. tauto. Qed.
