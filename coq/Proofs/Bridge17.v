(* Bridge for C17: the repository's word table is the standard one; the loaders read once. *)
From Coq Require Import String.
From KV Require Import Base.Prelude Spec.PgpWords.
From KV Require Gen.Words Gen.IO.

Lemma gen_words_standard : Gen.Words.words = standard_words.
Proof. vm_compute. reflexivity. Qed.

Lemma gen_pgp_wordlist_src :
  Gen.Words.pgp_wordlist_src = "odd = False | words: list[str] = [] | for byte in data:
    if odd:
        words.append(WORDS[byte][1])
    else:
        words.append(WORDS[byte][0])
    odd = not odd | return words"%string.
Proof. reflexivity. Qed.

(* exactly one open and one read in each loader; the parse helper opens nothing; writers write the hashed bytes once *)
Lemma gen_single_read :
  (Gen.IO.n_open_in_load_ksr, Gen.IO.n_read_in_load_ksr, Gen.IO.n_read_bytes_in_load_ksr, Gen.IO.n_read_text_in_load_ksr) = (1, 1, 0, 0)%Z /\
  (Gen.IO.n_open_in_load_skr, Gen.IO.n_read_in_load_skr, Gen.IO.n_read_bytes_in_load_skr, Gen.IO.n_read_text_in_load_skr) = (1, 1, 0, 0)%Z /\
  (Gen.IO.n_open_in_request_from_xml_file, Gen.IO.n_read_in_request_from_xml_file, Gen.IO.n_read_bytes_in_request_from_xml_file,
   Gen.IO.n_read_text_in_request_from_xml_file) = (0, 0, 0, 0)%Z /\
  (Gen.IO.n_open_in_output_skr_xml, Gen.IO.n_write_in_output_skr_xml) = (1, 1)%Z /\
  (Gen.IO.n_open_in_output_trustanchor_xml, Gen.IO.n_write_in_output_trustanchor_xml) = (1, 1)%Z.
Proof. repeat split; reflexivity. Qed.
