(* Bridge for C18: what tools/trustanchor.py exports and how ta/data.py renders it, as read from /repo. *)
From Coq Require Import String Ascii.
From KV Require Import Base.Prelude Base.Bytes Model.Data Model.Wire Model.Datetime Model.TrustAnchor.
From KV Require Gen.TrustAnchor.
Open Scope string_scope.

Lemma gen_trustanchor_shape :
  Gen.TrustAnchor.ta_loop_over = "config.ksk_keys.items()" /\
  Gen.TrustAnchor.ta_loop_body = ["p11key = get_p11_key(ksk.label, p11modules, public=True)";"if not p11key or not p11key.public_key: continue";"_key = public_key_to_dnssec_key(public_key=p11key.public_key, key_identifier=ksk.label, algorithm=ksk.algorithm, ttl=config.ksk_policy.ttl)";"this = create_trustanchor_keydigest(ksk, _key)";"key_digests.add(this)"] /\
  Gen.TrustAnchor.ta_dnskey_flags = 257 /\
  Gen.TrustAnchor.ta_collection = ["key_digests: set[KeyDigest] = set()"] /\
  Gen.TrustAnchor.ta_ctor = ["id=args.id or str(uuid.uuid4())";"source='http://data.iana.org/root-anchors/root-anchors.xml'";"zone='.'";"key_digests=key_digests"] /\
  Gen.TrustAnchor.keydigest_shape = ["rr = dn2wire(domain)";"rr += key_to_rdata(key)";"digest = sha256(rr).digest()";"return KeyDigest(algorithm=key.algorithm, digest=digest, digest_type=DigestDNSSEC.SHA256, id=key.key_identifier, key_tag=key.key_tag, valid_from=ksk_key.valid_from, valid_until=ksk_key.valid_until)"] /\
  Gen.TrustAnchor.keydigest_domain_default = "." /\
  Gen.TrustAnchor.kd_to_xml = ["xml = f'<KeyDigest id={quoteattr(self.id)}'";"xml += f' validFrom=""{self.format_datetime(self.valid_from)}""'";"if self.valid_until is not None: xml += f' validUntil=""{self.format_datetime(self.valid_until)}""'";"xml += '>\n'";"xml += f'<KeyTag>{self.key_tag}</KeyTag>\n'";"xml += f'<Algorithm>{self.algorithm.value}</Algorithm>\n'";"xml += f'<DigestType>{self.digest_type.value}</DigestType>\n'";"xml += f'<Digest>{self.hexdigest()}</Digest>\n'";"xml += '</KeyDigest>\n'";"return xml"] /\
  Gen.TrustAnchor.kd_format_datetime = ["return dt.astimezone(timezone.utc).strftime('%Y-%m-%dT%H:%M:%S+00:00')"] /\
  Gen.TrustAnchor.kd_hexdigest = ["return hexlify(self.digest).decode().upper()"] /\
  Gen.TrustAnchor.ta_to_xml = ["xml = f'<TrustAnchor id={quoteattr(self.id)} source={quoteattr(self.source)}>\n'";"xml += f'<Zone>{escape(self.zone)}</Zone>\n'";"for ks in sorted(self.key_digests, key=lambda _ks: _ks.valid_from): xml += ks.to_xml()";"xml += '</TrustAnchor>'";"return xml"] /\
  Gen.TrustAnchor.ta_to_xml_doc = ["xml = '<?xml version=""1.0"" encoding=""UTF-8""?>\n'";"xml += self.to_xml()";"return xml"] /\
  Gen.TrustAnchor.digest_type_sha256 = 2.
Proof. repeat split; reflexivity. Qed.

(* the literal pieces of the model's rendering are those of the f-strings above *)
Definition string_of_text (t : text) : string := string_of_list_ascii (map (fun c => ascii_of_N (Z.to_N c)) t).
Definition q : string := String (ascii_of_N 34) EmptyString.
Definition lf : string := String (ascii_of_N 10) EmptyString.
Lemma render_constants :
  string_of_text s_kd_open = "<KeyDigest id=" /\ string_of_text s_valid_from = " validFrom=" ++ q /\ string_of_text s_valid_until = " validUntil=" ++ q /\
  string_of_text (tag_open n_KeyTag) = "<KeyTag>" /\ string_of_text (tag_close n_KeyTag) = "</KeyTag>" /\
  string_of_text (tag_open n_Algorithm) = "<Algorithm>" /\ string_of_text (tag_close n_Algorithm) = "</Algorithm>" /\
  string_of_text (tag_open n_DigestType) = "<DigestType>" /\ string_of_text (tag_close n_DigestType) = "</DigestType>" /\
  string_of_text (tag_open n_Digest) = "<Digest>" /\ string_of_text (tag_close n_Digest) = "</Digest>" /\
  string_of_text (tag_close n_KeyDigest) = "</KeyDigest>" /\
  string_of_text xml_decl = "<?xml version=" ++ q ++ "1.0" ++ q ++ " encoding=" ++ q ++ "UTF-8" ++ q ++ "?>" ++ lf /\
  string_of_text s_ta_open = "<TrustAnchor id=" /\ string_of_text s_source = " source=" /\
  string_of_text (tag_open n_Zone) = "<Zone>" /\ string_of_text (tag_close n_Zone) = "</Zone>" /\
  string_of_text (tag_close n_TrustAnchor) = "</TrustAnchor>" /\
  string_of_text utc_suffix = "+00:00" /\
  nth 1 Gen.TrustAnchor.ta_ctor "" = "source='" ++ string_of_text ta_source ++ "'" /\ nth 2 Gen.TrustAnchor.ta_ctor "" = "zone='" ++ string_of_text dot ++ "'" /\ string_of_text dot = Gen.TrustAnchor.keydigest_domain_default.
Proof. repeat split; reflexivity. Qed.
