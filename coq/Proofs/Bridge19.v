(* Bridge for C19: shape of keygen / delete / inventory as read from /repo, against the constants and order the model uses. *)
From Coq Require Import String.
From KV Require Import Base.Prelude Base.Bytes Model.Data Model.Token Model.Keymaster.
From KV Require Gen.Keymaster.
Open Scope string_scope.

(* the model's keygen: existing-label test (public, then private) before anything is generated; session = lowest logged-in slot of module 0;
   exponent is the default 65537 because the tool does not pass one *)
Lemma gen_keygen_shape :
  Gen.Keymaster.rsa_exponent_default = 65537%Z /\
  Gen.Keymaster.rsa_template_args = ["label"; "CKK_RSA"; "bits=bits"; "rsa_exponent=exponent"] /\
  Gen.Keymaster.keygen_rsa_call_args = ["flags"; "args.key_size"; "p11modules"; "label=args.key_label"] /\
  Gen.Keymaster.keygen_shape =
    ["existing_key = get_p11_key(label, p11modules, public=True) or get_p11_key(label, p11modules, public=False)";
     "if existing_key: ... return None";
     "session = get_session(p11modules, logger)";
     "session.generateKeyPair(publicKeyTemplate, privateKeyTemplate)";
     "new_key = get_p11_key(label, p11modules, public=True)";
     "return new_key"] /\
  Gen.Keymaster.get_session_shape =
    ["first_p11 = p11modules[0]"; "first_slot = sorted(first_p11.slots)[0]"; "session = first_p11.sessions[first_slot]"; "return session"].
Proof. repeat split; reflexivity. Qed.

(* the two tags compared with every configured KSK tag are those for flags 257 and 385 *)
Lemma gen_keygen_tags :
  Gen.Keymaster.keygen_tag_flags = [257; 385]%Z /\
  Gen.Keymaster.keygen_tag_list = ["[_key.key_tag]"; "[_revoked_key.key_tag]"] /\
  Gen.Keymaster.keygen_collision_test =
    ["for (_name, ksk) in config.ksk_keys.items(): if ksk.key_tag in key_tags: raise RuntimeError('Key tag collision detected')"] /\
  Gen.Keymaster.keygen_nokey_test = ["if not p11key or not p11key.public_key: raise RuntimeError('No public key returned by key generation')"].
Proof. repeat split; reflexivity. Qed.

Definition string_of_text (t : text) : string := string_of_list_ascii (map (fun c => Ascii.ascii_of_N (Z.to_N c)) t).

Lemma gen_delete_shape :
  Gen.Keymaster.delete_shape =
    ["existing_key = get_p11_key(label, p11modules, public=True)";
     "if not existing_key: return False";
     "if not force: ack = input ; if ack.strip('\n') != '" ++ string_of_text YES ++ "': return True";
     "if existing_key.public_key and existing_key.pubkey_handle: _destroy_object(existing_key.session, existing_key.pubkey_handle)";
     "existing_key = get_p11_key(label, p11modules, public=False)";
     "if existing_key and existing_key.privkey_handle: _destroy_object(existing_key.session, existing_key.privkey_handle) ; return True";
     "return False"].
Proof. reflexivity. Qed.

Lemma gen_inventory_shape :
  Gen.Keymaster.inventory_identity = ["f'{this.label}+{this.key_id!r}'"] /\
  Gen.Keymaster.inventory_loops =
    ["for module in p11modules"; "for (slot, session) in sorted(module.sessions.items())"; "for this in module.get_key_inventory(session)"] /\
  Gen.Keymaster.format_keys_tests =
    ["KeyClass.PUBLIC in data and KeyClass.PRIVATE in data"; "this.pubkey is None"; "ksk.label == this.label";
     "label_and_id in data[KeyClass.PRIVATE]"; "dns_records and dns"; "pairs"; "_leftovers"] /\
  Gen.Keymaster.format_keys_handlers = ["ValueError"; "RuntimeError"].
Proof. repeat split; reflexivity. Qed.
