(* Bridge for C20: the receiver as read from /repo. *)
From Coq Require Import String Ascii.
From KV Require Import Base.Prelude Base.Exn Base.Bytes Model.Data Model.Wksr.
From KV Require Gen.Wksr.
Open Scope string_scope.

Lemma gen_wksr_shape :
  Gen.Wksr.wash_pattern = "[^a-zA-Z0-9_\-]+" /\
  Gen.Wksr.wash_replacement = "_" /\
  Gen.Wksr.wash_subject = "str(upload_file.filename)" /\
  Gen.Wksr.wash_kept_ranges = [(45, 45);(48, 57);(65, 90);(95, 95);(97, 122)] /\
  Gen.Wksr.suffix_format = ["_%Y%m%d_%H%M%S_%f"] /\
  Gen.Wksr.save_ksr_shape = ["if upload_file.content_type != app.config.ksr.content_type: raise HTTPException(status_code=status.HTTP_400_BAD_REQUEST)";"if upload_file.size is None: raise HTTPException(status_code=status.HTTP_400_BAD_REQUEST)";"if upload_file.size > app.config.ksr.max_size: raise HTTPException(status_code=status.HTTP_413_REQUEST_ENTITY_TOO_LARGE)";"contents = await upload_file.read()";"digest = hashlib.new('sha256')";"digest.update(contents)";"filehash = digest.hexdigest()";"filename_washed = re.sub('[^a-zA-Z0-9_\\-]+', '_', str(upload_file.filename))";"filename_suffix = datetime.now(UTC).strftime('_%Y%m%d_%H%M%S_%f')";"filename = app.config.ksr.upload_path / Path(filename_washed + filename_suffix + '.xml')";"with open(filename, 'wb') as ksr_file: ksr_file.write(contents)";"return (filename, filehash)"] /\
  Gen.Wksr.dispatch_shape = ["digest = request_peercert_digest(request)";"client = request.client.host if request.client else None";"if digest is None: return await call_next(request)";"if digest not in request.app.config.tls.client_whitelist: raise HTTPException(status_code=status.HTTP_403_FORBIDDEN)";"return await call_next(request)"] /\
  Gen.Wksr.peercert_shape = ["cert = request.scope['transport'].get_extra_info('ssl_object').getpeercert(binary_form=True)";"return load_der_x509_certificate(cert)"] /\
  Gen.Wksr.peercert_digest_shape = ["if (peercert := request_peercert(request)): return hexlify(peercert.fingerprint(hashes.SHA256())).decode()";"return None"] /\
  Gen.Wksr.verdict_try_shape = ["if previous_skr_filename is not None: previous_skr = load_skr(previous_skr_filename, config.response_policy)";"ksr = load_ksr(filename, config.request_policy, raise_original=True)";"if previous_skr is not None: check_skr_and_ksr(ksr, previous_skr, config.request_policy, p11modules=None)";"result['status'] = 'OK'";"result['message'] = f'KSR with id {ksr.id} loaded successfully'"] /\
  Gen.Wksr.verdict_handlers = ["except PolicyViolation: result['status'] = 'ERROR' ; result['message'] = str(exc)"].
Proof. repeat split; reflexivity. Qed.

Close Scope string_scope.

(* the character class of the wash pattern, evaluated by Python's re over every code point, is the model's safe_char *)
Lemma kept_ranges_are_safe_char : forall c,
  safe_char c = existsb (fun r : Z * Z => (fst r <=? c) && (c <=? snd r)) Gen.Wksr.wash_kept_ranges.
Proof. intros c. unfold safe_char, Gen.Wksr.wash_kept_ranges. cbn [existsb fst snd]. lia. Qed.

(* which exception classes validate_ksr turns into status ERROR: exactly PolicyViolation and its subclasses *)
Lemma policy_violation_classes :
  forallb is_policy_violation Gen.Wksr.pv_codes = true /\ forallb (fun c => negb (is_policy_violation c)) Gen.Wksr.other_codes = true.
Proof. split; reflexivity. Qed.
