From KV Require Import Base.Prelude Base.Exn Base.Bytes Model.Data Model.KsrPolicy Model.Chain
  Spec.ChainRules Proofs.KsrTimingProofs.

Lemma has_key_id_iff id ks : has_key_id id ks = true <-> key_listed id ks.
Proof.
  unfold has_key_id, key_listed. rewrite existsb_exists.
  split; intros (k & Hk & E); exists k; split; auto; apply text_eqb_spec; auto.
Qed.

Lemma key_eqb_iff a b : key_eqb a b = true <-> same_key a b.
Proof.
  unfold key_eqb, same_key. rewrite !andb_true_iff, !text_eqb_spec, !Z.eqb_eq. tauto.
Qed.

Lemma key_in_iff k ks : key_in k ks = true <-> exists k', In k' ks /\ same_key k k'.
Proof.
  unfold key_in. rewrite existsb_exists. split; intros (k' & H1 & H2); exists k'; split; auto; apply key_eqb_iff; auto.
Qed.

Lemma negb_false_iff' b : negb b = false <-> b = true.
Proof. destruct b; cbn; split; congruence. Qed.

(* ---------- chain (C08) ---------- *)
Lemma unique_request_iff ksr skr : check_unique_request ksr skr = OK tt <-> rq_id ksr <> rs_id skr.
Proof.
  unfold check_unique_request. rewrite guard_ok_iff.
  destruct (text_eqb (rq_id ksr) (rs_id skr)) eqn:E.
  - apply text_eqb_spec in E. split; [discriminate|congruence].
  - split; [|reflexivity]. intros _ H. apply text_eqb_spec in H. congruence.
Qed.

Lemma unique_bundle_ids_iff ksr skr : check_unique_bundle_ids ksr skr = OK tt <->
  (forall kb sb, In kb (rq_bundles ksr) -> In sb (rs_bundles skr) -> b_id kb <> b_id sb).
Proof.
  unfold check_unique_bundle_ids. rewrite for_each_ok_iff.
  split.
  - intros H kb sb Hk Hs. specialize (H kb Hk). rewrite for_each_ok_iff in H. specialize (H sb Hs).
    rewrite guard_ok_iff in H. intros E. apply text_eqb_spec in E. congruence.
  - intros H kb Hk. rewrite for_each_ok_iff. intros sb Hs. rewrite guard_ok_iff.
    destruct (text_eqb (b_id kb) (b_id sb)) eqn:E; [|reflexivity].
    apply text_eqb_spec in E. exfalso. eapply H; eauto.
Qed.

Lemma chain_keys_iff p ksr skr : check_chain_keys p ksr skr = OK tt <->
  (p_check_chain_keys p = true ->
     exists lastb first rest, last_opt (rs_bundles skr) = Some lastb /\ rq_bundles ksr = first :: rest /\
       forall k, In k (b_keys first) -> exists k', In k' (b_keys lastb) /\ same_key k k').
Proof.
  unfold check_chain_keys. apply flagged_iff.
  destruct (last_opt (rs_bundles skr)) as [lastb|]; [destruct (rq_bundles ksr) as [|first rest]|].
  - split; [discriminate|]. intros (? & ? & ? & _ & H & _). discriminate.
  - rewrite for_each_ok_iff. split.
    + intros H. exists lastb, first, rest. repeat split; auto. intros k Hk.
      specialize (H k Hk). rewrite guard_ok_iff, negb_false_iff' in H. apply key_in_iff; exact H.
    + intros (l' & f' & r' & [= <-] & [= <- <-] & H) k Hk. rewrite guard_ok_iff, negb_false_iff'.
      apply key_in_iff, H, Hk.
  - split; [discriminate|]. intros (? & ? & ? & H & _). discriminate.
Qed.

Lemma chain_overlap_iff p ksr skr : check_chain_overlap p ksr skr = OK tt <->
  (p_check_chain_overlap p = true ->
     exists lastb first rest, last_opt (rs_bundles skr) = Some lastb /\ rq_bundles ksr = first :: rest /\
       sp_min_overlap (rq_zsk ksr) <= b_exp lastb - b_inc first <= sp_max_overlap (rq_zsk ksr)).
Proof.
  unfold check_chain_overlap. apply flagged_iff.
  destruct (last_opt (rs_bundles skr)) as [lastb|]; [destruct (rq_bundles ksr) as [|first rest]|].
  - split; [discriminate|]. intros (? & ? & ? & _ & H & _). discriminate.
  - rewrite seq_guard_ok, guard_ok_iff. split.
    + intros H. exists lastb, first, rest. repeat split; auto; lia.
    + intros (l' & f' & r' & [= <-] & [= <- <-] & H). lia.
  - split; [discriminate|]. intros (? & ? & ? & H & _). discriminate.
Qed.

Lemma present_step_iff lookup lastb s : present_step lookup lastb s = OK tt <->
  exists pubtxt key, lookup (s_id s) = OK (Some (Some pubtxt)) /\
    find_key_by_id (s_id s) (b_keys lastb) = Some key /\ k_pubtxt key = pubtxt.
Proof.
  unfold present_step, bind. destruct (lookup (s_id s)) as [[[pt|]|]|c].
  - destruct (find_key_by_id (s_id s) (b_keys lastb)) as [key|].
    + rewrite guard_ok_iff, negb_false_iff', text_eqb_spec. split.
      * intros H. exists pt, key. auto.
      * intros (pt' & key' & [= <-] & [= <-] & H). exact H.
    + split; [discriminate|]. intros (? & ? & _ & H & _). discriminate.
  - split; [discriminate|]. intros (? & ? & H & _). discriminate.
  - split; [discriminate|]. intros (? & ? & H & _). discriminate.
  - split; [discriminate|]. intros (? & ? & H & _). discriminate.
Qed.

Lemma key_present_iff p skr token : check_last_skr_key_present p skr token = OK tt <->
  (forall lookup, token = Some lookup -> p_check_chain_keys_in_hsm p = true ->
     exists lastb, last_opt (rs_bundles skr) = Some lastb /\ b_sigs lastb <> [] /\
       forall s, In s (b_sigs lastb) ->
         exists pubtxt key, lookup (s_id s) = OK (Some (Some pubtxt)) /\
           find_key_by_id (s_id s) (b_keys lastb) = Some key /\ k_pubtxt key = pubtxt).
Proof.
  unfold check_last_skr_key_present. destruct token as [lookup|].
  2:{ split; [intros _ ? H; discriminate|reflexivity]. }
  destruct (p_check_chain_keys_in_hsm p); cbn [negb].
  2:{ split; [intros _ ? _ H; discriminate|reflexivity]. }
  destruct (last_opt (rs_bundles skr)) as [lastb|].
  2:{ split; [discriminate|]. intros H. destruct (H lookup eq_refl eq_refl) as (? & H' & _). discriminate. }
  rewrite bind_ok_iff, guard_ok_iff, for_each_ok_iff. split.
  - intros [H1 H2] lk [= <-] _. exists lastb. split; [reflexivity|]. split.
    + destruct (b_sigs lastb); [discriminate|congruence].
    + intros s Hs. apply present_step_iff, H1, Hs.
  - intros H. destruct (H lookup eq_refl eq_refl) as (l' & [= <-] & Hne & Hall). split.
    + intros s Hs. apply present_step_iff, Hall, Hs.
    + destruct (b_sigs lastb); [congruence|reflexivity].
Qed.

Theorem chain_iff p ksr skr token : check_skr_and_ksr p ksr skr token = OK tt <-> chain_spec p ksr skr token.
Proof.
  unfold check_skr_and_ksr, chain_spec.
  rewrite !bind_ok_iff, unique_request_iff, unique_bundle_ids_iff, chain_keys_iff, chain_overlap_iff, key_present_iff.
  tauto.
Qed.

(* a forged previous SKR: a signer of its last bundle whose published key differs from the
   token's key under that label is refused whenever the token check is on *)
Theorem forged_prev_refused p ksr skr lookup lastb s key tokpub :
  p_check_chain_keys_in_hsm p = true -> last_opt (rs_bundles skr) = Some lastb -> In s (b_sigs lastb) ->
  find_key_by_id (s_id s) (b_keys lastb) = Some key -> lookup (s_id s) = OK (Some (Some tokpub)) ->
  k_pubtxt key <> tokpub -> check_skr_and_ksr p ksr skr (Some lookup) <> OK tt.
Proof.
  intros Hf Hl Hs Hk Hlk Hne H. apply chain_iff in H. destruct H as (_ & _ & _ & _ & H).
  destruct (H lookup eq_refl Hf) as (l' & El & _ & Hall). rewrite Hl in El. injection El as <-.
  destruct (Hall s Hs) as (pt & key' & E1 & E2 & E3). congruence.
Qed.

(* ---------- publish / retire safety (C09) ---------- *)
Lemma publish_iff p last_skr new_skr : check_publish_safety p last_skr new_skr = OK tt <->
  (p_check_publish_safety p = true -> publish_spec last_skr new_skr).
Proof.
  unfold check_publish_safety, publish_spec. apply flagged_iff.
  destruct (last_opt (rs_bundles last_skr)) as [lastb|]; [destruct (rs_bundles new_skr) as [|first rest]|].
  - split; [discriminate|]. intros (? & ? & ? & _ & H & _). discriminate.
  - rewrite bind_ok_iff, seq_guard_ok, guard_ok_iff, for_each_ok_iff. split.
    + intros [H1 H2]. exists lastb, first, rest. repeat split; auto; try lia.
      intros s Hs. specialize (H1 s Hs). rewrite guard_ok_iff, negb_false_iff' in H1. apply has_key_id_iff; exact H1.
    + intros (l' & f' & r' & [= <-] & [= <- <-] & H1 & H2). split; [|lia].
      intros s Hs. rewrite guard_ok_iff, negb_false_iff'. apply has_key_id_iff, H1, Hs.
  - split; [discriminate|]. intros (? & ? & ? & H & _). discriminate.
Qed.

Lemma revoked_exempt_iff s cur :
  existsb (text_eqb (s_id s)) (map k_id (filter is_revoked (b_keys cur))) = false <->
  (forall k, In k (b_keys cur) -> k_id k = s_id s -> is_revoked k = false).
Proof.
  split.
  - intros H k Hk Hid. destruct (is_revoked k) eqn:Er; [|reflexivity].
    assert (existsb (text_eqb (s_id s)) (map k_id (filter is_revoked (b_keys cur))) = true); [|congruence].
    apply existsb_exists. exists (k_id k). split.
    + apply in_map, filter_In; auto.
    + rewrite Hid. apply text_eqb_refl.
  - intros H. destruct (existsb _ _) eqn:E; [|reflexivity].
    apply existsb_exists in E as (id & Hin & Heq). apply in_map_iff in Hin as (k & <- & Hk).
    apply filter_In in Hk as [Hk Hr]. apply text_eqb_spec in Heq. rewrite (H k Hk (eq_sym Heq)) in Hr. discriminate.
Qed.

Lemma retire_later_iff bs : retire_later bs = OK tt <-> stays_published bs.
Proof.
  induction bs as [|cur rest IH]; cbn [retire_later stays_published]; [tauto|].
  rewrite bind_ok_iff, IH, for_each_ok_iff. split.
  - intros [H1 H2]. split; [|exact H2]. intros b s Hb Hs Hnr.
    specialize (H1 b Hb). rewrite for_each_ok_iff in H1. specialize (H1 s Hs).
    apply revoked_exempt_iff in Hnr. rewrite Hnr in H1.
    rewrite guard_ok_iff, negb_false_iff' in H1. apply has_key_id_iff; exact H1.
  - intros [H1 H2]. split; [|exact H2]. intros b Hb. rewrite for_each_ok_iff. intros s Hs.
    destruct (existsb _ _) eqn:E; [reflexivity|].
    rewrite guard_ok_iff, negb_false_iff'. apply has_key_id_iff, (H1 b s Hb Hs). apply revoked_exempt_iff; exact E.
Qed.

Lemma retire_iff p last_skr new_skr : check_retire_safety p last_skr new_skr = OK tt <->
  (p_check_retire_safety p = true -> retire_spec last_skr new_skr).
Proof.
  unfold check_retire_safety, retire_spec. apply flagged_iff.
  destruct (last_opt (rs_bundles last_skr)) as [lastb|]; [destruct (rs_bundles new_skr) as [|first rest] eqn:En|].
  - split; [discriminate|]. intros (? & ? & ? & _ & H & _). discriminate.
  - rewrite <- En. rewrite bind_ok_iff, retire_later_iff, for_each_ok_iff. split.
    + intros [H1 H2]. exists lastb, first, rest. repeat split; auto.
      intros b Hb Hle s Hs. specialize (H1 b Hb).
      assert (b_inc b <=? b_inc first + sp_retire_safety (rs_ksk new_skr) = true) as E by lia.
      rewrite E, for_each_ok_iff in H1. specialize (H1 s Hs).
      rewrite guard_ok_iff, negb_false_iff' in H1. apply has_key_id_iff; exact H1.
    + intros (l' & f' & r' & [= <-] & E' & H1 & H2). rewrite En in E'. injection E' as <- <-.
      split; [|exact H2]. intros b Hb.
      destruct (b_inc b <=? b_inc first + sp_retire_safety (rs_ksk new_skr)) eqn:E; [|reflexivity].
      rewrite for_each_ok_iff. intros s Hs. rewrite guard_ok_iff, negb_false_iff'.
      apply has_key_id_iff, (H1 b Hb); [lia|exact Hs].
  - split; [discriminate|]. intros (? & ? & ? & H & _). discriminate.
Qed.

Theorem safety_iff p last_skr new_skr :
  check_last_skr_and_new_skr p last_skr new_skr = OK tt <-> safety_spec p last_skr new_skr.
Proof. unfold check_last_skr_and_new_skr, safety_spec. rewrite bind_ok_iff, publish_iff, retire_iff. tauto. Qed.

Theorem each_half_only_own_flag p last_skr new_skr :
  (p_check_publish_safety p = false -> check_publish_safety p last_skr new_skr = OK tt) /\
  (p_check_retire_safety p = false -> check_retire_safety p last_skr new_skr = OK tt).
Proof. unfold check_publish_safety, check_retire_safety. split; intros ->; reflexivity. Qed.
