From KV Require Import Base.Prelude Base.Exn Base.Bytes Model.Data Model.KsrPolicy Model.Chain Model.Config
  Proofs.KsrTimingProofs.

Theorem positivity_iff h n d : config_positivity h n d = OK tt <-> 1 <= h /\ 1 <= n /\ 1 <= d.
Proof. unfold config_positivity. rewrite !seq_guard_ok, guard_ok_iff. lia. Qed.

Theorem exit_status_nonzero_unless_success e : exit_status e = 0 <-> e = Returned true.
Proof. destruct e as [[]| | |]; cbn; split; try congruence; try lia. Qed.

Theorem exit_status_config : exit_status RaisedConfiguration = 2.
Proof. reflexivity. Qed.

(* switching one check off disables that check and no other: every check reads only its own flag
   (and its own parameters): two policies that agree on the fields a check reads give the same verdict *)
Theorem each_check_reads_only_its_own_flag now p p' r :
  (p_check_cycle_length p = p_check_cycle_length p' -> p_min_cycle p = p_min_cycle p' -> p_max_cycle p = p_max_cycle p' ->
     check_cycle_durations p r = check_cycle_durations p' r) /\
  (p_check_bundle_overlap p = p_check_bundle_overlap p' -> check_bundle_overlaps p r = check_bundle_overlaps p' r) /\
  (p_sig_validity_match p = p_sig_validity_match p' -> check_signature_validity p r = check_signature_validity p' r) /\
  (p_check_horizon p = p_check_horizon p' -> p_horizon_days p = p_horizon_days p' ->
     check_signature_horizon now p r = check_signature_horizon now p' r) /\
  (p_check_bundle_intervals p = p_check_bundle_intervals p' -> p_min_interval p = p_min_interval p' -> p_max_interval p = p_max_interval p' ->
     check_bundle_intervals p r = check_bundle_intervals p' r) /\
  (p_num_bundles p = p_num_bundles p' -> check_bundle_count p r = check_bundle_count p' r) /\
  (p_acceptable_domains p = p_acceptable_domains p' -> check_domain p r = check_domain p' r) /\
  (p_keys_match_zsk_policy p = p_keys_match_zsk_policy p' -> p_rsa_exponent_match_zsk_policy p = p_rsa_exponent_match_zsk_policy p' ->
     check_keys_match_zsk_policy p r = check_keys_match_zsk_policy p' r) /\
  (p_check_keys_match_ksk p = p_check_keys_match_ksk p' -> p_num_keys_per_bundle p = p_num_keys_per_bundle p' ->
     p_num_different_keys p = p_num_different_keys p' -> check_keys_in_bundles p r = check_keys_in_bundles p' r).
Proof.
  repeat split.
  - intros E1 E2 E3. unfold check_cycle_durations. rewrite E1, E2, E3. reflexivity.
  - intros E. unfold check_bundle_overlaps. rewrite E. reflexivity.
  - intros E. unfold check_signature_validity. rewrite E. reflexivity.
  - intros E1 E2. unfold check_signature_horizon. rewrite E1. destruct (negb _); [reflexivity|].
    f_equal. unfold horizon_step. rewrite E2. reflexivity.
  - intros E1 E2 E3. unfold check_bundle_intervals. rewrite E1. destruct (negb _); [reflexivity|].
    f_equal. unfold interval_step. rewrite E2, E3. reflexivity.
  - intros E. unfold check_bundle_count. rewrite E. reflexivity.
  - intros E. unfold check_domain. rewrite E. reflexivity.
  - intros E1 E2. unfold check_keys_match_zsk_policy. rewrite E1. destruct (negb _); [reflexivity|].
    assert (G : forall ks seen, keys_loop p (sp_algs (rq_zsk r)) seen ks = keys_loop p' (sp_algs (rq_zsk r)) seen ks).
    { induction ks as [|k t IH]; intros seen; cbn [keys_loop]; [reflexivity|].
      destruct (find_key_by_id (k_id k) seen); [destruct (key_eqb k k0); [apply IH|reflexivity]|].
      unfold check_new_key. rewrite E2, IH. reflexivity. }
    apply G.
  - intros E1 E2 E3. unfold check_keys_in_bundles. rewrite E1, E2, E3. reflexivity.
Qed.

(* chain / safety flags likewise *)
Theorem chain_checks_read_only_their_own_flag p p' ksr skr last new tok :
  (p_check_chain_keys p = p_check_chain_keys p' -> check_chain_keys p ksr skr = check_chain_keys p' ksr skr) /\
  (p_check_chain_overlap p = p_check_chain_overlap p' -> check_chain_overlap p ksr skr = check_chain_overlap p' ksr skr) /\
  (p_check_chain_keys_in_hsm p = p_check_chain_keys_in_hsm p' -> check_last_skr_key_present p skr tok = check_last_skr_key_present p' skr tok) /\
  (p_check_publish_safety p = p_check_publish_safety p' -> check_publish_safety p last new = check_publish_safety p' last new) /\
  (p_check_retire_safety p = p_check_retire_safety p' -> check_retire_safety p last new = check_retire_safety p' last new).
Proof.
  repeat split; intros E.
  - unfold check_chain_keys. rewrite E. reflexivity.
  - unfold check_chain_overlap. rewrite E. reflexivity.
  - unfold check_last_skr_key_present. rewrite E. reflexivity.
  - unfold check_publish_safety. rewrite E. reflexivity.
  - unfold check_retire_safety. rewrite E. reflexivity.
Qed.
