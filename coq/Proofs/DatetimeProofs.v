From KV Require Import Base.Prelude Base.Bytes Model.Data Model.Duration Model.Datetime Proofs.DurationProofs.
From Coq Require Import ZifyBool.
Ltac Zify.zify_post_hook ::= Z.to_euclidean_division_equations.

(* ---- the calendar arithmetic inside one 400-year era, by exhaustive evaluation over its 146097 days ---- *)
Definition doe_parts (doe : Z) : Z * Z * Z :=
  let yoe := (doe - doe / 1460 + doe / 36524 - doe / 146096) / 365 in
  let doy := doe - (365 * yoe + yoe / 4 - yoe / 100) in
  let mp := (5 * doy + 2) / 153 in
  let d := doy - (153 * mp + 2) / 5 + 1 in
  let m := if mp <? 10 then mp + 3 else mp - 9 in
  (yoe, m, d).

Definition doe_check (doe : Z) : bool :=
  let '(yoe, m, d) := doe_parts doe in
  (0 <=? yoe) && (yoe <=? 399) && (1 <=? m) && (m <=? 12) && (1 <=? d) && (d <=? 31) &&
  (* a January/February date belongs to the next civil year: it never falls in year-of-era 399's successor beyond the era *)
  (yoe * 365 + yoe / 4 - yoe / 100 + (153 * (if m >? 2 then m - 3 else m + 9) + 2) / 5 + d - 1 =? doe).

Definition small : list Z := map Z.of_nat (List.seq 0 383).
Definition p2 (a b : Z) : bool := if 383 * a + b <? 146097 then doe_check (383 * a + b) else true.

Lemma sweep_ok : forallb (fun a => forallb (p2 a) small) small = true.
Proof. vm_compute. reflexivity. Qed.

Lemma small_in x : 0 <= x < 383 -> In x small.
Proof.
  intros H. unfold small. apply in_map_iff. exists (Z.to_nat x). split; [lia|]. apply List.in_seq. lia.
Qed.

Lemma forallb_small (p : Z -> bool) : forallb p small = true -> forall x, 0 <= x < 383 -> p x = true.
Proof. intros H x Hx. rewrite forallb_forall in H. apply H. apply small_in. exact Hx. Qed.

Lemma sweep_all (p : Z -> Z -> bool) : forallb (fun a => forallb (p a) small) small = true ->
  forall a b, 0 <= a < 383 -> 0 <= b < 383 -> p a b = true.
Proof.
  intros H a b Ha Hb. apply (forallb_small (p a)); [|exact Hb]. apply (forallb_small (fun a => forallb (p a) small) H a Ha).
Qed.

Lemma doe_ok doe : 0 <= doe < 146097 -> doe_check doe = true.
Proof.
  intros H. assert (S : p2 (doe / 383) (doe mod 383) = true) by (apply (sweep_all p2 sweep_ok); lia).
  unfold p2 in S. assert (E : 383 * (doe / 383) + doe mod 383 = doe) by lia. rewrite E in S.
  destruct (doe <? 146097) eqn:L; [exact S|lia].
Qed.

Theorem days_civil_roundtrip z : let '(y, m, d) := civil_from_days z in days_from_civil y m d = z /\ 1 <= m <= 12 /\ 1 <= d <= 31.
Proof.
  unfold civil_from_days.
  set (z' := z + 719468). set (era := z' / 146097). set (doe := z' - era * 146097).
  assert (Hdoe : 0 <= doe < 146097) by (subst doe era; lia).
  pose proof (doe_ok doe Hdoe) as C. unfold doe_check, doe_parts in C.
  set (yoe := (doe - doe / 1460 + doe / 36524 - doe / 146096) / 365) in *.
  set (doy := doe - (365 * yoe + yoe / 4 - yoe / 100)) in *.
  set (mp := (5 * doy + 2) / 153) in *.
  set (d := doy - (153 * mp + 2) / 5 + 1) in *.
  set (m := if mp <? 10 then mp + 3 else mp - 9) in *.
  apply andb_true_iff in C as [C C7]. apply andb_true_iff in C as [C C6]. apply andb_true_iff in C as [C C5].
  apply andb_true_iff in C as [C C4]. apply andb_true_iff in C as [C C3]. apply andb_true_iff in C as [C1 C2].
  split; [|lia].
  unfold days_from_civil.
  set (y := yoe + era * 400).
  assert (Ey : (if m <=? 2 then (if m <=? 2 then y + 1 else y) - 1 else (if m <=? 2 then y + 1 else y)) = y) by (destruct (m <=? 2); lia).
  rewrite Ey.
  assert (Eera : y / 400 = era) by (subst y; lia).
  rewrite Eera.
  assert (Eyoe : y - era * 400 = yoe) by (subst y; lia). rewrite Eyoe.
  apply Z.eqb_eq in C7.
  assert (G : yoe * 365 + yoe / 4 - yoe / 100 + ((153 * (if m >? 2 then m - 3 else m + 9) + 2) / 5 + d - 1) = doe)
    by (etransitivity; [|exact C7]; ring).
  rewrite G. subst doe z'. lia.
Qed.

(* ---- rendering of two- and four-digit fields ---- *)
Definition hundred : list Z := map Z.of_nat (List.seq 0 100).
Lemma hundred_in x : 0 <= x < 100 -> In x hundred.
Proof. intros H. unfold hundred. apply in_map_iff. exists (Z.to_nat x). split; [lia|]. apply List.in_seq. lia. Qed.

Definition lz_eq (a b : list Z) : bool := text_eqb a b.
Lemma pad2_sweep : forallb (fun n => lz_eq (pad2 n) [48 + n / 10; 48 + n mod 10]) hundred = true.
Proof. vm_compute. reflexivity. Qed.
Lemma pad2_digits n : 0 <= n < 100 -> pad2 n = [48 + n / 10; 48 + n mod 10].
Proof.
  intros H. pose proof pad2_sweep as S. rewrite forallb_forall in S. specialize (S n (hundred_in n H)).
  apply text_eqb_spec in S. exact S.
Qed.

Lemma pad4_sweep : forallb (fun a => forallb (fun b => if 10 <=? a then lz_eq (pad4 (100 * a + b)) (pad2 a ++ pad2 b) else true) hundred) hundred = true.
Proof. vm_compute. reflexivity. Qed.
Lemma pad4_digits y : 1000 <= y <= 9999 -> pad4 y = pad2 (y / 100) ++ pad2 (y mod 100).
Proof.
  intros H. pose proof pad4_sweep as S. rewrite forallb_forall in S.
  assert (Ha : In (y / 100) hundred) by (apply hundred_in; lia).
  assert (Hb : In (y mod 100) hundred) by (apply hundred_in; lia).
  specialize (S _ Ha). rewrite forallb_forall in S. specialize (S _ Hb). cbv beta in S.
  assert (E : 100 * (y / 100) + y mod 100 = y) by lia. rewrite E in S.
  destruct (10 <=? y / 100) eqn:L; [|lia]. apply text_eqb_spec in S. exact S.
Qed.

Lemma dig_ok k : 0 <= k <= 9 -> dig (48 + k) = Some k.
Proof. intros H. unfold dig, is_digit. destruct ((48 <=? 48 + k) && (48 + k <=? 57)) eqn:E; [f_equal; lia|lia]. Qed.
Lemma num2_ok n : 0 <= n < 100 -> num2 (48 + n / 10) (48 + n mod 10) = Some n.
Proof. intros H. unfold num2. rewrite !dig_ok by lia. f_equal. lia. Qed.

(* ---- the year stays within four digits on the stated range ---- *)
Lemma year_range z : days_from_civil 1000 1 1 <= z <= days_from_civil 9999 12 31 ->
  let '(y, m, d) := civil_from_days z in 1000 <= y <= 9999.
Proof.
  intros H. pose proof (days_civil_roundtrip z) as R. destruct (civil_from_days z) as [[y m] d]. destruct R as (R & Hm & Hd).
  assert (L : days_from_civil 1000 1 1 = -354285) by reflexivity. assert (U : days_from_civil 9999 12 31 = 2932896) by reflexivity.
  rewrite L, U in H. clear L U. rewrite <- R in H. clear R. unfold days_from_civil in H.
  destruct (m <=? 2) eqn:E1; destruct (m >? 2) eqn:E2; try lia.
Qed.

Theorem parse_format_seconds s : min_seconds <= s <= max_seconds -> parse_datetime (format_seconds s) = Some s.
Proof.
  intros H. unfold format_seconds.
  assert (L : min_seconds = -354285 * 86400) by reflexivity. assert (U : max_seconds = 2932896 * 86400 + 86399) by reflexivity.
  assert (Hz : days_from_civil 1000 1 1 <= s / 86400 <= days_from_civil 9999 12 31).
  { assert (L' : days_from_civil 1000 1 1 = -354285) by reflexivity. assert (U' : days_from_civil 9999 12 31 = 2932896) by reflexivity. lia. }
  pose proof (year_range _ Hz) as Y. pose proof (days_civil_roundtrip (s / 86400)) as R.
  destruct (civil_from_days (s / 86400)) as [[y m] d]. destruct R as (R & Hm & Hd).
  set (r := s mod 86400). assert (Hr : 0 <= r < 86400) by (subst r; lia).
  rewrite (pad4_digits y Y), (pad2_digits m), (pad2_digits d), (pad2_digits (r / 3600)), (pad2_digits (r mod 3600 / 60)), (pad2_digits (r mod 60)),
          (pad2_digits (y / 100)), (pad2_digits (y mod 100)) by lia.
  cbn [app utc_suffix]. unfold utc_suffix. cbn [app]. unfold parse_datetime.
  rewrite !num2_ok by lia.
  assert (E : 100 * (y / 100) + y mod 100 = y) by lia. rewrite E, R. f_equal. subst r. lia.
Qed.

(* what the writer states is the configured instant, to the second, and nothing else *)
Theorem format_datetime_states_the_instant us : min_seconds <= us / 1000000 <= max_seconds ->
  parse_datetime (format_datetime us) = Some (us / 1000000).
Proof. intros H. apply parse_format_seconds. exact H. Qed.

Corollary format_datetime_injective a b : min_seconds <= a / 1000000 <= max_seconds -> min_seconds <= b / 1000000 <= max_seconds ->
  format_datetime a = format_datetime b -> a / 1000000 = b / 1000000.
Proof.
  intros Ha Hb E. apply format_datetime_states_the_instant in Ha, Hb. rewrite E in Ha. rewrite Ha in Hb. injection Hb as ->. reflexivity.
Qed.

(* ---- one instant, three notations, one reading ---- *)
Lemma format_seconds_body s : format_seconds s = format_body s ++ utc_suffix.
Proof.
  unfold format_seconds, format_body. destruct (civil_from_days (s / 86400)) as [[y m] d].
  repeat rewrite <- app_assoc. reflexivity.
Qed.

Lemma format_body_length s : min_seconds <= s <= max_seconds -> length (format_body s) = 19%nat.
Proof.
  intros H. unfold format_body.
  assert (Hz : days_from_civil 1000 1 1 <= s / 86400 <= days_from_civil 9999 12 31).
  { assert (L : min_seconds = -354285 * 86400) by reflexivity. assert (U : max_seconds = 2932896 * 86400 + 86399) by reflexivity.
    assert (L' : days_from_civil 1000 1 1 = -354285) by reflexivity. assert (U' : days_from_civil 9999 12 31 = 2932896) by reflexivity. lia. }
  pose proof (year_range _ Hz) as Y. pose proof (days_civil_roundtrip (s / 86400)) as R.
  destruct (civil_from_days (s / 86400)) as [[y m] d]. destruct R as (R & Hm & Hd).
  set (r := s mod 86400). assert (Hr : 0 <= r < 86400) by (subst r; lia).
  rewrite (pad4_digits y Y), (pad2_digits m), (pad2_digits d), (pad2_digits (r / 3600)), (pad2_digits (r mod 3600 / 60)), (pad2_digits (r mod 60)),
          (pad2_digits (y / 100)), (pad2_digits (y mod 100)) by lia.
  reflexivity.
Qed.

Theorem read_utc_notations s : min_seconds <= s <= max_seconds ->
  read_utc (format_body s) = Some s /\ read_utc (format_body s ++ [90]) = Some s /\ read_utc (format_body s ++ utc_suffix) = Some s.
Proof.
  intros H. pose proof (format_body_length s H) as L. pose proof (parse_format_seconds s H) as P. rewrite format_seconds_body in P.
  unfold read_utc. repeat split.
  - rewrite L. cbn [Nat.eqb]. exact P.
  - rewrite app_length, L. cbn [length Nat.add Nat.eqb]. rewrite rev_app_distr. cbn [rev app]. rewrite rev_involutive. exact P.
  - rewrite app_length, L. cbn [utc_suffix length Nat.add Nat.eqb]. exact P.
Qed.

(* in particular the reading of a zone-less or "Z" value equals the reading of the "+00:00" value the tools write: no host time zone enters *)
Corollary read_utc_notation_independent s : min_seconds <= s <= max_seconds ->
  read_utc (format_body s) = read_utc (format_seconds s) /\ read_utc (format_body s ++ [90]) = read_utc (format_seconds s).
Proof. intros H. destruct (read_utc_notations s H) as (A & B & C). rewrite format_seconds_body, A, B, C. split; reflexivity. Qed.

(* two different instants (to the second) are never written as the same timestamp text *)
Theorem format_seconds_injective a b : min_seconds <= a <= max_seconds -> min_seconds <= b <= max_seconds ->
  format_seconds a = format_seconds b -> a = b.
Proof.
  intros Ha Hb E. pose proof (parse_format_seconds a Ha) as Ra. pose proof (parse_format_seconds b Hb) as Rb.
  rewrite E in Ra. rewrite Ra in Rb. congruence.
Qed.
