From KV Require Import Base.Prelude Base.Exn Base.Bytes Model.Data Model.Duration.
From Coq Require Import DecimalN DecimalFacts.

Lemma uint_chars_roundtrip u : uint_of_chars (chars_of_uint u) = u.
Proof. induction u; cbn; congruence. Qed.

Lemma chars_all_digits u : forallb is_digit (chars_of_uint u) = true.
Proof. induction u; cbn; auto. Qed.

Lemma int_of_dec n : 0 <= n -> int_of_digits (dec n) = n.
Proof.
  intros H. unfold int_of_digits, dec. rewrite uint_chars_roundtrip, Unsigned.of_to. lia.
Qed.

Lemma span_digits_app ds c rest : forallb is_digit ds = true -> is_digit c = false ->
  span_digits (ds ++ c :: rest) = (ds, c :: rest).
Proof.
  intros Hd Hc. induction ds as [|d ds IH]; cbn.
  - rewrite Hc. reflexivity.
  - cbn in Hd. apply andb_true_iff in Hd as [H1 H2]. rewrite H1, (IH H2). reflexivity.
Qed.

Lemma dec_nonempty n : dec n <> [].
Proof.
  unfold dec. destruct (Z.to_N n) as [|p]; cbn; [discriminate|].
  pose proof (DecimalPos.Unsigned.to_uint_nonnil p) as H.
  destruct (Pos.to_uint p); cbn; congruence.
Qed.
Lemma dec_digits n : forallb is_digit (dec n) = true.
Proof. apply chars_all_digits. Qed.

Lemma py_int_none s c : In c s -> int_char_ok c = false -> py_int s = None.
Proof.
  intros Hin Hc. unfold py_int.
  assert (forallb int_char_ok s = false) as ->; [|reflexivity].
  destruct (forallb int_char_ok s) eqn:E; [|reflexivity].
  rewrite forallb_forall in E. rewrite (E c Hin) in Hc. discriminate.
Qed.

(* tokens: (preceded by 'T'?, value, designator) *)
Definition token := (bool * Z * Z)%type.
Fixpoint render (ts : list token) : text :=
  match ts with
  | [] => []
  | (tp, v, w) :: r => (if tp then [cT] else []) ++ dec v ++ [w] ++ render r
  end.
Definition mult (w : Z) : Z :=
  if w =? cW then 7 * 86400 else if w =? cD then 86400 else if w =? cH then 3600 else if w =? cM then 60 else 1.
Fixpoint total (ts : list token) : Z :=
  match ts with [] => 0 | (_, v, w) :: r => mult w * v + total r end.
Definition desig (w : Z) : bool := (w =? cW) || (w =? cD) || (w =? cH) || (w =? cM) || (w =? cS).
(* 'M' only after a 'T'; values non-negative *)
Fixpoint toks_ok (tsec : bool) (ts : list token) : Prop :=
  match ts with
  | [] => True
  | (tp, v, w) :: r => 0 <= v /\ desig w = true /\ (w = cM -> (tp || tsec) = true) /\ toks_ok (tp || tsec) r
  end.

Lemma dec_chars_lt_58 v c : In c (dec v) -> 48 <= c <= 57.
Proof.
  intros Hc. pose proof (dec_digits v) as Hd. rewrite forallb_forall in Hd.
  specialize (Hd c Hc). unfold is_digit in Hd. lia.
Qed.

Lemma desig_cases w : desig w = true -> w = cW \/ w = cD \/ w = cH \/ w = cM \/ w = cS.
Proof. unfold desig. lia. Qed.

Lemma render_chars tsec ts c : toks_ok tsec ts -> In c (render ts) -> (48 <= c <= 57) \/ desig c = true \/ c = cT.
Proof.
  revert tsec; induction ts as [|[[tp v] w] r IH]; intros tsec Hok Hin; cbn [render] in Hin; [destruct Hin|].
  destruct Hok as (_ & Hw & _ & Hr).
  apply in_app_or in Hin as [Hin|Hin].
  - destruct tp; [|destruct Hin]. destruct Hin as [<-|[]]. auto.
  - apply in_app_or in Hin as [Hin|Hin]; [left; eapply dec_chars_lt_58; exact Hin|].
    destruct Hin as [<-|Hin]; [auto|]. eapply IH; eauto.
Qed.

Lemma render_py_int tsec ts : toks_ok tsec ts -> py_int (render ts) = None.
Proof.
  destruct ts as [|[[tp v] w] r]; intros Hok; [reflexivity|].
  destruct Hok as (_ & Hw & _ & _).
  apply (py_int_none _ w).
  - cbn [render]. apply in_or_app; right. apply in_or_app; right. left; reflexivity.
  - apply desig_cases in Hw. unfold int_char_ok, is_digit, cW, cD, cH, cM, cS in *. lia.
Qed.

Lemma dur_step f tp v w rest tsec acc :
  0 <= v -> desig w = true -> (w = cM -> (tp || tsec) = true) -> py_int rest = None ->
  dur_loop (S f) ((if tp then [cT] else []) ++ dec v ++ [w] ++ rest) tsec acc
  = dur_loop f rest (tp || tsec) (acc + mult w * v).
Proof.
  intros Hv Hw Hm Hpi.
  pose proof (dec_nonempty v) as Hne. pose proof (dec_digits v) as Hd.
  assert (Hwd : is_digit w = false).
  { apply desig_cases in Hw. unfold is_digit, cW, cD, cH, cM, cS in *. lia. }
  assert (Hspan : span_digits (dec v ++ w :: rest) = (dec v, w :: rest)) by (apply span_digits_app; assumption).
  assert (Hbody : forall ts s1, s1 = dec v ++ w :: rest -> (w = cM -> ts = true) ->
     (let (digits, r) := span_digits s1 in
      match digits, r with
      | _ :: _, what :: rest0 =>
          let rest' := rest0 in
          let num := int_of_digits digits in
          let step (add : Z) :=
            let acc' := acc + add in
            match py_int rest' with
            | Some extra => dur_loop f [] ts (acc' + extra)
            | None => dur_loop f rest' ts acc'
            end in
          if what =? cW then step (7 * 86400 * num)
          else if what =? cD then step (86400 * num)
          else if what =? cH then step (3600 * num)
          else if what =? cM then (if ts then step (60 * num) else Raise NotImplementedError)
          else if what =? cS then step num
          else Raise ValueError
      | _, _ => Raise ValueError
      end) = dur_loop f rest ts (acc + mult w * v)).
  { intros ts s1 -> Hts. rewrite Hspan. destruct (dec v) as [|d0 dt] eqn:Ed; [congruence|]. rewrite <- Ed.
    cbv zeta. rewrite Hpi, (int_of_dec v Hv).
    apply desig_cases in Hw. unfold mult.
    destruct Hw as [-> | [-> | [-> | [-> | ->]]]]; cbn - [Z.mul Z.add dur_loop]; try rewrite (Hts eq_refl); f_equal; lia. }
  destruct tp; cbn [app orb].
  - cbn [dur_loop]. assert (cT =? cT = true) as -> by reflexivity.
    exact (Hbody true (dec v ++ w :: rest) eq_refl (fun _ => eq_refl)).
  - destruct (dec v) as [|d0 dt] eqn:Ed; [congruence|]. cbn [app dur_loop].
    assert (d0 =? cT = false) as ->.
    { assert (In d0 (dec v)) by (rewrite Ed; left; reflexivity). apply dec_chars_lt_58 in H. unfold cT. lia. }
    exact (Hbody tsec ((d0 :: dt) ++ w :: rest) eq_refl Hm).
Qed.

Lemma dur_loop_render ts : forall fuel tsec acc,
  (length ts < fuel)%nat -> toks_ok tsec ts ->
  dur_loop fuel (render ts) tsec acc = OK (acc + total ts).
Proof.
  induction ts as [|[[tp v] w] r IH]; intros fuel tsec acc Hf Hok.
  - destruct fuel; [cbn in Hf; lia|]. cbn. f_equal. lia.
  - destruct fuel as [|f]; [cbn in Hf; lia|]. cbn [length] in Hf.
    destruct Hok as (Hv & Hw & Hm & Hr). cbn [render].
    rewrite dur_step; auto.
    + rewrite IH by (auto; lia). cbn [total]. f_equal. lia.
    + eapply render_py_int; exact Hr.
Qed.

Lemma render_length ts : (length ts <= length (render ts))%nat.
Proof.
  induction ts as [|[[tp v] w] r IH]; cbn [render length]; [lia|].
  rewrite !app_length. cbn [length]. lia.
Qed.

Lemma parse_rendered ts : toks_ok false ts ->
  duration_to_timedelta (cP :: render ts) = OK (total ts).
Proof.
  intros Hok. unfold duration_to_timedelta. assert (cP =? cP = true) as -> by reflexivity.
  rewrite dur_loop_render; auto. pose proof (render_length ts). lia.
Qed.

Definition flat (l : list (Z * Z)) : text := concat (map (fun vw => dec (fst vw) ++ [snd vw]) l).
Definition mark_first (l : list (Z * Z)) : list token :=
  match l with
  | [] => []
  | (v, w) :: t => (true, v, w) :: map (fun vw => (false, fst vw, snd vw)) t
  end.
Definition sum_of (l : list (Z * Z)) : Z := fold_right (fun vw acc => mult (snd vw) * fst vw + acc) 0 l.

Lemma render_unmarked t : render (map (fun vw : Z * Z => (false, fst vw, snd vw)) t) = flat t.
Proof.
  unfold flat. induction t as [|[v w] t IH]; cbn [map render concat]; [reflexivity|].
  cbn [fst snd app]. rewrite IH. rewrite <- app_assoc. reflexivity.
Qed.
Lemma render_mark_first l : l <> [] -> render (mark_first l) = [cT] ++ flat l.
Proof.
  destruct l as [|[v w] t]; [congruence|]. intros _. cbn [mark_first render].
  rewrite render_unmarked. unfold flat. cbn [map concat fst snd]. rewrite <- !app_assoc. reflexivity.
Qed.
Lemma total_unmarked t : total (map (fun vw : Z * Z => (false, fst vw, snd vw)) t) = sum_of t.
Proof. induction t as [|[v w] t IH]; cbn; [reflexivity|]. rewrite IH. reflexivity. Qed.
Lemma total_mark_first l : total (mark_first l) = sum_of l.
Proof. destruct l as [|[v w] t]; cbn; [reflexivity|]. rewrite total_unmarked. reflexivity. Qed.
Lemma total_app a b : total (a ++ b) = total a + total b.
Proof. induction a as [|[[tp v] w] a IH]; cbn; [reflexivity|]. rewrite IH. lia. Qed.

Lemma toks_ok_unmarked t : Forall (fun vw : Z * Z => 0 <= fst vw /\ desig (snd vw) = true) t ->
  toks_ok true (map (fun vw => (false, fst vw, snd vw)) t).
Proof.
  induction 1 as [|[v w] t [Hv Hw] _ IH]; cbn; [exact I|]. cbn in Hv, Hw. repeat split; auto.
Qed.
Lemma toks_ok_mark_first tsec l : Forall (fun vw : Z * Z => 0 <= fst vw /\ desig (snd vw) = true) l ->
  toks_ok tsec (mark_first l).
Proof.
  destruct 1 as [|[v w] t [Hv Hw] Ht]; cbn; [exact I|]. cbn in Hv, Hw. repeat split; auto.
  apply toks_ok_unmarked; exact Ht.
Qed.

(* C11 (a): every whole-second duration the writer can emit is read back exactly *)
Theorem duration_roundtrip n : 0 <= n -> duration_to_timedelta (timedelta_to_duration n) = OK n.
Proof.
  intros Hn. unfold timedelta_to_duration.
  destruct (n =? 0) eqn:E0.
  { assert (n = 0) by lia. subst. vm_compute. reflexivity. }
  set (days := n / 86400). set (secs := n mod 86400).
  assert (Hd : 0 <= days) by (unfold days; lia). assert (Hs : 0 <= secs < 86400) by (unfold secs; lia).
  assert (Hsum : n = days * 86400 + secs) by (unfold days, secs; lia).
  cbv zeta.
  set (h := 3600 <? secs). set (r1 := if h then secs mod 3600 else secs).
  set (m := 60 <? r1). set (r2 := if m then r1 mod 60 else r1).
  set (tl := (if h then [(secs / 3600, cH)] else []) ++ (if m then [(r1 / 60, cM)] else []) ++ (if r2 =? 0 then [] else [(r2, cS)])).
  assert (Htime : (if h then dec (secs / 3600) ++ [cH] else []) ++ (if m then dec (r1 / 60) ++ [cM] else [])
                  ++ (if r2 =? 0 then [] else dec r2 ++ [cS]) = flat tl).
  { unfold tl, flat. destruct h, m, (r2 =? 0); cbn [app map concat fst snd]; rewrite <- ?app_assoc, ?List.app_nil_r; reflexivity. }
  assert (Hr1 : 0 <= r1 < 86400) by (unfold r1; destruct h; lia).
  assert (Hr2 : 0 <= r2 < 86400) by (unfold r2; destruct m; lia).
  assert (Hall : Forall (fun vw : Z * Z => 0 <= fst vw /\ desig (snd vw) = true) tl).
  { unfold tl. destruct h, m, (r2 =? 0); cbn [app]; repeat constructor; cbn [fst snd]; try reflexivity; lia. }
  assert (Hsumt : secs <> 0 -> sum_of tl = secs /\ tl <> []).
  { intros Hnz. clear Htime Hall Hr1 Hr2. subst tl r2 m r1 h. unfold sum_of, mult.
    destruct (3600 <? secs) eqn:Eh; cbn [app fold_right fst snd].
    - destruct (60 <? secs mod 3600) eqn:Em; cbn [app fold_right fst snd].
      + destruct (secs mod 3600 mod 60 =? 0) eqn:Er; cbn [app fold_right fst snd]; (split; [cbn - [Z.mul Z.div Z.modulo Z.add]; lia|discriminate]).
      + destruct (secs mod 3600 =? 0) eqn:Er; cbn [app fold_right fst snd]; (split; [cbn - [Z.mul Z.div Z.modulo Z.add]; lia|discriminate]).
    - destruct (60 <? secs) eqn:Em; cbn [app fold_right fst snd].
      + destruct (secs mod 60 =? 0) eqn:Er; cbn [app fold_right fst snd]; (split; [cbn - [Z.mul Z.div Z.modulo Z.add]; lia|discriminate]).
      + destruct (secs =? 0) eqn:Er; cbn [app fold_right fst snd]; [lia|]. split; [cbn - [Z.mul Z.div Z.modulo Z.add]; lia|discriminate]. }
  rewrite Htime.
  set (daytok := if days =? 0 then [] else [(false, days, cD)]).
  assert (Hday : (if days =? 0 then [cP] else [cP] ++ dec days ++ [cD]) = cP :: render daytok).
  { unfold daytok. destruct (days =? 0); cbn [render app]; rewrite ?List.app_nil_r; reflexivity. }
  rewrite Hday.
  assert (Hrender_app : forall a b, render (a ++ b) = render a ++ render b).
  { induction a as [|[[tp v] w] a IH]; intros b; cbn [app render]; [reflexivity|]. rewrite IH, <- !app_assoc. reflexivity. }
  assert (Hdayok : forall r, toks_ok (match daytok with [] => false | _ => false end) r -> toks_ok false (daytok ++ r)).
  { intros r Hr. unfold daytok. destruct (days =? 0); cbn [app toks_ok orb]; [exact Hr|].
    repeat split; auto. discriminate. }
  destruct (secs =? 0) eqn:Es.
  - rewrite List.app_nil_r. rewrite parse_rendered.
    + unfold daytok. destruct (days =? 0) eqn:Ed; cbn [total]; unfold mult; cbn - [Z.mul]; f_equal; lia.
    + rewrite <- (List.app_nil_r daytok). apply Hdayok. destruct daytok; exact I.
  - destruct (Hsumt ltac:(lia)) as [Hst Hne].
    change (cP :: render daytok) with ([cP] ++ render daytok). rewrite <- app_assoc.
    rewrite <- (render_mark_first tl Hne), <- Hrender_app. cbn [app].
    rewrite parse_rendered.
    + rewrite total_app, total_mark_first, Hst. unfold daytok.
      destruct (days =? 0) eqn:Ed; cbn [total]; unfold mult; cbn - [Z.mul]; f_equal; lia.
    + apply Hdayok. destruct daytok; apply toks_ok_mark_first; exact Hall.
Qed.

Example duration_examples :
  timedelta_to_duration 0 = [80;84;48;83] /\
  timedelta_to_duration (3 * 86400 + 4 * 3600 + 5 * 60 + 6) = [80;51;68;84;52;72;53;77;54;83] /\
  timedelta_to_duration 3600 = [80;84;54;48;77] /\ timedelta_to_duration 60 = [80;84;54;48;83].
Proof. repeat split; vm_compute; reflexivity. Qed.

(* two different whole-second durations are never written as the same text *)
Theorem duration_text_injective a b : 0 <= a -> 0 <= b -> timedelta_to_duration a = timedelta_to_duration b -> a = b.
Proof.
  intros Ha Hb E. pose proof (duration_roundtrip a Ha) as Ra. pose proof (duration_roundtrip b Hb) as Rb.
  rewrite E in Ra. rewrite Ra in Rb. congruence.
Qed.
