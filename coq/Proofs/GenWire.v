(* Bridge: what the translator read from /repo (Gen/Wire.v) = what the model assumes. *)
From Coq Require Import String.
From KV Require Import Base.Prelude Base.Bytes Model.Data Model.Wire.
From KV Require Gen.Wire.

Lemma gen_algorithm_values : Gen.Wire.algorithm_values = all_algorithms.  Proof. reflexivity. Qed.
Lemma gen_alg_numbers :
  (Gen.Wire.alg_RSASHA1, Gen.Wire.alg_RSASHA256, Gen.Wire.alg_RSASHA512, Gen.Wire.alg_ECDSAP256SHA256,
   Gen.Wire.alg_ECDSAP384SHA384, Gen.Wire.alg_ED25519, Gen.Wire.alg_ED448)
  = (RSASHA1, RSASHA256, RSASHA512, ECDSAP256SHA256, ECDSAP384SHA384, ED25519, ED448).
Proof. reflexivity. Qed.
Lemma gen_deprecated : Gen.Wire.deprecated_algorithms = deprecated_algorithms.  Proof. reflexivity. Qed.
Lemma gen_supported : Gen.Wire.supported_algorithms = supported_algorithms.  Proof. reflexivity. Qed.
Lemma gen_families :
  forall a, In a all_algorithms ->
    is_rsa a = mem a Gen.Wire.rsa_algorithms /\ is_ecdsa a = mem a Gen.Wire.ecdsa_algorithms /\
    is_eddsa a = mem a Gen.Wire.eddsa_algorithms.
Proof. intros a H. repeat (destruct H as [<-|H]; [repeat split; reflexivity|]). destruct H. Qed.
Lemma gen_flags : (Gen.Wire.flag_SEP, Gen.Wire.flag_REVOKE, Gen.Wire.flag_ZONE) = (FLAG_SEP, FLAG_REVOKE, FLAG_ZONE).
Proof. reflexivity. Qed.
Lemma gen_type_class : (Gen.Wire.type_values, Gen.Wire.class_IN, Gen.Wire.dn2wire_root) = ([TYPE_DNSKEY], CLASS_IN, [0]).
Proof. reflexivity. Qed.
Lemma gen_ecdsa_sizes : Gen.Wire.ecdsa_expected_sizes = [(ECDSAP256SHA256, 256); (ECDSAP384SHA384, 384)].
Proof. reflexivity. Qed.

(* struct layouts *)
Lemma gen_key_to_rdata_header f p a pub r :
  key_to_rdata_raw f p a pub = OK r -> r = Gen.Wire.key_to_rdata_header f p a ++ pub.
Proof.
  unfold key_to_rdata_raw, Gen.Wire.key_to_rdata_header. destruct (_ && _); [|discriminate].
  intros [= <-]. rewrite <- !app_assoc. reflexivity.
Qed.
Lemma gen_key_tag_formula :
  Gen.Wire.key_tag_return_expr = "(_sum & 65535) + (_sum >> 16) & 65535"%string /\
  Gen.Wire.key_tag_loop_body = "if _odd:
    _sum += this
else:
    _sum += this << 8 | _odd = not _odd"%string.
Proof. split; reflexivity. Qed.
Lemma gen_rrsig_layout s :
  Gen.Wire.rrsig_header (s_type s) (s_alg s) (s_labels s) (s_ottl s) (s_exp s / usec) (s_inc s / usec) (s_tag s)
  = pack2 (s_type s) ++ pack1 (s_alg s) ++ pack1 (s_labels s) ++ pack4 (s_ottl s)
    ++ pack4 (s_exp s / usec) ++ pack4 (s_inc s / usec) ++ pack2 (s_tag s)
  /\ [0] ++ Gen.Wire.rrsig_rr_prefix_fixed (s_type s) CLASS_IN (s_ottl s) = rr_prefix [0] (s_type s) (s_ottl s)
  /\ (forall r, Gen.Wire.rrsig_rdlength (len r) = pack2 (len r))
  /\ Gen.Wire.rrsig_sorted_over = "rdata"%string
  /\ Gen.Wire.rrsig_collect_loops = "keys : rdata += [key_to_rdata(key)]"%string
  /\ Gen.Wire.rrsig_loop_body = "length = struct.pack('!H', len(this)) | res += prefix + length + this"%string.
Proof. repeat split; reflexivity. Qed.
