From KV Require Import Base.Prelude Base.Exn Base.Bytes Model.Data Model.Wire Model.KsrPolicy Model.Chain Model.Token Model.Sign Model.History
  Spec.ChainRules Proofs.TokenProofs Proofs.ChainProofs Proofs.SignProofs.

Section HistoryProofs.
  Variable Hh : Z -> list Z -> list Z.
  Variable token_sign : P11Key -> Z -> list Z -> res text.
  Variable verify : text -> Z -> list Z -> text -> bool.
  Variable ds_hex : list Z -> text.

  Notation ceremony := (ceremony Hh token_sign verify ds_hex).
  Notation create_skr := (create_skr Hh token_sign verify ds_hex).
  Notation accepted_from := (accepted_from Hh token_sign verify ds_hex).
  Notation sign_bundle := (sign_bundle Hh token_sign verify ds_hex).

  Lemma forall2_in_r {A B} (R : A -> B -> Prop) l1 l2 y : Forall2 R l1 l2 -> In y l2 -> exists x, In x l1 /\ R x y.
  Proof.
    induction 1 as [|a b l1' l2' Hab _ IH]; intros Hin; [destruct Hin|]. destruct Hin as [<-|Hin]; [exists a; split; [left; reflexivity|exact Hab]|].
    destruct (IH Hin) as (x & Hx & Hr). exists x. split; [right; exact Hx|exact Hr].
  Qed.

  Lemma forall2_length {A B} (R : A -> B -> Prop) l1 l2 : Forall2 R l1 l2 -> length l1 = length l2.
  Proof. induction 1; cbn [length]; congruence. Qed.

  (* what create_skr's result has to do with the KSR it was made from *)
  Definition made_from (ksr : Request) (ns : Response) : Prop :=
    rs_id ns = rq_id ksr /\ rs_zsk ns = rq_zsk ksr /\
    Forall2 (fun b rb => b_id rb = b_id b /\ b_inc rb = b_inc b /\ b_exp rb = b_exp b /\
                         (forall z, In z (b_keys b) -> exists x, In x (b_keys rb) /\ k_pubtxt x = k_pubtxt z))
            (rq_bundles ksr) (rs_bundles ns).

  Lemma create_skr_made_from c st ns : create_skr c st = OK ns -> made_from (s_ksr st) ns.
  Proof.
    unfold History.create_skr. intros H. apply bind_ok_inv in H as (bs & Hb & H). injection H as <-.
    unfold made_from. cbn [rs_id rs_zsk rs_bundles]. split; [reflexivity|]. split; [reflexivity|].
    unfold sign_bundles in Hb. apply (sign_bundles_all Hh token_sign verify ds_hex) in Hb.
    induction Hb as [|b rb bs' rbs' (j & Hj) _ IH]; constructor; [|exact IH].
    apply (response_bundle_facts Hh token_sign verify ds_hex) in Hj as (A & B & C & _ & D & _). auto.
  Qed.

  (* the response header: the request's id, serial, domain and ZSK policy are echoed; the KSK policy states the configured periods;
     the bundles are what sign_bundles returned, one per request bundle in order *)
  Lemma create_skr_header c st ns : create_skr c st = OK ns ->
    rs_id ns = rq_id (s_ksr st) /\ rs_serial ns = rq_serial (s_ksr st) /\ rs_domain ns = rq_domain (s_ksr st) /\ rs_zsk ns = rq_zsk (s_ksr st) /\
    (sp_publish_safety (rs_ksk ns), sp_retire_safety (rs_ksk ns), sp_max_validity (rs_ksk ns), sp_min_validity (rs_ksk ns), sp_max_overlap (rs_ksk ns), sp_min_overlap (rs_ksk ns))
      = (sp_publish_safety (c_ksk c), sp_retire_safety (c_ksk c), sp_max_validity (c_ksk c), sp_min_validity (c_ksk c), sp_max_overlap (c_ksk c), sp_min_overlap (c_ksk c)) /\
    sign_bundles Hh token_sign verify ds_hex (s_ksr st) (s_schema st) (s_ms st) (c_ttl c) (c_sn c) (c_kks c) (c_validate c) = OK (rs_bundles ns) /\
    length (rs_bundles ns) = length (rq_bundles (s_ksr st)).
  Proof.
    unfold History.create_skr. intros H. apply bind_ok_inv in H as (bs & Hb & H). injection H as <-.
    cbn [rs_id rs_serial rs_domain rs_zsk rs_ksk rs_bundles]. repeat split; try reflexivity; [exact Hb|].
    unfold sign_bundles in Hb. apply (sign_bundles_all Hh token_sign verify ds_hex) in Hb. symmetry. eapply forall2_length. exact Hb.
  Qed.

  Lemma create_skr_reloads c st ns : create_skr c st = OK ns ->
    for_each (check_valid_signatures (response_verify verify) (c_validate c)) (rs_bundles ns) = OK tt.
  Proof.
    unfold History.create_skr. intros H. apply bind_ok_inv in H as (bs & Hb & H). injection H as <-. cbn [rs_bundles].
    unfold sign_bundles in Hb. apply (sign_bundles_all Hh token_sign verify ds_hex) in Hb. apply for_each_ok_iff. intros rb Hin.
    destruct (forall2_in_r _ _ _ rb Hb Hin) as (b0 & _ & (j & Hj)).
    unfold Sign.sign_bundle in Hj. destruct (lookup_slot j _) as [act|]; [|discriminate Hj].
    apply bind_ok_inv in Hj as (pubs & _ & Hj). apply bind_ok_inv in Hj as (revs & _ & Hj). apply bind_ok_inv in Hj as (k2 & _ & Hj).
    apply bind_ok_inv in Hj as (sks & _ & Hj). apply bind_ok_inv in Hj as (sigs0 & _ & Hj). destruct (negb _); [discriminate Hj|].
    apply bind_ok_inv in Hj as ([] & Hv & Hj). injection Hj as <-. exact Hv.
  Qed.

  (* the link between an accepted SKR and the next accepted SKR *)
  Definition good_link (p : ReqPolicy) (a b : Response) : Prop :=
    rs_id a <> rs_id b /\
    (forall x y, In x (rs_bundles a) -> In y (rs_bundles b) -> b_id x <> b_id y) /\
    (p_check_chain_overlap p = true ->
       exists lastb first rest, last_opt (rs_bundles a) = Some lastb /\ rs_bundles b = first :: rest /\
         sp_min_overlap (rs_zsk b) <= b_exp lastb - b_inc first <= sp_max_overlap (rs_zsk b)) /\
    (p_check_chain_keys p = true ->
       exists lastb first rest kfirst, last_opt (rs_bundles a) = Some lastb /\ rs_bundles b = first :: rest /\
         (* kfirst: the keys the KSR asked to have signed in its first bundle *)
         forall z, In z kfirst -> (exists k', In k' (b_keys lastb) /\ same_key z k') /\ (exists x, In x (b_keys first) /\ k_pubtxt x = k_pubtxt z)) /\
    (p_check_publish_safety p = true -> publish_spec a b) /\
    (p_check_retire_safety p = true -> retire_spec a b).

  Theorem ceremony_link c a st b : ceremony c (Some a) st = OK b -> good_link (c_req c) a b.
  Proof.
    unfold History.ceremony. intros H. apply bind_ok_iff in H as [_ H]. apply bind_ok_iff in H as [_ H]. apply bind_ok_iff in H as [Hchain H].
    apply bind_ok_inv in H as (ns & Hns & H). apply bind_ok_iff in H as [Hsafe H]. injection H as <-.
    apply chain_iff in Hchain as (C1 & C2 & C3 & C4 & _). apply safety_iff in Hsafe as [S1 S2].
    pose proof (create_skr_made_from _ _ _ Hns) as (M1 & M2 & M3).
    unfold good_link. split; [rewrite M1; intros E; apply C1; symmetry; exact E|]. split.
    { intros x y Hx Hy. destruct (forall2_in_r _ _ _ y M3 Hy) as (kb & Hkb & (Eid & _)). rewrite Eid. intros E. apply (C2 kb x Hkb Hx). symmetry; exact E. }
    split.
    { intros F. destruct (C4 F) as (lastb & first & rest & Hl & Hf & Hov). rewrite Hf in M3. inversion M3 as [|? rb ? rrest (_ & Ei & _) _ E1 E2]; subst.
      exists lastb, rb, rrest. split; [exact Hl|]. split; [reflexivity|]. rewrite M2, Ei. exact Hov. }
    split.
    { intros F. destruct (C3 F) as (lastb & first & rest & Hl & Hf & Hk). rewrite Hf in M3. inversion M3 as [|? rb ? rrest (_ & _ & _ & Hz) _ E1 E2]; subst.
      exists lastb, rb, rrest, (b_keys first). split; [exact Hl|]. split; [reflexivity|]. intros zk Hzk. split; [apply Hk; exact Hzk|apply Hz; exact Hzk]. }
    split; assumption.
  Qed.

  (* what a ceremony emits can be loaded as the previous SKR of the next one - provided the response policy expects as many bundles as the request policy *)
  Lemma validate_request_count now p r : validate_request (response_verify verify) now p r = OK tt -> nbundles r = p_num_bundles p.
  Proof.
    unfold validate_request. intros H. repeat (apply bind_ok_iff in H as [? H]).
    match goal with Hc : check_bundle_count p r = OK tt |- _ => unfold check_bundle_count in Hc; apply guard_ok_iff in Hc end.
    lia.
  Qed.

  Theorem emitted_skr_reloads c prev st b : c_resp_num c = p_num_bundles (c_req c) -> ceremony c prev st = OK b -> reload verify c b = OK tt.
  Proof.
    intros Hnum. unfold History.ceremony. intros H. apply bind_ok_iff in H as [_ H]. apply bind_ok_iff in H as [Hreq H]. apply bind_ok_iff in H as [_ H].
    apply bind_ok_inv in H as (ns & Hns & H). apply bind_ok_iff in H as [_ H]. injection H as <-.
    unfold reload, validate_response. apply bind_ok_iff. split; [|exact (create_skr_reloads _ _ _ Hns)].
    apply guard_ok_iff. apply validate_request_count in Hreq. pose proof (create_skr_made_from _ _ _ Hns) as (_ & _ & M3).
    apply forall2_length in M3. unfold nbundles in Hreq. lia.
  Qed.

  (* ---- histories of any length ---- *)
  Inductive linked (c : Config) : option Response -> list Response -> Prop :=
  | linked_nil prev : linked c prev []
  | linked_cons prev b rest :
      (forall a, prev = Some a -> good_link (c_req c) a b) ->
      (c_resp_num c = p_num_bundles (c_req c) -> reload verify c b = OK tt) ->
      linked c (Some b) rest -> linked c prev (b :: rest).

  Theorem history_invariant c steps : forall prev, linked c prev (accepted_from c prev steps).
  Proof.
    induction steps as [|st rest IH]; intros prev; cbn [History.accepted_from]; [constructor|].
    destruct (ceremony c prev st) as [ns|e] eqn:E; [|apply IH].
    constructor; [|intros Hn; eapply emitted_skr_reloads; eassumption|apply IH].
    intros a ->. eapply ceremony_link. exact E.
  Qed.

  (* no coverage gap between neighbours when the overlap check is on and the KSR's minimum overlap is not negative *)
  Corollary no_gap p a b : good_link p a b -> p_check_chain_overlap p = true -> 0 <= sp_min_overlap (rs_zsk b) ->
    exists lastb first rest, last_opt (rs_bundles a) = Some lastb /\ rs_bundles b = first :: rest /\ b_inc first <= b_exp lastb.
  Proof.
    intros (_ & _ & Hov & _) F Hmin. destruct (Hov F) as (lastb & first & rest & Hl & Hf & Hb). exists lastb, first, rest. repeat split; auto. lia.
  Qed.

  (* a refused ceremony changes nothing: the history continues from the same previous SKR *)
  Theorem refused_ceremony_keeps_state c prev st rest e : ceremony c prev st = Raise e -> accepted_from c prev (st :: rest) = accepted_from c prev rest.
  Proof. intros H. cbn [History.accepted_from]. rewrite H. reflexivity. Qed.
End HistoryProofs.
