From KV Require Import Base.Prelude Base.Exn Base.Bytes Model.Data Model.Wire Model.KsrPolicy Model.Chain
  Spec.ChainRules Spec.KeyRules Proofs.KsrTimingProofs Proofs.ChainProofs.
From Coq Require Import Sorting.Permutation.

Lemma same_key_eq a b : same_key a b -> k_pub a = k_pub b -> a = b.
Proof.
  destruct a, b; unfold same_key; cbn. intros (-> & -> & -> & -> & -> & -> & ->) ->. reflexivity.
Qed.
Lemma same_key_refl a : same_key a a.
Proof. unfold same_key; tauto. Qed.

Lemma existsb_text_false id l : existsb (text_eqb id) l = false <-> ~ In id l.
Proof.
  split.
  - intros H Hin. assert (existsb (text_eqb id) l = true); [|congruence].
    apply existsb_exists. exists id. split; auto using text_eqb_refl.
  - intros H. destruct (existsb _ _) eqn:E; [|reflexivity].
    apply existsb_exists in E as (x & Hx & Ex). apply text_eqb_spec in Ex. subst. contradiction.
Qed.

(* ---- domain, unique ids ---- *)
Lemma domain_iff p r : check_domain p r = OK tt <-> exists d, In d (p_acceptable_domains p) /\ d = rq_domain r.
Proof.
  unfold check_domain. rewrite guard_ok_iff, negb_false_iff', existsb_exists. split.
  - intros (d & Hd & E). apply text_eqb_spec in E. eauto.
  - intros (d & Hd & ->). exists (rq_domain r). split; auto using text_eqb_refl.
Qed.

Lemma unique_ids_loop_iff bs : forall seen,
  unique_ids_loop seen bs = OK tt <-> NoDup (map b_id bs) /\ (forall b, In b bs -> ~ In (b_id b) seen).
Proof.
  induction bs as [|b t IH]; intros seen; cbn [unique_ids_loop map].
  - split; [intros _; split; [constructor|intros ? []]|reflexivity].
  - destruct (existsb (text_eqb (b_id b)) seen) eqn:E.
    + split; [discriminate|]. intros [_ H]. apply existsb_exists in E as (x & Hx & Ex).
      apply text_eqb_spec in Ex. subst. exfalso. eapply H; [left; reflexivity|exact Hx].
    + apply existsb_text_false in E. rewrite IH. split.
      * intros [Hnd H]. split.
        -- constructor; [|exact Hnd]. intros Hin. apply in_map_iff in Hin as (b' & Eb & Hb').
           apply (H b' Hb'). left. symmetry; exact Eb.
        -- intros b' [<-|Hb']; [exact E|]. intros Hin. apply (H b' Hb'). right; exact Hin.
      * intros [Hnd H]. inversion Hnd as [|? ? Hni Hnd']; subst. split; [exact Hnd'|].
        intros b' Hb' [Eq|Hin].
        -- apply Hni. rewrite Eq. apply in_map; exact Hb'.
        -- apply (H b' (or_intror Hb') Hin).
Qed.
Lemma unique_ids_iff r : check_unique_ids r = OK tt <-> NoDup (map b_id (rq_bundles r)).
Proof. unfold check_unique_ids. rewrite unique_ids_loop_iff. split; [tauto|]. intros H; split; auto. Qed.

(* ---- keys loop with the `seen` map ---- *)
Lemma find_key_none id seen : find_key_by_id id seen = None <-> ~ In id (map k_id seen).
Proof.
  unfold find_key_by_id. split.
  - intros H Hin. apply in_map_iff in Hin as (k & <- & Hk).
    eapply find_none in H; [|exact Hk]. cbn in H. rewrite text_eqb_refl in H. discriminate.
  - intros H. destruct (find _ seen) as [k|] eqn:E; [|reflexivity].
    apply find_some in E as [Hk Ek]. apply text_eqb_spec in Ek. exfalso. apply H. rewrite <- Ek. apply in_map; exact Hk.
Qed.
Lemma find_key_some id seen s : find_key_by_id id seen = Some s -> In s seen /\ k_id s = id.
Proof. unfold find_key_by_id. intros H. apply find_some in H as [H1 H2]. apply text_eqb_spec in H2. auto. Qed.

Lemma consistent_sub l l' : (forall x, In x l' -> In x l) -> consistent l -> consistent l'.
Proof. unfold consistent. intros H C a b Ha Hb. apply C; auto. Qed.

Section Keys.
  Variables (p : ReqPolicy) (algs : list AlgPolicy).
  Let good k := check_new_key p algs k = OK tt.

  Lemma keys_loop_iff ks : forall seen,
    (forall s, In s seen -> good s) -> consistent seen -> dec_fun (seen ++ ks) ->
    (keys_loop p algs seen ks = OK tt <-> Forall good ks /\ consistent (seen ++ ks)).
  Proof.
    induction ks as [|k t IH]; intros seen Hgood Hcons Hdec; cbn [keys_loop].
    - rewrite app_nil_r. split; [intros _; split; [constructor|exact Hcons]|reflexivity].
    - destruct (find_key_by_id (k_id k) seen) as [s|] eqn:Ef.
      + apply find_key_some in Ef as [Hs Hid].
        destruct (key_eqb k s) eqn:Ek.
        * apply key_eqb_iff in Ek.
          assert (k = s) as ->.
          { apply same_key_eq; [exact Ek|]. apply Hdec; [apply in_or_app; right; left; reflexivity|
              apply in_or_app; left; exact Hs|]. apply Ek. }
          rewrite IH; auto.
          2:{ intros a b Ha Hb. apply Hdec; apply in_app_or in Ha, Hb; apply in_or_app; cbn; tauto. }
          split.
          -- intros [Hf Hc]. split; [constructor; [apply Hgood; exact Hs|exact Hf]|].
             eapply consistent_sub; [|exact Hc]. intros x Hx. apply in_app_or in Hx. apply in_or_app.
             destruct Hx as [Hx|[<-|Hx]]; auto.
          -- intros [Hf Hc]. inversion Hf; subst. split; [assumption|].
             eapply consistent_sub; [|exact Hc]. intros x Hx. apply in_app_or in Hx. apply in_or_app. cbn. tauto.
        * split; [discriminate|]. intros [_ Hc].
          assert (same_key k s) as Hsk.
          { apply Hc; [apply in_or_app; right; left; reflexivity|apply in_or_app; left; exact Hs|congruence]. }
          apply key_eqb_iff in Hsk. congruence.
      + apply find_key_none in Ef. rewrite bind_ok_iff.
        destruct (check_new_key p algs k) as [[]|c] eqn:Eg.
        2:{ split; [intros [H _]; discriminate|]. intros [Hf _]. inversion Hf; subst. unfold good in *. congruence. }
        rewrite (IH (k :: seen)).
        * split.
          -- intros [_ [Hf Hc]]. split; [constructor; [unfold good; exact Eg|exact Hf]|].
             eapply consistent_sub; [|exact Hc]. intros x Hx. apply in_app_or in Hx. cbn.
             destruct Hx as [Hx|[<-|Hx]]; auto. right. apply in_or_app; auto. right. apply in_or_app; auto.
          -- intros [Hf Hc]. inversion Hf; subst. split; [reflexivity|]. split; [assumption|].
             eapply consistent_sub; [|exact Hc]. intros x Hx. cbn in Hx. apply in_or_app. cbn.
             destruct Hx as [<-|Hx]; auto. apply in_app_or in Hx. tauto.
        * intros s [<-|Hs]; [unfold good; exact Eg|apply Hgood; exact Hs].
        * intros a b [<-|Ha] [<-|Hb] Hid; try apply same_key_refl.
          -- exfalso. apply Ef. rewrite Hid. apply in_map; exact Hb.
          -- exfalso. apply Ef. rewrite <- Hid. apply in_map; exact Ha.
          -- apply Hcons; assumption.
        * intros a b Ha Hb. apply Hdec; apply in_or_app; cbn in Ha, Hb |- *;
            [destruct Ha as [<-|Ha]; [right; left; reflexivity|apply in_app_or in Ha; tauto]|
             destruct Hb as [<-|Hb]; [right; left; reflexivity|apply in_app_or in Hb; tauto]].
  Qed.
End Keys.

(* ---- check_new_key = OK  <->  key_good, for loader-producible policy entries ---- *)
Lemma rsa_match_iff algs k r ign :
  rsa_match algs k r ign = true <->
  exists bits e, In (APRsa (k_alg k) bits e) algs /\ rsa_bits r = bits /\ (rsa_e r = e \/ ign = true).
Proof.
  unfold rsa_match. rewrite existsb_exists. split.
  - intros ([al bits e| |] & Hin & H); try discriminate.
    apply andb_true_iff in H as [H H3]. apply andb_true_iff in H as [H1 H2].
    apply Z.eqb_eq in H1, H2. apply orb_true_iff in H3. rewrite Z.eqb_eq in H3.
    exists bits, e. rewrite H1. auto.
  - intros (bits & e & Hin & Hb & He). exists (APRsa (k_alg k) bits e). split; [exact Hin|].
    rewrite Z.eqb_refl, Hb, Z.eqb_refl. cbn. apply orb_true_iff. rewrite Z.eqb_eq. exact He.
Qed.

Lemma ecdsa_nonempty_ok pub al : is_ecdsa al = true -> pub <> [] -> exists pk, ecdsa_without_prefix pub al = OK pk.
Proof.
  intros Ha Hp. unfold ecdsa_without_prefix.
  assert (exists ex, ecdsa_expected_size al = OK ex) as [ex ->].
  { unfold is_ecdsa, mem in Ha. cbn in Ha. unfold ecdsa_expected_size.
    destruct (al =? ECDSAP256SHA256) eqn:E1; [eauto|]. destruct (al =? ECDSAP384SHA384) eqn:E2; [eauto|].
    unfold ECDSAP256SHA256, ECDSAP384SHA384 in *. lia. }
  cbn [bind]. destruct (ecdsa_pubkey_size pub =? ex); [eauto|].
  destruct pub as [|x t]; [congruence|]. rewrite match4. destruct (x =? 4); eauto.
Qed.

Lemma families_disjoint a :
  (is_rsa a = true -> is_ecdsa a = false /\ is_eddsa a = false) /\
  (is_ecdsa a = true -> is_rsa a = false /\ is_eddsa a = false) /\
  (is_eddsa a = true -> is_rsa a = false /\ is_ecdsa a = false).
Proof. unfold is_rsa, is_ecdsa, is_eddsa, mem. cbn [existsb]. lia. Qed.

Lemma eddsa_nonempty_ok pub al : is_eddsa al = true -> pub <> [] -> exists pk, eddsa_without_prefix pub al = OK pk.
Proof.
  intros Ha Hp. unfold eddsa_without_prefix.
  assert (exists ex, eddsa_expected_size al = OK ex) as [ex ->].
  { unfold is_eddsa, mem in Ha. cbn in Ha. unfold eddsa_expected_size.
    destruct (al =? ED25519) eqn:E1; [eauto|]. destruct (al =? ED448) eqn:E2; [eauto|].
    unfold ED25519, ED448 in *. lia. }
  cbn [bind]. destruct (len pub * 8 =? ex); [eauto|].
  destruct pub as [|x t]; [congruence|]. rewrite match4. destruct (x =? 4); eauto.
Qed.

Lemma ecdsa_empty_raises al : is_ecdsa al = true -> ecdsa_without_prefix [] al = Raise IndexError.
Proof.
  intros Ha. unfold is_ecdsa, mem in Ha. cbn in Ha. unfold ecdsa_without_prefix, ecdsa_expected_size.
  destruct (al =? ECDSAP256SHA256) eqn:E1; [reflexivity|]. destruct (al =? ECDSAP384SHA384) eqn:E2; [reflexivity|].
  unfold ECDSAP256SHA256, ECDSAP384SHA384 in *. lia.
Qed.
Lemma eddsa_empty_raises al : is_eddsa al = true -> eddsa_without_prefix [] al = Raise IndexError.
Proof.
  intros Ha. unfold is_eddsa, mem in Ha. cbn in Ha. unfold eddsa_without_prefix, eddsa_expected_size.
  destruct (al =? ED25519) eqn:E1; [reflexivity|]. destruct (al =? ED448) eqn:E2; [reflexivity|].
  unfold ED25519, ED448 in *. lia.
Qed.

Lemma ecdsa_match_char algs k : Forall wf_alg algs ->
  (k_pub k <> [] ->
     exists b, ecdsa_match algs k = OK b /\
       (b = true <-> exists bits pk, In (APEcdsa (k_alg k) bits) algs /\
                       ecdsa_without_prefix (k_pub k) (k_alg k) = OK pk /\ ecdsa_pubkey_size pk = bits)) /\
  (k_pub k = [] -> ecdsa_match algs k <> OK true).
Proof.
  induction 1 as [|a t Hw _ IH]; cbn [ecdsa_match].
  - split.
    + intros _. exists false. split; [reflexivity|]. split; [discriminate|]. intros (? & ? & [] & _).
    + discriminate.
  - destruct IH as [IH1 IH2]. destruct a as [al bits e|al bits|al bits]; cbn in Hw.
    + split.
      * intros Hp. destruct (IH1 Hp) as (b & Eb & Hb). exists b. split; [exact Eb|]. rewrite Hb.
        split; intros (x & y & Hin & H); exists x, y; (split; [|exact H]); [right; exact Hin|].
        destruct Hin as [Hin|Hin]; [discriminate|exact Hin].
      * exact IH2.
    + split.
      * intros Hp. destruct (ecdsa_nonempty_ok (k_pub k) al Hw Hp) as [pk Epk]. rewrite Epk. cbn [bind].
        destruct ((k_alg k =? al) && (ecdsa_pubkey_size pk =? bits)) eqn:E.
        -- exists true. split; [reflexivity|]. split; [|reflexivity]. intros _.
           apply andb_true_iff in E as [E1 E2]. apply Z.eqb_eq in E1, E2. subst al.
           exists bits, pk. repeat split; auto. left; reflexivity.
        -- destruct (IH1 Hp) as (b & Eb & Hb). exists b. split; [exact Eb|]. rewrite Hb.
           split; intros (x & y & Hin & H1 & H2); exists x, y; (split; [|split; [exact H1|exact H2]]); [right; exact Hin|].
           destruct Hin as [Hin|Hin]; [|exact Hin]. injection Hin as Ea Ebits.
           rewrite <- Ea, Epk in H1. injection H1 as E1.
           assert (E' : (k_alg k =? al) && (ecdsa_pubkey_size pk =? bits) = true)
             by (apply andb_true_iff; split; apply Z.eqb_eq; congruence).
           congruence.
      * intros Hp. rewrite Hp, (ecdsa_empty_raises al Hw). discriminate.
    + split.
      * intros Hp. destruct (IH1 Hp) as (b & Eb & Hb). exists b. split; [exact Eb|]. rewrite Hb.
        split; intros (x & y & Hin & H); exists x, y; (split; [|exact H]); [right; exact Hin|].
        destruct Hin as [Hin|Hin]; [discriminate|exact Hin].
      * exact IH2.
Qed.

Lemma eddsa_match_char algs k : Forall wf_alg algs ->
  (k_pub k <> [] ->
     exists b, eddsa_match algs k = OK b /\
       (b = true <-> exists bits pk, In (APEddsa (k_alg k) bits) algs /\
                       eddsa_without_prefix (k_pub k) (k_alg k) = OK pk /\ len pk * 8 = bits)) /\
  (k_pub k = [] -> eddsa_match algs k <> OK true).
Proof.
  induction 1 as [|a t Hw _ IH]; cbn [eddsa_match].
  - split.
    + intros _. exists false. split; [reflexivity|]. split; [discriminate|]. intros (? & ? & [] & _).
    + discriminate.
  - destruct IH as [IH1 IH2]. destruct a as [al bits e|al bits|al bits]; cbn in Hw.
    + split.
      * intros Hp. destruct (IH1 Hp) as (b & Eb & Hb). exists b. split; [exact Eb|]. rewrite Hb.
        split; intros (x & y & Hin & H); exists x, y; (split; [|exact H]); [right; exact Hin|].
        destruct Hin as [Hin|Hin]; [discriminate|exact Hin].
      * exact IH2.
    + split.
      * intros Hp. destruct (IH1 Hp) as (b & Eb & Hb). exists b. split; [exact Eb|]. rewrite Hb.
        split; intros (x & y & Hin & H); exists x, y; (split; [|exact H]); [right; exact Hin|].
        destruct Hin as [Hin|Hin]; [discriminate|exact Hin].
      * exact IH2.
    + split.
      * intros Hp. destruct (eddsa_nonempty_ok (k_pub k) al Hw Hp) as [pk Epk]. rewrite Epk. cbn [bind].
        destruct ((k_alg k =? al) && (len pk * 8 =? bits)) eqn:E.
        -- exists true. split; [reflexivity|]. split; [|reflexivity]. intros _.
           apply andb_true_iff in E as [E1 E2]. apply Z.eqb_eq in E1, E2. subst al.
           exists bits, pk. repeat split; auto. left; reflexivity.
        -- destruct (IH1 Hp) as (b & Eb & Hb). exists b. split; [exact Eb|]. rewrite Hb.
           split; intros (x & y & Hin & H1 & H2); exists x, y; (split; [|split; [exact H1|exact H2]]); [right; exact Hin|].
           destruct Hin as [Hin|Hin]; [|exact Hin]. injection Hin as Ea Ebits.
           rewrite <- Ea, Epk in H1. injection H1 as E1.
           assert (E' : (k_alg k =? al) && (len pk * 8 =? bits) = true)
             by (apply andb_true_iff; split; apply Z.eqb_eq; congruence).
           congruence.
      * intros Hp. rewrite Hp, (eddsa_empty_raises al Hw). discriminate.
Qed.

Lemma tag_part_iff k :
  bind (calculate_key_tag k) (fun t => guard KSR_BUNDLE_KEYS_Violation (negb (t =? k_tag k))) = OK tt
  <-> calculate_key_tag k = OK (k_tag k).
Proof.
  destruct (calculate_key_tag k) as [t|c]; cbn [bind].
  - rewrite guard_ok_iff, negb_false_iff', Z.eqb_eq. split; congruence.
  - split; discriminate.
Qed.

Lemma check_new_key_iff p algs k : Forall wf_alg algs ->
  (check_new_key p algs k = OK tt <-> key_good p algs k).
Proof.
  intros Hwf. unfold check_new_key, key_good.
  rewrite bind_ok_iff, seq_guard_ok, tag_part_iff, negb_false_iff', Z.eqb_eq.
  assert (Hfam : (if is_rsa (k_alg k)
     then bind (rsa_decode (k_pub k)) (fun r =>
            let m := rsa_match algs k r false in
            let m' := if negb m && negb (p_rsa_exponent_match_zsk_policy p) then rsa_match algs k r true else m in
            guard KSR_BUNDLE_KEYS_Violation (negb m'))
     else if is_ecdsa (k_alg k) then bind (ecdsa_match algs k) (fun m => guard KSR_BUNDLE_KEYS_Violation (negb m))
     else if is_eddsa (k_alg k) then bind (eddsa_match algs k) (fun m => guard KSR_BUNDLE_KEYS_Violation (negb m))
     else Raise ValueError) = OK tt <-> key_params_declared p algs k); [|unfold FLAG_ZONE; tauto].
  unfold key_params_declared. pose proof (families_disjoint (k_alg k)) as (D1 & D2 & D3).
  destruct (is_rsa (k_alg k)) eqn:Er.
  - destruct (D1 eq_refl) as [-> ->].
    destruct (rsa_decode (k_pub k)) as [r|c]; cbn [bind].
    2:{ split; [discriminate|]. intros [(_ & r & H & _)|[(H & _)|(H & _)]]; discriminate. }
    cbv zeta. rewrite guard_ok_iff, negb_false_iff'. split.
    + intros H. left. split; [reflexivity|]. exists r. split; [reflexivity|].
      destruct (rsa_match algs k r false) eqn:E1; cbn [negb andb] in H.
      * apply rsa_match_iff in E1 as (bits & e & Hin & Hb & [He|He]); [|discriminate]. exists bits, e. auto.
      * destruct (p_rsa_exponent_match_zsk_policy p) eqn:Ep; cbn [negb] in H; [discriminate|].
        apply rsa_match_iff in H as (bits & e & Hin & Hb & _). exists bits, e. auto.
    + intros [(_ & r' & [= <-] & bits & e & Hin & Hb & He)|[(H & _)|(H & _)]]; try discriminate.
      destruct (rsa_match algs k r false) eqn:E1; cbn [negb andb]; [reflexivity|].
      destruct He as [He|He].
      * assert (rsa_match algs k r false = true); [|congruence]. apply rsa_match_iff. exists bits, e. auto.
      * rewrite He. cbn [negb]. apply rsa_match_iff. exists bits, e. auto.
  - destruct (is_ecdsa (k_alg k)) eqn:Ee.
    + destruct (D2 eq_refl) as [_ ->]. destruct (ecdsa_match_char algs k Hwf) as [C1 C2].
      destruct (k_pub k) as [|x t] eqn:Ep.
      * split.
        -- intros H. exfalso. destruct (ecdsa_match algs k) as [[]|]; cbn in H; try discriminate. apply C2; reflexivity.
        -- intros [(H & _)|[(_ & H & _)|(H & _)]]; try discriminate. congruence.
      * destruct (C1 ltac:(discriminate)) as (b & Eb & Hb). rewrite Eb. cbn [bind].
        rewrite guard_ok_iff, negb_false_iff', Hb. split.
        -- intros H. right; left. split; [reflexivity|]. split; [discriminate|exact H].
        -- intros [(H & _)|[(_ & _ & H)|(H & _)]]; try discriminate. exact H.
    + destruct (is_eddsa (k_alg k)) eqn:Ed.
      * destruct (eddsa_match_char algs k Hwf) as [C1 C2].
        destruct (k_pub k) as [|x t] eqn:Ep.
        -- split.
           ++ intros H. exfalso. destruct (eddsa_match algs k) as [[]|]; cbn in H; try discriminate. apply C2; reflexivity.
           ++ intros [(H & _)|[(H & _)|(_ & H & _)]]; try discriminate. congruence.
        -- destruct (C1 ltac:(discriminate)) as (b & Eb & Hb). rewrite Eb. cbn [bind].
           rewrite guard_ok_iff, negb_false_iff', Hb. split.
           ++ intros H. right; right. split; [reflexivity|]. split; [discriminate|exact H].
           ++ intros [(H & _)|[(H & _)|(_ & _ & H)]]; try discriminate. exact H.
      * split; [discriminate|]. intros [(H & _)|[(H & _)|(H & _)]]; discriminate.
Qed.

Lemma keys_match_iff p r : Forall wf_alg (sp_algs (rq_zsk r)) -> dec_fun (all_keys r) ->
  (check_keys_match_zsk_policy p r = OK tt <->
   (p_keys_match_zsk_policy p = true ->
      Forall (key_good p (sp_algs (rq_zsk r))) (all_keys r) /\ consistent (all_keys r))).
Proof.
  intros Hwf Hdec. unfold check_keys_match_zsk_policy. apply flagged_iff.
  rewrite (keys_loop_iff p (sp_algs (rq_zsk r)) (all_keys r) []); cbn [app]; auto.
  - rewrite !Forall_forall. split; intros [H1 H2]; (split; [|exact H2]); intros k Hk;
      apply (check_new_key_iff p _ k Hwf), H1, Hk.
  - intros s [].
  - intros a b [].
Qed.

Lemma count_keys_loop_iff bs : forall ns, length bs = length ns ->
  (count_keys_loop bs ns = OK tt <-> Forall2 (fun b n => Z.of_nat (length (b_keys b)) = n) bs ns).
Proof.
  induction bs as [|b bt IH]; intros [|n nt] Hl; cbn in Hl; try discriminate; cbn [count_keys_loop].
  - split; [constructor|reflexivity].
  - rewrite seq_guard_ok, negb_false_iff', Z.eqb_eq, IH by congruence.
    split; [intros [H1 H2]; constructor; assumption|intros H; inversion H; subst; auto].
Qed.

Lemma Forall2_len {A B} (R : A -> B -> Prop) l1 l2 : Forall2 R l1 l2 -> length l1 = length l2.
Proof. induction 1; cbn; congruence. Qed.

Lemma keys_in_bundles_iff p r : check_keys_in_bundles p r = OK tt <->
  (p_check_keys_match_ksk p = true ->
     Forall2 (fun b n => Z.of_nat (length (b_keys b)) = n) (rq_bundles r) (p_num_keys_per_bundle p) /\
     Z.of_nat (length (distinct_ids [] (all_keys r))) = p_num_different_keys p).
Proof.
  unfold check_keys_in_bundles. apply flagged_iff.
  rewrite seq_guard_ok, negb_false_iff', Z.eqb_eq, bind_ok_iff, guard_ok_iff, negb_false_iff', Z.eqb_eq.
  split.
  - intros (Hl & Hc & Hd). apply Nat2Z.inj in Hl. apply count_keys_loop_iff in Hc; auto.
  - intros (Hf & Hd). pose proof (Forall2_len _ _ _ Hf) as Hl. split; [congruence|]. split; [|exact Hd].
    apply count_keys_loop_iff; auto.
Qed.

Lemma alg_base_step_iff p a : alg_base_step p a = OK tt <-> alg_base_ok p a.
Proof.
  unfold alg_base_step, alg_base_ok. rewrite !seq_guard_ok, guard_ok_iff, negb_false_iff'.
  destruct (is_ecdsa (ap_alg a)), (is_eddsa (ap_alg a)), (p_enable_ecdsa p), (p_enable_eddsa p); cbn; intuition congruence.
Qed.

Lemma alg_rsa_step_iff p a : mem (ap_alg a) (p_approved_algorithms p) = true ->
  (alg_rsa_step p a = OK tt <->
   (is_rsa (ap_alg a) = true ->
      exists bits e, a = APRsa (ap_alg a) bits e /\ mem bits (p_rsa_sizes p) = true /\ mem e (p_rsa_exponents p) = true)).
Proof.
  intros _. unfold alg_rsa_step. destruct (is_rsa (ap_alg a)) eqn:E.
  - destruct a as [al bits e|al bits|al bits]; cbn [ap_alg] in *.
    + rewrite seq_guard_ok, guard_ok_iff, !negb_false_iff'. split.
      * intros [H1 H2] _. exists bits, e. auto.
      * intros H. destruct (H eq_refl) as (b' & e' & [= <- <-] & H1 & H2). auto.
    + split; [discriminate|]. intros H. destruct (H eq_refl) as (? & ? & H' & _). discriminate.
    + split; [discriminate|]. intros H. destruct (H eq_refl) as (? & ? & H' & _). discriminate.
  - split; [intros _ H; discriminate|reflexivity].
Qed.

Lemma zsk_alg_iff p r : check_zsk_policy_algorithm p r = OK tt <->
  Forall (alg_base_ok p) (sp_algs (rq_zsk r)) /\
  (p_sig_algs_match p = true -> Forall (alg_approved_ok p) (sp_algs (rq_zsk r))).
Proof.
  unfold check_zsk_policy_algorithm. cbv zeta. rewrite bind_ok_iff.
  rewrite (for_each_Forall _ (alg_base_ok p)) by apply alg_base_step_iff.
  apply and_iff_compat_l. apply flagged_iff.
  rewrite bind_ok_iff, !for_each_ok_iff, Forall_forall. split.
  - intros [H1 H2] a Ha. specialize (H1 a Ha). specialize (H2 a Ha).
    rewrite guard_ok_iff, negb_false_iff' in H1. split; [exact H1|]. apply alg_rsa_step_iff; assumption.
  - intros H. split; intros a Ha; destruct (H a Ha) as [H1 H2].
    + rewrite guard_ok_iff, negb_false_iff'. exact H1.
    + apply alg_rsa_step_iff; assumption.
Qed.

(* C06 main theorem *)
Theorem keys_header_iff p r :
  Forall wf_alg (sp_algs (rq_zsk r)) -> dec_fun (all_keys r) ->
  (keys_header_checks p r = OK tt <-> keys_header_spec p r).
Proof.
  intros Hwf Hdec. unfold keys_header_checks, keys_header_spec.
  rewrite !bind_ok_iff, domain_iff, unique_ids_iff, (keys_match_iff p r Hwf Hdec), keys_in_bundles_iff, zsk_alg_iff.
  tauto.
Qed.

(* a key identifier denotes one key in an accepted request *)
Theorem identifier_denotes_one_key p r a b :
  Forall wf_alg (sp_algs (rq_zsk r)) -> dec_fun (all_keys r) -> p_keys_match_zsk_policy p = true ->
  keys_header_checks p r = OK tt -> In a (all_keys r) -> In b (all_keys r) -> k_id a = k_id b -> a = b.
Proof.
  intros Hwf Hdec Hf H Ha Hb Hid. apply keys_header_iff in H; auto.
  destruct H as (_ & _ & H & _). destruct (H Hf) as [_ Hc].
  apply same_key_eq; [apply Hc; auto|]. apply Hdec; auto. apply (Hc a b Ha Hb Hid).
Qed.
