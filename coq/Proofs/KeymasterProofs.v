From KV Require Import Base.Prelude Base.Exn Base.Bytes Model.Data Model.Wire Model.Token Model.Sign Model.Keymaster Proofs.TokenProofs.

(* generating under a label that already names an object (public or private) fails and leaves the token unchanged *)
Theorem keygen_existing_label_unchanged st label np nr :
  label_exists st label = OK true -> keygen st label np nr = OK (st, false).
Proof. intros H. unfold keygen. rewrite H. reflexivity. Qed.

(* a lone private object counts as existing (the repaired defect) *)
Theorem lone_private_counts_as_existing st label k :
  get_p11_key st label true None = OK None -> get_p11_key st label false None = OK (Some k) -> label_exists st label = OK true.
Proof. intros H1 H2. unfold label_exists. rewrite H1. cbn [bind]. rewrite H2. reflexivity. Qed.

(* a successful generation adds exactly one public and one private object with the requested label,
   in the first logged-in slot of the first module, and nothing else changes *)
Theorem keygen_adds_exactly_one_pair st label np nr mi s :
  label_exists st label = OK false -> get_session st = OK (mi, s) ->
  keygen st label np nr =
    OK (update_slot st mi (sl_id s)
          (fun s' => mkSlot (sl_id s') (sl_login_ok s')
                       (sl_objs s' ++ [mkObj (next_handle s) CKO_PUBLIC label CKK_RSA (OK (Some np)) nr;
                                       mkObj (next_handle s + 1) CKO_PRIVATE label CKK_RSA (OK (Some np)) nr])), true).
Proof. intros H1 H2. unfold keygen. rewrite H1. cbn [bind]. rewrite H2. reflexivity. Qed.

Lemma keygen_store_cases st label np nr st' created :
  keygen st label np nr = OK (st', created) ->
  (created = false /\ st' = st) \/
  (created = true /\ exists mi s, get_session st = OK (mi, s) /\ label_exists st label = OK false).
Proof.
  unfold keygen. intros H. apply bind_ok_inv in H as (ex & Hex & H). destruct ex.
  - injection H as <- <-. left; auto.
  - apply bind_ok_inv in H as ([mi s] & Hs & H). injection H as <- <-. right. split; [reflexivity|]. eauto.
Qed.

(* the tag-collision check: a collision with either tag (plain or REVOKE) is reported as failure *)
Theorem keygen_tag_collision_fails st label np nr alg tags st' r1 r2 t :
  keygen st label np nr = OK (st', true) ->
  key_to_rdata_raw 257 3 alg nr = OK r1 -> key_to_rdata_raw 385 3 alg nr = OK r2 ->
  In (Some t) tags -> (t = key_tag_of_rdata r1 \/ t = key_tag_of_rdata r2) ->
  keygen_tool st label np nr alg tags = OK (st', Raise RuntimeError).
Proof.
  intros Hk H1 H2 Hin Ht. unfold keygen_tool. rewrite Hk. cbn [bind negb]. rewrite H1, H2.
  assert (existsb (fun o => match o with Some t0 => (t0 =? key_tag_of_rdata r1) || (t0 =? key_tag_of_rdata r2) | None => false end) tags = true) as ->; [|reflexivity].
  apply existsb_exists. exists (Some t). split; [exact Hin|]. destruct Ht as [-> | ->]; rewrite Z.eqb_refl; [reflexivity|apply orb_true_r].
Qed.

(* deleting needs an exact 'Yes' or force: otherwise the token is unchanged, whatever it holds *)
Theorem delete_needs_yes_or_force st label answer st' r :
  strip_newlines answer <> YES -> key_delete st label false answer = (st', r) -> st' = st.
Proof.
  intros Hne. unfold key_delete. intros H. destruct (get_p11_key st label true None) as [[k|]|c].
  - assert (text_eqb (strip_newlines answer) YES = false) as E.
    { destruct (text_eqb (strip_newlines answer) YES) eqn:E; [apply text_eqb_spec in E; contradiction|reflexivity]. }
    rewrite E in H. cbn in H. injection H as <- <-. reflexivity.
  - injection H as <- <-. reflexivity.
  - injection H as <- <-. reflexivity.
Qed.

(* only the five characters Y e s (after removing surrounding newlines) confirm *)
Theorem confirmation_exact answer : text_eqb (strip_newlines answer) YES = true <-> strip_newlines answer = [89; 101; 115].
Proof. apply text_eqb_spec. Qed.

(* operations and histories *)
Inductive op :=
| OpKeygen (label : text) (np : text) (nr : list Z)
| OpDelete (label : text) (force : bool) (answer : text).

Definition step (st : Store) (o : op) : Store :=
  match o with
  | OpKeygen label np nr => match keygen st label np nr with OK (st', _) => st' | Raise _ => st end
  | OpDelete label force answer => fst (key_delete st label force answer)
  end.

Definition harmless (st : Store) (o : op) : Prop :=
  match o with
  | OpKeygen label _ _ => label_exists st label = OK true \/ (exists c, label_exists st label = Raise c) \/ (exists c, get_session st = Raise c)
  | OpDelete _ force answer => force = false /\ strip_newlines answer <> YES
  end.

(* for every history: a sequence made only of generation attempts on existing labels and unconfirmed deletions never changes the token *)
Theorem harmless_history_leaves_token_unchanged ops : forall st,
  (forall o, In o ops -> harmless st o) -> fold_left step ops st = st.
Proof.
  induction ops as [|o ops IH]; intros st Hh; [reflexivity|]. cbn [fold_left].
  assert (step st o = st) as ->.
  { specialize (Hh o (or_introl eq_refl)). destruct o as [label np nr|label force answer]; cbn [step harmless] in *.
    - destruct Hh as [H|[[c H]|[c H]]].
      + rewrite (keygen_existing_label_unchanged _ _ np nr H). reflexivity.
      + unfold keygen. rewrite H. reflexivity.
      + destruct (keygen st label np nr) as [[st' cr]|] eqn:E; [|reflexivity].
        apply keygen_store_cases in E as [[_ ->]|(_ & mi & s & Hs & _)]; [reflexivity|congruence].
    - destruct Hh as [-> Hne]. destruct (key_delete st label false answer) as [st' r] eqn:E. cbn [fst].
      eapply delete_needs_yes_or_force; eauto. }
  apply IH. intros o' Ho'. apply Hh. right; exact Ho'.
Qed.

(* ------------------------------------------------------------------ inventory *)
Lemma ident_eqb_spec a b : ident_eqb a b = true <-> a = b.
Proof.
  destruct a as [la ia], b as [lb ib]; unfold ident_eqb; cbn [fst snd]. rewrite andb_true_iff, text_eqb_spec.
  destruct ia as [x|], ib as [y|]; try rewrite text_eqb_spec; split; intros H.
  - destruct H as [-> ->]; reflexivity.
  - inversion H; auto.
  - destruct H as [_ H]; discriminate H.
  - inversion H.
  - destruct H as [_ H]; discriminate H.
  - inversion H.
  - destruct H as [-> _]; reflexivity.
  - inversion H; auto.
Qed.
Lemma ident_eqb_refl a : ident_eqb a a = true.
Proof. apply ident_eqb_spec; reflexivity. Qed.

Lemma seen_spec seen k : existsb (ident_eqb k) seen = true <-> In k seen.
Proof.
  rewrite existsb_exists. split.
  - intros (x & Hx & E). apply ident_eqb_spec in E. subst; exact Hx.
  - intros H. exists k. split; [exact H|apply ident_eqb_refl].
Qed.

Lemma first_by_key_sound l : forall seen o, In o (first_by_key l seen) -> In o l /\ ~ In (io_key o) seen.
Proof.
  induction l as [|x l IH]; intros seen o H; cbn [first_by_key] in H; [destruct H|].
  destruct (existsb (ident_eqb (io_key x)) seen) eqn:E.
  - apply IH in H as [H1 H2]. split; [right; exact H1|exact H2].
  - destruct H as [->|H].
    + split; [left; reflexivity|]. intros Hin. apply seen_spec in Hin. congruence.
    + apply IH in H as [H1 H2]. split; [right; exact H1|]. intros Hin. apply H2. right; exact Hin.
Qed.

Lemma first_by_key_complete l : forall seen o, In o l -> ~ In (io_key o) seen ->
  exists o', In o' (first_by_key l seen) /\ io_key o' = io_key o.
Proof.
  induction l as [|x l IH]; intros seen o H Hs; [destruct H|]. cbn [first_by_key].
  destruct (existsb (ident_eqb (io_key x)) seen) eqn:E.
  - destruct H as [->|H]; [apply seen_spec in E; contradiction|]. apply IH; assumption.
  - destruct H as [->|H]; [exists o; split; [left; reflexivity|reflexivity]|].
    destruct (ident_eqb (io_key x) (io_key o)) eqn:E2.
    + apply ident_eqb_spec in E2. exists x. split; [left; reflexivity|exact E2].
    + destruct (IH (io_key x :: seen) o H) as (o' & H1 & H2).
      * intros [Hx|Hx]; [|contradiction]. rewrite Hx, ident_eqb_refl in E2. discriminate E2.
      * exists o'. split; [right; exact H1|exact H2].
Qed.

Lemma first_by_key_nodup l : forall seen, NoDup (map io_key (first_by_key l seen)).
Proof.
  induction l as [|x l IH]; intros seen; cbn [first_by_key]; [constructor|].
  destruct (existsb (ident_eqb (io_key x)) seen); [apply IH|].
  cbn [map]. constructor; [|apply IH]. intros Hin. apply in_map_iff in Hin as (o & Hk & Ho).
  apply first_by_key_sound in Ho as [_ Hn]. apply Hn. left. symmetry; exact Hk.
Qed.

(* the identities of one class present in a slot *)
Definition present (objs : list InvObj) (c : Z) (k : ident) : Prop := exists o, In o objs /\ io_cls o = c /\ io_key o = k.

Lemma class_keys objs c k : In k (map io_key (first_by_key (filter (is_cls c) objs) [])) <-> present objs c k.
Proof.
  split.
  - intros H. apply in_map_iff in H as (o & Hk & Ho). apply first_by_key_sound in Ho as [Ho _].
    apply filter_In in Ho as [Ho Hc]. unfold is_cls in Hc. exists o. repeat split; [exact Ho|lia|exact Hk].
  - intros (o & Ho & Hc & Hk). destruct (first_by_key_complete (filter (is_cls c) objs) [] o) as (o' & H1 & H2).
    + apply filter_In. split; [exact Ho|unfold is_cls; lia].
    + intros [].
    + apply in_map_iff. exists o'. split; [congruence|exact H1].
Qed.

Lemma has_key_spec l k : has_key l k = true <-> In k (map io_key l).
Proof.
  unfold has_key. rewrite existsb_exists, in_map_iff. split.
  - intros (o & Ho & E). apply ident_eqb_spec in E. exists o; auto.
  - intros (o & E & Ho). exists o. split; [exact Ho|]. rewrite E. apply ident_eqb_refl.
Qed.

Section InventoryProofs.
  Variable ds_hex : list Z -> text.

  Lemma pair_up_keys kks privs : forall pubs pairs, pair_up ds_hex kks pubs privs = OK pairs ->
    map fst pairs = filter (has_key privs) (map io_key pubs).
  Proof.
    induction pubs as [|o t IH]; intros pairs H; cbn [pair_up] in H.
    - inversion H. reflexivity.
    - destruct (io_pub o) as [[ptxt|]|c]; try discriminate H.
      destruct (ksk_status ds_hex kks o ptxt 0) as [st|c]; [|discriminate H]. cbn [bind] in H.
      destruct (pair_up ds_hex kks t privs) as [more|c]; [|discriminate H]. cbn [bind] in H.
      inversion H; subst. cbn [map filter]. rewrite <- (IH more eq_refl).
      destruct (has_key privs (io_key o)); reflexivity.
  Qed.

  Lemma pair_up_status kks privs : forall pubs pairs k st, pair_up ds_hex kks pubs privs = OK pairs -> In (k, st) pairs ->
    exists o ptxt, In o pubs /\ io_key o = k /\ io_pub o = OK (Some ptxt) /\ ksk_status ds_hex kks o ptxt 0 = OK st.
  Proof.
    induction pubs as [|o t IH]; intros pairs k st H Hin; cbn [pair_up] in H.
    - inversion H; subst. destruct Hin.
    - destruct (io_pub o) as [[ptxt|]|c] eqn:Ep; try discriminate H.
      destruct (ksk_status ds_hex kks o ptxt 0) as [st0|c] eqn:Es; [|discriminate H]. cbn [bind] in H.
      destruct (pair_up ds_hex kks t privs) as [more|c]; [|discriminate H]. cbn [bind] in H.
      inversion H; subst; clear H.
      assert (In (k, st) more -> exists o0 ptxt0, In o0 (o :: t) /\ io_key o0 = k /\ io_pub o0 = OK (Some ptxt0) /\ ksk_status ds_hex kks o0 ptxt0 0 = OK st) as Hmore.
      { intros Hm. destruct (IH more k st eq_refl Hm) as (o0 & p0 & H1 & H2). exists o0, p0. split; [right; exact H1|exact H2]. }
      destruct (has_key privs (io_key o)); [|exact (Hmore Hin)].
      destruct Hin as [E|Hin]; [|exact (Hmore Hin)]. inversion E; subst.
      exists o, ptxt. repeat split; auto. left; reflexivity.
  Qed.

  Lemma filter_nodup {A} (f : A -> bool) l : NoDup l -> NoDup (filter f l).
  Proof. intros H. apply NoDup_filter. exact H. Qed.

  (* what one slot's inventory lists: exactly the identities present, each once, split into pairs and leftovers *)
  Theorem slot_inventory_exact kks s inv : slot_inventory ds_hex kks s = OK inv ->
    let objs := snd s in
    si_slot inv = fst s /\
    (forall k, In k (map fst (si_pairs inv)) <-> present objs CKO_PUBLIC k /\ present objs CKO_PRIVATE k) /\
    (forall k, In k (si_left_pub inv) <-> present objs CKO_PUBLIC k /\ ~ present objs CKO_PRIVATE k) /\
    (forall k, In k (si_left_priv inv) <-> present objs CKO_PRIVATE k /\ ~ present objs CKO_PUBLIC k) /\
    (forall k, In k (si_left_secret inv) <-> present objs CKO_SECRET k) /\
    NoDup (map fst (si_pairs inv)) /\ NoDup (si_left_pub inv) /\ NoDup (si_left_priv inv) /\ NoDup (si_left_secret inv).
  Proof.
    intros H. unfold slot_inventory in H. intros objs. fold objs in H.
    destruct (scan_pubkeys objs) as [[]|c]; [|discriminate H]. cbn [bind] in H.
    set (pubs := first_by_key (filter (is_cls CKO_PUBLIC) objs) []) in *.
    set (privs := first_by_key (filter (is_cls CKO_PRIVATE) objs) []) in *.
    set (secrets := first_by_key (filter (is_cls CKO_SECRET) objs) []) in *.
    assert (Hpub : forall k, In k (map io_key pubs) <-> present objs CKO_PUBLIC k) by (intros; apply class_keys).
    assert (Hpriv : forall k, In k (map io_key privs) <-> present objs CKO_PRIVATE k) by (intros; apply class_keys).
    assert (Hsec : forall k, In k (map io_key secrets) <-> present objs CKO_SECRET k) by (intros; apply class_keys).
    assert (Npub : NoDup (map io_key pubs)) by apply first_by_key_nodup.
    assert (Npriv : NoDup (map io_key privs)) by apply first_by_key_nodup.
    assert (Nsec : NoDup (map io_key secrets)) by apply first_by_key_nodup.
    destruct (match pubs with [] => OK [] | _ :: _ => match privs with [] => OK [] | _ :: _ => pair_up ds_hex kks pubs privs end end) as [pairs|c] eqn:Ep; [|discriminate H].
    cbn [bind] in H. inversion H; subst inv; clear H. cbn [si_slot si_pairs si_left_pub si_left_priv si_left_secret].
    assert (Hpairs : map fst pairs = filter (has_key privs) (map io_key pubs)).
    { destruct pubs as [|p0 pt] eqn:E1.
      - inversion Ep. reflexivity.
      - destruct privs as [|q0 qt] eqn:E2.
        + inversion Ep. cbn [map]. clear. generalize (map io_key pt) (io_key p0). intros l k.
          assert (forall l, filter (has_key []) l = []) as -> by (induction l0; auto). reflexivity.
        + apply pair_up_keys in Ep. exact Ep. }
    assert (Hpk : forall k, In k (map fst pairs) <-> present objs CKO_PUBLIC k /\ present objs CKO_PRIVATE k).
    { intros k. rewrite Hpairs, filter_In, has_key_spec, Hpub, Hpriv. tauto. }
    assert (Hpaired : forall o, existsb (fun p : ident * Z => ident_eqb (fst p) (io_key o)) pairs = true <-> In (io_key o) (map fst pairs)).
    { intros o. rewrite existsb_exists, in_map_iff. split.
      - intros (p & Hp & E). apply ident_eqb_spec in E. exists p; auto.
      - intros (p & E & Hp). exists p. split; [exact Hp|rewrite E; apply ident_eqb_refl]. }
    assert (Hleft : forall l k, In k (map io_key (filter (fun o => negb (existsb (fun p : ident * Z => ident_eqb (fst p) (io_key o)) pairs)) l))
                                <-> In k (map io_key l) /\ ~ In k (map fst pairs)).
    { intros l k. split.
      - intros Hk. apply in_map_iff in Hk as (o & E & Ho). apply filter_In in Ho as [Ho Hn].
        split; [apply in_map_iff; exists o; auto|].
        intros Hin. rewrite <- E in Hin. apply Hpaired in Hin. rewrite Hin in Hn. discriminate Hn.
      - intros [Hk Hn]. apply in_map_iff in Hk as (o & E & Ho). apply in_map_iff. exists o. split; [exact E|]. apply filter_In. split; [exact Ho|].
        destruct (existsb (fun p : ident * Z => ident_eqb (fst p) (io_key o)) pairs) eqn:Ex; [|reflexivity]. apply Hpaired in Ex. rewrite E in Ex. contradiction. }
    assert (Hnd : forall l, NoDup (map io_key l) -> NoDup (map io_key (filter (fun o => negb (existsb (fun p : ident * Z => ident_eqb (fst p) (io_key o)) pairs)) l))).
    { induction l as [|x l IH]; intros Hn; cbn [filter map]; [constructor|]. inversion Hn; subst.
      destruct (negb _); [|apply IH; assumption]. cbn [map]. constructor; [|apply IH; assumption].
      intros Hin. apply in_map_iff in Hin as (o & E & Ho). apply filter_In in Ho as [Ho _].
      match goal with Hx : ~ In (io_key x) _ |- _ => apply Hx end. apply in_map_iff. exists o; auto. }
    split; [reflexivity|]. split; [exact Hpk|].
    split; [intros k; rewrite Hleft, Hpub, Hpk; tauto|].
    split; [intros k; rewrite Hleft, Hpriv, Hpk; tauto|].
    split; [exact Hsec|].
    split; [rewrite Hpairs; apply filter_nodup; exact Npub|].
    split; [apply Hnd; exact Npub|]. split; [apply Hnd; exact Npriv|exact Nsec].
  Qed.

  (* status of a listed pair: BAD exactly when some configured KSK with that label does not match the token key *)
  Lemma ksk_status_spec o ptxt : forall kks acc st, ksk_status ds_hex kks o ptxt acc = OK st -> acc = 0 \/ acc = 1 ->
    (st = 2 <-> exists nk, In nk kks /\ kk_label (snd nk) = io_label o /\ ksk_verdict ds_hex (snd nk) o ptxt = OK false) /\
    (st = 1 <-> (acc = 1 \/ exists nk, In nk kks /\ kk_label (snd nk) = io_label o) /\
                forall nk, In nk kks -> kk_label (snd nk) = io_label o -> ksk_verdict ds_hex (snd nk) o ptxt = OK true) /\
    (st = 0 <-> acc = 0 /\ forall nk, In nk kks -> kk_label (snd nk) <> io_label o).
  Proof.
    induction kks as [|nk rest IH]; intros acc st H Hacc; cbn [ksk_status] in H.
    - inversion H; subst. split; [|split].
      + split; [lia|]. intros (nk & [] & _).
      + split; [intros ->; split; [left; reflexivity|intros nk []]|]. intros [[-> | (nk & [] & _)] _]; reflexivity.
      + split; [intros ->; split; [reflexivity|intros nk []]|]. intros [-> _]; reflexivity.
    - destruct (text_eqb (kk_label (snd nk)) (io_label o)) eqn:El.
      + apply text_eqb_spec in El.
        destruct (ksk_verdict ds_hex (snd nk) o ptxt) as [[|]|c] eqn:Ev; [| |discriminate H]; cbn [bind] in H.
        * destruct (IH 1 st H (or_intror eq_refl)) as (I2 & I1 & I0). split; [|split].
          -- rewrite I2. split; intros (x & Hx & Hr); [exists x; split; [right; exact Hx|exact Hr]|].
             destruct Hx as [<-|Hx]; [destruct Hr as [_ Hr]; congruence|exists x; auto].
          -- rewrite I1. split.
             ++ intros [_ Hall]. split; [right; exists nk; split; [left; reflexivity|exact El]|].
                intros x [<-|Hx] Hl; [exact Ev|apply Hall; assumption].
             ++ intros [_ Hall]. split; [left; reflexivity|]. intros x Hx. apply Hall. right; exact Hx.
          -- rewrite I0. split; [intros [E _]; discriminate E|]. intros [_ Hn]. exfalso. apply (Hn nk); [left; reflexivity|exact El].
        * inversion H; subst st. split; [|split].
          -- split; [|reflexivity]. intros _. exists nk. split; [left; reflexivity|split; assumption].
          -- split; [intros E; discriminate E|]. intros [_ Hall]. specialize (Hall nk (or_introl eq_refl) El). congruence.
          -- split; [intros E; discriminate E|]. intros [_ Hn]. exfalso. apply (Hn nk); [left; reflexivity|exact El].
      + assert (Hne : kk_label (snd nk) <> io_label o) by (intros E; rewrite E, text_eqb_refl in El; discriminate El).
        destruct (IH acc st H Hacc) as (I2 & I1 & I0). split; [|split].
        * rewrite I2. split; intros (x & Hx & Hr); [exists x; split; [right; exact Hx|exact Hr]|].
          destruct Hx as [<-|Hx]; [destruct Hr as [Hr _]; contradiction|exists x; auto].
        * rewrite I1. split.
          -- intros [Hex Hall]. split.
             ++ destruct Hex as [Hex|(x & Hx & Hl)]; [left; exact Hex|right; exists x; split; [right; exact Hx|exact Hl]].
             ++ intros x [<-|Hx] Hl; [contradiction|apply Hall; assumption].
          -- intros [Hex Hall]. split.
             ++ destruct Hex as [Hex|(x & [<-|Hx] & Hl)]; [left; exact Hex|contradiction|right; exists x; auto].
             ++ intros x Hx. apply Hall. right; exact Hx.
        * rewrite I0. split; intros [Ha Hn]; (split; [exact Ha|]).
          -- intros x [<-|Hx]; [exact Hne|apply Hn; exact Hx].
          -- intros x Hx. apply Hn. right; exact Hx.
  Qed.

  (* what the verdict means: false exactly when the token key cannot be a DNSKEY under the configured algorithm, or its tag / DS differ *)
  Lemma ksk_verdict_false ksk o ptxt : ksk_verdict ds_hex ksk o ptxt = OK false <->
    (exists c, public_key_to_dnssec_key ptxt (io_raw o) (io_label o) (kk_alg ksk) 0 257 = Raise c /\ is_value_error c = true) \/
    (exists dns, public_key_to_dnssec_key ptxt (io_raw o) (io_label o) (kk_alg ksk) 0 257 = OK dns /\
                 validate_dnskey_matches_ksk ds_hex ksk dns = Raise RuntimeError).
  Proof.
    unfold ksk_verdict. destruct (public_key_to_dnssec_key ptxt (io_raw o) (io_label o) (kk_alg ksk) 0 257) as [dns|c].
    - destruct (validate_dnskey_matches_ksk ds_hex ksk dns) as [[]|c] eqn:Ev.
      + split; [discriminate|]. intros [(c & E & _)|(d & E & Hd)]; [discriminate E|]. injection E as <-. congruence.
      + destruct (c =? RuntimeError) eqn:Ec.
        * assert (c = RuntimeError) by lia. subst c. split; [|reflexivity]. intros _. right. exists dns. auto.
        * split; [discriminate|]. intros [(c' & E & _)|(d & E & Hd)]; [discriminate E|]. injection E as <-. rewrite Ev in Hd. injection Hd as ->. lia.
    - destruct (is_value_error c) eqn:Ec.
      + split; [|reflexivity]. intros _. left. exists c. auto.
      + split; [discriminate|]. intros [(c' & E & Hc)|(d & E & _)]; [injection E as <-; congruence|discriminate E].
  Qed.

  Theorem inventory_marks_bad_ksk kks s inv k st : slot_inventory ds_hex kks s = OK inv -> In (k, st) (si_pairs inv) ->
    exists o ptxt, In o (snd s) /\ io_cls o = CKO_PUBLIC /\ io_key o = k /\ io_pub o = OK (Some ptxt) /\
      (st = 2 <-> exists nk, In nk kks /\ kk_label (snd nk) = fst k /\ ksk_verdict ds_hex (snd nk) o ptxt = OK false) /\
      (st = 1 <-> (exists nk, In nk kks /\ kk_label (snd nk) = fst k) /\
                  forall nk, In nk kks -> kk_label (snd nk) = fst k -> ksk_verdict ds_hex (snd nk) o ptxt = OK true) /\
      (st = 0 <-> forall nk, In nk kks -> kk_label (snd nk) <> fst k).
  Proof.
    unfold slot_inventory. intros H Hin.
    destruct (scan_pubkeys (snd s)) as [[]|c]; [|discriminate H]. cbn [bind] in H.
    set (pubs := first_by_key (filter (is_cls CKO_PUBLIC) (snd s)) []) in *.
    set (privs := first_by_key (filter (is_cls CKO_PRIVATE) (snd s)) []) in *.
    destruct (match pubs with [] => OK [] | _ :: _ => match privs with [] => OK [] | _ :: _ => pair_up ds_hex kks pubs privs end end) as [pairs|c] eqn:Ep; [|discriminate H].
    cbn [bind] in H. inversion H; subst inv; clear H. cbn [si_pairs] in Hin.
    assert (Hp : pair_up ds_hex kks pubs privs = OK pairs \/ pairs = []).
    { destruct pubs; [right; inversion Ep; reflexivity|]. destruct privs; [right; inversion Ep; reflexivity|left; exact Ep]. }
    destruct Hp as [Hp| ->]; [|destruct Hin].
    destruct (pair_up_status kks privs pubs pairs k st Hp Hin) as (o & ptxt & Ho & Hk & Hpub & Hst).
    apply first_by_key_sound in Ho as [Ho _]. apply filter_In in Ho as [Ho Hc]. unfold is_cls in Hc.
    exists o, ptxt. split; [exact Ho|]. split; [lia|]. split; [exact Hk|]. split; [exact Hpub|].
    assert (Hl : io_label o = fst k) by (rewrite <- Hk; reflexivity). rewrite <- Hl.
    destruct (ksk_status_spec o ptxt kks 0 st Hst (or_introl eq_refl)) as (I2 & I1 & I0).
    split; [exact I2|]. split.
    - rewrite I1. split; intros [Hex Hall]; (split; [|exact Hall]).
      + destruct Hex as [Hex|Hex]; [discriminate Hex|exact Hex].
      + right; exact Hex.
    - rewrite I0. split; [intros [_ Hn]; exact Hn|intros Hn; split; [reflexivity|exact Hn]].
  Qed.
End InventoryProofs.
