(* Store-level exactness of keygen and delete: which objects appear / disappear. *)
From KV Require Import Base.Prelude Base.Exn Base.Bytes Model.Data Model.Wire Model.Token Model.Sign Model.Keymaster Proofs.TokenProofs Proofs.KeymasterProofs.

Definition pos : Type := (Z * Z * Z)%type.                     (* module index, slot id, handle *)
Definition pos_of (x : Z * Z * Obj) : pos := (fst (fst x), snd (fst x), o_handle (snd x)).
Definition at_pos (p : pos) (x : Z * Z * Obj) : bool :=
  (fst (fst x) =? fst (fst p)) && (snd (fst x) =? snd (fst p)) && (o_handle (snd x) =? snd p).

Lemma at_pos_spec p x : at_pos p x = true <-> pos_of x = p.
Proof.
  destruct p as [[a b] c], x as [[i s] o]. unfold at_pos, pos_of. cbn [fst snd]. rewrite !andb_true_iff, !Z.eqb_eq.
  split; [intros [[-> ->] ->]; reflexivity|intros H; inversion H; auto].
Qed.

(* ---------------- removal ---------------- *)
Definition drop_handle (h : Z) (s : Slot) : Slot := mkSlot (sl_id s) (sl_login_ok s) (filter (fun o => negb (o_handle o =? h)) (sl_objs s)).

Lemma slot_objs_drop i sid h s : sl_id s = sid ->
  slot_objs i (drop_handle h s) = filter (fun x => negb (at_pos (i, sid, h) x)) (slot_objs i s).
Proof.
  intros <-. unfold slot_objs, drop_handle. cbn [sl_id sl_objs]. induction (sl_objs s) as [|o l IH]; [reflexivity|].
  cbn [filter map]. unfold at_pos at 1. cbn [fst snd]. rewrite !Z.eqb_refl. cbn [andb].
  destruct (o_handle o =? h); cbn [negb map]; rewrite IH; reflexivity.
Qed.

Lemma slot_objs_keep i mi sid h s : (i =? mi) && (sl_id s =? sid) = false ->
  filter (fun x => negb (at_pos (mi, sid, h) x)) (slot_objs i s) = slot_objs i s.
Proof.
  intros H. unfold slot_objs. induction (sl_objs s) as [|o l IH]; [reflexivity|]. cbn [map filter].
  unfold at_pos at 1. cbn [fst snd]. rewrite H. cbn [andb negb]. rewrite IH. reflexivity.
Qed.

Lemma filter_flat_map {A B} (f : A -> list B) (p : B -> bool) l : filter p (flat_map f l) = flat_map (fun a => filter p (f a)) l.
Proof. induction l as [|a l IH]; [reflexivity|]. cbn [flat_map]. rewrite filter_app, IH. reflexivity. Qed.

Lemma module_objs_drop i sid h m :
  module_objs i (map (fun s => if sl_id s =? sid then drop_handle h s else s) m) = filter (fun x => negb (at_pos (i, sid, h) x)) (module_objs i m).
Proof.
  unfold module_objs. rewrite filter_flat_map. induction m as [|s m IH]; [reflexivity|]. cbn [map flat_map]. rewrite IH. f_equal.
  destruct (sl_id s =? sid) eqn:E.
  - apply slot_objs_drop. lia.
  - symmetry. apply slot_objs_keep. rewrite E. apply andb_false_r.
Qed.

Lemma module_objs_keep i mi sid h m : i <> mi -> filter (fun x => negb (at_pos (mi, sid, h) x)) (module_objs i m) = module_objs i m.
Proof.
  intros Hne. unfold module_objs. rewrite filter_flat_map. induction m as [|s m IH]; [reflexivity|]. cbn [flat_map]. rewrite IH. f_equal.
  apply slot_objs_keep. destruct (i =? mi) eqn:E; [lia|reflexivity].
Qed.

Lemma all_objs_remove_from ms : forall i mi sid h,
  all_objs_from i (update_from i ms mi sid (drop_handle h)) = filter (fun x => negb (at_pos (mi, sid, h) x)) (all_objs_from i ms).
Proof.
  induction ms as [|m t IH]; intros i mi sid h; [reflexivity|]. cbn [update_from all_objs_from]. rewrite filter_app.
  destruct (i =? mi) eqn:E.
  - assert (i = mi) by lia. subst i. rewrite module_objs_drop. f_equal. apply IH.
  - rewrite module_objs_keep by lia. f_equal. apply IH.
Qed.

Theorem remove_handle_exact st mi sid h :
  all_objs (remove_handle st mi sid h) = filter (fun x => negb (at_pos (mi, sid, h) x)) (all_objs st).
Proof. apply all_objs_remove_from. Qed.

(* deletion: nothing is added, and whatever disappears sits at the position of the public key found first, or of the private key found after that *)
Theorem delete_removes_only_found st label force answer st' r :
  key_delete st label force answer = (st', r) ->
  incl (all_objs st') (all_objs st) /\
  forall x, In x (all_objs st) -> ~ In x (all_objs st') ->
    exists k, (get_p11_key st label true None = OK (Some k) /\ pk_pub k <> None /\ pos_of x = (pk_module k, pk_slot k, pk_handle k)) \/
              (exists st1, incl (all_objs st1) (all_objs st) /\ get_p11_key st1 label false None = OK (Some k) /\ pos_of x = (pk_module k, pk_slot k, pk_handle k)).
Proof.
  unfold key_delete. intros H. destruct (get_p11_key st label true None) as [[k|]|c] eqn:He.
  2,3: injection H as <- <-; split; [apply incl_refl|]; intros x H1 H2; contradiction.
  destruct (negb force && negb (text_eqb (strip_newlines answer) YES)).
  { injection H as <- <-. split; [apply incl_refl|]. intros x H1 H2. contradiction. }
  set (st1 := match pk_pub k with Some _ => remove_handle st (pk_module k) (pk_slot k) (pk_handle k) | None => st end) in *.
  assert (H1 : incl (all_objs st1) (all_objs st)).
  { subst st1. destruct (pk_pub k); [|apply incl_refl]. rewrite remove_handle_exact. intros x Hx. apply filter_In in Hx as [Hx _]. exact Hx. }
  assert (H1' : forall x, In x (all_objs st) -> ~ In x (all_objs st1) -> pk_pub k <> None /\ pos_of x = (pk_module k, pk_slot k, pk_handle k)).
  { subst st1. destruct (pk_pub k) as [pt|]; [|intros x Hx Hn; contradiction]. intros x Hx Hn. split; [discriminate|].
    rewrite remove_handle_exact in Hn. apply at_pos_spec. destruct (at_pos _ x) eqn:E; [reflexivity|]. exfalso. apply Hn. apply filter_In. rewrite E. auto. }
  destruct (get_p11_key st1 label false None) as [[pk|]|c] eqn:Hp.
  - injection H as <- <-. rewrite remove_handle_exact. split.
    + intros x Hx. apply filter_In in Hx as [Hx _]. apply H1. exact Hx.
    + intros x Hx Hn. destruct (at_pos (pk_module pk, pk_slot pk, pk_handle pk) x) eqn:E.
      * exists pk. right. exists st1. split; [exact H1|]. split; [exact Hp|]. apply at_pos_spec. exact E.
      * exists k. left. assert (Hout : ~ In x (all_objs st1)). { intros Hin. apply Hn. apply filter_In. rewrite E. auto. }
        destruct (H1' x Hx Hout) as [Ha Hb]. auto.
  - injection H as <- <-. split; [exact H1|]. intros x Hx Hn. exists k. left. destruct (H1' x Hx Hn) as [Ha Hb]. auto.
  - injection H as <- <-. split; [exact H1|]. intros x Hx Hn. exists k. left. destruct (H1' x Hx Hn) as [Ha Hb]. auto.
Qed.

(* ---------------- generation ---------------- *)
Definition add_objs (new : list Obj) (s : Slot) : Slot := mkSlot (sl_id s) (sl_login_ok s) (sl_objs s ++ new).

Lemma update_from_past ms : forall i mi sid f, mi < i -> update_from i ms mi sid f = ms.
Proof.
  induction ms as [|m t IH]; intros i mi sid f H; [reflexivity|]. cbn [update_from].
  destruct (i =? mi) eqn:E; [lia|]. rewrite IH by lia. reflexivity.
Qed.

Lemma module_objs_add i sid new m x :
  In x (module_objs i (map (fun s => if sl_id s =? sid then add_objs new s else s) m)) <->
  In x (module_objs i m) \/ ((exists s, In s m /\ sl_id s = sid) /\ exists o, In o new /\ x = (i, sid, o)).
Proof.
  unfold module_objs. induction m as [|s m IH]; cbn [map flat_map].
  - split; [intros []|]. intros [[]|[(s & [] & _) _]].
  - rewrite !in_app_iff, IH. clear IH. destruct (sl_id s =? sid) eqn:E.
    + assert (sl_id s = sid) as Hs by lia. unfold slot_objs at 1, add_objs. cbn [sl_id sl_objs]. rewrite map_app, in_app_iff.
      fold (slot_objs i s). split.
      * intros [[H|H]|[H|[(s' & Hs' & Hid) Hn]]].
        -- left; left; exact H.
        -- apply in_map_iff in H as (o & <- & Ho). right. split; [exists s; split; [left; reflexivity|exact Hs]|]. exists o. rewrite Hs. auto.
        -- left; right; exact H.
        -- right. split; [exists s'; split; [right; exact Hs'|exact Hid]|exact Hn].
      * intros [[H|H]|[_ (o & Ho & ->)]].
        -- left; left; exact H.
        -- right; left; exact H.
        -- left; right. apply in_map_iff. exists o. rewrite Hs. auto.
    + split.
      * intros [H|[H|[(s' & Hs' & Hid) Hn]]]; [left; left; exact H|left; right; exact H|].
        right. split; [exists s'; split; [right; exact Hs'|exact Hid]|exact Hn].
      * intros [[H|H]|[(s' & [<-|Hs'] & Hid) Hn]]; [left; exact H|right; left; exact H|lia|].
        right; right. split; [exists s'; auto|exact Hn].
Qed.

Lemma module_objs_add_length i sid new m : NoDup (map sl_id m) -> (exists s, In s m /\ sl_id s = sid) ->
  length (module_objs i (map (fun s => if sl_id s =? sid then add_objs new s else s) m)) = (length (module_objs i m) + length new)%nat.
Proof.
  unfold module_objs. induction m as [|s m IH]; intros Hnd (s0 & Hin & Hid); [destruct Hin|].
  cbn [map flat_map]. rewrite !app_length. inversion Hnd as [|? ? Hnot Hnd']; subst.
  destruct (sl_id s =? sl_id s0) eqn:E.
  - assert (Hsame : map (fun s1 => if sl_id s1 =? sl_id s0 then add_objs new s1 else s1) m = m).
    { clear IH Hin Hnd Hnd'. induction m as [|y m IHm]; [reflexivity|]. cbn [map].
      destruct (sl_id y =? sl_id s0) eqn:Ey.
      - exfalso. apply Hnot. left. lia.
      - rewrite IHm; [reflexivity|]. intros H. apply Hnot. right; exact H. }
    rewrite Hsame. unfold slot_objs at 1, add_objs. cbn [sl_id sl_objs]. rewrite map_length, app_length.
    unfold slot_objs at 2. rewrite map_length. lia.
  - destruct Hin as [<-|Hin]; [lia|]. rewrite IH; [lia|exact Hnd'|exists s0; auto].
Qed.

Lemma min_slot_in ss s : min_slot ss = Some s -> In s ss.
Proof.
  destruct ss as [|a t]; [discriminate|]. cbn [min_slot]. intros H. injection H as <-.
  assert (G : forall l b, In (fold_left (fun best x => if sl_id x <? sl_id best then x else best) l b) (b :: l)).
  { induction l as [|y l IH]; intros b; cbn [fold_left]; [left; reflexivity|].
    destruct (IH (if sl_id y <? sl_id b then y else b)) as [H|H].
    - destruct (sl_id y <? sl_id b); [right; left; exact H|left; exact H].
    - right; right; exact H. }
  apply G.
Qed.

(* a successful generation: the store afterwards holds the store before plus exactly one new public and one new private object,
   both with the requested label and the generated key, in the lowest-numbered logged-in slot of the first module *)
Theorem keygen_exact st label np nr st' :
  keygen st label np nr = OK (st', true) ->
  label_exists st label = OK false /\
  exists s, get_session st = OK (0, s) /\
    let pub := mkObj (next_handle s) CKO_PUBLIC label CKK_RSA (OK (Some np)) nr in
    let prv := mkObj (next_handle s + 1) CKO_PRIVATE label CKK_RSA (OK (Some np)) nr in
    (forall x, In x (all_objs st') <-> In x (all_objs st) \/ x = (0, sl_id s, pub) \/ x = (0, sl_id s, prv)) /\
    (Forall (fun m => NoDup (map sl_id m)) st -> length (all_objs st') = (length (all_objs st) + 2)%nat).
Proof.
  unfold keygen. intros H. apply bind_ok_inv in H as (ex & Hex & H). destruct ex; [injection H as _ E; discriminate E|].
  split; [exact Hex|]. apply bind_ok_inv in H as ([mi s] & Hs & H). injection H as <-.
  assert (mi = 0 /\ exists m0 rest, st = m0 :: rest /\ In s m0) as (-> & m0 & rest & -> & Hin).
  { unfold get_session in Hs. destruct st as [|m0 rest]; [discriminate Hs|].
    destruct (min_slot (sessions m0)) as [s0|] eqn:Em; [|discriminate Hs]. injection Hs as <- <-. split; [reflexivity|].
    exists m0, rest. split; [reflexivity|]. apply min_slot_in in Em. apply sessions_only_logged_in in Em as [Em _]. exact Em. }
  exists s. split; [exact Hs|]. cbv zeta.
  set (pub := mkObj (next_handle s) CKO_PUBLIC label CKK_RSA (OK (Some np)) nr).
  set (prv := mkObj (next_handle s + 1) CKO_PRIVATE label CKK_RSA (OK (Some np)) nr).
  unfold update_slot, all_objs. cbn [update_from all_objs_from Z.eqb]. rewrite update_from_past by lia.
  assert (Hm : map (fun s0 : Slot => if sl_id s0 =? sl_id s then {| sl_id := sl_id s0; sl_login_ok := sl_login_ok s0; sl_objs := sl_objs s0 ++ [pub; prv] |} else s0) m0
               = map (fun s0 => if sl_id s0 =? sl_id s then add_objs [pub; prv] s0 else s0) m0) by reflexivity.
  rewrite Hm. clear Hm.
  split.
  - intros x. rewrite !in_app_iff, module_objs_add. split.
    + intros [[H|[_ (o & [<- | [<- | []]] & ->)]]|H]; auto.
    + intros [[H|H]|[-> | ->]]; auto; left; right; (split; [exists s; auto|]); [exists pub|exists prv]; cbn [In]; auto.
  - intros Hwf. inversion Hwf as [|? ? Hnd _]; subst. rewrite !app_length, module_objs_add_length; [cbn [length]; lia|exact Hnd|exists s; auto].
Qed.

(* ---------------- what deletion removes carries the label ---------------- *)
Lemma found_is_object ms : forall i label public hh k,
  get_p11_key_from i ms label public hh = OK (Some k) ->
  exists x, In x (all_objs_from i ms) /\ pos_of x = (pk_module k, pk_slot k, pk_handle k) /\
            o_label (snd x) = label /\ o_cls (snd x) = (if public then CKO_PUBLIC else CKO_PRIVATE).
Proof.
  induction ms as [|m t IH]; intros i label public hh k H; cbn [get_p11_key_from] in H; [discriminate H|].
  apply bind_ok_inv in H as (r & Hr & H). destruct r as [k0|].
  - injection H as <-. unfold find_key_by_label in Hr. apply lookup_sound in Hr as (pre & s & post & o & pub & Hss & _ & Hm & -> & _).
    assert (Ho : In o (matches label (if public then CKO_PUBLIC else CKO_PRIVATE) s)) by (rewrite Hm; left; reflexivity).
    unfold matches in Ho. apply filter_In in Ho as [Ho Hc]. apply andb_true_iff in Hc as [Hl Hc]. apply text_eqb_spec in Hl.
    assert (Hs : In s m). { assert (In s (sessions m)) as Hs by (rewrite Hss; apply in_or_app; right; left; reflexivity). apply sessions_only_logged_in in Hs as [Hs _]. exact Hs. }
    exists (i, sl_id s, o). split; [|split; [reflexivity|split; [exact Hl|cbn [snd]; lia]]].
    cbn [all_objs_from]. apply in_or_app. left. unfold module_objs. apply in_flat_map. exists s. split; [exact Hs|].
    unfold slot_objs. apply in_map. exact Ho.
  - destruct (IH (i + 1) label public hh k H) as (x & Hx & Hrest). exists x. split; [|exact Hrest].
    cbn [all_objs_from]. apply in_or_app. right; exact Hx.
Qed.

Lemma nodup_map_inj {A B} (f : A -> B) l x y : NoDup (map f l) -> In x l -> In y l -> f x = f y -> x = y.
Proof.
  induction l as [|a l IH]; intros Hn Hx Hy E; [destruct Hx|]. cbn [map] in Hn. inversion Hn as [|? ? Hnot Hn']; subst.
  destruct Hx as [<-|Hx], Hy as [<-|Hy]; auto.
  - exfalso. apply Hnot. rewrite E. apply in_map. exact Hy.
  - exfalso. apply Hnot. rewrite <- E. apply in_map. exact Hx.
Qed.

(* on a token whose objects have distinct positions (module, slot, handle): deletion removes only objects that carry the label,
   and of these only a public and a private one; every other object stays *)
Theorem delete_removes_only_labelled st label force answer st' r :
  NoDup (map pos_of (all_objs st)) -> key_delete st label force answer = (st', r) ->
  incl (all_objs st') (all_objs st) /\
  forall x, In x (all_objs st) -> ~ In x (all_objs st') ->
    o_label (snd x) = label /\ (o_cls (snd x) = CKO_PUBLIC \/ o_cls (snd x) = CKO_PRIVATE).
Proof.
  intros Hnd H. destruct (delete_removes_only_found _ _ _ _ _ _ H) as [Hincl Hrem]. split; [exact Hincl|].
  intros x Hx Hn. destruct (Hrem x Hx Hn) as (k & [(Hk & _ & Hp)|(st1 & Hi & Hk & Hp)]).
  - destruct (found_is_object st 0 label true None k Hk) as (y & Hy & Hpy & Hl & Hc).
    assert (x = y) as -> by (eapply nodup_map_inj; [exact Hnd|exact Hx|exact Hy|congruence]). split; [exact Hl|left; exact Hc].
  - destruct (found_is_object st1 0 label false None k Hk) as (y & Hy & Hpy & Hl & Hc).
    assert (x = y) as -> by (eapply nodup_map_inj; [exact Hnd|exact Hx|apply Hi; exact Hy|congruence]). split; [exact Hl|right; exact Hc].
Qed.

(* a confirmed deletion of a complete pair removes the public object that was found *)
Theorem delete_confirmed_removes_public st label force answer st' r k x :
  key_delete st label force answer = (st', r) -> (force = true \/ strip_newlines answer = YES) ->
  get_p11_key st label true None = OK (Some k) -> pk_pub k <> None ->
  pos_of x = (pk_module k, pk_slot k, pk_handle k) -> ~ In x (all_objs st').
Proof.
  unfold key_delete. intros H Hc Hk Hpub Hpos. rewrite Hk in H.
  assert (negb force && negb (text_eqb (strip_newlines answer) YES) = false) as E.
  { destruct Hc as [-> | ->]; [reflexivity|]. rewrite text_eqb_refl. apply andb_false_r. }
  rewrite E in H. destruct (pk_pub k) as [pt|]; [|contradiction].
  assert (Hgone : forall st2, incl (all_objs st2) (all_objs (remove_handle st (pk_module k) (pk_slot k) (pk_handle k))) -> ~ In x (all_objs st2)).
  { intros st2 Hi Hin. apply Hi in Hin. rewrite remove_handle_exact in Hin. apply filter_In in Hin as [_ Hf].
    apply at_pos_spec in Hpos. rewrite Hpos in Hf. discriminate Hf. }
  destruct (get_p11_key (remove_handle st (pk_module k) (pk_slot k) (pk_handle k)) label false None) as [[pk|]|c]; injection H as <- _; apply Hgone; try apply incl_refl.
  rewrite (remove_handle_exact (remove_handle st _ _ _)). intros y Hy. apply filter_In in Hy as [Hy _]. exact Hy.
Qed.

(* a confirmed deletion that reports success has removed the private object it found as well: both halves of the pair are gone *)
Theorem delete_success_removes_both st label force answer st' :
  key_delete st label force answer = (st', OK true) -> (force = true \/ strip_newlines answer = YES) ->
  exists k st1 pk, get_p11_key st label true None = OK (Some k) /\
    st1 = (match pk_pub k with Some _ => remove_handle st (pk_module k) (pk_slot k) (pk_handle k) | None => st end) /\
    get_p11_key st1 label false None = OK (Some pk) /\
    all_objs st' = filter (fun x => negb (at_pos (pk_module pk, pk_slot pk, pk_handle pk) x)) (all_objs st1).
Proof.
  unfold key_delete. intros H Hc. destruct (get_p11_key st label true None) as [[k|]|c]; [|discriminate H|discriminate H].
  assert (negb force && negb (text_eqb (strip_newlines answer) YES) = false) as E.
  { destruct Hc as [-> | ->]; [reflexivity|]. rewrite text_eqb_refl. apply andb_false_r. }
  rewrite E in H.
  set (st1 := match pk_pub k with Some _ => remove_handle st (pk_module k) (pk_slot k) (pk_handle k) | None => st end) in *.
  destruct (get_p11_key st1 label false None) as [[pk|]|c] eqn:Hp; [|discriminate H|discriminate H].
  injection H as <-. exists k, st1, pk. repeat split; auto. apply remove_handle_exact.
Qed.
