From KV Require Import Base.Prelude Base.Exn Base.Bytes Model.Data Model.KsrPolicy Spec.KsrRules.

Lemma seq_guard_ok c b (k : res unit) : (guard c b >>> k) = OK tt <-> b = false /\ k = OK tt.
Proof. rewrite bind_ok_iff, guard_ok_iff. reflexivity. Qed.

Lemma flagged_iff (flag : bool) (body : res unit) (P : Prop) :
  (body = OK tt <-> P) ->
  ((if negb flag then OK tt else body) = OK tt <-> (flag = true -> P)).
Proof. intros H. destruct flag; cbn; [rewrite H; tauto|]. split; [discriminate|reflexivity]. Qed.

Lemma for_each_Forall {A} (f : A -> res unit) (P : A -> Prop) l :
  (forall x, f x = OK tt <-> P x) -> (for_each f l = OK tt <-> Forall P l).
Proof.
  intros H. rewrite for_each_ok_iff, Forall_forall.
  split; intros G x Hx; apply H, G, Hx.
Qed.

Lemma count_iff p r : check_bundle_count p r = OK tt <-> Z.of_nat (length (rq_bundles r)) = p_num_bundles p.
Proof. unfold check_bundle_count, nbundles. rewrite guard_ok_iff. lia. Qed.

Lemma cycle_iff p r : check_cycle_durations p r = OK tt <-> (p_check_cycle_length p = true -> cycle_ok p (rq_bundles r)).
Proof.
  unfold check_cycle_durations. apply flagged_iff. unfold cycle_ok.
  destruct (rq_bundles r) as [|f t]; [tauto|].
  rewrite seq_guard_ok, guard_ok_iff. lia.
Qed.

Lemma overlap_step_iff zsk pr : overlap_step zsk pr = OK tt <-> overlap_ok zsk pr.
Proof.
  destruct pr as [a b]. unfold overlap_step, overlap_ok. cbn [fst snd].
  rewrite !seq_guard_ok, guard_ok_iff. lia.
Qed.
Lemma overlaps_iff p r : check_bundle_overlaps p r = OK tt <->
  (p_check_bundle_overlap p = true -> Forall (overlap_ok (rq_zsk r)) (adjacent (rq_bundles r))).
Proof. unfold check_bundle_overlaps. apply flagged_iff, for_each_Forall, overlap_step_iff. Qed.

Lemma validity_step_iff zsk b : validity_step zsk b = OK tt <-> validity_ok zsk b.
Proof. unfold validity_step, validity_ok. rewrite seq_guard_ok, guard_ok_iff. lia. Qed.
Lemma validity_iff p r : check_signature_validity p r = OK tt <->
  (p_sig_validity_match p = true -> Forall (validity_ok (rq_zsk r)) (rq_bundles r)).
Proof. unfold check_signature_validity. apply flagged_iff, for_each_Forall, validity_step_iff. Qed.

Lemma horizon_step_iff now p b : horizon_step now p b = OK tt <-> horizon_ok now p b.
Proof.
  unfold horizon_step, horizon_ok. cbv zeta. set (d := (b_exp b - now) / day_us).
  rewrite seq_guard_ok, guard_ok_iff. lia.
Qed.
Lemma horizon_iff now p r : check_signature_horizon now p r = OK tt <->
  (p_check_horizon p = true -> Forall (horizon_ok now p) (rq_bundles r)).
Proof. unfold check_signature_horizon. apply flagged_iff, for_each_Forall, horizon_step_iff. Qed.

Lemma interval_step_iff p pr : interval_step p pr = OK tt <-> interval_ok p pr.
Proof.
  destruct pr as [a b]. unfold interval_step, interval_ok. cbn [fst snd].
  rewrite seq_guard_ok, guard_ok_iff. lia.
Qed.
Lemma intervals_iff p r : check_bundle_intervals p r = OK tt <->
  (p_check_bundle_intervals p = true -> Forall (interval_ok p) (adjacent (rq_bundles r))).
Proof. unfold check_bundle_intervals. apply flagged_iff, for_each_Forall, interval_step_iff. Qed.

(* C05 main theorem: the timing rules accept exactly the documented region, for every
   number of bundles, every policy (min<max, min=max, min>max) and every flag subset. *)
Theorem timing_iff now p r : timing_checks now p r = OK tt <-> timing_spec now p r.
Proof.
  unfold timing_checks, timing_spec.
  rewrite !bind_ok_iff, count_iff, cycle_iff, overlaps_iff, validity_iff, horizon_iff, intervals_iff.
  tauto.
Qed.

(* A switched-off check never rejects ... *)
Theorem flag_off_never_rejects now p r :
  (p_check_cycle_length p = false -> check_cycle_durations p r = OK tt) /\
  (p_check_bundle_overlap p = false -> check_bundle_overlaps p r = OK tt) /\
  (p_sig_validity_match p = false -> check_signature_validity p r = OK tt) /\
  (p_check_horizon p = false -> check_signature_horizon now p r = OK tt) /\
  (p_check_bundle_intervals p = false -> check_bundle_intervals p r = OK tt).
Proof.
  unfold check_cycle_durations, check_bundle_overlaps, check_signature_validity,
    check_signature_horizon, check_bundle_intervals.
  repeat split; intros ->; reflexivity.
Qed.

(* ... and never masks a different enabled check: whatever the other flags are, a request
   violating an enabled rule is rejected. *)
Theorem enabled_rule_not_masked now p r :
  timing_checks now p r = OK tt ->
  (p_check_cycle_length p = true -> cycle_ok p (rq_bundles r)) /\
  (p_check_bundle_overlap p = true -> Forall (overlap_ok (rq_zsk r)) (adjacent (rq_bundles r))) /\
  (p_sig_validity_match p = true -> Forall (validity_ok (rq_zsk r)) (rq_bundles r)) /\
  (p_check_horizon p = true -> Forall (horizon_ok now p) (rq_bundles r)) /\
  (p_check_bundle_intervals p = true -> Forall (interval_ok p) (adjacent (rq_bundles r))).
Proof. intros H. apply timing_iff in H. unfold timing_spec in H. tauto. Qed.

(* the class raised is that of the first violated rule in the documented order *)
Theorem first_violation_class now p r c :
  timing_checks now p r = Raise c ->
  c = KSR_BUNDLE_COUNT_Violation \/ c = KSR_BUNDLE_CYCLE_DURATION_Violation \/
  c = KSR_POLICY_SIG_OVERLAP_Violation \/ c = KSR_POLICY_SIG_VALIDITY_Violation \/
  c = KSR_POLICY_SIG_HORIZON_Violation \/ c = KSR_PolicyViolation \/
  c = KSR_POLICY_BUNDLE_INTERVAL_Violation.
Proof.
  assert (G : forall cls b c', guard cls b = Raise c' -> c' = cls).
  { intros cls b c'. unfold guard. destruct b; congruence. }
  assert (FE : forall A (f : A -> res unit) l c' (P : Z -> Prop),
             (forall x c'', f x = Raise c'' -> P c'') -> for_each f l = Raise c' -> P c').
  { intros A f l c' P Hf. induction l as [|x t IH]; cbn [for_each]; [discriminate|].
    unfold seq, bind. destruct (f x) as [[]|c''] eqn:E; [exact IH|]. intros [= <-]. eapply Hf, E. }
  unfold timing_checks, seq at 1, bind.
  destruct (check_bundle_count p r) as [[]|c1] eqn:E1.
  2:{ intros [= <-]. apply G in E1. auto. }
  unfold seq at 1, bind. destruct (check_cycle_durations p r) as [[]|c2] eqn:E2.
  2:{ intros [= <-]. right; left. unfold check_cycle_durations in E2.
      destruct (negb _); [discriminate|]. destruct (rq_bundles r); [discriminate|].
      unfold seq, bind in E2. destruct (guard _ (_ <? p_min_cycle p)) as [[]|] eqn:Ea.
      - apply G in E2; exact E2. - injection E2 as <-. apply G in Ea; exact Ea. }
  unfold seq at 1, bind. destruct (check_bundle_overlaps p r) as [[]|c3] eqn:E3.
  2:{ intros [= <-]. right; right; left. unfold check_bundle_overlaps in E3.
      destruct (negb _); [discriminate|]. revert E3.
      apply (FE _ _ _ _ (fun c => c = KSR_POLICY_SIG_OVERLAP_Violation)). intros [a b] c''.
      unfold overlap_step, seq, bind.
      destruct (guard _ (b_exp a <? b_inc b)) as [[]|] eqn:Ea.
      + destruct (guard _ (_ <? sp_min_overlap _)) as [[]|] eqn:Eb.
        * intros H; apply G in H; exact H.
        * intros [= <-]. apply G in Eb; exact Eb.
      + intros [= <-]. apply G in Ea; exact Ea. }
  unfold seq at 1, bind. destruct (check_signature_validity p r) as [[]|c4] eqn:E4.
  2:{ intros [= <-]. right; right; right; left. unfold check_signature_validity in E4.
      destruct (negb _); [discriminate|]. revert E4.
      apply (FE _ _ _ _ (fun c => c = KSR_POLICY_SIG_VALIDITY_Violation)). intros b c''.
      unfold validity_step, seq, bind.
      destruct (guard _ (_ <? sp_min_validity _)) as [[]|] eqn:Ea.
      + intros H; apply G in H; exact H.
      + intros [= <-]. apply G in Ea; exact Ea. }
  unfold seq at 1, bind. destruct (check_signature_horizon now p r) as [[]|c5] eqn:E5.
  2:{ intros [= <-]. unfold check_signature_horizon in E5.
      destruct (negb _); [discriminate|]. revert E5.
      apply (FE _ _ _ _ (fun c => c = KSR_BUNDLE_COUNT_Violation \/ c = KSR_BUNDLE_CYCLE_DURATION_Violation \/
        c = KSR_POLICY_SIG_OVERLAP_Violation \/ c = KSR_POLICY_SIG_VALIDITY_Violation \/
        c = KSR_POLICY_SIG_HORIZON_Violation \/ c = KSR_PolicyViolation \/ c = KSR_POLICY_BUNDLE_INTERVAL_Violation)).
      intros b c''. unfold horizon_step, seq, bind. cbv zeta.
      destruct (guard KSR_POLICY_SIG_HORIZON_Violation _) as [[]|] eqn:Ea.
      + intros H; apply G in H; subst; tauto.
      + intros [= <-]. apply G in Ea; subst; tauto. }
  intros E6. do 6 right. unfold check_bundle_intervals in E6.
  destruct (negb _); [discriminate|]. revert E6.
  apply (FE _ _ _ _ (fun c => c = KSR_POLICY_BUNDLE_INTERVAL_Violation)). intros [a b] c''.
  unfold interval_step, seq, bind.
  destruct (guard _ (_ <? p_min_interval _)) as [[]|] eqn:Ea.
  + intros H; apply G in H; exact H.
  + intros [= <-]. apply G in Ea; exact Ea.
Qed.
