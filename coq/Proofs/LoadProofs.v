(* C12: order independence of the chronological bundle sort; repeated-element collection is
   independent of the repetition count (one occurrence = bare value, several = list). *)
From KV Require Import Base.Prelude Base.Exn Base.Bytes Model.Data Model.KsrPolicy Model.Xml.
From Coq Require Import Sorting.Permutation Sorting.Sorted.

(* ---------- sort key order ---------- *)
Lemma text_lt_irrefl a : text_lt a a = false.
Proof. induction a as [|x a IH]; cbn; [reflexivity|]. rewrite Z.ltb_irrefl. exact IH. Qed.
Lemma text_lt_trans a : forall b c, text_lt a b = true -> text_lt b c = true -> text_lt a c = true.
Proof.
  induction a as [|x a IH]; intros [|y b] [|z c]; cbn; try discriminate; auto.
  destruct (x <? y) eqn:E1, (y <? x) eqn:E2, (y <? z) eqn:E3, (z <? y) eqn:E4, (x <? z) eqn:E5, (z <? x) eqn:E6;
    try lia; try discriminate; auto. apply IH.
Qed.
Lemma text_lt_total a : forall b, text_lt a b = true \/ text_lt b a = true \/ a = b.
Proof.
  induction a as [|x a IH]; intros [|y b]; cbn; auto.
  destruct (x <? y) eqn:E1, (y <? x) eqn:E2; auto; try lia.
  assert (x = y) by lia. subst. destruct (IH b) as [H|[H| ->]]; auto.
Qed.

Definition bkey (b : Bundle) : Z * Z * text := (b_exp b, b_inc b, b_id b).
Definition ble (a b : Bundle) : Prop := bundle_key_lt b a = false.     (* a <= b in sort-key order *)

Lemma blt_irrefl a : bundle_key_lt a a = false.
Proof. unfold bundle_key_lt. rewrite !Z.ltb_irrefl. apply text_lt_irrefl. Qed.
Lemma blt_trans a b c : bundle_key_lt a b = true -> bundle_key_lt b c = true -> bundle_key_lt a c = true.
Proof.
  unfold bundle_key_lt.
  destruct (b_exp a <? b_exp b) eqn:E1, (b_exp b <? b_exp a) eqn:E2, (b_exp b <? b_exp c) eqn:E3, (b_exp c <? b_exp b) eqn:E4,
    (b_exp a <? b_exp c) eqn:E5, (b_exp c <? b_exp a) eqn:E6; try lia; try discriminate; auto.
  destruct (b_inc a <? b_inc b) eqn:F1, (b_inc b <? b_inc a) eqn:F2, (b_inc b <? b_inc c) eqn:F3, (b_inc c <? b_inc b) eqn:F4,
    (b_inc a <? b_inc c) eqn:F5, (b_inc c <? b_inc a) eqn:F6; try lia; try discriminate; auto.
  apply text_lt_trans.
Qed.
Lemma blt_total a b : bundle_key_lt a b = true \/ bundle_key_lt b a = true \/ bkey a = bkey b.
Proof.
  unfold bundle_key_lt, bkey.
  destruct (b_exp a <? b_exp b) eqn:E1, (b_exp b <? b_exp a) eqn:E2; auto; try lia.
  destruct (b_inc a <? b_inc b) eqn:F1, (b_inc b <? b_inc a) eqn:F2; auto; try lia.
  destruct (text_lt_total (b_id a) (b_id b)) as [H|[H|H]]; auto.
  right; right. f_equal; [f_equal; lia|exact H].
Qed.
Lemma ble_trans a b c : ble a b -> ble b c -> ble a c.
Proof.
  unfold ble. intros H1 H2. destruct (bundle_key_lt c a) eqn:E; [|reflexivity].
  destruct (blt_total b c) as [H|[H|H]].
  - pose proof (blt_trans _ _ _ H E). congruence.
  - congruence.
  - unfold bkey in H. injection H as Ha Hb Hc. unfold bundle_key_lt in *. rewrite Ha, Hb, Hc in *. congruence.
Qed.

Lemma insert_bundle_perm x l : Permutation (x :: l) (insert_bundle x l).
Proof.
  induction l as [|y t IH]; cbn; auto. destruct (negb (bundle_key_lt y x)); auto.
  eapply perm_trans; [apply perm_swap|]. apply perm_skip; exact IH.
Qed.
Lemma sort_bundles_perm l : Permutation l (sort_bundles l).
Proof.
  induction l as [|x l IH]; cbn; auto.
  eapply perm_trans; [apply perm_skip; exact IH|apply insert_bundle_perm].
Qed.
Lemma insert_bundle_sorted x l : StronglySorted ble l -> StronglySorted ble (insert_bundle x l).
Proof.
  induction l as [|y t IH]; cbn; intros H.
  - constructor; constructor.
  - inversion H as [|? ? Hs Hf]; subst. destruct (bundle_key_lt y x) eqn:E; cbn [negb].
    + constructor; [apply IH; exact Hs|].
      eapply Permutation_Forall; [apply insert_bundle_perm|]. constructor; [|exact Hf].
      unfold ble. destruct (bundle_key_lt x y) eqn:E2; [|reflexivity].
      pose proof (blt_trans _ _ _ E E2) as C. rewrite blt_irrefl in C. discriminate.
    + constructor; [exact H|]. constructor; [exact E|].
      eapply Forall_impl; [|exact Hf]. intros z Hz. eapply ble_trans; [exact E|exact Hz].
Qed.
Lemma sort_bundles_sorted l : StronglySorted ble (sort_bundles l).
Proof. induction l; cbn; [constructor|apply insert_bundle_sorted; assumption]. Qed.

(* sort keys pairwise distinct *)
Definition distinct_keys (l : list Bundle) : Prop :=
  forall a b, In a l -> In b l -> bkey a = bkey b -> a = b.

Lemma sorted_perm_unique l1 : forall l2,
  distinct_keys l1 -> StronglySorted ble l1 -> StronglySorted ble l2 -> Permutation l1 l2 -> l1 = l2.
Proof.
  induction l1 as [|x l1 IH]; intros l2 Hd H1 H2 P.
  - apply Permutation_nil in P; auto.
  - destruct l2 as [|y l2]; [apply Permutation_sym, Permutation_nil in P; discriminate|].
    inversion H1 as [|? ? S1 F1]; inversion H2 as [|? ? S2 F2]; subst.
    assert (x = y).
    { assert (Ix : In x (y :: l2)) by (eapply Permutation_in; [exact P|left; reflexivity]).
      assert (Iy : In y (x :: l1)) by (eapply Permutation_in; [apply Permutation_sym; exact P|left; reflexivity]).
      destruct Ix as [->|Ix]; auto. destruct Iy as [->|Iy]; auto.
      rewrite Forall_forall in F1, F2. pose proof (F1 y Iy) as A. pose proof (F2 x Ix) as B. unfold ble in A, B.
      destruct (blt_total x y) as [H|[H|H]]; try congruence.
      apply Hd; [left; reflexivity|right; exact Iy|exact H]. }
    subst. f_equal. apply IH; auto.
    + intros a b Ha Hb. apply Hd; right; assumption.
    + eapply Permutation_cons_inv; exact P.
Qed.

(* C12: the chronological order of request bundles does not depend on the document order *)
Theorem sort_bundles_order_independent l l' :
  distinct_keys l -> Permutation l l' -> sort_bundles l = sort_bundles l'.
Proof.
  intros Hd P. apply sorted_perm_unique; try apply sort_bundles_sorted.
  - intros a b Ha Hb. apply Hd; eapply Permutation_in; try apply Permutation_sym, sort_bundles_perm; assumption.
  - eapply perm_trans; [apply Permutation_sym, sort_bundles_perm|].
    eapply perm_trans; [exact P|apply sort_bundles_perm].
Qed.

(* ---------- repeated elements: _store_element ---------- *)
Definition as_list (v : val) : list val := match v with VList l => l | x => [x] end.
Fixpoint lookup (name : text) (d : list (text * val)) : option val :=
  match d with [] => None | (k, v) :: t => if text_eqb k name then Some v else lookup name t end.
Definition not_list (v : val) : Prop := is_list v = false.

Lemma store_lookup_other name other v d : text_eqb other name = false -> lookup other (store name v d) = lookup other d.
Proof.
  intros Hne. induction d as [|[k old] t IH]; cbn.
  - assert (text_eqb name other = false) as ->; [|reflexivity].
    destruct (text_eqb name other) eqn:E; [|reflexivity]. apply text_eqb_spec in E. subst. rewrite text_eqb_refl in Hne. discriminate.
  - destruct (text_eqb k name) eqn:E; cbn.
    + apply text_eqb_spec in E. subst k. assert (text_eqb name other = false) as ->; [|reflexivity].
      destruct (text_eqb name other) eqn:E2; [|reflexivity]. apply text_eqb_spec in E2. subst. rewrite text_eqb_refl in Hne. discriminate.
    + destruct (text_eqb k other); [reflexivity|exact IH].
Qed.

Lemma store_as_list name v d : not_list v ->
  lookup name (store name v d) = Some (match lookup name d with
                                       | None => v
                                       | Some old => VList (as_list old ++ [v])
                                       end).
Proof.
  intros Hv. induction d as [|[k old] t IH]; cbn.
  - rewrite text_eqb_refl. reflexivity.
  - destruct (text_eqb k name) eqn:E; cbn; rewrite E.
    + destruct old; reflexivity.
    + exact IH.
Qed.

(* C12 repeat_count_irrelevant: storing the occurrences v1..vn (n >= 1) of an element under one name and
   reading them back through the single-or-list wrapper gives exactly [v1..vn] - also for n = 1. *)
Theorem repeat_count_irrelevant name (vs : list val) d :
  Forall not_list vs -> vs <> [] -> lookup name d = None ->
  option_map as_list (lookup name (fold_left (fun acc v => store name v acc) vs d)) = Some vs.
Proof.
  intros Hnl Hne Hnone.
  assert (G : forall vs d pre, Forall not_list vs -> Forall not_list pre -> pre <> [] ->
            option_map as_list (lookup name d) = Some pre ->
            option_map as_list (lookup name (fold_left (fun acc v => store name v acc) vs d)) = Some (pre ++ vs)).
  { clear. induction vs as [|v vs IH]; intros d pre Hvs Hpre Hne Hd; cbn [fold_left].
    - rewrite app_nil_r. exact Hd.
    - inversion Hvs; subst. replace (pre ++ v :: vs) with ((pre ++ [v]) ++ vs) by (rewrite <- app_assoc; reflexivity).
      apply IH; auto.
      + apply Forall_app; split; auto.
      + destruct pre; discriminate.
      + rewrite store_as_list by assumption.
        destruct (lookup name d) as [old|]; cbn in Hd; [|discriminate]. injection Hd as Hd. cbn. rewrite Hd. reflexivity. }
  destruct vs as [|v vs]; [congruence|]. cbn [fold_left]. inversion Hnl; subst.
  change (v :: vs) with ([v] ++ vs). apply G; auto; [discriminate|].
  rewrite store_as_list by assumption. rewrite Hnone. cbn.
  unfold not_list in *. destruct v; cbn in *; try reflexivity; discriminate.
Qed.
