From KV Require Import Base.Prelude Base.Exn Base.Bytes Model.Data Model.Keymaster Model.Pipeline.

Definition okb (r : res unit) : bool := match r with OK _ => true | Raise _ => false end.
Definition confirmed (e : Env) : bool := e_force e || text_eqb (strip_newlines (e_answer e)) YES.

(* ---- generic facts about exec ---- *)
Definition passes (s : step) : bool := negb (st_enabled s) || match st_out s with None => true | Some _ => false end.
Definition no_true (s : step) : Prop := st_out s <> Some RTrue.

Lemma exec_true l : Forall no_true l -> (snd (exec l) = RTrue <-> forallb passes l = true).
Proof.
  induction l as [|s t IH]; intros Hn; cbn [exec forallb]; [split; reflexivity|]. inversion Hn as [|? ? Hs Ht]; subst.
  unfold passes at 1. destruct (st_enabled s); cbn [negb orb].
  - destruct (st_out s) as [r|] eqn:Eo; cbn [andb].
    + cbn [snd]. split; [intros ->; exfalso; apply Hs; exact Eo|discriminate].
    + destruct (exec t) as [tr r] eqn:Et. cbn [snd] in *. apply IH. exact Ht.
  - apply IH. exact Ht.
Qed.

(* a stage function is called exactly when its step is enabled and traced and every step before it passed *)
Fixpoint reached (l : list step) (p : step -> bool) : bool :=
  match l with
  | [] => false
  | s :: t => (st_enabled s && st_traced s && p s) || (passes s && reached t p)
  end.

Lemma exec_trace l x : In x (fst (exec l)) -> exists s, In s l /\ st_stage s = x /\ st_enabled s = true /\ st_traced s = true.
Proof.
  induction l as [|s t IH]; cbn [exec]; [intros []|]. destruct (st_enabled s) eqn:En.
  - destruct (st_out s) as [r|].
    + cbn [fst]. destruct (st_traced s) eqn:Tr; [|intros []]. intros [<-|[]]. exists s. repeat split; auto. left; reflexivity.
    + destruct (exec t) as [tr r] eqn:Et. cbn [fst] in *. destruct (st_traced s) eqn:Tr.
      * intros [<-|H]; [exists s; repeat split; auto; left; reflexivity|]. destruct (IH H) as (s' & Hs' & R). exists s'. split; [right; exact Hs'|exact R].
      * intros H. destruct (IH H) as (s' & Hs' & R). exists s'. split; [right; exact Hs'|exact R].
  - intros H. destruct (IH H) as (s' & Hs' & R). exists s'. split; [right; exact Hs'|exact R].
Qed.

Definition is_stage (x : stage) (s : step) : bool :=
  match x, st_stage s with
  | SConfig, SConfig | SSchema, SSchema | SLoadPrev, SLoadPrev | SKsrName, SKsrName | SLoadKsr, SLoadKsr | SInit, SInit | SChain, SChain
  | SPrompt, SPrompt | SSign, SSign | SSafety, SSafety | SWrite, SWrite => true
  | _, _ => false
  end.
Lemma is_stage_spec x s : is_stage x s = true <-> st_stage s = x.
Proof. unfold is_stage. destruct x, (st_stage s); split; intros H; try reflexivity; try discriminate H. Qed.

Lemma exec_reached l x : In x (fst (exec l)) <-> reached l (is_stage x) = true.
Proof.
  induction l as [|s t IH]; cbn [exec reached]; [split; [intros []|discriminate]|]. unfold passes.
  destruct (st_enabled s) eqn:En; cbn [negb orb andb].
  - destruct (st_out s) as [r|].
    + cbn [fst andb]. rewrite orb_false_r. destruct (st_traced s); cbn [andb].
      * cbn [In]. rewrite is_stage_spec. split; [intros [H|[]]; exact H|intros H; left; exact H].
      * split; [intros []|discriminate].
    + destruct (exec t) as [tr r] eqn:Et. cbn [fst] in *. destruct (st_traced s); cbn [andb].
      * cbn [In]. rewrite orb_true_iff, is_stage_spec, <- IH. tauto.
      * exact IH.
  - exact IH.
Qed.

(* ---- the ksrsigner pipeline ---- *)
Lemma steps_no_true e : Forall no_true (steps e).
Proof.
  unfold steps, no_true. repeat constructor; cbn [st_out].
  - destruct (e_config e) as [[[]|c]|]; try discriminate. destruct (c =? FileNotFoundError); [discriminate|]. destruct (c =? ValidationError); discriminate.
  - destruct (e_schema e) as [[]|c]; [discriminate|]. destruct (c =? KeyError); discriminate.
  - destruct (e_prev e); discriminate.
  - destruct (e_ksr_named e); discriminate.
  - destruct (e_ksr e); discriminate.
  - destruct (e_init e); discriminate.
  - destruct (e_chain e); discriminate.
  - destruct (text_eqb _ _); discriminate.
  - destruct (e_sign e); discriminate.
  - destruct (e_safety e); discriminate.
  - destruct (e_write e); discriminate.
Qed.

(* every condition the property names *)
Definition pre_sign (e : Env) : bool :=
  match e_config e with Some (Raise _) => false | _ => true end && okb (e_schema e) &&
  (if e_prev_named e then okb (e_prev e) else true) && e_ksr_named e && okb (e_ksr e) && okb (e_init e) &&
  (if e_prev_named e then okb (e_chain e) else true) && confirmed e.
Definition all_good (e : Env) : bool :=
  pre_sign e && okb (e_sign e) && (if e_prev_named e then okb (e_safety e) else true).

Lemma propagate_none r : match propagate r with None => true | Some _ => false end = okb r.
Proof. destruct r; reflexivity. Qed.

Ltac unfold_steps :=
  unfold run, steps; cbn [exec reached forallb passes st_stage st_enabled st_traced st_out is_stage negb orb andb];
  rewrite ?propagate_none.

Theorem sign_only_after_confirmation e : In SSign (fst (run e)) <-> pre_sign e = true.
Proof.
  unfold run. rewrite exec_reached. unfold steps, pre_sign, confirmed. cbn [reached]. unfold passes, is_stage. cbn [st_stage st_enabled st_traced st_out negb orb andb].
  rewrite !propagate_none.
  destruct (e_config e) as [[[]|c0]|]; cbn [negb orb andb]; [| |]; [|split; discriminate|];
  (destruct (e_schema e) as [[]|c1]; cbn [okb negb orb andb]; [|split; discriminate]);
  (destruct (e_prev_named e); cbn [negb orb andb];
   [destruct (okb (e_prev e)); cbn [negb orb andb]; [|split; discriminate]|]);
  (destruct (e_ksr_named e); cbn [negb orb andb]; [|split; discriminate]);
  (destruct (okb (e_ksr e)); cbn [negb orb andb]; [|split; discriminate]);
  (destruct (e_init e) as [[]|c4]; cbn [okb negb orb andb]; [|split; discriminate]);
  try (destruct (okb (e_chain e)); cbn [negb orb andb]; [|split; discriminate]);
  (destruct (e_force e); cbn [negb orb andb]; [tauto|]);
  (destruct (text_eqb (strip_newlines (e_answer e)) YES); cbn [negb orb andb]; [tauto|split; discriminate]).
Qed.

Theorem write_only_after_everything e : In SWrite (fst (run e)) <-> all_good e = true.
Proof.
  unfold run. rewrite exec_reached. unfold steps, all_good, pre_sign, confirmed. cbn [reached]. unfold passes, is_stage. cbn [st_stage st_enabled st_traced st_out negb orb andb].
  rewrite !propagate_none.
  destruct (e_config e) as [[[]|c0]|]; cbn [negb orb andb]; [| |]; [|split; discriminate|];
  (destruct (e_schema e) as [[]|c1]; cbn [okb negb orb andb]; [|split; discriminate]);
  (destruct (e_prev_named e); cbn [negb orb andb];
   [destruct (okb (e_prev e)); cbn [negb orb andb]; [|split; discriminate]|]);
  (destruct (e_ksr_named e); cbn [negb orb andb]; [|split; discriminate]);
  (destruct (okb (e_ksr e)); cbn [negb orb andb]; [|split; discriminate]);
  (destruct (e_init e) as [[]|c4]; cbn [okb negb orb andb]; [|split; discriminate]);
  try (destruct (okb (e_chain e)); cbn [negb orb andb]; [|split; discriminate]);
  (destruct (e_force e); cbn [negb orb andb];
   [|destruct (text_eqb (strip_newlines (e_answer e)) YES); cbn [negb orb andb]; [|split; discriminate]]);
  (destruct (e_sign e) as [[]|c6]; cbn [okb negb orb andb]; [|split; discriminate]);
  try (destruct (okb (e_safety e)); cbn [negb orb andb]; [|split; discriminate]);
  tauto.
Qed.

Theorem true_iff_written e : snd (run e) = RTrue <-> all_good e = true /\ okb (e_write e) = true.
Proof.
  unfold run. rewrite (exec_true _ (steps_no_true e)). unfold steps, all_good, pre_sign, confirmed. cbn [forallb]. unfold passes. cbn [st_stage st_enabled st_traced st_out negb orb andb].
  rewrite !propagate_none.
  destruct (e_config e) as [[[]|c0]|]; cbn [negb orb andb]; [| |]; [|split; [discriminate|intros [H _]; discriminate H]|];
  (destruct (e_schema e) as [[]|c1]; cbn [okb negb orb andb]; [|split; [discriminate|intros [H _]; discriminate H]]);
  (destruct (e_prev_named e); cbn [negb orb andb];
   [destruct (okb (e_prev e)); cbn [negb orb andb]; [|split; [discriminate|intros [H _]; discriminate H]]|]);
  (destruct (e_ksr_named e); cbn [negb orb andb]; [|split; [discriminate|intros [H _]; discriminate H]]);
  (destruct (okb (e_ksr e)); cbn [negb orb andb]; [|split; [discriminate|intros [H _]; discriminate H]]);
  (destruct (e_init e) as [[]|c4]; cbn [okb negb orb andb]; [|split; [discriminate|intros [H _]; discriminate H]]);
  try (destruct (okb (e_chain e)); cbn [negb orb andb]; [|split; [discriminate|intros [H _]; discriminate H]]);
  (destruct (e_force e); cbn [negb orb andb];
   [|destruct (text_eqb (strip_newlines (e_answer e)) YES); cbn [negb orb andb]; [|split; [discriminate|intros [H _]; discriminate H]]]);
  (destruct (e_sign e) as [[]|c6]; cbn [okb negb orb andb]; [|split; [discriminate|intros [H _]; discriminate H]]);
  try (destruct (okb (e_safety e)); cbn [negb orb andb]; [|split; [discriminate|intros [H _]; discriminate H]]);
  (destruct (okb (e_write e)); cbn [negb orb andb]; [tauto|split; [discriminate|intros [_ H]; discriminate H]]).
Qed.

(* the stage functions are called in the one fixed order, each at most once: the trace is a subsequence of the list of traced stages *)
Fixpoint subseq (a b : list stage) : Prop :=
  match a, b with
  | [], _ => True
  | _ :: _, [] => False
  | x :: a', y :: b' => (x = y /\ subseq a' b') \/ subseq a b'
  end.
Lemma subseq_nil b : subseq [] b. Proof. destruct b; exact I. Qed.
Lemma exec_subseq l : subseq (fst (exec l)) (map st_stage l).
Proof.
  induction l as [|s t IH]; cbn [exec map]; [exact I|]. destruct (st_enabled s).
  - destruct (st_out s) as [r|].
    + cbn [fst]. destruct (st_traced s); [|apply subseq_nil]. cbn [subseq]. left. split; [reflexivity|apply subseq_nil].
    + destruct (exec t) as [tr r] eqn:Et. cbn [fst] in *. destruct (st_traced s).
      * cbn [subseq]. left. split; [reflexivity|exact IH].
      * destruct tr as [|x tr']; [exact I|]. cbn [subseq]. right. exact IH.
  - destruct (fst (exec t)) as [|x tr'] eqn:E; [exact I|]. cbn [subseq]. right. exact IH.
Qed.
Definition canonical : list stage := [SConfig; SSchema; SLoadPrev; SKsrName; SLoadKsr; SInit; SChain; SPrompt; SSign; SSafety; SWrite].
Theorem fixed_order e : subseq (fst (run e)) canonical.
Proof. unfold run. change canonical with (map st_stage (steps e)). apply exec_subseq. Qed.

(* exit status of main(): zero only for a completed ceremony *)
Theorem exit_zero_iff_success r : exit_status r = 0 <-> r = RTrue.
Proof.
  destruct r as [| |c]; cbn [exit_status]; split; intros H; try reflexivity; try discriminate H.
  destruct (c =? KeyboardInterrupt); [discriminate H|]. destruct (c =? ConfigurationError); discriminate H.
Qed.

Corollary failure_is_reported e : all_good e = false -> exit_status (snd (run e)) <> 0 /\ ~ In SWrite (fst (run e)) .
Proof.
  intros H. split.
  - intros E. apply exit_zero_iff_success in E. apply true_iff_written in E as [E _]. congruence.
  - intros W. apply write_only_after_everything in W. congruence.
Qed.

Corollary early_failure_no_private_key_operation e : pre_sign e = false -> ~ In SSign (fst (run e)) /\ ~ In SWrite (fst (run e)) /\ snd (run e) <> RTrue.
Proof.
  intros H. split; [intros S; apply sign_only_after_confirmation in S; congruence|].
  assert (all_good e = false) as G by (unfold all_good; rewrite H; reflexivity).
  split; [intros W; apply write_only_after_everything in W; congruence|].
  intros T. apply true_iff_written in T as [T _]. congruence.
Qed.

(* confirmation: only Y e s, after removing surrounding newlines *)
Theorem confirmation_is_exact e : e_force e = false -> confirmed e = true -> strip_newlines (e_answer e) = [89; 101; 115].
Proof. unfold confirmed. intros -> H. cbn [orb] in H. apply text_eqb_spec in H. exact H. Qed.
