From KV Require Import Base.Prelude Base.Exn Base.Bytes Model.Data Model.Wire Model.KsrPolicy
  Spec.ChainRules Spec.KeyRules Proofs.KsrTimingProofs Proofs.ChainProofs Proofs.KeyRulesProofs Proofs.WireProofs.
From Coq Require Import Sorting.Permutation.

Section PoP.
  Variable verify : Key -> Sig -> list Z -> bool.

  (* C07: what acceptance of a bundle means *)
  Definition pop_spec (b : Bundle) : Prop :=
    b_keys b <> [] /\ b_sigs b <> [] /\ NoDup (map k_id (b_keys b)) /\
    (forall s, In s (b_sigs b) ->
       exists key tbs, In key (b_keys b) /\ k_id key = s_id s /\ pubkey_decodable key = OK tt /\
         make_raw_rrsig s (b_keys b) = OK tbs /\ verify key s tbs = true) /\
    (forall k, In k (b_keys b) -> exists s, In s (b_sigs b) /\ s_id s = k_id k).

  Lemma dup_key_ids_iff ks : forall seen,
    dup_key_ids seen ks = false <-> NoDup (map k_id ks) /\ (forall k, In k ks -> ~ In (k_id k) seen).
  Proof.
    induction ks as [|k t IH]; intros seen; cbn [dup_key_ids map].
    - split; [intros _; split; [constructor|intros ? []]|reflexivity].
    - rewrite orb_false_iff, existsb_text_false, IH. split.
      + intros (Hn & Hnd & H). split.
        * constructor; [|exact Hnd]. intros Hin. apply in_map_iff in Hin as (k' & Ek & Hk').
          apply (H k' Hk'). left. symmetry; exact Ek.
        * intros k' [<-|Hk']; [exact Hn|]. intros Hin. apply (H k' Hk'). right; exact Hin.
      + intros (Hnd & H). inversion Hnd as [|? ? Hni Hnd']; subst. split; [apply H; left; reflexivity|].
        split; [exact Hnd'|]. intros k' Hk' [Eq|Hin].
        * apply Hni. rewrite Eq. apply in_map; exact Hk'.
        * apply (H k' (or_intror Hk') Hin).
  Qed.

  Lemma find_key_unique ks id key : NoDup (map k_id ks) -> In key ks -> k_id key = id -> find_key_by_id id ks = Some key.
  Proof.
    induction ks as [|k t IH]; intros Hnd Hin Hid; [destruct Hin|].
    cbn [map] in Hnd. inversion Hnd as [|? ? Hni Hnd']; subst. unfold find_key_by_id. cbn [find].
    destruct (text_eqb (k_id k) (k_id key)) eqn:E.
    - apply text_eqb_spec in E. destruct Hin as [->|Hin]; [reflexivity|].
      exfalso. apply Hni. rewrite E. apply in_map; exact Hin.
    - destruct Hin as [->|Hin]; [rewrite text_eqb_refl in E; discriminate|]. apply IH; auto.
  Qed.

  Lemma verify_step_iff keys s : NoDup (map k_id keys) ->
    (verify_step verify keys s = OK tt <->
     exists key tbs, In key keys /\ k_id key = s_id s /\ pubkey_decodable key = OK tt /\
       make_raw_rrsig s keys = OK tbs /\ verify key s tbs = true).
  Proof.
    intros Hnd. unfold verify_step. destruct (find_key_by_id (s_id s) keys) as [key|] eqn:Ef.
    - apply find_key_some in Ef as [Hin Hid]. rewrite bind_ok_iff.
      destruct (make_raw_rrsig s keys) as [tbs|c] eqn:Et; cbn [bind].
      + split.
        * intros [Hd Hv]. exists key, tbs. destruct (verify key s tbs); [auto|discriminate].
        * intros (key' & tbs' & Hin' & Hid' & Hd & [= <-] & Hv).
          assert (key' = key) as ->.
          { pose proof (find_key_unique keys (s_id s) key' Hnd Hin' Hid') as F1.
            pose proof (find_key_unique keys (s_id s) key Hnd Hin Hid) as F2. congruence. }
          rewrite Hv. auto.
      + split; [intros [_ H]; discriminate|]. intros (? & ? & _ & _ & _ & H & _). discriminate.
    - apply find_key_none in Ef. split; [discriminate|]. intros (key & _ & Hin & Hid & _).
      exfalso. apply Ef. rewrite <- Hid. apply in_map; exact Hin.
  Qed.

  Lemma validate_signatures_iff b :
    validate_signatures verify b = OK tt <->
    b_keys b <> [] /\ b_sigs b <> [] /\ NoDup (map k_id (b_keys b)) /\
    (forall s, In s (b_sigs b) ->
       exists key tbs, In key (b_keys b) /\ k_id key = s_id s /\ pubkey_decodable key = OK tt /\
         make_raw_rrsig s (b_keys b) = OK tbs /\ verify key s tbs = true).
  Proof.
    unfold validate_signatures. destruct (b_keys b) as [|k kt] eqn:Ek.
    - split; [discriminate|]. intros [H _]; congruence.
    - destruct (b_sigs b) as [|s st] eqn:Es.
      + split; [discriminate|]. intros (_ & H & _); congruence.
      + destruct (dup_key_ids [] (k :: kt)) eqn:Ed.
        * split; [discriminate|]. intros (_ & _ & Hnd & _).
          assert (dup_key_ids [] (k :: kt) = false); [|congruence].
          apply dup_key_ids_iff. split; [exact Hnd|]. intros ? _ [].
        * apply dup_key_ids_iff in Ed as [Hnd _]. rewrite for_each_ok_iff. split.
          -- intros H. repeat split; try discriminate; auto. intros s' Hs'. apply verify_step_iff; auto.
          -- intros (_ & _ & _ & H) s' Hs'. apply verify_step_iff; auto.
  Qed.

  Theorem pop_iff b : pop_bundle verify b = OK tt <-> pop_spec b.
  Proof.
    unfold pop_bundle, pop_spec. destruct (validate_signatures verify b) as [[]|c] eqn:Ev.
    - apply validate_signatures_iff in Ev. rewrite for_each_ok_iff. split.
      + intros H. destruct Ev as (E1 & E2 & E3 & E4). repeat split; auto.
        intros k Hk. specialize (H k Hk). rewrite guard_ok_iff, negb_false_iff', existsb_exists in H.
        destruct H as (s & Hs & E). apply text_eqb_spec in E. eauto.
      + intros (_ & _ & _ & _ & H) k Hk. rewrite guard_ok_iff, negb_false_iff', existsb_exists.
        destruct (H k Hk) as (s & Hs & E). exists s. split; [exact Hs|]. apply text_eqb_spec; exact E.
    - split.
      + intros H. destruct (c =? InvalidSignature); discriminate.
      + intros (E1 & E2 & E3 & E4 & _). assert (validate_signatures verify b = OK tt); [|congruence].
        apply validate_signatures_iff. auto.
  Qed.

  (* every accepted signature verified over the RFC 4034 data of the COMPLETE key set of its bundle *)
  Theorem pop_uses_full_set b : pop_bundle verify b = OK tt ->
    forall s, In s (b_sigs b) ->
      exists key tbs, In key (b_keys b) /\ k_id key = s_id s /\
        rfc4034_signature_data s (b_keys b) tbs /\ verify key s tbs = true.
  Proof.
    intros H s Hs. apply pop_iff in H. destruct H as (_ & _ & _ & H & _).
    destruct (H s Hs) as (key & tbs & H1 & H2 & _ & H4 & H5). exists key, tbs.
    repeat split; auto. apply make_raw_rrsig_is_rfc; exact H4.
  Qed.

  (* document order of keys and signatures does not matter *)
  Theorem pop_order_independent b b' :
    Permutation (b_keys b) (b_keys b') -> Permutation (b_sigs b) (b_sigs b') ->
    (pop_bundle verify b = OK tt <-> pop_bundle verify b' = OK tt).
  Proof.
    assert (G : forall b b', Permutation (b_keys b) (b_keys b') -> Permutation (b_sigs b) (b_sigs b') ->
                pop_spec b -> pop_spec b').
    { clear. intros b b' Pk Ps (H1 & H2 & H3 & H4 & H5). repeat split.
      - intros E. rewrite E in Pk. apply Permutation_sym, Permutation_nil in Pk. congruence.
      - intros E. rewrite E in Ps. apply Permutation_sym, Permutation_nil in Ps. congruence.
      - eapply Permutation_NoDup; [|exact H3]. apply Permutation_map; exact Pk.
      - intros s Hs. destruct (H4 s) as (key & tbs & K1 & K2 & K3 & K4 & K5).
        { eapply Permutation_in; [apply Permutation_sym; exact Ps|exact Hs]. }
        exists key, tbs. repeat split; auto.
        + eapply Permutation_in; [exact Pk|exact K1].
        + rewrite <- (tbs_perm_invariant s _ _ Pk). exact K4.
      - intros k Hk. destruct (H5 k) as (s & S1 & S2).
        { eapply Permutation_in; [apply Permutation_sym; exact Pk|exact Hk]. }
        exists s. split; [eapply Permutation_in; [exact Ps|exact S1]|exact S2]. }
    intros Pk Ps. rewrite !pop_iff. split; apply G; auto using Permutation_sym.
  Qed.

  (* removing a key's only signature, or a signature naming no key, leads to rejection *)
  Theorem pop_missing_signature_rejected b k :
    In k (b_keys b) -> (forall s, In s (b_sigs b) -> s_id s <> k_id k) -> pop_bundle verify b <> OK tt.
  Proof.
    intros Hk Hn H. apply pop_iff in H. destruct H as (_ & _ & _ & _ & H).
    destruct (H k Hk) as (s & Hs & E). exact (Hn s Hs E).
  Qed.
  Theorem pop_bad_signature_rejected b s :
    In s (b_sigs b) ->
    (forall key tbs, In key (b_keys b) -> k_id key = s_id s -> make_raw_rrsig s (b_keys b) = OK tbs -> verify key s tbs = false) ->
    pop_bundle verify b <> OK tt.
  Proof.
    intros Hs Hbad H. apply pop_iff in H. destruct H as (_ & _ & _ & H & _).
    destruct (H s Hs) as (key & tbs & K1 & K2 & _ & K4 & K5). rewrite (Hbad key tbs K1 K2 K4) in K5. discriminate.
  Qed.

  Theorem check_pop_iff p r :
    check_proof_of_possession verify p r = OK tt <-> (p_validate_signatures p = true -> Forall pop_spec (rq_bundles r)).
  Proof. unfold check_proof_of_possession. apply flagged_iff, for_each_Forall, pop_iff. Qed.
End PoP.
