(* C09 at the level of the ceremony: the SKR is "released" when the write stage of ksrsigner is reached.
   Composition of the pipeline glue (Model.Pipeline) with the safety rules (Model.Chain). *)
From KV Require Import Base.Prelude Base.Exn Base.Bytes Model.Data Model.KsrPolicy Model.Chain Spec.ChainRules Model.Keymaster Model.Pipeline
  Proofs.ChainProofs Proofs.PipelineProofs.

(* an environment whose safety stage is the real check on (previous SKR, new SKR) *)
Definition safety_is (e : Env) (p : ReqPolicy) (last_skr new_skr : Response) : Prop :=
  e_prev_named e = true /\ e_safety e = check_last_skr_and_new_skr p last_skr new_skr.

Theorem released_only_if_safe e p last_skr new_skr :
  safety_is e p last_skr new_skr -> In SWrite (fst (run e)) -> safety_spec p last_skr new_skr.
Proof.
  intros [Hn Hs] Hw. apply write_only_after_everything in Hw. unfold all_good in Hw.
  rewrite Hn in Hw. apply andb_true_iff in Hw as [_ Hok]. rewrite Hs in Hok.
  apply safety_iff. destruct (check_last_skr_and_new_skr p last_skr new_skr) as [[]|c]; [reflexivity|discriminate].
Qed.

Theorem unsafe_is_not_released e p last_skr new_skr :
  safety_is e p last_skr new_skr -> ~ safety_spec p last_skr new_skr ->
  ~ In SWrite (fst (run e)) /\ snd (run e) <> RTrue /\ exit_status (snd (run e)) <> 0.
Proof.
  intros Hs Hn. assert (Hg : all_good e = false).
  { destruct (all_good e) eqn:Eg; [|reflexivity]. exfalso. apply Hn. eapply released_only_if_safe; [exact Hs|].
    apply write_only_after_everything. exact Eg. }
  destruct (failure_is_reported e Hg) as [Hx Hw]. repeat split; [exact Hw| |exact Hx].
  intros Ht. apply true_iff_written in Ht as [Hg' _]. congruence.
Qed.

(* no previous SKR named: the safety stage is not part of the run (nothing to compare with) *)
Theorem no_previous_no_safety_stage e : e_prev_named e = false -> ~ In SSafety (fst (run e)).
Proof.
  intros Hn Hin. unfold run in Hin. destruct (exec_trace _ _ Hin) as (s & Hs & Est & Een & _).
  unfold steps in Hs. cbn [In] in Hs.
  repeat (destruct Hs as [<-|Hs]; [cbn [st_stage st_enabled] in *; try discriminate Est; congruence|]). destruct Hs.
Qed.
