From Coq Require Import String.
From KV Require Import Base.Prelude Base.Bytes Model.Data Model.Token Model.Sign Model.SchemaTable.
From KV Require Gen.Schemas.
Open Scope string_scope.

(* with bundles ten days apart and RetireSafety P10D the first two bundles fall inside the retire window *)
Definition example_window : nat := 2.

Lemma gen_example_timing :
  Gen.Schemas.example_retire_safety = "P10D" /\ Gen.Schemas.example_publish_safety = "P10D" /\ Gen.Schemas.example_bundle_interval = ["P9D"; "P11D"].
Proof. repeat split; reflexivity. Qed.

(* which of the seven example schemas may follow which (rows: previous ceremony, columns: next ceremony), identifier rules only *)
Definition example_table : list (string * list bool) :=
  (*                 normal pre-pub rollover revoke publish+ rollover+ revoke+ *)
  [ ("normal",      [true;  true;   true;    false; true;    false;    false]);
    ("pre-publish", [true;  true;   true;    true;  true;    true;     false]);
    ("rollover",    [false; false;  true;    true;  true;    true;     true ]);
    ("revoke",      [false; false;  false;   true;  false;   true;     true ]);
    ("publish+",    [true;  true;   true;    true;  true;    true;     false]);
    ("rollover+",   [false; false;  true;    true;  true;    true;     true ]);
    ("revoke+",     [false; false;  false;   true;  false;   true;     true ]) ].

Theorem example_schema_table :
  map (fun r => (fst r, map snd (snd r))) (table example_window Gen.Schemas.example_schemas) = example_table.
Proof. vm_compute. reflexivity. Qed.

Theorem example_schemas_internally_retire_safe : forallb (fun p => stays_listed (snd p)) Gen.Schemas.example_schemas = true.
Proof. vm_compute. reflexivity. Qed.
