From KV Require Import Base.Prelude Base.Exn Base.Bytes Model.Data Model.Xml .
From KV Require Import Model.XmlTree Proofs.XmlTreeProofs Model.Shape.

Lemma shape_ind' (P : shape -> Prop) :
  (forall n a c, P (SLeaf n a c)) -> (forall n a, P (SEmpty n a)) -> (forall n a cs, Forall P cs -> P (SNode n a cs)) -> forall s, P s.
Proof.
  intros HL HE HN. fix IH 1. intros [n a c|n a|n a cs]; [apply HL|apply HE|apply HN].
  induction cs as [|c cs IHcs]; constructor; [apply IH|exact IHcs].
Qed.

Lemma attr_dict_one_blank a : attr_dict (one_blank a) = a.
Proof. unfold attr_dict, one_blank. rewrite map_map. induction a as [|[k v] a IH]; cbn; [reflexivity|]. f_equal. exact IH. Qed.
Lemma wrap_one_blank a v : wrap (one_blank a) v = wrapd a v.
Proof.
  destruct a as [|kv a]; [reflexivity|]. unfold wrap, wrapd. pose proof (attr_dict_one_blank (kv :: a)) as E.
  cbn [one_blank map] in *. rewrite E. reflexivity.
Qed.

Lemma attrs_ok_one_blank a : dattrs_ok a = true -> attrs_ok (one_blank a) = true.
Proof.
  unfold dattrs_ok, attrs_ok. intros H. apply andb_true_iff in H as [H D]. apply andb_true_iff. split.
  - unfold one_blank. rewrite forallb_forall in *. intros x Hx. apply in_map_iff in Hx as ([k v] & <- & Hin). specialize (H _ Hin).
    unfold dattr_ok in H. cbn [fst snd] in *. apply andb_true_iff in H as [H Hv]. apply andb_true_iff in H as [Hk Hv0].
    unfold attr_ok. rewrite Hk, Hv. cbn. destruct v; [discriminate|reflexivity].
  - unfold one_blank. rewrite map_map. cbn [fst snd]. replace (map (fun x : text * text => fst x) a) with (map fst a) by reflexivity. exact D.
Qed.

Lemma ind_space d : all_space (ind d) = true.
Proof. induction d as [|d IH]; [reflexivity|]. cbn [ind all_space forallb]. exact IH. Qed.
Lemma nl_space d : all_space (nl d) = true.
Proof. unfold nl. cbn [all_space forallb]. apply ind_space. Qed.

Lemma tname_build d s after : tname (build d s after) = sname s.
Proof. destruct s; reflexivity. Qed.

Lemma map_build_list {A} (f : tree -> A) (g : shape -> A) d cs :
  (forall x, In x cs -> forall d' aft, f (build d' x aft) = g x) -> map f (build_list d cs) = map g cs.
Proof.
  induction cs as [|x t IH]; intros H; [reflexivity|]. cbn [build_list]. destruct t as [|y t'].
  - cbn [map]. rewrite H by (left; reflexivity). reflexivity.
  - cbn [map]. rewrite H by (left; reflexivity). f_equal. apply IH. intros z Hz. apply H. right. exact Hz.
Qed.

Lemma val_build s : forall d after, val_of (build d s after) = sval s.
Proof.
  induction s as [n a c|n a|n a cs IH] using shape_ind'; intros d after.
  - cbn [build val_of sval]. apply wrap_one_blank.
  - cbn [build val_of sval]. apply wrap_one_blank.
  - rewrite build_node. cbn [val_of sval]. rewrite wrap_one_blank. f_equal. f_equal. f_equal.
    apply (map_build_list (fun c => (tname c, val_of c)) (fun c => (sname c, sval c))). intros x Hx d' aft.
    rewrite tname_build. f_equal. rewrite Forall_forall in IH. apply IH. exact Hx.
Qed.

Lemma fold_max_map {A B} (h : A -> nat) (g : B -> nat) (l : list A) (l' : list B) :
  map h l = map g l' -> fold_right (fun c m => Nat.max (h c) m) O l = fold_right (fun c m => Nat.max (g c) m) O l'.
Proof.
  revert l'. induction l as [|x t IH]; intros [|y t'] E; try discriminate; [reflexivity|]. cbn [map] in E. injection E as E1 E2.
  cbn [fold_right]. rewrite E1, (IH t' E2). reflexivity.
Qed.

Lemma height_build s : forall d after, height (build d s after) = sheight s.
Proof.
  induction s as [n a c|n a|n a cs IH] using shape_ind'; intros d after; [reflexivity|reflexivity|].
  rewrite build_node. cbn [height sheight]. f_equal. apply fold_max_map.
  apply map_build_list. intros x Hx d' aft. rewrite Forall_forall in IH. apply IH. exact Hx.
Qed.

Lemma names_build s : forall d after, names (build d s after) = snames s.
Proof.
  induction s as [n a c|n a|n a cs IH] using shape_ind'; intros d after; [reflexivity|reflexivity|].
  rewrite build_node. cbn [names snames]. f_equal. rewrite !flat_map_concat_map. f_equal.
  apply map_build_list. intros x Hx d' aft. rewrite Forall_forall in IH. apply IH. exact Hx.
Qed.

Lemma forallb_build_list (f : tree -> bool) d cs :
  (forall x, In x cs -> forall d' aft, all_space aft = true -> f (build d' x aft) = true) -> forallb f (build_list d cs) = true.
Proof.
  induction cs as [|x t IH]; intros H; [reflexivity|]. cbn [build_list]. destruct t as [|y t'].
  - cbn [forallb]. rewrite H; [reflexivity|left; reflexivity|apply nl_space].
  - cbn [forallb]. rewrite H; [|left; reflexivity|apply nl_space]. cbn [andb]. apply IH. intros z Hz. apply H. right. exact Hz.
Qed.

Lemma tail_ok_nil a : tail_ok a [] = true.
Proof. unfold tail_ok. cbn. apply orb_true_r. Qed.

Lemma wf_build s : shape_ok s = true -> forall d after, all_space after = true -> wf (build d s after) = true.
Proof.
  induction s as [n a c|n a|n a cs IH] using shape_ind'; intros Hok d after Haft.
  - cbn [shape_ok] in Hok. apply andb_true_iff in Hok as [Hok Hc]. apply andb_true_iff in Hok as [Hn Ha].
    cbn [build wf]. rewrite Hn, (attrs_ok_one_blank a Ha), Hc, Haft, tail_ok_nil. reflexivity.
  - cbn [shape_ok] in Hok. apply andb_true_iff in Hok as [Hok Hne]. apply andb_true_iff in Hok as [Hn Ha].
    cbn [build wf]. rewrite Hn, (attrs_ok_one_blank a Ha), Haft, tail_ok_nil. destruct a; [discriminate|reflexivity].
  - cbn [shape_ok] in Hok. apply andb_true_iff in Hok as [Hok Hnn]. apply andb_true_iff in Hok as [Hok Hcs]. apply andb_true_iff in Hok as [Hok Hne].
    apply andb_true_iff in Hok as [Hn Ha].
    rewrite build_node. cbn [wf]. rewrite Hn, (attrs_ok_one_blank a Ha), (nl_space (S d)), Haft, tail_ok_nil. cbn [andb].
    assert (E1 : negb (is_nil (build_list d cs)) = true) by (destruct cs as [|x [|y t]]; [discriminate|reflexivity|reflexivity]).
    rewrite E1. cbn [andb].
    assert (E2 : forallb wf (build_list d cs) = true).
    { apply forallb_build_list. intros x Hx d' aft Ha'. rewrite Forall_forall in IH. apply IH; [exact Hx| |exact Ha'].
      rewrite forallb_forall in Hcs. apply Hcs. exact Hx. }
    rewrite E2. cbn [andb].
    assert (E3 : flat_map names (build_list d cs) = flat_map snames cs).
    { rewrite !flat_map_concat_map. f_equal. apply map_build_list. intros x Hx d' aft. apply names_build. }
    rewrite E3. exact Hnn.
Qed.
