(* C03: every signer the schema names for a slot has a signature in the response bundle, returned by the token and verified in software. *)
From KV Require Import Base.Prelude Base.Exn Base.Bytes Model.Data Model.Wire Model.KsrPolicy Model.Token Model.Sign Proofs.TokenProofs Proofs.SignProofs.

Section SignAll.
  Variable Hh : Z -> list Z -> list Z.
  Variable token_sign : P11Key -> Z -> list Z -> res text.
  Variable verify : text -> Z -> list Z -> text -> bool.
  Variable ds_hex : list Z -> text.

  Lemma sign_all_each b keys ttl sn : forall sks sigs, sign_all Hh token_sign verify b keys sks ttl sn = OK sigs ->
    forall sk, In sk sks -> exists s, In s sigs /\ sign_keys Hh token_sign verify b keys sk ttl sn = OK s.
  Proof.
    induction sks as [|x rest IH]; intros sigs H sk Hin; [destruct Hin|]. cbn [sign_all] in H.
    apply bind_ok_inv in H as (s0 & H0 & H). apply bind_ok_inv in H as (more & Hm & H). injection H as <-.
    destruct Hin as [<-|Hin]; [exists s0; split; [left; reflexivity|exact H0]|].
    destruct (IH more Hm sk Hin) as (s & Hs & Hk). exists s. split; [right; exact Hs|exact Hk].
  Qed.

  Lemma dedup_keeps l : forall x, In x l -> exists y, In y (dedup_sigs l) /\ sig_eqb x y = true.
  Proof.
    assert (R : forall x, sig_eqb x x = true) by (intros x; unfold sig_eqb; rewrite !text_eqb_refl, !Z.eqb_refl; reflexivity).
    induction l as [|a t IH]; intros x Hin; [destruct Hin|]. cbn [dedup_sigs].
    destruct (existsb (sig_eqb a) t) eqn:E.
    - destruct Hin as [<-|Hin]; [|apply IH; exact Hin].
      apply existsb_exists in E as (y & Hy & Ey). destruct (IH y Hy) as (z & Hz & Ez). exists z. split; [exact Hz|].
      unfold sig_eqb in *. apply andb_true_iff in Ey as [Ey E4]. apply andb_true_iff in Ey as [Ey E3]. apply andb_true_iff in Ey as [E1 E2].
      apply andb_true_iff in Ez as [Ez F4]. apply andb_true_iff in Ez as [Ez F3]. apply andb_true_iff in Ez as [F1 F2].
      apply text_eqb_spec in E1, E4, F1, F4. rewrite E1, F1, E4, F4, !text_eqb_refl. cbn [andb].
      assert (s_tag a = s_tag z) as -> by lia. assert (s_alg a = s_alg z) as -> by lia. rewrite !Z.eqb_refl. reflexivity.
    - destruct Hin as [<-|Hin]; [exists a; split; [left; reflexivity|apply R]|].
      destruct (IH x Hin) as (y & Hy & Ey). exists y. split; [right; exact Hy|exact Ey].
  Qed.

  Theorem every_signer_signed i b schema ms ttl sn kks validate rb :
    sign_bundle Hh token_sign verify ds_hex i b schema ms ttl sn kks validate = OK rb ->
    exists act sks, lookup_slot i schema = Some act /\ fetch_keys ds_hex (a_sign act) b ms ttl kks false = OK sks /\
      forall sk, In sk sks ->
        exists s raw pubtxt, In s (b_sigs rb) /\ s_id s = k_id (ck_dns sk) /\ s_alg s = k_alg (ck_dns sk) /\
          pk_pub (ck_p11 sk) = Some pubtxt /\
          sign_using_p11 Hh token_sign (ck_p11 sk) raw (s_alg s) = OK (s_datatxt s) /\
          verify pubtxt (s_alg s) raw (s_datatxt s) = true.
  Proof.
    unfold sign_bundle. destruct (lookup_slot i schema) as [act|]; [|discriminate]. intros H.
    apply bind_ok_inv in H as (pubs & _ & H). apply bind_ok_inv in H as (revs & _ & H). apply bind_ok_inv in H as (k2 & _ & H).
    apply bind_ok_inv in H as (sks & Hsks & H). apply bind_ok_inv in H as (sigs0 & Hsig & H).
    destruct (negb _); [discriminate H|]. apply bind_ok_inv in H as (u & _ & H). injection H as <-. cbn [b_sigs].
    exists act, sks. split; [reflexivity|]. split; [exact Hsks|]. intros sk Hin.
    destruct (sign_all_each _ _ _ _ _ _ Hsig sk Hin) as (s0 & Hs0 & Hk).
    destruct (dedup_keeps sigs0 s0 Hs0) as (s & Hs & Eq).
    apply (signed_fields Hh token_sign verify ds_hex) in Hk as (_ & _ & _ & _ & _ & _ & _ & A8 & A9 & _ & _ & (raw & pubtxt & _ & Hp & Hv & Ht)).
    unfold sig_eqb in Eq. apply andb_true_iff in Eq as [Eq E4]. apply andb_true_iff in Eq as [Eq E3]. apply andb_true_iff in Eq as [E1 _].
    apply text_eqb_spec in E1, E4. assert (s_alg s0 = s_alg s) as Ea by lia.
    exists s, raw, pubtxt. rewrite <- E1, <- Ea, <- E4. repeat split; auto.
  Qed.
  (* and nothing else signs: every signature of the response bundle was made by one of the slot's signers *)
  Theorem every_signature_from_a_signer i b schema ms ttl sn kks validate rb :
    sign_bundle Hh token_sign verify ds_hex i b schema ms ttl sn kks validate = OK rb ->
    exists act sks, lookup_slot i schema = Some act /\ fetch_keys ds_hex (a_sign act) b ms ttl kks false = OK sks /\
      forall s, In s (b_sigs rb) -> exists sk, In sk sks /\ s_id s = k_id (ck_dns sk) /\ s_alg s = k_alg (ck_dns sk).
  Proof.
    unfold sign_bundle. destruct (lookup_slot i schema) as [act|]; [|discriminate]. intros H.
    apply bind_ok_inv in H as (pubs & _ & H). apply bind_ok_inv in H as (revs & _ & H). apply bind_ok_inv in H as (k2 & _ & H).
    apply bind_ok_inv in H as (sks & Hsks & H). apply bind_ok_inv in H as (sigs0 & Hsig & H).
    destruct (negb _); [discriminate H|]. apply bind_ok_inv in H as (u & _ & H). injection H as <-. cbn [b_sigs].
    exists act, sks. split; [reflexivity|]. split; [exact Hsks|]. intros s Hs. apply dedup_sub in Hs.
    destruct (sign_all_in Hh token_sign verify _ _ _ _ _ _ _ Hsig Hs) as (sk & Hsk & Hk).
    apply (signed_fields Hh token_sign verify ds_hex) in Hk as (_ & _ & _ & _ & _ & _ & _ & A8 & A9 & _).
    exists sk. auto.
  Qed.
End SignAll.
