(* C02: the key set of a response bundle is exactly what the schema slot and the request bundle dictate - nothing missing, nothing extra. *)
From KV Require Import Base.Prelude Base.Exn Base.Bytes Model.Data Model.Wire Model.KsrPolicy Model.Token Model.Sign Proofs.TokenProofs Proofs.SignProofs.

Section SignExact.
  Variable Hh : Z -> list Z -> list Z.
  Variable token_sign : P11Key -> Z -> list Z -> res text.
  Variable verify : text -> Z -> list Z -> text -> bool.
  Variable ds_hex : list Z -> text.

  Definition has_pub (pt : text) (keys : list Key) : Prop := exists x, In x keys /\ k_pubtxt x = pt.

  (* ---- where a key of the container can come from ---- *)
  Lemma fold_add_in ttl (l : list Key) : forall keys x, In x (fold_left (kts_add ttl) l keys) -> In x keys \/ exists k, In k l /\ x = with_ttl ttl k.
  Proof.
    induction l as [|k l IH]; intros keys x Hx; cbn [fold_left] in Hx; [left; exact Hx|].
    apply IH in Hx as [Hx|(k' & Hk' & ->)].
    - apply kts_add_in in Hx as [Hx| ->]; [left; exact Hx|right; exists k; split; [left; reflexivity|reflexivity]].
    - right. exists k'. split; [right; exact Hk'|reflexivity].
  Qed.
  Lemma fold_add_ck_in ttl (l : list CompositeKey) : forall keys x, In x (fold_left (fun acc ck => kts_add ttl acc (ck_dns ck)) l keys) ->
    In x keys \/ exists ck, In ck l /\ x = with_ttl ttl (ck_dns ck).
  Proof.
    induction l as [|k l IH]; intros keys x Hx; cbn [fold_left] in Hx; [left; exact Hx|].
    apply IH in Hx as [Hx|(k' & Hk' & ->)].
    - apply kts_add_in in Hx as [Hx| ->]; [left; exact Hx|right; exists k; split; [left; reflexivity|reflexivity]].
    - right. exists k'. split; [right; exact Hk'|reflexivity].
  Qed.

  Definition revoke_loop (ttl : Z) := fix go (l : list CompositeKey) (acc : list Key) : res (list Key) :=
    match l with
    | [] => OK acc
    | ck :: t => bind (as_revoked (ck_dns ck)) (fun rk => go t (kts_update ttl acc rk))
    end.

  Lemma revoke_loop_in ttl (l : list CompositeKey) : forall acc out x, revoke_loop ttl l acc = OK out -> In x out ->
    In x acc \/ exists ck rk, In ck l /\ as_revoked (ck_dns ck) = OK rk /\ x = with_ttl ttl rk.
  Proof.
    induction l as [|ck t IH]; intros acc out x H Hx; cbn [revoke_loop] in H.
    - injection H as <-. left; exact Hx.
    - apply bind_ok_inv in H as (rk & Hrk & H). destruct (IH _ _ _ H Hx) as [Hin|(ck' & rk' & Hck' & Hr' & ->)].
      + unfold kts_update in Hin. apply kts_add_in in Hin as [Hin| ->].
        * left. eapply remove_first_sub; exact Hin.
        * right. exists ck, rk. split; [left; reflexivity|]. split; [exact Hrk|reflexivity].
      + right. exists ck', rk'. split; [right; exact Hck'|]. split; [exact Hr'|reflexivity].
  Qed.

  (* ---- what stays in the container ---- *)
  Lemma has_pub_add ttl keys k pt : has_pub pt keys -> has_pub pt (kts_add ttl keys k).
  Proof. intros (x & Hx & E). exists x. split; [apply kts_add_keeps; exact Hx|exact E]. Qed.
  Lemma has_pub_added ttl keys k : has_pub (k_pubtxt k) (kts_add ttl keys k).
  Proof. destruct (kts_add_has_pub ttl keys k) as (x & Hx & E). exists x; auto. Qed.
  Lemma has_pub_fold ttl (l : list Key) : forall keys pt, has_pub pt keys -> has_pub pt (fold_left (kts_add ttl) l keys).
  Proof. induction l as [|k l IH]; intros keys pt H; cbn [fold_left]; [exact H|]. apply IH, has_pub_add, H. Qed.
  Lemma has_pub_fold_ck ttl (l : list CompositeKey) : forall keys pt, has_pub pt keys -> has_pub pt (fold_left (fun acc ck => kts_add ttl acc (ck_dns ck)) l keys).
  Proof. induction l as [|k l IH]; intros keys pt H; cbn [fold_left]; [exact H|]. apply IH, has_pub_add, H. Qed.
  Lemma has_pub_fold_ck_new ttl (l : list CompositeKey) : forall keys ck, In ck l -> has_pub (k_pubtxt (ck_dns ck)) (fold_left (fun acc c => kts_add ttl acc (ck_dns c)) l keys).
  Proof.
    induction l as [|k l IH]; intros keys ck Hin; [destruct Hin|]. cbn [fold_left]. destruct Hin as [->|Hin].
    - apply has_pub_fold_ck, has_pub_added.
    - apply IH; exact Hin.
  Qed.

  Lemma remove_first_other pt keys q : q <> pt -> has_pub q keys -> has_pub q (remove_first_pub pt keys).
  Proof.
    intros Hne (x & Hx & E). induction keys as [|y t IH]; [destruct Hx|]. cbn [remove_first_pub].
    destruct (text_eqb (k_pubtxt y) pt) eqn:Ey.
    - apply text_eqb_spec in Ey. destruct Hx as [->|Hx]; [congruence|exists x; auto].
    - destruct Hx as [->|Hx]; [exists x; split; [left; reflexivity|exact E]|].
      destruct (IH Hx) as (x' & Hx' & E'). exists x'. split; [right; exact Hx'|exact E'].
  Qed.
  Lemma has_pub_update ttl keys k pt : has_pub pt keys -> has_pub pt (kts_update ttl keys k).
  Proof.
    intros H. unfold kts_update. destruct (text_eqb pt (k_pubtxt k)) eqn:E.
    - apply text_eqb_spec in E. subst pt. apply has_pub_added.
    - apply has_pub_add. apply remove_first_other; [|exact H]. intros ->. rewrite text_eqb_refl in E. discriminate E.
  Qed.
  Lemma as_revoked_pubtxt k rk : as_revoked k = OK rk -> k_pubtxt rk = k_pubtxt k.
  Proof. unfold as_revoked. intros H. apply bind_ok_inv in H as (t & _ & H). injection H as <-. reflexivity. Qed.

  Lemma revoke_loop_keeps ttl (l : list CompositeKey) : forall acc out pt, revoke_loop ttl l acc = OK out -> has_pub pt acc -> has_pub pt out.
  Proof.
    induction l as [|ck t IH]; intros acc out pt H Hp; cbn [revoke_loop] in H; [injection H as <-; exact Hp|].
    apply bind_ok_inv in H as (rk & _ & H). eapply IH; [exact H|]. apply has_pub_update. exact Hp.
  Qed.
  Lemma revoke_loop_new ttl (l : list CompositeKey) : forall acc out ck, revoke_loop ttl l acc = OK out -> In ck l -> has_pub (k_pubtxt (ck_dns ck)) out.
  Proof.
    induction l as [|c t IH]; intros acc out ck H Hin; [destruct Hin|]. cbn [revoke_loop] in H. apply bind_ok_inv in H as (rk & Hrk & H).
    destruct Hin as [->|Hin]; [|eapply IH; eassumption].
    eapply revoke_loop_keeps; [exact H|]. unfold kts_update. rewrite <- (as_revoked_pubtxt _ _ Hrk). apply has_pub_added.
  Qed.

  (* ---- the theorem ---- *)
  Theorem response_keys_exact i b schema ms ttl sn kks validate rb :
    sign_bundle Hh token_sign verify ds_hex i b schema ms ttl sn kks validate = OK rb ->
    exists act pubs revs sks, lookup_slot i schema = Some act /\
      fetch_keys ds_hex (a_publish act) b ms ttl kks true = OK pubs /\
      fetch_keys ds_hex (a_revoke act) b ms ttl kks true = OK revs /\
      fetch_keys ds_hex (a_sign act) b ms ttl kks false = OK sks /\
      (* nothing extra: every key of the response bundle is a published, revoked, or signing KSK, or a key of the request bundle, with the configured TTL *)
      (forall x, In x (b_keys rb) ->
         (exists ck, In ck pubs /\ x = with_ttl ttl (ck_dns ck)) \/
         (exists ck rk, In ck revs /\ as_revoked (ck_dns ck) = OK rk /\ x = with_ttl ttl rk) \/
         (exists ck, In ck sks /\ x = with_ttl ttl (ck_dns ck)) \/
         (exists zk, In zk (b_keys b) /\ x = with_ttl ttl zk)) /\
      (* nothing missing: every one of those public keys is there (once: kts_inv) *)
      (forall ck, In ck pubs -> has_pub (k_pubtxt (ck_dns ck)) (b_keys rb)) /\
      (forall ck, In ck revs -> has_pub (k_pubtxt (ck_dns ck)) (b_keys rb)) /\
      (forall ck, In ck sks -> has_pub (k_pubtxt (ck_dns ck)) (b_keys rb)) /\
      (forall zk, In zk (b_keys b) -> has_pub (k_pubtxt zk) (b_keys rb)) /\
      NoDup (map k_pubtxt (b_keys rb)).
  Proof.
    unfold sign_bundle. destruct (lookup_slot i schema) as [act|]; [|discriminate]. intros H.
    apply bind_ok_inv in H as (pubs & Hpubs & H). apply bind_ok_inv in H as (revs & Hrevs & H). apply bind_ok_inv in H as (k2 & Hk2 & H).
    apply bind_ok_inv in H as (sks & Hsks & H). apply bind_ok_inv in H as (sigs0 & _ & H). destruct (negb _); [discriminate H|].
    apply bind_ok_inv in H as (u & _ & H). injection H as <-. cbn [b_keys].
    change (revoke_loop ttl revs (fold_left (fun acc ck => kts_add ttl acc (ck_dns ck)) pubs []) = OK k2) in Hk2.
    set (k1 := fold_left (fun acc ck => kts_add ttl acc (ck_dns ck)) pubs []) in *.
    set (k3 := fold_left (fun acc ck => kts_add ttl acc (ck_dns ck)) sks k2).
    set (k4 := fold_left (kts_add ttl) (b_keys b) k3).
    exists act, pubs, revs, sks. split; [reflexivity|]. split; [exact Hpubs|]. split; [exact Hrevs|]. split; [exact Hsks|].
    split.
    { intros x Hx. apply fold_add_in in Hx as [Hx|(zk & Hz & ->)]; [|right; right; right; exists zk; auto].
      apply fold_add_ck_in in Hx as [Hx|(ck & Hck & ->)]; [|right; right; left; exists ck; auto].
      destruct (revoke_loop_in _ _ _ _ _ Hk2 Hx) as [Hx1|(ck & rk & Hck & Hr & ->)]; [|right; left; exists ck, rk; auto].
      apply fold_add_ck_in in Hx1 as [[]|(ck & Hck & ->)]. left. exists ck; auto. }
    split. { intros ck Hck. apply has_pub_fold, has_pub_fold_ck. eapply revoke_loop_keeps; [exact Hk2|]. apply has_pub_fold_ck_new. exact Hck. }
    split. { intros ck Hck. apply has_pub_fold, has_pub_fold_ck. eapply revoke_loop_new; eassumption. }
    split. { intros ck Hck. apply has_pub_fold. apply has_pub_fold_ck_new. exact Hck. }
    split. { intros zk Hz. destruct (fold_add_has_pub ttl (b_keys b) k3 zk Hz) as (x & Hx & E). exists x; auto. }
    assert (Hinv : kts_inv ttl k4).
    { apply kts_inv_fold_add, kts_inv_fold_add_ck.
      assert (G : forall l acc out, revoke_loop ttl l acc = OK out -> kts_inv ttl acc -> kts_inv ttl out).
      { induction l as [|c t IHl]; intros acc out Hl Hi; cbn [revoke_loop] in Hl; [injection Hl as <-; exact Hi|].
        apply bind_ok_inv in Hl as (rk & _ & Hl). eapply IHl; [exact Hl|]. apply kts_inv_update. exact Hi. }
      eapply G; [exact Hk2|]. apply kts_inv_fold_add_ck, kts_inv_nil. }
    exact (proj2 Hinv).
  Qed.
End SignExact.
