From KV Require Import Base.Prelude Base.Exn Base.Bytes Model.Data Model.Wire Model.KsrPolicy Model.Token Model.Sign
  Spec.ChainRules Spec.KeyRules Proofs.WireProofs Proofs.KsrTimingProofs Proofs.ChainProofs Proofs.KeyRulesProofs Proofs.PopProofs Proofs.TokenProofs.

Lemma NoDup_snoc {A} (l : list A) a : NoDup l -> ~ In a l -> NoDup (l ++ [a]).
Proof.
  induction l as [|x l IH]; cbn; intros Hnd Hni.
  - constructor; [intros []|constructor].
  - inversion Hnd as [|? ? Hx Hnd']; subst. constructor.
    + intros Hin. apply in_app_or in Hin as [Hin|[<-|[]]]; [contradiction|]. apply Hni. left; reflexivity.
    + apply IH; [exact Hnd'|]. intros Hin. apply Hni. right; exact Hin.
Qed.

Section SignProofs.
  Variable Hh : Z -> list Z -> list Z.
  Variable token_sign : P11Key -> Z -> list Z -> res text.
  Variable verify : text -> Z -> list Z -> text -> bool.
  Variable ds_hex : list Z -> text.

  (* ---------------- C04: validity window and identity of the key ---------------- *)
  Definition in_window (ksk : KskKey) (b : Bundle) : Prop :=
    kk_valid_from ksk <= b_inc b /\ match kk_valid_until ksk with Some u => b_exp b <= u | None => True end.

  Theorem used_key_in_window ksk ms ttl b public ck :
    load_pkcs11_key ksk ms ttl b public = OK (Some ck) -> in_window ksk b.
  Proof.
    unfold load_pkcs11_key, in_window. destruct (b_inc b <? kk_valid_from ksk) eqn:E1; [discriminate|].
    destruct (kk_valid_until ksk) as [u|]; [destruct (u <? b_exp b) eqn:E2; [discriminate|]|]; intros _; lia.
  Qed.

  (* outside the window the key is refused before the token is consulted at all (any token contents) *)
  Theorem outside_window_refused ksk ms ttl b public :
    ~ in_window ksk b -> load_pkcs11_key ksk ms ttl b public = Raise KeyUsagePolicy_Violation.
  Proof.
    unfold load_pkcs11_key, in_window. intros Hn.
    destruct (b_inc b <? kk_valid_from ksk) eqn:E1; [reflexivity|].
    destruct (kk_valid_until ksk) as [u|].
    - destruct (u <? b_exp b) eqn:E2; [reflexivity|]. exfalso. apply Hn. lia.
    - exfalso. apply Hn. lia.
  Qed.

  (* the boundary is inclusive on both ends *)
  Theorem window_boundary_inclusive ksk b :
    kk_valid_from ksk = b_inc b -> kk_valid_until ksk = Some (b_exp b) -> in_window ksk b.
  Proof. unfold in_window. intros -> ->. lia. Qed.

  Theorem used_key_matches_config ksk ms ttl b public ck :
    load_pkcs11_key ksk ms ttl b public = OK (Some ck) ->
    exists pubtxt, pk_pub (ck_p11 ck) = Some pubtxt /\ k_pubtxt (ck_dns ck) = pubtxt /\ k_pub (ck_dns ck) = pk_pubraw (ck_p11 ck) /\
      k_id (ck_dns ck) = kk_label ksk /\ k_alg (ck_dns ck) = kk_alg ksk /\ k_flags (ck_dns ck) = 257 /\ k_ttl (ck_dns ck) = ttl /\
      calculate_key_tag (ck_dns ck) = OK (k_tag (ck_dns ck)) /\
      ((pk_ktype (ck_p11 ck) = CKK_RSA /\ is_rsa (kk_alg ksk) = true /\
         exists r, rsa_decode (pk_pubraw (ck_p11 ck)) = OK r /\ kk_rsa_size ksk = Some (rsa_bits r) /\ kk_rsa_exp ksk = Some (rsa_e r)) \/
       (pk_ktype (ck_p11 ck) = CKK_EC /\ (is_ecdsa (kk_alg ksk) = true \/ is_eddsa (kk_alg ksk) = true))).
  Proof.
    unfold load_pkcs11_key. destruct (b_inc b <? kk_valid_from ksk); [discriminate|].
    destruct (match kk_valid_until ksk with Some u => u <? b_exp b | None => false end); [discriminate|].
    intros Hl. apply bind_ok_inv in Hl as (found0 & _ & Hl). destruct found0 as [f0|]; [|discriminate].
    apply bind_ok_inv in Hl as (found & _ & Hl). destruct (pk_pub found) as [pubtxt|] eqn:Epub; [|discriminate].
    apply bind_ok_inv in Hl as (recognised & Hrec & Hl). destruct recognised; cbn [negb] in Hl; [|discriminate].
    apply bind_ok_inv in Hl as (dns & Hdns & Hl). injection Hl as <-. cbn [ck_p11 ck_dns].
    unfold public_key_to_dnssec_key in Hdns. apply bind_ok_inv in Hdns as (_ & _ & Hdns).
    apply bind_ok_inv in Hdns as (t & Ht & Hdns). injection Hdns as <-. cbn [k_pubtxt k_pub k_id k_alg k_flags k_ttl k_tag].
    exists pubtxt. repeat split; auto.
    destruct (pk_ktype found =? CKK_RSA) eqn:Ek.
      + left. split; [lia|]. destruct (is_rsa (kk_alg ksk)); cbn [negb] in Hrec; [|discriminate]. split; [reflexivity|].
        apply bind_ok_inv in Hrec as (r & Hr & Hrec). exists r. split; [exact Hr|].
        destruct (kk_rsa_size ksk) as [sz|]; cbn in Hrec; [|discriminate].
        destruct (rsa_bits r =? sz) eqn:Es; cbn in Hrec; [|discriminate].
        destruct (kk_rsa_exp ksk) as [ex|]; cbn in Hrec; [|discriminate].
        destruct (rsa_e r =? ex) eqn:Ee; cbn in Hrec; [|discriminate].
        split; f_equal; lia.
      + destruct (pk_ktype found =? CKK_EC) eqn:Ek2; [|discriminate]. right. split; [lia|].
        destruct (is_ecdsa (kk_alg ksk)), (is_eddsa (kk_alg ksk)); cbn in Hrec; auto; discriminate.
  Qed.

  (* configured DS / key tag must equal those of the token's key *)
  Theorem identity_checked ksk dns :
    validate_dnskey_matches_ksk ds_hex ksk dns = OK tt ->
    (forall ds, kk_ds ksk = Some ds -> exists pre, ds_preimage dot dns = OK pre /\ ds = ds_hex pre) /\
    (forall t, kk_tag ksk = Some t -> k_tag dns = t).
  Proof.
    unfold validate_dnskey_matches_ksk. intros Hv. apply bind_ok_inv in Hv as ([] & H1 & H2). split.
    - intros ds Hds. rewrite Hds in H1. apply bind_ok_inv in H1 as (pre & Hp & H1). exists pre. split; [exact Hp|].
      destruct (text_eqb ds (ds_hex pre)) eqn:E; [apply text_eqb_spec; exact E|discriminate].
    - intros t Ht. rewrite Ht in H2. destruct (k_tag dns =? t) eqn:E; [lia|discriminate].
  Qed.

  (* a label that is on no token stops the run with a configuration error; nothing is signed with a guess *)
  Theorem missing_key_stops n rest b ms ttl kks public ksk :
    lookup_name n kks = Some ksk -> load_pkcs11_key ksk ms ttl b public = OK None ->
    fetch_keys ds_hex (n :: rest) b ms ttl kks public = Raise ConfigurationError.
  Proof. intros Hl Hn. cbn [fetch_keys]. rewrite Hl, Hn. reflexivity. Qed.

  Theorem fetched_keys_checked names : forall b ms ttl kks public cks,
    fetch_keys ds_hex names b ms ttl kks public = OK cks ->
    Forall2 (fun n ck => exists ksk, lookup_name n kks = Some ksk /\ load_pkcs11_key ksk ms ttl b public = OK (Some ck) /\
                                     validate_dnskey_matches_ksk ds_hex ksk (ck_dns ck) = OK tt) names cks.
  Proof.
    induction names as [|n rest IH]; intros b ms ttl kks public cks; cbn [fetch_keys].
    - intros [= <-]. constructor.
    - destruct (lookup_name n kks) as [ksk|] eqn:El; [|discriminate]. intros Hf.
      apply bind_ok_inv in Hf as (o & Ho & Hf). destruct o as [ck|]; [|discriminate].
      apply bind_ok_inv in Hf as ([] & Hv & Hf). apply bind_ok_inv in Hf as (more & Hm & Hf). injection Hf as <-.
      constructor; [exists ksk; auto|apply IH; exact Hm].
  Qed.

  (* ---------------- C01: fields of every signature the signer returns ---------------- *)
  Theorem signed_fields b keys sk ttl sn s :
    sign_keys Hh token_sign verify b keys sk ttl sn = OK s ->
    s_inc s = b_inc b /\ s_exp s = b_exp b /\ s_ttl s = ttl /\ s_ottl s = ttl /\ s_name s = dot /\ s_labels s = 0 /\
    s_type s = TYPE_DNSKEY /\ s_alg s = k_alg (ck_dns sk) /\ s_id s = k_id (ck_dns sk) /\
    (exists dk, kts_get (k_id (ck_dns sk)) keys = Some dk /\ s_tag s = k_tag dk) /\
    Forall (fun k => k_ttl k = ttl) keys /\
    exists raw pubtxt, make_raw_rrsig (mkSig (s_id s) ttl TYPE_DNSKEY (s_alg s) 0 ttl (b_exp b) (b_inc b) (s_tag s) sn [] []) keys = OK raw /\
      pk_pub (ck_p11 sk) = Some pubtxt /\ verify pubtxt (s_alg s) raw (s_datatxt s) = true /\
      sign_using_p11 Hh token_sign (ck_p11 sk) raw (s_alg s) = OK (s_datatxt s).
  Proof.
    unfold sign_keys. destruct (forallb (fun k => k_ttl k =? ttl) keys) eqn:Ettl; cbn [negb]; [|discriminate].
    destruct (kts_get (k_id (ck_dns sk)) keys) as [dk|] eqn:Eg; [|discriminate].
    destruct (text_eqb sn dot) eqn:Esn; cbn [negb]; [|discriminate]. apply text_eqb_spec in Esn.
    intros Hs. apply bind_ok_inv in Hs as (raw & Hraw & Hs). apply bind_ok_inv in Hs as (sigtxt & Hsig & Hs).
    destruct (pk_pub (ck_p11 sk)) as [pubtxt|] eqn:Ep; [|discriminate].
    destruct (verify pubtxt (k_alg (ck_dns sk)) raw sigtxt) eqn:Ev; [|discriminate]. injection Hs as <-.
    cbn [s_inc s_exp s_ttl s_ottl s_name s_labels s_type s_alg s_id s_tag s_datatxt].
    repeat split; auto.
    - exists dk. auto.
    - apply Forall_forall. intros k Hk. rewrite forallb_forall in Ettl. specialize (Ettl k Hk). lia.
    - exists raw, pubtxt. repeat split; auto.
  Qed.

  (* ---------------- C02: the key set of a response bundle ---------------- *)
  Lemma kts_add_ttl ttl keys k : Forall (fun x => k_ttl x = ttl) keys -> Forall (fun x => k_ttl x = ttl) (kts_add ttl keys k).
  Proof.
    intros Hf. unfold kts_add. destruct (existsb _ keys); [exact Hf|].
    apply Forall_app; split; [exact Hf|]. constructor; [reflexivity|constructor].
  Qed.
  Definition with_ttl (ttl : Z) (k : Key) : Key := mkKey (k_id k) (k_tag k) ttl (k_flags k) (k_proto k) (k_alg k) (k_pubtxt k) (k_pub k).

  Lemma kts_add_in ttl keys k x : In x (kts_add ttl keys k) -> In x keys \/ x = with_ttl ttl k.
  Proof.
    unfold kts_add. destruct (existsb _ keys); [auto|]. intros Hin. apply in_app_or in Hin as [Hin|[<-|[]]]; auto.
  Qed.
  Lemma kts_add_keeps ttl keys k x : In x keys -> In x (kts_add ttl keys k).
  Proof. unfold kts_add. destruct (existsb _ keys); [auto|]. intros Hin. apply in_or_app; auto. Qed.
  Lemma kts_add_has_pub ttl keys k : exists x, In x (kts_add ttl keys k) /\ k_pubtxt x = k_pubtxt k.
  Proof.
    unfold kts_add. destruct (existsb (fun x => text_eqb (k_pubtxt x) (k_pubtxt k)) keys) eqn:E.
    - apply existsb_exists in E as (x & Hx & Ex). apply text_eqb_spec in Ex. eauto.
    - exists (with_ttl ttl k). split; [apply in_or_app; right; left; reflexivity|reflexivity].
  Qed.
  Lemma kts_add_nodup ttl keys k : NoDup (map k_pubtxt keys) -> NoDup (map k_pubtxt (kts_add ttl keys k)).
  Proof.
    intros Hnd. unfold kts_add. destruct (existsb (fun x => text_eqb (k_pubtxt x) (k_pubtxt k)) keys) eqn:E; [exact Hnd|].
    rewrite map_app. cbn [map k_pubtxt]. apply NoDup_snoc; [exact Hnd|].
    intros Hin. apply in_map_iff in Hin as (x & Ex & Hx).
    assert (existsb (fun x => text_eqb (k_pubtxt x) (k_pubtxt k)) keys = true); [|congruence].
    apply existsb_exists. exists x. split; [exact Hx|]. apply text_eqb_spec. exact Ex.
  Qed.

  Lemma remove_first_sub pt keys x : In x (remove_first_pub pt keys) -> In x keys.
  Proof.
    induction keys as [|y t IH]; cbn; [auto|]. destruct (text_eqb (k_pubtxt y) pt); [auto|]. intros [<-|Hin]; auto.
  Qed.
  Lemma remove_first_ttl ttl pt keys : Forall (fun x => k_ttl x = ttl) keys -> Forall (fun x => k_ttl x = ttl) (remove_first_pub pt keys).
  Proof. intros Hf. apply Forall_forall. intros x Hx. rewrite Forall_forall in Hf. apply Hf. eapply remove_first_sub; exact Hx. Qed.
  Lemma remove_first_nodup pt keys : NoDup (map k_pubtxt keys) -> NoDup (map k_pubtxt (remove_first_pub pt keys)).
  Proof.
    induction keys as [|y t IH]; cbn; [auto|]. intros Hnd. inversion Hnd as [|? ? Hni Hnd']; subst.
    destruct (text_eqb (k_pubtxt y) pt); [exact Hnd'|]. cbn. constructor; [|apply IH; exact Hnd'].
    intros Hin. apply Hni. apply in_map_iff in Hin as (x & Ex & Hx). apply in_map_iff. exists x. split; [exact Ex|].
    eapply remove_first_sub; exact Hx.
  Qed.

  (* invariant of the KeysToSign container: every key carries the configured TTL, public keys are unique *)
  Definition kts_inv (ttl : Z) (keys : list Key) : Prop :=
    Forall (fun x => k_ttl x = ttl) keys /\ NoDup (map k_pubtxt keys).
  Lemma kts_inv_nil ttl : kts_inv ttl [].
  Proof. split; constructor. Qed.
  Lemma kts_inv_add ttl keys k : kts_inv ttl keys -> kts_inv ttl (kts_add ttl keys k).
  Proof. intros [H1 H2]. split; [apply kts_add_ttl; exact H1|apply kts_add_nodup; exact H2]. Qed.
  Lemma kts_inv_update ttl keys k : kts_inv ttl keys -> kts_inv ttl (kts_update ttl keys k).
  Proof.
    intros [H1 H2]. unfold kts_update. apply kts_inv_add. split; [apply remove_first_ttl; exact H1|apply remove_first_nodup; exact H2].
  Qed.
  Lemma kts_inv_fold_add ttl (l : list Key) : forall keys, kts_inv ttl keys -> kts_inv ttl (fold_left (kts_add ttl) l keys).
  Proof. induction l as [|k l IH]; intros keys Hi; cbn; [exact Hi|]. apply IH, kts_inv_add, Hi. Qed.
  Lemma kts_inv_fold_add_ck ttl (l : list CompositeKey) : forall keys, kts_inv ttl keys ->
    kts_inv ttl (fold_left (fun acc ck => kts_add ttl acc (ck_dns ck)) l keys).
  Proof. induction l as [|k l IH]; intros keys Hi; cbn; [exact Hi|]. apply IH, kts_inv_add, Hi. Qed.

  Lemma fold_add_keeps ttl (l : list Key) : forall keys x, In x keys -> In x (fold_left (kts_add ttl) l keys).
  Proof. induction l as [|k l IH]; intros keys x Hx; cbn; [exact Hx|]. apply IH, kts_add_keeps, Hx. Qed.
  Lemma fold_add_has_pub ttl (l : list Key) : forall keys z, In z l -> exists x, In x (fold_left (kts_add ttl) l keys) /\ k_pubtxt x = k_pubtxt z.
  Proof.
    induction l as [|k l IH]; intros keys z Hz; [destruct Hz|]. cbn [fold_left]. destruct Hz as [->|Hz].
    - destruct (kts_add_has_pub ttl keys z) as (x & Hx & Ex). exists x. split; [apply fold_add_keeps; exact Hx|exact Ex].
    - apply IH; exact Hz.
  Qed.

  Lemma dedup_sub l s : In s (dedup_sigs l) -> In s l.
  Proof.
    induction l as [|x t IH]; cbn; [auto|]. destruct (existsb (sig_eqb x) t); [intros H; right; apply IH; exact H|].
    intros [<-|H]; [left; reflexivity|right; apply IH; exact H].
  Qed.
  Lemma sign_all_in b keys ttl sn sks : forall sigs s,
    sign_all Hh token_sign verify b keys sks ttl sn = OK sigs -> In s sigs ->
    exists sk, In sk sks /\ sign_keys Hh token_sign verify b keys sk ttl sn = OK s.
  Proof.
    induction sks as [|sk rest IH]; intros sigs s; cbn [sign_all].
    - intros [= <-] [].
    - intros Hs Hin. apply bind_ok_inv in Hs as (s0 & H0 & Hs). apply bind_ok_inv in Hs as (more & Hm & Hs). injection Hs as <-.
      destruct Hin as [<-|Hin]; [exists sk; split; [left; reflexivity|exact H0]|].
      destruct (IH more s Hm Hin) as (sk' & Hsk & Hk). exists sk'. split; [right; exact Hsk|exact Hk].
  Qed.
  Lemma revoke_loop_inv ttl : forall (revs : list CompositeKey) acc k2,
    (fix go (l : list CompositeKey) (acc : list Key) : res (list Key) :=
       match l with
       | [] => OK acc
       | ck :: t => bind (as_revoked (ck_dns ck)) (fun rk => go t (kts_update ttl acc rk))
       end) revs acc = OK k2 -> kts_inv ttl acc -> kts_inv ttl k2.
  Proof.
    induction revs as [|ck t IH]; intros acc k2; [intros [= <-]; auto|].
    intros Hg Hi. apply bind_ok_inv in Hg as (rk & _ & Hg). eapply IH; [exact Hg|]. apply kts_inv_update; exact Hi.
  Qed.

  (* ---------------- C02 / C01 on a whole response bundle ---------------- *)
  Theorem response_bundle_facts i b schema ms ttl sn kks validate rb :
    sign_bundle Hh token_sign verify ds_hex i b schema ms ttl sn kks validate = OK rb ->
    (* header copied *)
    b_id rb = b_id b /\ b_inc rb = b_inc b /\ b_exp rb = b_exp b /\
    (* every key carries the configured TTL; public keys unique *)
    kts_inv ttl (b_keys rb) /\
    (* every ZSK of the request is in the signed set *)
    (forall z, In z (b_keys b) -> exists x, In x (b_keys rb) /\ k_pubtxt x = k_pubtxt z) /\
    (* ZSK and signature algorithm sets agree *)
    alg_set (map k_alg (b_keys b)) = alg_set (map s_alg (b_sigs rb)) /\
    (* every signature has the bundle's times, the configured TTL, signer '.', zero labels, the tag of the key as published *)
    (forall s, In s (b_sigs rb) ->
       s_inc s = b_inc b /\ s_exp s = b_exp b /\ s_ttl s = ttl /\ s_ottl s = ttl /\ s_name s = dot /\ s_labels s = 0 /\ s_type s = TYPE_DNSKEY /\
       exists dk, kts_get (s_id s) (b_keys rb) = Some dk /\ s_tag s = k_tag dk) /\
    (* with response validation on: every signature verifies over the RFC 4034 data of ALL published keys, by the published key it names *)
    (validate = true -> forall s, In s (b_sigs rb) ->
       exists key tbs, In key (b_keys rb) /\ k_id key = s_id s /\ rfc4034_signature_data s (b_keys rb) tbs /\
                       verify (k_pubtxt key) (k_alg key) tbs (s_datatxt s) = true).
  Proof.
    unfold sign_bundle. destruct (lookup_slot i schema) as [act|]; [|discriminate]. intros Hb.
    apply bind_ok_inv in Hb as (pubs & _ & Hb). apply bind_ok_inv in Hb as (revs & _ & Hb).
    apply bind_ok_inv in Hb as (k2 & Hk2 & Hb). apply bind_ok_inv in Hb as (sks & _ & Hb).
    apply bind_ok_inv in Hb as (sigs0 & Hsig & Hb).
    set (k1 := fold_left (fun acc ck => kts_add ttl acc (ck_dns ck)) pubs []) in *.
    set (k3 := fold_left (fun acc ck => kts_add ttl acc (ck_dns ck)) sks k2) in *.
    set (k4 := fold_left (kts_add ttl) (b_keys b) k3) in *.
    destruct (lz_eqb' _ _) eqn:Ealg; cbn [negb] in Hb; [|discriminate].
    apply bind_ok_inv in Hb as ([] & Hval & Hb). injection Hb as <-.
    cbn [b_id b_inc b_exp b_keys b_sigs].
    assert (Hinv : kts_inv ttl k4).
    { apply kts_inv_fold_add, kts_inv_fold_add_ck. eapply revoke_loop_inv; [exact Hk2|]. apply kts_inv_fold_add_ck, kts_inv_nil. }
    split; [reflexivity|]. split; [reflexivity|]. split; [reflexivity|]. split; [exact Hinv|].
    split. { intros z Hz. apply fold_add_has_pub; exact Hz. }
    split. { unfold lz_eqb' in Ealg. apply text_eqb_spec in Ealg. exact Ealg. }
    split.
    { intros sg Hs. apply dedup_sub in Hs. destruct (sign_all_in _ _ _ _ _ _ _ Hsig Hs) as (sk & _ & Hk).
      apply signed_fields in Hk as (A1 & A2 & A3 & A4 & A5 & A6 & A7 & A8 & A9 & (dk & Hdk & Htag) & _).
      split; [exact A1|]. split; [exact A2|]. split; [exact A3|]. split; [exact A4|]. split; [exact A5|]. split; [exact A6|]. split; [exact A7|].
      exists dk. rewrite A9. auto. }
    intros -> sg Hs. unfold check_valid_signatures in Hval. cbn [negb] in Hval.
    destruct (validate_signatures (response_verify verify) _) as [[]|c] eqn:Ev.
    2:{ destruct (c =? InvalidSignature); discriminate. }
    apply validate_signatures_iff in Ev as (_ & _ & _ & Hall). cbn [b_keys b_sigs] in Hall.
    destruct (Hall sg Hs) as (key & tbs & K1 & K2 & _ & K4 & K5). exists key, tbs.
    split; [exact K1|]. split; [exact K2|]. split; [apply make_raw_rrsig_is_rfc; exact K4|exact K5].
  Qed.

  (* refusal when the algorithm sets of a bundle's ZSKs and of its signatures differ *)
  Theorem alg_mismatch_refused i b schema ms ttl sn kks validate rb :
    sign_bundle Hh token_sign verify ds_hex i b schema ms ttl sn kks validate = OK rb ->
    forall a, In a all_algorithms -> (mem a (map k_alg (b_keys b)) = mem a (map s_alg (b_sigs rb))).
  Proof.
    intros Hb a Ha. apply response_bundle_facts in Hb as (_ & _ & _ & _ & _ & Hset & _).
    unfold alg_set in Hset.
    assert (G : forall l1 l2 univ, filter (fun a => mem a l1) univ = filter (fun a => mem a l2) univ -> forall a, In a univ -> mem a l1 = mem a l2).
    { clear. induction univ as [|u t IH]; intros Hf a []; cbn [filter] in Hf.
      - subst u. destruct (mem a l1) eqn:E1, (mem a l2) eqn:E2; auto.
        + exfalso. assert (In a (filter (fun a => mem a l2) t)) by (rewrite <- Hf; left; reflexivity).
          apply filter_In in H as [_ H]. congruence.
        + exfalso. assert (In a (filter (fun a => mem a l1) t)) by (rewrite Hf; left; reflexivity).
          apply filter_In in H as [_ H]. congruence.
      - apply IH; auto. destruct (mem u l1) eqn:E1, (mem u l2) eqn:E2; try (injection Hf; auto); auto.
        + exfalso. assert (In u (filter (fun a => mem a l2) t)) by (rewrite <- Hf; left; reflexivity).
          apply filter_In in H0 as [_ H0]. congruence.
        + exfalso. assert (In u (filter (fun a => mem a l1) t)) by (rewrite Hf; left; reflexivity).
          apply filter_In in H0 as [_ H0]. congruence. }
    eapply G; eauto.
  Qed.

  (* all slots: the facts hold for every bundle of the response, for any number of bundles *)
  Theorem sign_bundles_all bs : forall i schema ms ttl sn kks validate rbs,
    sign_bundles_from Hh token_sign verify ds_hex i bs schema ms ttl sn kks validate = OK rbs ->
    Forall2 (fun b rb => exists j, sign_bundle Hh token_sign verify ds_hex j b schema ms ttl sn kks validate = OK rb) bs rbs.
  Proof.
    induction bs as [|b rest IH]; intros i schema ms ttl sn kks validate rbs; cbn [sign_bundles_from].
    - intros [= <-]. constructor.
    - intros Hs. apply bind_ok_inv in Hs as (rb & Hrb & Hs). apply bind_ok_inv in Hs as (more & Hm & Hs). injection Hs as <-.
      constructor; [exists i; exact Hrb|eapply IH; exact Hm].
  Qed.
End SignProofs.
