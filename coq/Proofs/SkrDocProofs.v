(* C11: what the SKR writer emits is what the SKR loader reads, at the level of the parsed document (Model.SkrDoc). *)
From KV Require Import Base.Prelude Base.Exn Base.Bytes Model.Data Model.Xml Model.Duration Model.Datetime Model.SkrDoc
  Proofs.TokenProofs Proofs.DurationProofs Proofs.DatetimeProofs.

(* ---------------- the dict built by _store_element ---------------- *)
Definition nl (v : val) : Prop := is_list v = false.
Definition collect (d : list (text * val)) (k : text) : list val := match lookup k d with None => [] | Some v => as_list v end.
Definition good (d : list (text * val)) : Prop := forall k l, lookup k d = Some (VList l) -> (2 <= length l)%nat.

Lemma as_list_nl v : nl v -> as_list v = [v].
Proof. destruct v; cbn; intros H; try reflexivity. discriminate H. Qed.

Lemma lookup_store_same n v d : nl v ->
  lookup n (store n v d) = Some (match lookup n d with None => v | Some (VList l) => VList (l ++ [v]) | Some old => VList [old; v] end).
Proof.
  intros Hv. induction d as [|[k old] t IH]; cbn [store lookup].
  - rewrite text_eqb_refl. reflexivity.
  - destruct (text_eqb k n) eqn:E.
    + cbn [lookup]. rewrite E. destruct old; reflexivity.
    + cbn [lookup]. rewrite E. exact IH.
Qed.

Lemma lookup_store_other n k v d : text_eqb k n = false -> lookup n (store k v d) = lookup n d.
Proof.
  intros Hne. induction d as [|[k' old] t IH]; cbn [store lookup].
  - rewrite Hne. reflexivity.
  - destruct (text_eqb k' k) eqn:E.
    + cbn [lookup]. apply text_eqb_spec in E. subst k'. rewrite Hne. reflexivity.
    + cbn [lookup]. destruct (text_eqb k' n); [reflexivity|exact IH].
Qed.

Lemma collect_store n v d k : nl v -> collect (store n v d) k = if text_eqb n k then collect d k ++ [v] else collect d k.
Proof.
  intros Hv. unfold collect. destruct (text_eqb n k) eqn:E.
  - apply text_eqb_spec in E. subst k. rewrite lookup_store_same by exact Hv.
    destruct (lookup n d) as [old|]; [|cbn; apply as_list_nl; exact Hv].
    destruct old; cbn; reflexivity.
  - rewrite lookup_store_other by exact E. reflexivity.
Qed.

Lemma good_store n v d : nl v -> good d -> good (store n v d).
Proof.
  intros Hv Hg k l Hl. destruct (text_eqb n k) eqn:E.
  - apply text_eqb_spec in E. subst k. rewrite lookup_store_same in Hl by exact Hv.
    destruct (lookup n d) as [old|] eqn:Eo.
    + destruct old; injection Hl as <-; cbn [length]; try lia.
      specialize (Hg n l0 Eo). rewrite app_length. cbn. lia.
    + injection Hl as ->. discriminate Hv.
  - rewrite lookup_store_other in Hl by exact E. eapply Hg; exact Hl.
Qed.

Definition vals_named (k : text) (cs : list (text * val)) : list val := map snd (filter (fun kv => text_eqb (fst kv) k) cs).

Definition build (cs : list (text * val)) (d0 : list (text * val)) := fold_left (fun d kv => store (fst kv) (snd kv) d) cs d0.

Lemma build_collect cs : Forall (fun kv => nl (snd kv)) cs -> forall d0 k, collect (build cs d0) k = collect d0 k ++ vals_named k cs.
Proof.
  induction cs as [|[n v] t IH]; intros Hf d0 k; cbn [build fold_left vals_named filter map].
  - rewrite List.app_nil_r. reflexivity.
  - inversion Hf as [|? ? Hv Ht]; subst. cbn [fst snd] in *. fold (build t (store n v d0)). rewrite IH by exact Ht.
    rewrite collect_store by exact Hv. unfold vals_named. destruct (text_eqb n k); cbn [map]; [rewrite <- app_assoc; reflexivity|reflexivity].
Qed.

Lemma build_good cs : Forall (fun kv => nl (snd kv)) cs -> forall d0, good d0 -> good (build cs d0).
Proof.
  induction cs as [|[n v] t IH]; intros Hf d0 Hg; cbn [build fold_left]; [exact Hg|].
  inversion Hf as [|? ? Hv Ht]; subst. apply IH; [exact Ht|]. apply good_store; assumption.
Qed.

Lemma good_nil : good [].
Proof. intros k l H. discriminate H. Qed.

(* a name that occurs once: the child itself; a name that occurs n >= 1 times: its occurrences in order (as_list) *)
Lemma child_single cs k v : Forall (fun kv => nl (snd kv)) cs -> vals_named k cs = [v] -> child (node cs) k = OK v.
Proof.
  intros Hf Hv. unfold child, node. fold (build cs []).
  pose proof (build_collect cs Hf [] k) as Hc. pose proof (build_good cs Hf [] good_nil) as Hg.
  unfold collect in Hc. cbn [lookup] in Hc. rewrite Hv in Hc. cbn [app] in Hc.
  destruct (lookup k (build cs [])) as [x|] eqn:El; [|discriminate Hc].
  destruct x as [s|d|a x|l]; cbn [as_list] in Hc; try (injection Hc as <-; reflexivity).
  subst l. specialize (Hg k [v] El). cbn in Hg. lia.
Qed.

Lemma child_multi cs k v rest : Forall (fun kv => nl (snd kv)) cs -> vals_named k cs = v :: rest ->
  exists x, child (node cs) k = OK x /\ as_list x = v :: rest.
Proof.
  intros Hf Hv. unfold child, node. fold (build cs []).
  pose proof (build_collect cs Hf [] k) as Hc. unfold collect in Hc. cbn [lookup] in Hc. rewrite Hv in Hc. cbn [app] in Hc.
  destruct (lookup k (build cs [])) as [x|] eqn:El; [|discriminate Hc]. exists x. auto.
Qed.

Lemma vals_named_app k a b : vals_named k (a ++ b) = vals_named k a ++ vals_named k b.
Proof. unfold vals_named. rewrite filter_app, map_app. reflexivity. Qed.
Lemma vals_named_map_same {A} k (f : A -> val) l : vals_named k (map (fun x => (k, f x)) l) = map f l.
Proof. unfold vals_named. induction l as [|x t IH]; [reflexivity|]. cbn [map filter fst]. rewrite text_eqb_refl. cbn [map snd]. f_equal. exact IH. Qed.
Lemma vals_named_map_other {A} k n (f : A -> val) l : text_eqb n k = false -> vals_named k (map (fun x => (n, f x)) l) = [].
Proof. intros H. unfold vals_named. induction l as [|x t IH]; [reflexivity|]. cbn [map filter fst]. rewrite H. exact IH. Qed.

(* ---------------- leaves ---------------- *)
Lemma int_body_digits s : forall acc, forallb is_digit s = true -> int_body s false acc = Some (rev acc ++ s).
Proof.
  induction s as [|c t IH]; intros acc H; cbn [int_body]; [rewrite List.app_nil_r; reflexivity|].
  cbn [forallb] in H. apply andb_true_iff in H as [Hc Ht]. rewrite Hc. rewrite IH by exact Ht. cbn [rev]. rewrite <- app_assoc. reflexivity.
Qed.

Lemma digit_not_ws c : is_digit c = true -> int_ws c = false.
Proof. unfold is_digit, int_ws. intros H. lia. Qed.
Lemma digit_ok c : is_digit c = true -> int_char_ok c = true.
Proof. unfold int_char_ok. intros ->. reflexivity. Qed.

Lemma py_int_dec n : 0 <= n -> py_int (dec n) = Some n.
Proof.
  intros Hn. unfold py_int. pose proof (dec_digits n) as Hd. pose proof (dec_nonempty n) as Hne.
  assert (Hok : forallb int_char_ok (dec n) = true).
  { apply forallb_forall. intros c Hc. apply digit_ok. rewrite forallb_forall in Hd. apply Hd. exact Hc. }
  rewrite Hok.
  assert (Hdrop : forall s, forallb is_digit s = true -> s <> [] -> drop_ws s = s).
  { intros s Hs Hs0. destruct s as [|c t]; [contradiction|]. cbn [drop_ws]. cbn [forallb] in Hs. apply andb_true_iff in Hs as [Hc _]. rewrite (digit_not_ws c Hc). reflexivity. }
  assert (Hrev : forallb is_digit (rev (dec n)) = true).
  { apply forallb_forall. intros c Hc. apply in_rev in Hc. rewrite forallb_forall in Hd. apply Hd. exact Hc. }
  rewrite (Hdrop (dec n) Hd Hne).
  assert (Hrne : rev (dec n) <> []). { intros E. apply (f_equal (@rev Z)) in E. rewrite rev_involutive in E. cbn in E. contradiction. }
  rewrite (Hdrop (rev (dec n)) Hrev Hrne). rewrite rev_involutive.
  destruct (dec n) as [|c t] eqn:Ed; [contradiction|].
  assert (Hc : is_digit c = true) by (cbn [forallb] in Hd; apply andb_true_iff in Hd as [Hc _]; exact Hc).
  assert (c <> 43 /\ c <> 45) as [H43 H45] by (unfold is_digit in Hc; lia).
  destruct (Z.eq_dec c 43) as [->|_]; [contradiction|]. destruct (Z.eq_dec c 45) as [->|_]; [contradiction|].
  assert (Hbody : (let (neg, body) := match c :: t with 43 :: b => (false, b) | 45 :: b => (true, b) | _ => (false, c :: t) end in
                   match body with [] => None | _ :: _ => match int_body body false [] with
                     | Some ds => match ds with [] => None | _ :: _ => Some (if neg then - int_of_digits ds else int_of_digits ds) end | None => None end end)
                  = Some n).
  { assert (Hm : match c :: t with 43 :: b => (false, b) | 45 :: b => (true, b) | _ => (false, c :: t) end = (false, c :: t)).
    { destruct c as [|p|p]; try reflexivity. do 6 (destruct p as [p|p|]; try reflexivity); lia. }
    rewrite Hm. rewrite int_body_digits by exact Hd. cbn [rev app]. rewrite <- Ed. rewrite int_of_dec by exact Hn. reflexivity. }
  exact Hbody.
Qed.

(* ---------------- well-formed responses: what a parsed KSR and the signer can produce ---------------- *)
Definition wf_time (us : Z) : Prop := us mod 1000000 = 0 /\ min_seconds <= us / 1000000 <= max_seconds.
Definition wf_dur (us : Z) : Prop := 0 <= us /\ us mod 1000000 = 0.
Definition rsa_alg (a : Z) : bool := (a =? RSASHA1) || (a =? RSASHA256) || (a =? RSASHA512) || (a =? RSAMD5) || (a =? RSASHA1_NSEC3_SHA1).
Definition wf_alg (a : AlgPolicy) : Prop := match a with APRsa alg bits e => rsa_alg alg = true /\ 0 <= bits /\ 0 <= e | _ => False end.
Definition wf_policy (p : SigPolicy) : Prop :=
  wf_dur (sp_publish_safety p) /\ wf_dur (sp_retire_safety p) /\ wf_dur (sp_max_validity p) /\ wf_dur (sp_min_validity p) /\
  wf_dur (sp_max_overlap p) /\ wf_dur (sp_min_overlap p) /\ sp_algs p <> [] /\ Forall wf_alg (sp_algs p).

Section RoundTrip.
  Variable b64 : text -> list Z.

  Definition wf_key (k : Key) : Prop :=
    0 <= k_tag k /\ 0 <= k_ttl k /\ 0 <= k_flags k /\ 0 <= k_proto k /\ 0 <= k_alg k /\ k_pub k = b64 (k_pubtxt k).
  Definition wf_sig (s : Sig) : Prop :=
    0 <= s_ttl s /\ 0 <= s_alg s /\ 0 <= s_labels s /\ 0 <= s_ottl s /\ 0 <= s_tag s /\ wf_time (s_exp s) /\ wf_time (s_inc s) /\
    s_type s = TYPE_DNSKEY /\ s_data s = b64 (s_datatxt s).
  Definition wf_bundle (b : Bundle) : Prop :=
    wf_time (b_inc b) /\ wf_time (b_exp b) /\ b_keys b <> [] /\ Forall wf_key (b_keys b) /\ b_sigs b <> [] /\ Forall wf_sig (b_sigs b) /\ b_signers b = None.
  Definition wf_response (r : Response) : Prop :=
    0 <= rs_serial r /\ wf_policy (rs_ksk r) /\ wf_policy (rs_zsk r) /\ rs_bundles r <> [] /\ Forall wf_bundle (rs_bundles r).

  Lemma int_of_dec_ok n : 0 <= n -> int_of (dec n) = OK n.
  Proof. intros H. unfold int_of. rewrite py_int_dec by exact H. reflexivity. Qed.

  Lemma datetime_roundtrip us : wf_time us -> datetime_of (format_datetime us) = OK us.
  Proof.
    intros [Hm Hr]. unfold datetime_of. rewrite format_datetime_states_the_instant by exact Hr. f_equal.
    assert (us = 1000000 * (us / 1000000) + us mod 1000000) by (apply Z.div_mod; lia). lia.
  Qed.

  Lemma all_nl_cons n v cs : nl v -> Forall (fun kv : text * val => nl (snd kv)) cs -> Forall (fun kv : text * val => nl (snd kv)) ((n, v) :: cs).
  Proof. intros; constructor; assumption. Qed.

  Ltac nl_children := repeat (apply all_nl_cons; [reflexivity|]); try apply Forall_nil.

  Lemma child_str_at cs k s : Forall (fun kv => nl (snd kv)) cs -> vals_named k cs = [VStr s] -> child_str (node cs) k = OK s.
  Proof. intros Hf Hv. unfold child_str. rewrite (child_single cs k (VStr s) Hf Hv). reflexivity. Qed.
  Lemma child_int_at cs k n : Forall (fun kv => nl (snd kv)) cs -> vals_named k cs = [VStr (dec n)] -> 0 <= n -> child_int (node cs) k = OK n.
  Proof. intros Hf Hv Hn. unfold child_int. rewrite (child_str_at cs k (dec n) Hf Hv). cbn [bind]. apply int_of_dec_ok. exact Hn. Qed.

  Theorem key_roundtrip k : wf_key k -> key_of_val b64 (key_val k) = OK k.
  Proof.
    intros (H1 & H2 & H3 & H4 & H5 & H6). destruct k as [id tag ttl fl pr alg ptxt pub]. cbn [k_id k_tag k_ttl k_flags k_proto k_alg k_pubtxt k_pub] in *.
    unfold key_of_val, key_val. cbn [k_id k_tag k_ttl k_flags k_proto k_alg k_pubtxt k_pub]. unfold attr at 1. cbn [attrs_of bind alookup]. rewrite text_eqb_refl. cbn [bind].
    unfold attr. cbn [attrs_of bind alookup]. replace (text_eqb a_keyIdentifier a_keyTag) with false by reflexivity. rewrite text_eqb_refl. cbn [bind].
    rewrite int_of_dec_ok by exact H1. cbn [bind value_of].
    set (cs := [(nTTL, VStr (dec ttl)); (nFlags, VStr (dec fl)); (nProtocol, VStr (dec pr)); (nAlgorithm, VStr (dec alg)); (nPublicKey, VStr ptxt)]).
    assert (Hf : Forall (fun kv : text * val => nl (snd kv)) cs) by (subst cs; nl_children).
    rewrite (child_int_at cs nTTL ttl Hf eq_refl H2). cbn [bind].
    rewrite (child_int_at cs nFlags fl Hf eq_refl H3). cbn [bind].
    rewrite (child_int_at cs nProtocol pr Hf eq_refl H4). cbn [bind].
    rewrite (child_int_at cs nAlgorithm alg Hf eq_refl H5). cbn [bind].
    rewrite (child_str_at cs nPublicKey ptxt Hf eq_refl). cbn [bind]. rewrite <- H6. reflexivity.
  Qed.

  Theorem sig_roundtrip sg : wf_sig sg -> sig_of_val b64 (sig_val sg) = OK sg.
  Proof.
    intros (H1 & H2 & H3 & H4 & H5 & H6 & H7 & H8 & H9). destruct sg as [id ttl ty alg lab ottl ex inc tag sn dtxt data].
    cbn [s_id s_ttl s_type s_alg s_labels s_ottl s_exp s_inc s_tag s_name s_datatxt s_data] in *.
    unfold sig_of_val, sig_val. cbn [s_id s_ttl s_type s_alg s_labels s_ottl s_exp s_inc s_tag s_name s_datatxt s_data].
    cbn [attrs_of bind alookup value_of]. rewrite text_eqb_refl.
    set (cs := [(nTTL, VStr (dec ttl)); (nTypeCovered, VStr DNSKEY_name); (nAlgorithm, VStr (dec alg)); (nLabels, VStr (dec lab)); (nOriginalTTL, VStr (dec ottl));
                (nSignatureExpiration, VStr (format_datetime ex)); (nSignatureInception, VStr (format_datetime inc));
                (nKeyTag, VStr (dec tag)); (nSignersName, VStr sn); (nSignatureData, VStr dtxt)]).
    assert (Hf : Forall (fun kv : text * val => nl (snd kv)) cs) by (subst cs; nl_children).
    rewrite (child_int_at cs nTTL ttl Hf eq_refl H1). cbn [bind].
    rewrite (child_str_at cs nTypeCovered DNSKEY_name Hf eq_refl). cbn [bind]. rewrite text_eqb_refl. cbn [negb].
    rewrite (child_int_at cs nAlgorithm alg Hf eq_refl H2). cbn [bind].
    rewrite (child_int_at cs nLabels lab Hf eq_refl H3). cbn [bind].
    rewrite (child_int_at cs nOriginalTTL ottl Hf eq_refl H4). cbn [bind].
    rewrite (child_str_at cs nSignatureExpiration (format_datetime ex) Hf eq_refl). cbn [bind]. rewrite (datetime_roundtrip ex H6). cbn [bind].
    rewrite (child_str_at cs nSignatureInception (format_datetime inc) Hf eq_refl). cbn [bind]. rewrite (datetime_roundtrip inc H7). cbn [bind].
    rewrite (child_int_at cs nKeyTag tag Hf eq_refl H5). cbn [bind].
    rewrite (child_str_at cs nSignersName sn Hf eq_refl). cbn [bind].
    rewrite (child_str_at cs nSignatureData dtxt Hf eq_refl). cbn [bind]. rewrite <- H8, <- H9. reflexivity.
  Qed.

  Lemma map_res_map {A B} (f : B -> res A) (g : A -> B) l : (forall x, In x l -> f (g x) = OK x) -> map_res f (map g l) = OK l.
  Proof.
    induction l as [|x t IH]; intros H; [reflexivity|]. cbn [map map_res]. rewrite (H x (or_introl eq_refl)). cbn [bind].
    rewrite IH by (intros y Hy; apply H; right; exact Hy). reflexivity.
  Qed.

  Lemma insert_key_in k l x : In x (insert_key k l) <-> x = k \/ In x l.
  Proof.
    induction l as [|y t IH]; cbn [insert_key]; [cbn; intuition|]. destruct (k_tag k <=? k_tag y); cbn [In]; [intuition|]. rewrite IH. intuition.
  Qed.
  Lemma sort_keys_in l x : In x (sort_keys l) <-> In x l.
  Proof. induction l as [|y t IH]; cbn [sort_keys fold_right]; [tauto|]. fold (sort_keys t). rewrite insert_key_in, IH. cbn [In]. intuition. Qed.
  Lemma sort_keys_nonempty l : l <> [] -> sort_keys l <> [].
  Proof.
    destruct l as [|y t]; [contradiction|]. intros _ E. assert (In y (sort_keys (y :: t))) by (apply sort_keys_in; left; reflexivity). rewrite E in H. destruct H.
  Qed.

  Lemma all_nl_map {A} n (f : A -> val) l : (forall x, nl (f x)) -> Forall (fun kv : text * val => nl (snd kv)) (map (fun x => (n, f x)) l).
  Proof. intros H. apply Forall_forall. intros kv Hk. apply in_map_iff in Hk as (x & <- & _). apply H. Qed.

  Definition canon_bundle (b : Bundle) : Bundle := mkBundle (b_id b) (b_inc b) (b_exp b) (sort_keys (b_keys b)) (b_sigs b) None.

  Theorem bundle_roundtrip b : wf_bundle b -> bundle_of_val b64 (bundle_val b) = OK (canon_bundle b).
  Proof.
    intros (H1 & H2 & H3 & H4 & H5 & H6 & H7). unfold bundle_of_val, bundle_val, canon_bundle.
    unfold attr. cbn [attrs_of bind alookup value_of]. rewrite text_eqb_refl. cbn [bind].
    set (head := [(nInception, VStr (format_datetime (b_inc b))); (nExpiration, VStr (format_datetime (b_exp b)))]).
    set (ks := map (fun k => (nKey, key_val k)) (sort_keys (b_keys b))). set (ss := map (fun sg => (nSignature, sig_val sg)) (b_sigs b)).
    assert (Hf : Forall (fun kv : text * val => nl (snd kv)) (head ++ ks ++ ss)).
    { apply Forall_app; split; [subst head; nl_children|]. apply Forall_app; split; [subst ks; apply all_nl_map; intros; reflexivity|subst ss; apply all_nl_map; intros; reflexivity]. }
    assert (Vk : forall n, text_eqb nKey n = false -> vals_named n ks = []) by (intros n Hn; subst ks; apply vals_named_map_other; exact Hn).
    assert (Vs : forall n, text_eqb nSignature n = false -> vals_named n ss = []) by (intros n Hn; subst ss; apply vals_named_map_other; exact Hn).
    rewrite (child_str_at (head ++ ks ++ ss) nInception (format_datetime (b_inc b)) Hf) by (rewrite !vals_named_app, Vk, Vs by reflexivity; reflexivity).
    cbn [bind]. rewrite (datetime_roundtrip _ H1). cbn [bind].
    rewrite (child_str_at (head ++ ks ++ ss) nExpiration (format_datetime (b_exp b)) Hf) by (rewrite !vals_named_app, Vk, Vs by reflexivity; reflexivity).
    cbn [bind]. rewrite (datetime_roundtrip _ H2). cbn [bind].
    (* keys *)
    assert (Ek : vals_named nKey (head ++ ks ++ ss) = map key_val (sort_keys (b_keys b))).
    { rewrite !vals_named_app, Vs by reflexivity. subst ks. rewrite vals_named_map_same. rewrite List.app_nil_r. reflexivity. }
    destruct (map key_val (sort_keys (b_keys b))) as [|kv0 krest] eqn:Emk.
    { apply map_eq_nil in Emk. exfalso. apply (sort_keys_nonempty _ H3). exact Emk. }
    destruct (child_multi _ _ _ _ Hf Ek) as (xk & Hxk & Hlk). rewrite Hxk. cbn [bind]. rewrite Hlk, <- Emk.
    rewrite map_res_map by (intros k Hk; apply key_roundtrip; rewrite Forall_forall in H4; apply H4; apply sort_keys_in; exact Hk). cbn [bind].
    (* signatures *)
    assert (Es : vals_named nSignature (head ++ ks ++ ss) = map sig_val (b_sigs b)).
    { rewrite !vals_named_app, Vk by reflexivity. subst ss. rewrite vals_named_map_same. reflexivity. }
    destruct (map sig_val (b_sigs b)) as [|sv0 srest] eqn:Ems.
    { apply map_eq_nil in Ems. contradiction. }
    destruct (child_multi _ _ _ _ Hf Es) as (xs & Hxs & Hls). rewrite Hxs. cbn [bind]. rewrite Hls, <- Ems.
    rewrite map_res_map by (intros sg Hsg; apply sig_roundtrip; rewrite Forall_forall in H6; apply H6; exact Hsg). cbn [bind]. reflexivity.
  Qed.
End RoundTrip.

(* ---------------- policies and the whole response ---------------- *)
Lemma all_nl_cons' n v cs : nl v -> Forall (fun kv : text * val => nl (snd kv)) cs -> Forall (fun kv : text * val => nl (snd kv)) ((n, v) :: cs).
Proof. intros; constructor; assumption. Qed.
Ltac nl_children' := repeat (apply all_nl_cons'; [reflexivity|]); try apply Forall_nil.

Lemma alg_roundtrip a v : wf_alg a -> alg_val a = OK v -> alg_of_val v = OK a /\ nl v.
Proof.
  destruct a as [alg bits e| |]; cbn [wf_alg]; try contradiction. intros (Ha & Hb & He) H. cbn [alg_val] in H. injection H as <-.
  split; [|reflexivity]. unfold alg_of_val, attr. cbn [attrs_of bind alookup]. rewrite text_eqb_refl. cbn [bind].
  assert (0 <= alg) by (unfold rsa_alg, RSASHA1, RSASHA256, RSASHA512, RSAMD5, RSASHA1_NSEC3_SHA1 in Ha; lia).
  rewrite int_of_dec_ok by assumption. cbn [bind]. unfold rsa_alg in Ha. rewrite Ha. cbn [value_of bind].
  rewrite (child_single [(nRSA, VAttrs [(a_size, dec bits); (a_exponent, dec e)] (VStr []))] nRSA _ ltac:(nl_children') eq_refl). cbn [bind].
  cbn [snd attrs_of alookup bind]. rewrite text_eqb_refl. cbn [bind]. rewrite int_of_dec_ok by exact Hb. cbn [bind attrs_of alookup].
  replace (text_eqb a_size a_exponent) with false by reflexivity. rewrite text_eqb_refl. cbn [bind]. rewrite int_of_dec_ok by exact He. reflexivity.
Qed.

Lemma algs_val_shape l : Forall wf_alg l -> forall out, algs_val l = OK out ->
  exists vs, out = map (fun v => (nSignatureAlgorithm, v)) vs /\ map_res alg_of_val vs = OK l /\ Forall nl vs /\ length vs = length l.
Proof.
  induction l as [|a t IH]; intros Hf out H; cbn [algs_val] in H.
  - injection H as <-. exists []. repeat split; constructor.
  - inversion Hf as [|? ? Ha Ht]; subst. apply bind_ok_inv in H as (v & Hv & H). apply bind_ok_inv in H as (more & Hm & H). injection H as <-.
    destruct (IH Ht more Hm) as (vs & -> & Hr & Hn & Hl). destruct (alg_roundtrip a v Ha Hv) as [Hav Hnl].
    exists (v :: vs). split; [reflexivity|]. split; [cbn [map_res]; rewrite Hav; cbn [bind]; rewrite Hr; reflexivity|]. split; [constructor; assumption|cbn; lia].
Qed.

Lemma dur_roundtrip us cs k : wf_dur us -> Forall (fun kv => nl (snd kv)) cs -> vals_named k cs = [dur_val us] -> dur_of (node cs) k = OK us.
Proof.
  intros [H0 Hm] Hf Hv. unfold dur_of, dur_val in *. rewrite (child_str_at cs k _ Hf Hv). cbn [bind].
  rewrite duration_roundtrip by lia. cbn [bind]. f_equal. assert (us = 1000000 * (us / 1000000) + us mod 1000000) by (apply Z.div_mod; lia). lia.
Qed.

Theorem policy_roundtrip p v : wf_policy p -> policy_val p = OK v -> policy_of_val v = OK p /\ nl v.
Proof.
  intros (D1 & D2 & D3 & D4 & D5 & D6 & Hne & Hal) H. unfold policy_val in H. apply bind_ok_inv in H as (algs & Halgs & H). injection H as <-.
  split; [|reflexivity]. destruct (algs_val_shape _ Hal _ Halgs) as (vs & -> & Hr & Hn & Hl).
  set (head := [(nPublishSafety, dur_val (sp_publish_safety p)); (nRetireSafety, dur_val (sp_retire_safety p));
                (nMaxSignatureValidity, dur_val (sp_max_validity p)); (nMinSignatureValidity, dur_val (sp_min_validity p));
                (nMaxValidityOverlap, dur_val (sp_max_overlap p)); (nMinValidityOverlap, dur_val (sp_min_overlap p))]).
  set (tail := map (fun v : val => (nSignatureAlgorithm, v)) vs).
  assert (Hf : Forall (fun kv : text * val => nl (snd kv)) (head ++ tail)).
  { apply Forall_app; split; [subst head; nl_children'|]. subst tail. apply Forall_forall. intros kv Hk. apply in_map_iff in Hk as (x & <- & Hx).
    rewrite Forall_forall in Hn. apply Hn. exact Hx. }
  assert (Vt : forall n, text_eqb nSignatureAlgorithm n = false -> vals_named n tail = []) by (intros n Hn'; subst tail; apply vals_named_map_other; exact Hn').
  unfold policy_of_val.
  change ((nPublishSafety, dur_val (sp_publish_safety p)) :: (nRetireSafety, dur_val (sp_retire_safety p)) :: (nMaxSignatureValidity, dur_val (sp_max_validity p))
            :: (nMinSignatureValidity, dur_val (sp_min_validity p)) :: (nMaxValidityOverlap, dur_val (sp_max_overlap p))
            :: (nMinValidityOverlap, dur_val (sp_min_overlap p)) :: tail) with (head ++ tail).
  rewrite (dur_roundtrip _ (head ++ tail) nPublishSafety D1 Hf) by (rewrite vals_named_app, Vt by reflexivity; reflexivity). cbn [bind].
  rewrite (dur_roundtrip _ (head ++ tail) nRetireSafety D2 Hf) by (rewrite vals_named_app, Vt by reflexivity; reflexivity). cbn [bind].
  rewrite (dur_roundtrip _ (head ++ tail) nMaxSignatureValidity D3 Hf) by (rewrite vals_named_app, Vt by reflexivity; reflexivity). cbn [bind].
  rewrite (dur_roundtrip _ (head ++ tail) nMinSignatureValidity D4 Hf) by (rewrite vals_named_app, Vt by reflexivity; reflexivity). cbn [bind].
  rewrite (dur_roundtrip _ (head ++ tail) nMaxValidityOverlap D5 Hf) by (rewrite vals_named_app, Vt by reflexivity; reflexivity). cbn [bind].
  rewrite (dur_roundtrip _ (head ++ tail) nMinValidityOverlap D6 Hf) by (rewrite vals_named_app, Vt by reflexivity; reflexivity). cbn [bind].
  assert (Ea : vals_named nSignatureAlgorithm (head ++ tail) = vs).
  { rewrite vals_named_app. assert (vals_named nSignatureAlgorithm head = []) as -> by reflexivity. cbn [app]. subst tail. clear. unfold vals_named.
    induction vs as [|x t IH]; [reflexivity|]. cbn [map filter fst]. rewrite text_eqb_refl. cbn [map snd]. f_equal. exact IH. }
  destruct vs as [|v0 vrest]; [destruct (sp_algs p); [contradiction|discriminate Hl]|].
  destruct (child_multi _ _ _ _ Hf Ea) as (x & Hx & Hlx). rewrite Hx. cbn [bind]. rewrite Hlx, Hr. cbn [bind].
  destruct p; reflexivity.
Qed.

Section Whole.
  Variable b64 : text -> list Z.

  Definition canon_response (r : Response) : Response :=
    mkResponse (rs_id r) (rs_serial r) (rs_domain r) (rs_ksk r) (rs_zsk r) (map canon_bundle (rs_bundles r)).

  (* the SKR the writer emits, read by the loader: the same response, the keys of each bundle in key-tag order *)
  Theorem skr_roundtrip r d : wf_response b64 r -> skr_val r = OK d -> response_of_val b64 d = OK (canon_response r).
  Proof.
    intros (Hs & Hk & Hz & Hne & Hb) H. unfold skr_val in H. apply bind_ok_inv in H as (ksk & Hksk & H). apply bind_ok_inv in H as (zsk & Hzsk & H). injection H as <-.
    destruct (policy_roundtrip _ _ Hk Hksk) as [Rk Nk]. destruct (policy_roundtrip _ _ Hz Hzsk) as [Rz Nz].
    unfold response_of_val. cbn [lookup]. rewrite text_eqb_refl. cbn [value_of bind].
    set (bs := map (fun b => (nResponseBundle, bundle_val b)) (rs_bundles r)).
    set (pol := node [(nKSK, ksk); (nZSK, zsk)]).
    assert (Hf1 : Forall (fun kv : text * val => nl (snd kv)) [(nResponse, node ((nResponsePolicy, pol) :: bs))]) by nl_children'.
    rewrite (child_single _ nResponse _ Hf1 eq_refl). cbn [bind snd].
    assert (Hf2 : Forall (fun kv : text * val => nl (snd kv)) ((nResponsePolicy, pol) :: bs)).
    { constructor; [reflexivity|]. subst bs. apply all_nl_map. intros; reflexivity. }
    assert (Eb : vals_named nResponseBundle ((nResponsePolicy, pol) :: bs) = map bundle_val (rs_bundles r)).
    { change ((nResponsePolicy, pol) :: bs) with ([(nResponsePolicy, pol)] ++ bs). rewrite vals_named_app. subst bs. rewrite vals_named_map_same. reflexivity. }
    destruct (map bundle_val (rs_bundles r)) as [|bv0 brest] eqn:Emb; [apply map_eq_nil in Emb; contradiction|].
    destruct (child_multi _ _ _ _ Hf2 Eb) as (x & Hx & Hlx). rewrite Hx. cbn [bind]. rewrite Hlx, <- Emb.
    assert (Hmr : map_res (bundle_of_val b64) (map bundle_val (rs_bundles r)) = OK (map canon_bundle (rs_bundles r))).
    { clear -Hb. induction (rs_bundles r) as [|b t IH]; [reflexivity|]. inversion Hb as [|? ? Hb0 Hbt]; subst. cbn [map map_res].
      rewrite (bundle_roundtrip b64 b Hb0). cbn [bind]. rewrite (IH Hbt). reflexivity. }
    rewrite Hmr. cbn [bind].
    assert (Ep : vals_named nResponsePolicy ((nResponsePolicy, pol) :: bs) = [pol]).
    { change ((nResponsePolicy, pol) :: bs) with ([(nResponsePolicy, pol)] ++ bs). rewrite vals_named_app. subst bs.
      rewrite (vals_named_map_other nResponsePolicy nResponseBundle) by reflexivity. reflexivity. }
    rewrite (child_single _ nResponsePolicy pol Hf2 Ep). cbn [bind].
    assert (Hf3 : Forall (fun kv : text * val => nl (snd kv)) [(nKSK, ksk); (nZSK, zsk)]) by (repeat constructor; assumption).
    subst pol. rewrite (child_single _ nKSK ksk Hf3 eq_refl). cbn [bind]. rewrite Rk. cbn [bind].
    rewrite (child_single _ nZSK zsk Hf3 eq_refl). cbn [bind]. rewrite Rz. cbn [bind attrs_of].
    assert (T : forall (x y z : text), alookup a_timestamp [(a_id, x); (a_domain, y); (a_serial, z)] = None) by reflexivity.
    assert (A1 : forall (x y z : text) v, attr (VAttrs [(a_id, x); (a_domain, y); (a_serial, z)] v) a_id = OK x) by reflexivity.
    assert (A2 : forall (x y z : text) v, attr (VAttrs [(a_id, x); (a_domain, y); (a_serial, z)] v) a_serial = OK z) by reflexivity.
    assert (A3 : forall (x y z : text) v, attr (VAttrs [(a_id, x); (a_domain, y); (a_serial, z)] v) a_domain = OK y) by reflexivity.
    rewrite T, A1. cbn [bind]. rewrite A2. cbn [bind]. rewrite int_of_dec_ok by exact Hs. cbn [bind]. rewrite A3. cbn [bind]. reflexivity.
  Qed.

  (* nothing is lost or invented: same bundles, same keys per bundle (as a set: sort_keys permutes), same signatures, both policies *)
  Corollary skr_roundtrip_keys r d b : wf_response b64 r -> skr_val r = OK d -> In b (rs_bundles r) ->
    exists r' b', response_of_val b64 d = OK r' /\ In b' (rs_bundles r') /\ b_id b' = b_id b /\
      (forall k, In k (b_keys b') <-> In k (b_keys b)) /\ b_sigs b' = b_sigs b /\ rs_ksk r' = rs_ksk r /\ rs_zsk r' = rs_zsk r.
  Proof.
    intros Hw Hd Hb. exists (canon_response r), (canon_bundle b). split; [apply skr_roundtrip; assumption|].
    split; [unfold canon_response; cbn [rs_bundles]; apply in_map; exact Hb|]. split; [reflexivity|]. split; [intros k; apply sort_keys_in|]. repeat split.
  Qed.
End Whole.
