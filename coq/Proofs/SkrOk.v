(* shape_ok (skr_shape r) from plain conditions on the texts a response carries; the file-level round trip *)
From KV Require Import Base.Prelude Base.Exn Base.Bytes Model.Data Model.Xml Model.XmlTree Model.Duration Model.Datetime Model.SkrDoc
  Proofs.XmlTreeProofs Proofs.SkrDocProofs Proofs.DurationProofs.
From KV Require Import Model.Shape Model.SkrText Proofs.ShapeProofs Proofs.SkrTextProofs.

Definition attr_text (t : text) : bool := negb (is_nil t) && forallb value_char t.
Definition solid (c : Z) : bool := negb (c =? LT) && negb (is_space c).

Lemma content_of_solid s : forallb solid s = true -> content_ok s = true.
Proof.
  intros H. unfold content_ok. assert (Hn : no_lt s = true).
  { unfold no_lt. rewrite forallb_forall in *. intros c Hc. specialize (H c Hc). unfold solid in H. apply andb_true_iff in H as [H _]. exact H. }
  rewrite Hn. cbn [andb]. assert (E : forall l, forallb solid l = true -> edge_ok l = true).
  { intros [|c l] Hl; [reflexivity|]. cbn [forallb] in Hl. apply andb_true_iff in Hl as [Hc _]. unfold solid in Hc. apply andb_true_iff in Hc as [_ Hc]. exact Hc. }
  rewrite (E s H). apply E. rewrite forallb_forall in *. intros c Hc. apply H. apply in_rev. exact Hc.
Qed.

Lemma digit_solid c : is_digit c = true -> solid c = true /\ value_char c = true.
Proof. unfold is_digit, solid, value_char, is_space, LT, QUOTE, NL, GT. lia. Qed.

Lemma dec_content n : content_ok (dec n) = true.
Proof. apply content_of_solid. pose proof (dec_digits n) as H. rewrite forallb_forall in *. intros c Hc. apply digit_solid. auto. Qed.
Lemma dec_attr n : attr_text (dec n) = true.
Proof.
  unfold attr_text. pose proof (dec_nonempty n) as Hne. destruct (dec n) eqn:E; [congruence|]. cbn [is_nil negb andb]. rewrite <- E.
  pose proof (dec_digits n) as Hd. rewrite forallb_forall in *. intros c Hc. apply digit_solid. auto.
Qed.

Definition dur_char (c : Z) : bool := is_digit c || (c =? cP) || (c =? cT) || (c =? cD) || (c =? cH) || (c =? cM) || (c =? cS).
Lemma dur_char_solid c : dur_char c = true -> solid c = true.
Proof. unfold dur_char, is_digit, solid, is_space, LT, cP, cT, cD, cH, cM, cS. lia. Qed.
Lemma dec_dur n : forallb dur_char (dec n) = true.
Proof. pose proof (dec_digits n) as H. rewrite forallb_forall in *. intros c Hc. unfold dur_char. rewrite (H c Hc). reflexivity. Qed.

Lemma dur_chars n : forallb dur_char (timedelta_to_duration n) = true.
Proof.
  unfold timedelta_to_duration. destruct (n =? 0); [reflexivity|]. cbv zeta.
  repeat (rewrite forallb_app || match goal with |- context [if ?b then _ else _] => destruct b end); cbn [forallb andb]; rewrite ?forallb_app, ?dec_dur; reflexivity.
Qed.
Lemma dur_content us : content_ok (dur_text us) = true.
Proof. apply content_of_solid. pose proof (dur_chars (us / 1000000)) as H. unfold dur_text. rewrite forallb_forall in *. intros c Hc. apply dur_char_solid. auto. Qed.

Definition dt_char (c : Z) : bool := is_digit c || (c =? 45) || (c =? 84) || (c =? 58) || (c =? 43).
Lemma dt_char_solid c : dt_char c = true -> solid c = true.
Proof. unfold dt_char, is_digit, solid, is_space, LT. lia. Qed.
Lemma dec_dt n : forallb dt_char (dec n) = true.
Proof. pose proof (dec_digits n) as H. rewrite forallb_forall in *. intros c Hc. unfold dt_char. rewrite (H c Hc). reflexivity. Qed.
Lemma pad2_dt n : forallb dt_char (pad2 n) = true.
Proof. unfold pad2. destruct (n <? 10); cbn [forallb]; rewrite dec_dt; reflexivity. Qed.
Lemma pad4_dt n : forallb dt_char (pad4 n) = true.
Proof. unfold pad4. destruct (n <? 10), (n <? 100), (n <? 1000); cbn [forallb]; rewrite dec_dt; reflexivity. Qed.
Lemma datetime_chars us : forallb dt_char (format_datetime us) = true.
Proof.
  unfold format_datetime, format_seconds. destruct (civil_from_days (us / 1000000 / 86400)) as [[y m] d].
  rewrite !forallb_app, pad4_dt, !pad2_dt. reflexivity.
Qed.
Lemma datetime_content us : content_ok (format_datetime us) = true.
Proof. apply content_of_solid. pose proof (datetime_chars us) as H. rewrite forallb_forall in *. intros c Hc. apply dt_char_solid. auto. Qed.

(* ---- conditions on the texts a response carries ---- *)
Definition key_texts_ok (k : Key) : bool := attr_text (k_id k) && content_ok (k_pubtxt k).
Definition sig_texts_ok (s : Sig) : bool := attr_text (s_id s) && content_ok (s_name s) && content_ok (s_datatxt s).
Definition bundle_texts_ok (b : Bundle) : bool := attr_text (b_id b) && forallb key_texts_ok (b_keys b) && forallb sig_texts_ok (b_sigs b).
Definition texts_ok (r : Response) : bool := attr_text (rs_id r) && attr_text (rs_domain r) && forallb bundle_texts_ok (rs_bundles r).

Lemma dattr_of k v : name_ok k = true -> attr_text v = true -> dattr_ok (k, v) = true.
Proof. unfold dattr_ok, attr_text. cbn [fst snd]. intros -> H. apply andb_true_iff in H as [-> ->]. reflexivity. Qed.

Lemma dattrs_of a : Forall (fun kv => name_ok (fst kv) = true /\ attr_text (snd kv) = true) a -> distinct (map fst a) = true -> dattrs_ok a = true.
Proof.
  intros HF Hd. unfold dattrs_ok. rewrite Hd, andb_true_r. apply forallb_forall. intros [k v] Hin. rewrite Forall_forall in HF.
  destruct (HF _ Hin) as [A B]. apply dattr_of; assumption.
Qed.

Ltac split_and := repeat match goal with |- (_ && _) = true => apply andb_true_iff; split end.

Lemma leaf_ok n c : name_ok n = true -> content_ok c = true -> shape_ok (leaf n c) = true.
Proof. intros Hn Hc. unfold leaf. cbn [shape_ok]. rewrite Hn, Hc. reflexivity. Qed.

Lemma key_shape_ok k : key_texts_ok k = true -> shape_ok (key_shape k) = true.
Proof.
  unfold key_texts_ok. intros H. apply andb_true_iff in H as [Hid Hpk].
  unfold key_shape. cbn [shape_ok forallb]. split_and; try reflexivity;
    try (apply leaf_ok; [reflexivity|first [apply dec_content|exact Hpk]]).
  - apply dattrs_of; [|reflexivity]. repeat constructor; cbn [fst snd]; first [reflexivity|exact Hid|apply dec_attr].
Qed.

Lemma sig_shape_ok s : sig_texts_ok s = true -> shape_ok (sig_shape s) = true.
Proof.
  unfold sig_texts_ok. intros H. apply andb_true_iff in H as [H Hd]. apply andb_true_iff in H as [Hid Hn].
  unfold sig_shape. cbn [shape_ok forallb]. split_and; try reflexivity;
    try (apply leaf_ok; [reflexivity|first [apply dec_content|apply datetime_content|exact Hn|exact Hd|reflexivity]]).
  - apply dattrs_of; [|reflexivity]. repeat constructor; cbn [fst snd]; first [reflexivity|exact Hid].
Qed.

Lemma snames_key k : snames (key_shape k) = [nKey; nTTL; nFlags; nProtocol; nAlgorithm; nPublicKey].
Proof. reflexivity. Qed.
Lemma snames_sig s : snames (sig_shape s) = [nSignature; nTTL; nTypeCovered; nAlgorithm; nLabels; nOriginalTTL; nSignatureExpiration; nSignatureInception; nKeyTag; nSignersName; nSignatureData].
Proof. reflexivity. Qed.

Lemma existsb_flat_const {A} (p : text -> bool) (f : A -> list text) (L : list text) (l : list A) :
  (forall x, f x = L) -> existsb p L = false -> existsb p (flat_map f l) = false.
Proof.
  intros Hf HL. induction l as [|x t IH]; [reflexivity|]. cbn [flat_map]. rewrite existsb_app, Hf, HL, IH. reflexivity.
Qed.

Lemma bundle_shape_ok b : bundle_texts_ok b = true -> shape_ok (bundle_shape b) = true.
Proof.
  unfold bundle_texts_ok. intros H. apply andb_true_iff in H as [H Hs]. apply andb_true_iff in H as [Hid Hk].
  unfold bundle_shape. cbn [shape_ok]. split_and.
  - reflexivity.
  - apply dattrs_of; [|reflexivity]. repeat constructor; cbn [fst snd]; first [reflexivity|exact Hid].
  - reflexivity.
  - rewrite !forallb_app. split_and.
    + cbn [forallb]. split_and; try reflexivity; apply leaf_ok; first [reflexivity|apply datetime_content].
    + rewrite forallb_forall in *. intros x Hx. apply in_map_iff in Hx as (k & <- & Hin). apply key_shape_ok. apply Hk.
      unfold sort_keys in Hin. clear -Hin. revert Hin. induction (b_keys b) as [|y t IH]; cbn [fold_right]; [intros []|]. intros Hin.
      assert (Hi : forall l, In k (insert_key y l) -> k = y \/ In k l).
      { induction l as [|z l IHl]; cbn [insert_key]; [intros [<-|[]]; left; reflexivity|]. destruct (k_tag y <=? k_tag z); cbn [In].
        - intros [<-|H]; [left; reflexivity|right; exact H].
        - intros [<-|H]; [right; left; reflexivity|]. destruct (IHl H) as [->|H']; [left; reflexivity|right; right; exact H']. }
      destruct (Hi _ Hin) as [->|H]; [left; reflexivity|right; apply IH; exact H].
    + rewrite forallb_forall in *. intros x Hx. apply in_map_iff in Hx as (s & <- & Hin). apply sig_shape_ok. apply Hs. exact Hin.
  - apply negb_true_iff. rewrite !flat_map_app, !existsb_app. cbn [flat_map snames leaf app existsb]. rewrite !flat_map_concat_map, !map_map, <- !flat_map_concat_map.
    rewrite (existsb_flat_const _ (fun k => snames (key_shape k)) _ _ snames_key) by reflexivity.
    rewrite (existsb_flat_const _ (fun s => snames (sig_shape s)) _ _ snames_sig) by reflexivity.
    reflexivity.
Qed.

Definition KEY_NAMES := [nKey; nTTL; nFlags; nProtocol; nAlgorithm; nPublicKey].
Definition SIG_NAMES := [nSignature; nTTL; nTypeCovered; nAlgorithm; nLabels; nOriginalTTL; nSignatureExpiration; nSignatureInception; nKeyTag; nSignersName; nSignatureData].
Definition BUNDLE_NAMES := [nResponseBundle; nInception; nExpiration] ++ KEY_NAMES ++ SIG_NAMES.
Definition POLICY_NAMES := [nPublishSafety; nRetireSafety; nMaxSignatureValidity; nMinSignatureValidity; nMaxValidityOverlap; nMinValidityOverlap; nSignatureAlgorithm; nRSA].

Lemma existsb_sub (p : text -> bool) (l L : list text) : (forall x, In x l -> In x L) -> existsb p L = false -> existsb p l = false.
Proof.
  intros Hsub HL. destruct (existsb p l) eqn:E; [|reflexivity]. apply existsb_exists in E as (x & Hx & Hp).
  assert (existsb p L = true) by (apply existsb_exists; exists x; split; [apply Hsub; exact Hx|exact Hp]). congruence.
Qed.

Lemma bundle_names_sub b x : In x (snames (bundle_shape b)) -> In x BUNDLE_NAMES.
Proof.
  unfold bundle_shape. cbn [snames]. intros [<-|H]; [left; reflexivity|]. rewrite !flat_map_app in H. apply in_app_or in H as [H|H].
  - cbn in H. unfold BUNDLE_NAMES. cbn. tauto.
  - apply in_app_or in H as [H|H]; apply in_flat_map in H as (y & Hy & Hx); apply in_map_iff in Hy as (z & <- & _).
    + rewrite snames_key in Hx. unfold BUNDLE_NAMES. apply in_or_app. right. apply in_or_app. left. exact Hx.
    + rewrite snames_sig in Hx. unfold BUNDLE_NAMES. apply in_or_app. right. apply in_or_app. right. exact Hx.
Qed.

Lemma alg_names_sub a x : In x (snames (alg_shape a)) -> In x [nSignatureAlgorithm; nRSA].
Proof. destruct a; cbn; tauto. Qed.

Lemma policy_names_sub n p x : In x (snames (policy_shape n p)) -> x = n \/ In x POLICY_NAMES.
Proof.
  unfold policy_shape. cbn [snames]. intros [<-|H]; [left; reflexivity|]. right. rewrite flat_map_app in H. apply in_app_or in H as [H|H].
  - cbn in H. unfold POLICY_NAMES. cbn. tauto.
  - apply in_flat_map in H as (y & Hy & Hx). apply in_map_iff in Hy as (a & <- & _). apply alg_names_sub in Hx. unfold POLICY_NAMES. cbn in *. tauto.
Qed.

Lemma alg_shape_ok a : is_rsa a = true -> shape_ok (alg_shape a) = true.
Proof.
  destruct a as [alg bits e| |]; try discriminate. intros _. unfold alg_shape. cbn [shape_ok forallb]. split_and; try reflexivity.
  - apply dattrs_of; [|reflexivity]. repeat constructor; cbn [fst snd]; first [reflexivity|apply dec_attr].
  - apply dattrs_of; [|reflexivity]. repeat constructor; cbn [fst snd]; first [reflexivity|apply dec_attr].
Qed.

Lemma policy_shape_ok n p : name_ok n = true -> existsb (text_eqb n) POLICY_NAMES = false -> forallb is_rsa (sp_algs p) = true ->
  shape_ok (policy_shape n p) = true.
Proof.
  intros Hn Hnn Hrsa. unfold policy_shape. cbn [shape_ok]. split_and.
  - exact Hn.
  - reflexivity.
  - reflexivity.
  - rewrite forallb_app. split_and.
    + cbn [forallb]. split_and; try reflexivity; apply leaf_ok; first [reflexivity|apply dur_content].
    + rewrite forallb_forall in *. intros x Hx. apply in_map_iff in Hx as (a & <- & Ha). apply alg_shape_ok. apply Hrsa. exact Ha.
  - apply negb_true_iff. apply (existsb_sub _ _ POLICY_NAMES); [|exact Hnn].
    intros x Hx. rewrite flat_map_app in Hx. apply in_app_or in Hx as [Hx|Hx].
    + cbn in Hx. unfold POLICY_NAMES. cbn. tauto.
    + apply in_flat_map in Hx as (y & Hy & Hx). apply in_map_iff in Hy as (a & <- & _). apply alg_names_sub in Hx. unfold POLICY_NAMES. cbn in *. tauto.
Qed.

Lemma snames_node n a cs : snames (SNode n a cs) = n :: flat_map snames cs.
Proof. reflexivity. Qed.

Theorem skr_shape_ok r : texts_ok r = true -> rsa_only r = true -> shape_ok (skr_shape r) = true.
Proof.
  unfold texts_ok, rsa_only. intros H Hr. apply andb_true_iff in H as [H Hb]. apply andb_true_iff in H as [Hid Hdom]. apply andb_true_iff in Hr as [Hk Hz].
  assert (PK : shape_ok (policy_shape nKSK (rs_ksk r)) = true) by (apply policy_shape_ok; [reflexivity|reflexivity|exact Hk]).
  assert (PZ : shape_ok (policy_shape nZSK (rs_zsk r)) = true) by (apply policy_shape_ok; [reflexivity|reflexivity|exact Hz]).
  assert (BS : forallb shape_ok (map bundle_shape (rs_bundles r)) = true).
  { rewrite forallb_forall in *. intros x Hx. apply in_map_iff in Hx as (b & <- & Hin). apply bundle_shape_ok. apply Hb. exact Hin. }
  set (ALL := [nResponsePolicy; nKSK; nZSK] ++ POLICY_NAMES ++ BUNDLE_NAMES).
  assert (SUB : forall x, In x (flat_map snames (SNode nResponsePolicy [] [policy_shape nKSK (rs_ksk r); policy_shape nZSK (rs_zsk r)] :: map bundle_shape (rs_bundles r))) -> In x ALL).
  { intros x Hx. cbn [flat_map] in Hx. apply in_app_or in Hx as [Hx|Hx].
    - cbn [snames flat_map] in Hx. destruct Hx as [<-|Hx]; [unfold ALL; cbn; tauto|]. rewrite app_nil_r in Hx. apply in_app_or in Hx as [Hx|Hx];
        apply policy_names_sub in Hx as [->|Hx]; unfold ALL; try (cbn; tauto); apply in_or_app; right; apply in_or_app; left; exact Hx.
    - apply in_flat_map in Hx as (y & Hy & Hx). apply in_map_iff in Hy as (b & <- & _). apply bundle_names_sub in Hx.
      unfold ALL. apply in_or_app. right. apply in_or_app. right. exact Hx. }
  unfold skr_shape. cbn [shape_ok forallb]. split_and; try reflexivity.
  - apply dattrs_of; [|reflexivity]. repeat constructor; cbn [fst snd]; first [reflexivity|exact Hid|exact Hdom|apply dec_attr].
  - exact PK.
  - exact PZ.
  - apply negb_true_iff. cbn [flat_map snames]. rewrite app_nil_r.
    apply (existsb_sub _ _ ([nKSK; nZSK] ++ POLICY_NAMES)); [|reflexivity].
    intros x Hx. apply in_app_or in Hx as [Hx|Hx]; apply policy_names_sub in Hx as [->|Hx]; try (cbn; tauto); apply in_or_app; right; exact Hx.
  - exact BS.
  - apply negb_true_iff. apply (existsb_sub _ _ ALL); [exact SUB|reflexivity].
  - apply negb_true_iff. apply (existsb_sub _ _ (nResponse :: ALL)); [|reflexivity].
    intros x Hx. apply in_flat_map in Hx as (y & [<-|[]] & Hx). rewrite snames_node in Hx. destruct Hx as [<-|Hx]; [left; reflexivity|right; apply SUB; exact Hx].
Qed.

Section FileRoundTrip.
  Variable uw : Z -> bool.
  Variable b64 : text -> list Z.

  (* C11, the file: the loader applied to the text of an emitted SKR gives back the response that was written *)
  Theorem skr_file_roundtrip r : wf_response b64 r -> texts_ok r = true ->
    exists d, parse_ksr uw (skr_text r) = Done d /\ response_of_val b64 d = OK (canon_response r).
  Proof.
    intros Hwf Ht. apply (skr_text_roundtrip uw b64 r Hwf). apply skr_shape_ok; [exact Ht|]. apply (wf_rsa_only b64). exact Hwf.
  Qed.
End FileRoundTrip.
