(* The text of an emitted SKR is read back as the response that was written. *)
From KV Require Import Base.Prelude Base.Exn Base.Bytes Model.Data Model.Xml Model.XmlTree Model.Duration Model.Datetime Model.SkrDoc
  Proofs.XmlTreeProofs Proofs.SkrDocProofs.
From KV Require Import Model.Shape Model.SkrText Proofs.ShapeProofs.

(* ---- the shape's data is the writer's element structure ---- *)
Lemma alg_shape_val l : forallb is_rsa l = true ->
  algs_val l = OK (map (fun c => (sname c, sval c)) (map alg_shape l)).
Proof.
  induction l as [|a l IH]; intros H; [reflexivity|]. cbn [forallb] in H. apply andb_true_iff in H as [Ha H].
  cbn [algs_val map]. destruct a as [alg bits e| |]; try discriminate. cbn [alg_val bind]. rewrite (IH H). reflexivity.
Qed.

Lemma policy_shape_val name p : forallb is_rsa (sp_algs p) = true -> policy_val p = OK (sval (policy_shape name p)).
Proof.
  intros H. unfold policy_val. rewrite (alg_shape_val _ H). cbn [bind]. unfold policy_shape. cbn [sval wrapd]. unfold node, XmlTree.collect.
  rewrite map_app. reflexivity.
Qed.

Lemma key_shape_val k : key_val k = sval (key_shape k).
Proof. reflexivity. Qed.
Lemma sig_shape_val s : sig_val s = sval (sig_shape s).
Proof. reflexivity. Qed.
Lemma bundle_shape_val b : bundle_val b = sval (bundle_shape b).
Proof.
  unfold bundle_val, bundle_shape. cbn [sval wrapd]. unfold node, XmlTree.collect. f_equal. f_equal. f_equal.
  rewrite !map_app, !map_map. reflexivity.
Qed.

Lemma skr_shape_val r : rsa_only r = true -> skr_val r = OK [(nKSR, sval (skr_shape r))].
Proof.
  intros H. unfold rsa_only in H. apply andb_true_iff in H as [Hk Hz]. unfold skr_val.
  rewrite (policy_shape_val nKSK _ Hk), (policy_shape_val nZSK _ Hz). cbn [bind]. f_equal. f_equal. f_equal.
  unfold skr_shape, node. cbn [sval wrapd map sname]. unfold XmlTree.collect. cbn [map sname sval wrapd].
  replace (map (fun c : shape => (sname c, sval c)) (map bundle_shape (rs_bundles r))) with (map (fun b : Bundle => (nResponseBundle, bundle_val b)) (rs_bundles r)); [reflexivity|].
  rewrite map_map. apply map_ext. intros b. rewrite bundle_shape_val. reflexivity.
Qed.

Lemma prolog_skipped rest pos : index_aux KSR_OPEN (xml_prolog ++ rest) pos = index_aux KSR_OPEN rest (pos + length xml_prolog)%nat.
Proof. unfold xml_prolog. cbn [app index_aux starts_with KSR_OPEN Z.eqb Pos.eqb andb length]. f_equal. lia. Qed.

(* ---- depth of the document ---- *)
Lemma fold_max_le {A} (h : A -> nat) (l : list A) m : (forall x, In x l -> (h x <= m)%nat) -> (fold_right (fun c acc => Nat.max (h c) acc) O l <= m)%nat.
Proof. induction l as [|x t IH]; intros H; cbn [fold_right]; [lia|]. specialize (IH (fun y Hy => H y (or_intror Hy))). pose proof (H x (or_introl eq_refl)). lia. Qed.

Lemma sheight_alg a : (sheight (alg_shape a) <= 1)%nat.
Proof. destruct a; cbn; lia. Qed.
Lemma sheight_policy n p : (sheight (policy_shape n p) <= 2)%nat.
Proof.
  unfold policy_shape. cbn [sheight]. apply le_n_S. apply fold_max_le. intros x Hx. apply in_app_or in Hx as [Hx|Hx].
  - cbn [In] in Hx. repeat (destruct Hx as [<-|Hx]; [cbn; lia|]). destruct Hx.
  - apply in_map_iff in Hx as (a & <- & _). apply sheight_alg.
Qed.
Lemma sheight_bundle b : (sheight (bundle_shape b) <= 2)%nat.
Proof.
  unfold bundle_shape. cbn [sheight]. apply le_n_S. apply fold_max_le. intros x Hx. apply in_app_or in Hx as [Hx|Hx].
  - cbn [In] in Hx. repeat (destruct Hx as [<-|Hx]; [cbn; lia|]). destruct Hx.
  - apply in_app_or in Hx as [Hx|Hx]; apply in_map_iff in Hx as (y & <- & _); cbn; lia.
Qed.
Lemma sheight_skr r : (sheight (skr_shape r) <= 5)%nat.
Proof.
  unfold skr_shape. cbn [sheight fold_right]. apply le_n_S. rewrite Nat.max_0_r. apply le_n_S. cbn [fold_right].
  apply Nat.max_lub.
  - apply le_n_S. cbn [fold_right]. pose proof (sheight_policy nKSK (rs_ksk r)). pose proof (sheight_policy nZSK (rs_zsk r)). lia.
  - apply fold_max_le. intros x Hx. apply in_map_iff in Hx as (b & <- & _). pose proof (sheight_bundle b). lia.
Qed.

Section TextRoundTrip.
  Variable uw : Z -> bool.
  Variable b64 : text -> list Z.

  (* the reader on the text of an SKR returns the writer's element structure *)
  Theorem skr_text_reads_as_written r : shape_ok (skr_shape r) = true ->
    parse_ksr uw (skr_text r) = Done [(nKSR, sval (skr_shape r))].
  Proof.
    intros Hok. unfold skr_text.
    pose proof (reader_ignores_prolog uw xml_prolog (build 0 (skr_shape r) [10]) prolog_skipped) as H.
    rewrite tname_build, val_build in H. apply H.
    - exists []. reflexivity.
    - apply wf_build; [exact Hok|reflexivity].
    - rewrite height_build. apply sheight_skr.
  Qed.

  Lemma wf_rsa_only r : wf_response b64 r -> rsa_only r = true.
  Proof.
    intros (_ & Hk & Hz & _). unfold rsa_only. apply andb_true_iff.
    assert (A : forall p, wf_policy p -> forallb is_rsa (sp_algs p) = true).
    { intros p (_ & _ & _ & _ & _ & _ & _ & Hf). apply forallb_forall. intros a Ha. rewrite Forall_forall in Hf. specialize (Hf a Ha). destruct a; [reflexivity|destruct Hf|destruct Hf]. }
    split; apply A; assumption.
  Qed.

  (* C11 at the level of the file's text: what the loader makes of the text of an emitted SKR is the response that was written
     (keys of each bundle in key-tag order) *)
  Theorem skr_text_roundtrip r : wf_response b64 r -> shape_ok (skr_shape r) = true ->
    exists d, parse_ksr uw (skr_text r) = Done d /\ response_of_val b64 d = OK (canon_response r).
  Proof.
    intros Hwf Hok. exists [(nKSR, sval (skr_shape r))]. split; [apply skr_text_reads_as_written; exact Hok|].
    apply (skr_roundtrip b64 r); [exact Hwf|]. apply skr_shape_val. apply wf_rsa_only. exact Hwf.
  Qed.
End TextRoundTrip.
