From KV Require Import Base.Prelude Base.Exn Base.Bytes Model.Data Model.Wire Model.Token.

Lemma bind_ok_inv {A B} (r : res A) (f : A -> res B) v : bind r f = OK v -> exists a, r = OK a /\ f a = OK v.
Proof. destruct r as [a|c]; cbn; [eauto|discriminate]. Qed.

(* ---------------- look-up (C15) ---------------- *)
Definition matches (label : text) (cls : Z) (s : Slot) : list Obj :=
  filter (fun o => text_eqb (o_label o) label && (o_cls o =? cls)) (sl_objs s).

Definition key_of (mi : Z) (s : Slot) (o : Obj) (label : text) (cls : Z) (hh : option bool) (pub : option text) : P11Key :=
  mkP11Key label (o_ktype o) cls hh pub (match pub with Some _ => o_pubraw o | None => [] end) mi (sl_id s) (o_handle o).

(* slots before the first one that holds a matching object are skipped *)
Lemma find_skip mi pre rest label cls hh :
  (forall s, In s pre -> matches label cls s = []) ->
  find_in_slots mi (pre ++ rest) label cls hh = find_in_slots mi rest label cls hh.
Proof.
  induction pre as [|s pre IH]; intros H; cbn [app find_in_slots]; [reflexivity|].
  fold (matches label cls s). rewrite (H s (or_introl eq_refl)). apply IH. intros s' Hs'. apply H. right; exact Hs'.
Qed.

Theorem lookup_none mi ss label cls hh :
  (forall s, In s ss -> matches label cls s = []) -> find_in_slots mi ss label cls hh = OK None.
Proof. intros H. rewrite <- (app_nil_r ss). rewrite find_skip by exact H. reflexivity. Qed.

(* exactly one object in the first slot that has any: that object is found, with its derived public key *)
Theorem lookup_unique mi pre s post label cls hh o pub :
  (forall s', In s' pre -> matches label cls s' = []) -> matches label cls s = [o] ->
  (if cls =? CKO_SECRET then OK None else o_pubkey o) = OK pub -> known_ktype (o_ktype o) = true ->
  find_in_slots mi (pre ++ s :: post) label cls hh = OK (Some (key_of mi s o label cls hh pub)).
Proof.
  intros Hpre Hm Hp Hk. rewrite find_skip by exact Hpre. cbn [find_in_slots]. fold (matches label cls s).
  rewrite Hm, Hp. cbn [bind]. rewrite Hk. reflexivity.
Qed.

(* two or more objects under one label (and class) in that slot: an error, never a guess *)
Theorem duplicate_is_error mi pre s post label cls hh o1 o2 more :
  (forall s', In s' pre -> matches label cls s' = []) -> matches label cls s = o1 :: o2 :: more ->
  find_in_slots mi (pre ++ s :: post) label cls hh = Raise RuntimeError.
Proof.
  intros Hpre Hm. rewrite find_skip by exact Hpre. cbn [find_in_slots]. fold (matches label cls s). rewrite Hm. reflexivity.
Qed.

(* conversely: whatever is found is the only match of the first logged-in slot that has one *)
Theorem lookup_sound mi ss label cls hh k :
  find_in_slots mi ss label cls hh = OK (Some k) ->
  exists pre s post o pub, ss = pre ++ s :: post /\ (forall s', In s' pre -> matches label cls s' = []) /\
    matches label cls s = [o] /\ k = key_of mi s o label cls hh pub /\
    (if cls =? CKO_SECRET then OK None else o_pubkey o) = OK pub.
Proof.
  induction ss as [|s ss IH]; cbn [find_in_slots]; [discriminate|]. fold (matches label cls s).
  destruct (matches label cls s) as [|o [|o2 more]] eqn:Em.
  - intros H. destruct (IH H) as (pre & s0 & post & o & pub & -> & Hpre & Hm & Hk & Hp).
    exists (s :: pre), s0, post, o, pub. repeat split; auto. intros s' [<-|Hs']; auto.
  - intros H. apply bind_ok_inv in H as (pub & Hp & H). destruct (known_ktype (o_ktype o)); [|discriminate].
    injection H as <-. exists [], s, ss, o, pub. repeat split; auto. intros s' [].
  - discriminate.
Qed.

(* only slots whose login succeeded are searched *)
Theorem sessions_only_logged_in m s : In s (sessions m) <-> In s m /\ sl_login_ok s = true.
Proof. unfold sessions. apply filter_In. Qed.

(* ---------------- octets handed to the token (C15 / C01) ---------------- *)
Section Octets.
  Variable H : Z -> list Z -> list Z.
  Variable token_sign : P11Key -> Z -> list Z -> res text.

  (* RFC 8017 9.2 EMSA-PKCS1-v1_5: 00 01 FF..FF 00 T with T = DigestInfo prefix | digest, total length k *)
  Definition emsa_pkcs1_v15 (k : Z) (T : list Z) : list Z := [0; 1] ++ repeat 255 (Z.to_nat (k - len T - 3)) ++ [0] ++ T.

  Lemma emsa_length k T : len T + 3 <= k -> len (emsa_pkcs1_v15 k T) = k.
  Proof.
    intros Hk. unfold emsa_pkcs1_v15, len. rewrite !app_length, repeat_length. cbn [length].
    unfold len in Hk. lia.
  Qed.

  Theorem token_input_raw_rsa key data alg h oid r :
    truthy (pk_hash_hsm key) = false -> digestinfo alg = Some (h, oid) -> pk_pub key <> None ->
    rsa_decode (pk_pubraw key) = OK r ->
    format_data_for_signing H key data alg = OK (CKM_RSA_X_509, emsa_pkcs1_v15 (rsa_bits r / 8) (oid ++ H h data)).
  Proof.
    intros Hh Hd Hp Hr. unfold format_data_for_signing. rewrite Hh.
    assert (mech_raw alg = Some CKM_RSA_X_509) as ->.
    { unfold digestinfo in Hd. unfold mech_raw.
      destruct (alg =? RSASHA1) eqn:E1; [reflexivity|]. destruct (alg =? RSASHA256) eqn:E2; [cbn; rewrite ?orb_true_r; reflexivity|].
      destruct (alg =? RSASHA512) eqn:E3; [cbn; rewrite ?orb_true_r; reflexivity|discriminate Hd]. }
    cbn - [rsa_decode digestinfo]. rewrite Hd. destruct (pk_pub key); [|congruence]. rewrite Hr. reflexivity.
  Qed.

  Theorem token_input_hash_on_token key data alg m :
    truthy (pk_hash_hsm key) = true -> mech_hash_on_hsm alg = Some m -> m <> CKM_EDDSA ->
    format_data_for_signing H key data alg = OK (m, data).
  Proof.
    intros Hh Hm Hne. unfold format_data_for_signing. rewrite Hh, Hm.
    unfold mech_hash_on_hsm in Hm.
    repeat match type of Hm with
           | (if ?c then _ else _) = _ => destruct c; [injection Hm as <-; first [reflexivity | congruence]|]
           end.
    discriminate Hm.
  Qed.

  Theorem token_input_raw_ecdsa key data alg :
    truthy (pk_hash_hsm key) = false -> alg = ECDSAP256SHA256 \/ alg = ECDSAP384SHA384 ->
    format_data_for_signing H key data alg = OK (CKM_ECDSA, H (if alg =? ECDSAP256SHA256 then 256 else 384) data).
  Proof. intros Hh [-> | ->]; unfold format_data_for_signing; rewrite Hh; reflexivity. Qed.

  (* mechanism tables: the mechanism matches the DNSSEC algorithm *)
  Theorem mechanism_tables :
    mech_hash_on_hsm RSASHA256 = Some CKM_SHA256_RSA_PKCS /\ mech_hash_on_hsm RSASHA512 = Some CKM_SHA512_RSA_PKCS /\
    mech_hash_on_hsm ECDSAP256SHA256 = Some CKM_ECDSA_SHA256 /\ mech_hash_on_hsm ECDSAP384SHA384 = Some CKM_ECDSA_SHA384 /\
    mech_raw RSASHA256 = Some CKM_RSA_X_509 /\ mech_raw RSASHA512 = Some CKM_RSA_X_509 /\
    mech_raw ECDSAP256SHA256 = Some CKM_ECDSA /\ mech_raw ECDSAP384SHA384 = Some CKM_ECDSA /\
    digestinfo RSASHA256 = Some (256, [48;49;48;13;6;9;96;134;72;1;101;3;4;2;1;5;0;4;32]) /\
    digestinfo RSASHA512 = Some (512, [48;81;48;13;6;9;96;134;72;1;101;3;4;2;3;5;0;4;64]).
  Proof. repeat split; reflexivity. Qed.

  (* symmetric key types are never handed to the token *)
  Theorem never_sign_symmetric key data alg :
    pk_ktype key = CKK_AES \/ pk_ktype key = CKK_DES3 -> sign_using_p11 H token_sign key data alg = Raise ValueError.
  Proof. intros [E|E]; unfold sign_using_p11; rewrite E; reflexivity. Qed.

  (* whatever is signed goes through format_data_for_signing: the token only ever sees its output *)
  Theorem sign_goes_through_format key data alg sig :
    sign_using_p11 H token_sign key data alg = OK sig ->
    exists m d, format_data_for_signing H key data alg = OK (m, d) /\ token_sign key m d = OK sig /\ pk_cls key <> CKO_PUBLIC.
  Proof.
    unfold sign_using_p11. destruct (_ || _); [discriminate|]. intros Hs.
    apply bind_ok_inv in Hs as ([m d] & Hf & Hs). cbn [fst snd] in Hs.
    destruct (pk_cls key =? CKO_PUBLIC) eqn:E; [discriminate|]. exists m, d. repeat split; auto. lia.
  Qed.
End Octets.

(* ---------------- environment restored (C15) ---------------- *)
Lemma env_get_set_same e k v : env_get (env_set e k v) k = Some v.
Proof.
  induction e as [|[k' v'] t IH]; cbn; [rewrite text_eqb_refl; reflexivity|].
  destruct (text_eqb k k') eqn:E; cbn; [rewrite text_eqb_refl; reflexivity|]. rewrite E. exact IH.
Qed.
Lemma env_get_set_other e k k' v : text_eqb k' k = false -> env_get (env_set e k v) k' = env_get e k'.
Proof.
  intros Hne. induction e as [|[k0 v0] t IH]; cbn.
  - rewrite Hne. reflexivity.
  - destruct (text_eqb k k0) eqn:E; cbn.
    + apply text_eqb_spec in E. subst k0. rewrite Hne. reflexivity.
    + destruct (text_eqb k' k0); [reflexivity|exact IH].
Qed.
Lemma env_get_del_same e k : env_get (env_del e k) k = None.
Proof.
  induction e as [|[k' v'] t IH]; cbn; [reflexivity|].
  destruct (text_eqb k k') eqn:E; [exact IH|]. cbn. rewrite E. exact IH.
Qed.
Lemma env_get_del_other e k k' : text_eqb k' k = false -> env_get (env_del e k) k' = env_get e k'.
Proof.
  intros Hne. induction e as [|[k0 v0] t IH]; cbn; [reflexivity|].
  destruct (text_eqb k k0) eqn:E.
  - apply text_eqb_spec in E. subst k0. rewrite Hne. exact IH.
  - cbn. destruct (text_eqb k' k0); [reflexivity|exact IH].
Qed.
Lemma text_eqb_sym a b : text_eqb a b = text_eqb b a.
Proof.
  destruct (text_eqb a b) eqn:E1, (text_eqb b a) eqn:E2; auto.
  - apply text_eqb_spec in E1. subst. rewrite text_eqb_refl in E2. discriminate.
  - apply text_eqb_spec in E2. subst. rewrite text_eqb_refl in E1. discriminate.
Qed.

Definition restore_step (e : env) (kv : text * option text) : env :=
  match snd kv with None => env_del e (fst kv) | Some v => env_set e (fst kv) v end.
Lemma env_restore_cons e kv t : env_restore e (kv :: t) = env_restore (restore_step e kv) t.
Proof. reflexivity. Qed.

Lemma restore_untouched saved : forall e k, (forall kv, In kv saved -> text_eqb k (fst kv) = false) ->
  env_get (env_restore e saved) k = env_get e k.
Proof.
  induction saved as [|[k0 o] t IH]; intros e k H; [reflexivity|].
  rewrite env_restore_cons, IH by (intros kv Hkv; apply H; right; exact Hkv).
  specialize (H (k0, o) (or_introl eq_refl)). cbn in H. unfold restore_step. cbn [fst snd].
  destruct o; [apply env_get_set_other|apply env_get_del_other]; exact H.
Qed.
Lemma restore_key saved : forall e k o, In (k, o) saved -> NoDup (map fst saved) ->
  env_get (env_restore e saved) k = o.
Proof.
  induction saved as [|[k0 o0] t IH]; intros e k o Hin Hnd; [destruct Hin|].
  rewrite env_restore_cons. cbn [map] in Hnd. inversion Hnd as [|? ? Hni Hnd']; subst.
  destruct Hin as [E|Hin].
  - injection E as <- <-. rewrite restore_untouched.
    + unfold restore_step. cbn [fst snd]. destruct o0; [apply env_get_set_same|apply env_get_del_same].
    + intros kv Hkv. destruct (text_eqb k0 (fst kv)) eqn:E; [|reflexivity].
      apply text_eqb_spec in E. exfalso. apply Hni. cbn [fst]. rewrite E. apply in_map; exact Hkv.
  - apply IH; auto.
Qed.

Lemma env_update_cons e kv t : env_update e (kv :: t) = env_update (env_set e (fst kv) (snd kv)) t.
Proof. reflexivity. Qed.
Lemma update_untouched upd : forall e k, (forall kv, In kv upd -> text_eqb k (fst kv) = false) ->
  env_get (env_update e upd) k = env_get e k.
Proof.
  induction upd as [|[k0 v0] t IH]; intros e k H; [reflexivity|].
  rewrite env_update_cons, IH by (intros kv Hkv; apply H; right; exact Hkv).
  apply env_get_set_other. exact (H (k0, v0) (or_introl eq_refl)).
Qed.

(* for every environment and every update (added, overridden, untouched variables):
   after set-then-restore every variable reads as before *)
Theorem env_restored e upd k : NoDup (map fst upd) ->
  env_get (env_restore (env_update e upd) (env_save e upd)) k = env_get e k.
Proof.
  intros Hnd. destruct (existsb (fun kv => text_eqb k (fst kv)) upd) eqn:E.
  - apply existsb_exists in E as ([k0 v0] & Hin & Ek). cbn in Ek. apply text_eqb_spec in Ek. subst k0.
    apply restore_key.
    + unfold env_save. apply in_map_iff. exists (k, v0). split; [reflexivity|exact Hin].
    + unfold env_save. rewrite map_map. cbn. exact Hnd.
  - assert (Hun : forall kv, In kv upd -> text_eqb k (fst kv) = false).
    { intros kv Hkv. destruct (text_eqb k (fst kv)) eqn:E2; [|reflexivity].
      assert (existsb (fun kv => text_eqb k (fst kv)) upd = true); [|congruence].
      apply existsb_exists. eauto. }
    rewrite restore_untouched.
    + apply update_untouched; exact Hun.
    + intros kv Hkv. unfold env_save in Hkv. apply in_map_iff in Hkv as (kv0 & <- & Hin). cbn. apply Hun; exact Hin.
Qed.

(* several modules: the key comes from the first module (in configuration order) in which the look-up finds one; an error in an earlier module stops the search *)
Theorem get_p11_key_first_module ms : forall i label public hh k,
  get_p11_key_from i ms label public hh = OK (Some k) ->
  exists pre m post, ms = pre ++ m :: post /\
    (forall j m', nth_error pre j = Some m' -> find_key_by_label (i + Z.of_nat j) m' label (if public then CKO_PUBLIC else CKO_PRIVATE) hh = OK None) /\
    find_key_by_label (i + Z.of_nat (length pre)) m label (if public then CKO_PUBLIC else CKO_PRIVATE) hh = OK (Some k).
Proof.
  induction ms as [|m t IH]; intros i label public hh k H; cbn [get_p11_key_from] in H; [discriminate H|].
  apply bind_ok_inv in H as (r & Hr & H). destruct r as [k0|].
  - injection H as <-. exists [], m, t. split; [reflexivity|]. split; [intros j m' Hj; destruct j; discriminate Hj|].
    cbn [length]. rewrite Z.add_0_r. exact Hr.
  - destruct (IH (i + 1) label public hh k H) as (pre & m1 & post & -> & Hpre & Hm). exists (m :: pre), m1, post. split; [reflexivity|]. split.
    + intros j m' Hj. destruct j as [|j]; cbn [nth_error] in Hj.
      * injection Hj as <-. rewrite Z.add_0_r. exact Hr.
      * specialize (Hpre j m' Hj). replace (i + Z.of_nat (S j)) with (i + 1 + Z.of_nat j) by lia. exact Hpre.
    + cbn [length]. replace (i + Z.of_nat (S (length pre))) with (i + 1 + Z.of_nat (length pre)) by lia. exact Hm.
Qed.

Theorem get_p11_key_none ms : forall i label public hh,
  get_p11_key_from i ms label public hh = OK None ->
  forall j m', nth_error ms j = Some m' -> find_key_by_label (i + Z.of_nat j) m' label (if public then CKO_PUBLIC else CKO_PRIVATE) hh = OK None.
Proof.
  induction ms as [|m t IH]; intros i label public hh H j m' Hj; [destruct j; discriminate Hj|]. cbn [get_p11_key_from] in H.
  apply bind_ok_inv in H as (r & Hr & H). destruct r as [k0|]; [discriminate H|].
  destruct j as [|j]; cbn [nth_error] in Hj.
  - injection Hj as <-. rewrite Z.add_0_r. exact Hr.
  - specialize (IH (i + 1) label public hh H j m' Hj). replace (i + Z.of_nat (S j)) with (i + 1 + Z.of_nat j) by lia. exact IH.
Qed.
