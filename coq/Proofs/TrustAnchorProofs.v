From Coq Require Import Sorting.Permutation Sorting.Sorted.
From KV Require Import Base.Prelude Base.Exn Base.Bytes Model.Data Model.Wire Model.Token Model.Sign Model.Duration Model.Datetime Model.TrustAnchor
  Proofs.TokenProofs.

Lemma opt_eqb_spec a b : opt_eqb a b = true <-> a = b.
Proof.
  destruct a as [x|], b as [y|]; cbn [opt_eqb]; try (split; [discriminate|intros H; discriminate H]).
  - rewrite Z.eqb_eq. split; [intros ->; reflexivity|intros H; injection H as ->; reflexivity].
  - split; reflexivity.
Qed.

Lemma kd_eqb_spec a b : kd_eqb a b = true <-> a = b.
Proof.
  destruct a as [i1 t1 a1 d1 g1 f1 u1], b as [i2 t2 a2 d2 g2 f2 u2]. unfold kd_eqb. cbn [kd_id kd_tag kd_alg kd_dtype kd_digest kd_from kd_until].
  rewrite !andb_true_iff, !text_eqb_spec, !Z.eqb_eq, opt_eqb_spec. split.
  - intros [[[[[[-> ->] ->] ->] ->] ->] ->]. reflexivity.
  - intros H. inversion H. subst. repeat split; reflexivity.
Qed.

Section TAProofs.
  Variable ds_hex : list Z -> text.

  Lemma collect_in ms ttl : forall kks l, ta_collect ds_hex ms ttl kks = OK l ->
    forall e, In e l <-> exists nk, In nk kks /\ ta_entry ds_hex ms ttl (snd nk) = OK (Some e).
  Proof.
    induction kks as [|nk rest IH]; intros l H e; cbn [ta_collect] in H.
    - injection H as <-. split; [intros []|intros (nk & [] & _)].
    - apply bind_ok_inv in H as (o & Ho & H). apply bind_ok_inv in H as (more & Hm & H). injection H as <-.
      specialize (IH more Hm e). destruct o as [x|].
      + split.
        * intros [<-|Hin]; [exists nk; split; [left; reflexivity|exact Ho]|].
          apply IH in Hin as (n' & Hn & He). exists n'. split; [right; exact Hn|exact He].
        * intros (n' & [<-|Hn] & He); [left; congruence|]. right. apply IH. exists n'. auto.
      + rewrite IH. split; intros (n' & Hn & He).
        * exists n'. split; [right; exact Hn|exact He].
        * destruct Hn as [<-|Hn]; [congruence|exists n'; auto].
  Qed.

  Lemma exists_kd x t : existsb (kd_eqb x) t = true <-> In x t.
  Proof.
    rewrite existsb_exists. split.
    - intros (y & Hy & E). apply kd_eqb_spec in E. subst. exact Hy.
    - intros H. exists x. split; [exact H|apply kd_eqb_spec; reflexivity].
  Qed.

  Lemma dedupe_in l e : In e (dedupe l) <-> In e l.
  Proof.
    induction l as [|x t IH]; cbn [dedupe]; [tauto|]. destruct (existsb (kd_eqb x) t) eqn:E.
    - rewrite IH. split; [intros H; right; exact H|]. intros [<-|H]; [apply exists_kd; exact E|exact H].
    - cbn [In]. rewrite IH. tauto.
  Qed.

  Lemma dedupe_nodup l : NoDup (dedupe l).
  Proof.
    induction l as [|x t IH]; cbn [dedupe]; [constructor|]. destruct (existsb (kd_eqb x) t) eqn:E; [exact IH|].
    constructor; [|exact IH]. rewrite dedupe_in. intros H. apply exists_kd in H. congruence.
  Qed.

  Lemma insert_perm x l : Permutation (x :: l) (insert_kd x l).
  Proof.
    induction l as [|y t IH]; cbn [insert_kd]; [apply Permutation_refl|]. destruct (kd_from x <=? kd_from y); [apply Permutation_refl|].
    eapply Permutation_trans; [apply perm_swap|]. apply perm_skip. exact IH.
  Qed.

  Lemma sort_perm l : Permutation l (sort_kd l).
  Proof.
    induction l as [|x t IH]; cbn [sort_kd fold_right]; [apply Permutation_refl|]. fold (sort_kd t).
    eapply Permutation_trans; [apply perm_skip; exact IH|apply insert_perm].
  Qed.

  Definition le_from (a b : KeyDigest) : Prop := kd_from a <= kd_from b.

  Lemma insert_sorted x l : Sorted le_from l -> Sorted le_from (insert_kd x l).
  Proof.
    induction l as [|y t IH]; intros H; cbn [insert_kd]; [repeat constructor|].
    destruct (kd_from x <=? kd_from y) eqn:E.
    - constructor; [exact H|constructor; unfold le_from; lia].
    - inversion H as [|? ? Ht Hhd]; subst. constructor; [apply IH; exact Ht|].
      destruct t as [|z t']; cbn [insert_kd]; [constructor; unfold le_from; lia|].
      destruct (kd_from x <=? kd_from z); constructor; [unfold le_from; lia|inversion Hhd; assumption].
  Qed.

  Lemma sort_sorted l : Sorted le_from (sort_kd l).
  Proof. induction l as [|x t IH]; cbn [sort_kd fold_right]; [constructor|]. apply insert_sorted. exact IH. Qed.

  Lemma le_from_trans : Relations_1.Transitive le_from.
  Proof. intros a b c. unfold le_from. lia. Qed.

  (* the exported entries: exactly the digests of the configured KSKs found on the token, each once, ordered by validFrom *)
  Theorem ta_entries_exact ms ttl kks es : ta_entries ds_hex ms ttl kks = OK es ->
    (forall e, In e es <-> exists nk, In nk kks /\ ta_entry ds_hex ms ttl (snd nk) = OK (Some e)) /\
    NoDup es /\ StronglySorted le_from es.
  Proof.
    unfold ta_entries. intros H. apply bind_ok_inv in H as (l & Hl & H). injection H as <-.
    split; [|split].
    - intros e. rewrite <- (collect_in ms ttl kks l Hl e), <- (dedupe_in l e).
      split; intros Hin; [eapply Permutation_in; [apply Permutation_sym, sort_perm|exact Hin]|eapply Permutation_in; [apply sort_perm|exact Hin]].
    - eapply Permutation_NoDup; [apply sort_perm|apply dedupe_nodup].
    - apply Sorted_StronglySorted; [exact le_from_trans|apply sort_sorted].
  Qed.

  (* what one entry states: the label, the configured algorithm and validity, and tag / digest of the DNSKEY (flags 257, protocol 3)
     formed from the octets of the public object found under the label *)
  Theorem ta_entry_content ms ttl ksk e : ta_entry ds_hex ms ttl ksk = OK (Some e) ->
    exists k ptxt rd, get_p11_key ms (kk_label ksk) true None = OK (Some k) /\ pk_pub k = Some ptxt /\
      key_to_rdata_raw 257 3 (kk_alg ksk) (pk_pubraw k) = OK rd /\
      e = mkKD (kk_label ksk) (key_tag_of_rdata rd) (kk_alg ksk) 2 (ds_hex (0 :: rd)) (kk_valid_from ksk) (kk_valid_until ksk).
  Proof.
    unfold ta_entry. intros H. apply bind_ok_inv in H as (f & Hf & H). destruct f as [k|]; [|discriminate H].
    destruct (pk_pub k) as [ptxt|] eqn:Ep; [|discriminate H].
    apply bind_ok_inv in H as (key & Hk & H). apply bind_ok_inv in H as (pre & Hp & H). injection H as <-.
    unfold public_key_to_dnssec_key in Hk. apply bind_ok_inv in Hk as (u & _ & Hk). apply bind_ok_inv in Hk as (t & Ht & Hk). injection Hk as <-.
    unfold calculate_key_tag, key_to_rdata in Ht. cbn [k_flags k_proto k_alg k_pub] in Ht. apply bind_ok_inv in Ht as (rd & Hrd & Ht). injection Ht as <-.
    unfold ds_preimage, key_to_rdata in Hp. cbn [k_flags k_proto k_alg k_pub] in Hp. unfold dn2wire in Hp. rewrite text_eqb_refl in Hp. cbn [bind] in Hp.
    rewrite Hrd in Hp. cbn [bind app] in Hp. injection Hp as <-.
    exists k, ptxt, rd. repeat split; auto.
  Qed.

  (* a configured key that is not on the token (or whose public key cannot be read) is omitted, without disturbing the others *)
  Theorem ta_absent_omitted ms ttl ksk : get_p11_key ms (kk_label ksk) true None = OK None -> ta_entry ds_hex ms ttl ksk = OK None.
  Proof. intros H. unfold ta_entry. rewrite H. reflexivity. Qed.

  (* token keys that are not configured are never exported: every entry carries the label of a configured KSK *)
  Theorem ta_only_configured ms ttl kks es e : ta_entries ds_hex ms ttl kks = OK es -> In e es ->
    exists nk, In nk kks /\ kd_id e = kk_label (snd nk).
  Proof.
    intros H Hin. apply ta_entries_exact in H as (Hex & _ & _). apply Hex in Hin as (nk & Hnk & He).
    exists nk. split; [exact Hnk|]. apply ta_entry_content in He as (k & p & rd & _ & _ & _ & ->). reflexivity.
  Qed.
End TAProofs.

(* ---------------- free text: escape / quoteattr ---------------- *)
Lemma esc_char_no_markup c x : In x (esc_char c) -> x <> 60 /\ x <> 62.
Proof.
  unfold esc_char. destruct (c =? 38) eqn:E1; [|destruct (c =? 62) eqn:E2; [|destruct (c =? 60) eqn:E3]]; cbn [amp gt lt In]; intros H;
    repeat (destruct H as [<-|H]; [lia|]); try destruct H.
Qed.

Theorem escape_no_markup s x : In x (escape s) -> x <> 60 /\ x <> 62.
Proof. unfold escape. intros H. apply in_flat_map in H as (c & _ & H). eapply esc_char_no_markup; exact H. Qed.

(* every character map used by the writers: the rendering of one character decodes to that character *)
Definition attr2_char (c : Z) : text := if c =? 34 then quot else attr_char c.

Lemma decode_plain c t : c <> 38 -> decode_entity entities (c :: t) = None.
Proof.
  intros H. unfold entities, decode_entity, amp, gt, lt, quot. cbn [strip_prefix].
  assert ((38 =? c) = false) as -> by lia. reflexivity.
Qed.

Lemma attr2_decodes c t : exists n, length (attr2_char c) = S n /\
  forall f, unescape (S f) (attr2_char c ++ t) = c :: unescape f t.
Proof.
  unfold attr2_char, attr_char, esc_char.
  destruct (c =? 34) eqn:E0; [assert (c = 34) by lia; subst c; exists 5%nat; split; [reflexivity|intros f; reflexivity]|].
  destruct (c =? 10) eqn:E1; [assert (c = 10) by lia; subst c; exists 4%nat; split; [reflexivity|intros f; reflexivity]|].
  destruct (c =? 13) eqn:E2; [assert (c = 13) by lia; subst c; exists 4%nat; split; [reflexivity|intros f; reflexivity]|].
  destruct (c =? 9) eqn:E3; [assert (c = 9) by lia; subst c; exists 3%nat; split; [reflexivity|intros f; reflexivity]|].
  destruct (c =? 38) eqn:E4; [assert (c = 38) by lia; subst c; exists 4%nat; split; [reflexivity|intros f; reflexivity]|].
  destruct (c =? 62) eqn:E5; [assert (c = 62) by lia; subst c; exists 3%nat; split; [reflexivity|intros f; reflexivity]|].
  destruct (c =? 60) eqn:E6; [assert (c = 60) by lia; subst c; exists 3%nat; split; [reflexivity|intros f; reflexivity]|].
  exists 0%nat. split; [reflexivity|]. intros f. cbn [app unescape]. rewrite decode_plain by lia. reflexivity.
Qed.

Definition decodes (g : Z -> text) : Prop := forall c t, exists n, length (g c) = S n /\ forall f, unescape (S f) (g c ++ t) = c :: unescape f t.

Lemma unescape_flat_map g : decodes g -> forall s f, (length s <= f)%nat -> unescape f (flat_map g s) = s.
Proof.
  intros Hg. induction s as [|c s IH]; intros f Hf.
  - destruct f; reflexivity.
  - cbn [flat_map]. destruct f as [|f]; [cbn in Hf; lia|]. destruct (Hg c (flat_map g s)) as (n & _ & Hd). rewrite Hd. f_equal.
    apply IH. cbn [length] in Hf. lia.
Qed.

Lemma decodes_attr2 : decodes attr2_char.
Proof. intros c t. apply attr2_decodes. Qed.

Lemma decodes_attr : decodes attr_char.
Proof.
  intros c t. destruct (c =? 34) eqn:E.
  - assert (c = 34) by lia. subst c. exists 0%nat. split; [reflexivity|]. intros f. reflexivity.
  - pose proof (attr2_decodes c t) as H. unfold attr2_char in H. rewrite E in H. exact H.
Qed.

Lemma decodes_esc : decodes esc_char.
Proof.
  intros c t. destruct ((c =? 34) || (c =? 10) || (c =? 13) || (c =? 9)) eqn:E.
  - unfold esc_char. destruct (c =? 38) eqn:E1; [lia|]. destruct (c =? 62) eqn:E2; [lia|]. destruct (c =? 60) eqn:E3; [lia|].
    exists 0%nat. split; [reflexivity|]. intros f. cbn [app unescape]. rewrite decode_plain by lia. reflexivity.
  - pose proof (attr2_decodes c t) as H. unfold attr2_char, attr_char in H.
    destruct (c =? 34) eqn:E0; [lia|]. destruct (c =? 10) eqn:E1; [lia|]. destruct (c =? 13) eqn:E2; [lia|]. destruct (c =? 9) eqn:E3; [lia|]. exact H.
Qed.

Lemma flat_map_length_ge g : decodes g -> forall s, (length s <= length (flat_map g s))%nat.
Proof.
  intros Hg. induction s as [|c s IH]; [cbn; lia|]. cbn [flat_map length]. rewrite app_length. destruct (Hg c []) as (n & Hn & _). lia.
Qed.

(* element content: what is written decodes to the text, and contains neither '<' nor '>' *)
Theorem unescape_escape s f : (length (escape s) <= f)%nat -> unescape f (escape s) = s.
Proof. intros H. apply (unescape_flat_map esc_char decodes_esc). pose proof (flat_map_length_ge esc_char decodes_esc s). unfold escape in H. lia. Qed.

(* attribute values *)
Lemma has_spec c s : has c s = true <-> In c s.
Proof. unfold has. rewrite existsb_exists. split; [intros (x & Hx & E); assert (c = x) by lia; subst; exact Hx|intros H; exists c; split; [exact H|lia]]. Qed.

Lemma attr_requote s : flat_map (fun c => if c =? 34 then quot else [c]) (attr_escape s) = flat_map attr2_char s.
Proof.
  unfold attr_escape. induction s as [|c s IH]; [reflexivity|]. cbn [flat_map]. rewrite flat_map_app, IH. f_equal.
  unfold attr2_char, attr_char, esc_char.
  destruct (c =? 34) eqn:E0; [assert (c = 34) by lia; subst c; reflexivity|].
  destruct (c =? 10); [reflexivity|]. destruct (c =? 13); [reflexivity|]. destruct (c =? 9); [reflexivity|].
  destruct (c =? 38); [reflexivity|]. destruct (c =? 62); [reflexivity|]. destruct (c =? 60); [reflexivity|].
  cbn [flat_map]. rewrite E0. reflexivity.
Qed.

Lemma unquote_wrap q body : (q = 34 \/ q = 39) -> unquote ([q] ++ body ++ [q]) = Some (unescape (length (body ++ [q])) body).
Proof.
  intros Hq. cbn [app unquote]. assert ((q =? 34) || (q =? 39) = true) as -> by lia.
  rewrite rev_app_distr. cbn [rev app]. rewrite Z.eqb_refl, rev_involutive. reflexivity.
Qed.

Theorem unquote_quoteattr s : unquote (quoteattr s) = Some s.
Proof.
  unfold quoteattr. destruct (has 34 (attr_escape s)) eqn:H1; [destruct (has 39 (attr_escape s)) eqn:H2|].
  - rewrite attr_requote, unquote_wrap by (left; reflexivity). f_equal.
    apply (unescape_flat_map attr2_char decodes_attr2). rewrite app_length. pose proof (flat_map_length_ge attr2_char decodes_attr2 s). lia.
  - rewrite unquote_wrap by (right; reflexivity). f_equal.
    apply (unescape_flat_map attr_char decodes_attr). rewrite app_length. pose proof (flat_map_length_ge attr_char decodes_attr s). unfold attr_escape. lia.
  - rewrite unquote_wrap by (left; reflexivity). f_equal.
    apply (unescape_flat_map attr_char decodes_attr). rewrite app_length. pose proof (flat_map_length_ge attr_char decodes_attr s). unfold attr_escape. lia.
Qed.

(* the quoted value never contains its own quote character, '<', or a raw line break / tab *)
Lemma attr_char_safe c x : In x (attr_char c) -> x <> 60 /\ x <> 10 /\ x <> 13 /\ x <> 9.
Proof.
  unfold attr_char, esc_char. destruct (c =? 10) eqn:E1; [|destruct (c =? 13) eqn:E2; [|destruct (c =? 9) eqn:E3;
    [|destruct (c =? 38) eqn:E4; [|destruct (c =? 62) eqn:E5; [|destruct (c =? 60) eqn:E6]]]]]; cbn [amp gt lt In]; intros H;
    repeat (destruct H as [<-|H]; [lia|]); try destruct H.
Qed.

Theorem quoteattr_shape s : exists q body, quoteattr s = [q] ++ body ++ [q] /\ (q = 34 \/ q = 39) /\ ~ In q body /\ ~ In 60 body.
Proof.
  unfold quoteattr. destruct (has 34 (attr_escape s)) eqn:H1; [destruct (has 39 (attr_escape s)) eqn:H2|].
  - exists 34, (flat_map (fun c => if c =? 34 then quot else [c]) (attr_escape s)). split; [reflexivity|]. split; [left; reflexivity|]. split.
    + intros Hin. apply in_flat_map in Hin as (c & _ & Hc). destruct (c =? 34) eqn:E; [cbn [quot In] in Hc; repeat (destruct Hc as [Hc|Hc]; [lia|]); destruct Hc|].
      destruct Hc as [Hc|[]]. lia.
    + intros Hin. apply in_flat_map in Hin as (c & Hc0 & Hc). destruct (c =? 34) eqn:E; [cbn [quot In] in Hc; repeat (destruct Hc as [Hc|Hc]; [lia|]); destruct Hc|].
      destruct Hc as [Hc|[]]. subst c. unfold attr_escape in Hc0. apply in_flat_map in Hc0 as (c0 & _ & Hc0). apply attr_char_safe in Hc0. lia.
  - exists 39, (attr_escape s). split; [reflexivity|]. split; [right; reflexivity|]. split.
    + intros Hin. apply has_spec in Hin. congruence.
    + intros Hin. unfold attr_escape in Hin. apply in_flat_map in Hin as (c0 & _ & Hc0). apply attr_char_safe in Hc0. lia.
  - exists 34, (attr_escape s). split; [reflexivity|]. split; [left; reflexivity|]. split.
    + intros Hin. apply has_spec in Hin. congruence.
    + intros Hin. unfold attr_escape in Hin. apply in_flat_map in Hin as (c0 & _ & Hc0). apply attr_char_safe in Hc0. lia.
Qed.

(* distinct identifiers / texts never collide in the published file *)
Theorem quoteattr_injective a b : quoteattr a = quoteattr b -> a = b.
Proof. intros E. pose proof (unquote_quoteattr a) as Ra. rewrite E, unquote_quoteattr in Ra. congruence. Qed.

Theorem escape_injective a b : escape a = escape b -> a = b.
Proof.
  intros E. pose proof (unescape_escape a (length (escape a)) (le_n _)) as Ra.
  pose proof (unescape_escape b (length (escape b)) (le_n _)) as Rb. rewrite E in Ra. congruence.
Qed.
